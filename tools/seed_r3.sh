#!/bin/sh
# tools/seed_r2.sh <Cxx> [check ids...] : confirm /tmp/sw/<Cxx>-r3.out as seed <Cxx>-r3 and run the checks against it in /tmp/mywt
p=$1; shift; checks=${*:-$p}
/verif/tools/confirm_seed.sh /tmp/sw/$p-r3.out $p-r3 2>&1 | tail -2
if [ -d /verif/seeded/$p-r3 ]; then for c in $checks; do echo "--- ./check $c on $p-r3"; /verif/tools/try_seed_wt.sh /verif/seeded/$p-r3 $c | tail -4 | cut -c1-260; done; fi
git -C /repo worktree remove --force /tmp/sw/$p-r3 2>/dev/null
