#!/bin/sh
# tools/run_all.sh [tier] : run every claimed check against /repo, one after the other; summary on stdout
tier=${1:-quick}
cd /verif
for p in $(/venv/bin/python -c "import sys; sys.path.insert(0,'/verif'); from vf.registry import CLAIMED; print(' '.join(sorted(CLAIMED)))") $(ls vf/props | sed -n 's/^\(x[0-9][0-9]\)\.py$/\1/p' | tr a-z A-Z); do
  s=$(date +%s); ./check $p --tier $tier > /tmp/run_all_$p.log 2>&1; rc=$?; e=$(date +%s)
  echo "$p rc=$rc $((e-s))s $(grep -c '^VIOLATION' /tmp/run_all_$p.log) violations; $(tail -1 /tmp/run_all_$p.log | cut -c1-120)"
done
