#!/usr/bin/env python3-vt
import json, glob, sys, jsonschema
ok = True
def v(path, schema):
    global ok
    try:
        jsonschema.validate(json.load(open(path)), json.load(open(schema)))
    except Exception as e:
        ok = False
        print("INVALID", path, str(e)[:300])
v('/verif/MANIFEST.json', '/root/.vp/MANIFEST.schema.json')
for p in sorted(glob.glob('/verif/evidence/*.json')):
    v(p, '/root/.vp/EVIDENCE.schema.json')
print("all valid" if ok else "FAILED")
sys.exit(0 if ok else 1)
