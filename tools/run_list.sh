#!/bin/sh
# tools/run_list.sh <tier> <id...> : like run_all.sh for the given checks
tier=$1; shift
cd /verif
for p in "$@"; do
  s=$(date +%s); ./check $p --tier $tier > /tmp/run_all_$p.log 2>&1; rc=$?; e=$(date +%s)
  echo "$p rc=$rc $((e-s))s $(grep -c '^VIOLATION' /tmp/run_all_$p.log) violations; $(tail -1 /tmp/run_all_$p.log | cut -c1-120)"
done
