#!/bin/sh
# tools/try_seed_wt.sh <dir with patch.diff> <Cxx> [tier] : like try_seed.sh but in the scratch worktree /tmp/mywt (so /repo stays free)
d=$1; p=$2; tier=${3:-quick}; wt=${SEED_WT:-/tmp/mywt}
[ -d $wt ] || git -C /repo worktree add -q --detach $wt HEAD
cd $wt && git reset -q --hard && git checkout -q --detach "$(git -C /repo rev-parse HEAD)" || exit 2
git apply "$d/patch.diff" 2>/dev/null || git apply --3way "$d/patch.diff" >/dev/null 2>&1 || { echo "PATCH DOES NOT APPLY"; git reset -q --hard; exit 3; }
cd /verif && VERIF_REPO=$wt ./check "$p" --tier "$tier" > /tmp/try_wt.$$.log 2>&1; rc=$?
grep -c "^VIOLATION" /tmp/try_wt.$$.log | sed "s/^/violations: /"; grep "^VIOLATION" /tmp/try_wt.$$.log | head -2 | cut -c1-250; tail -1 /tmp/try_wt.$$.log
rm -f /tmp/try_wt.$$.log; cd $wt && git checkout -q -- . ; git reset -q --hard; echo "exit=$rc"
