#!/venv/bin/python
import json, os, sys
sys.path.insert(0, os.path.dirname(os.path.dirname(os.path.abspath(__file__))))
from vf.registry import CLAIMED, NOT_APPLICABLE
root = os.path.dirname(os.path.dirname(os.path.abspath(__file__)))
props = [json.loads(l)["id"] for l in open(os.path.join(root, "properties.jsonl"))]
checks = []
for pid in props:
    if pid not in CLAIMED:
        continue
    c = CLAIMED[pid]
    checks.append({
        "property_id": pid,
        "quick_cmd": f"./check {pid} --tier quick",
        "thorough_cmd": f"./check {pid} --tier thorough",
        "evidence_file": f"/verif/evidence/{pid}.json",
        "replay_cmd_template": f"./check {pid} --replay {{path}}",
        "engine": "tlc+replay",
        "level_claimed": {"category": c.get("category", "model_checking"), "text": c["text"], "design_ref": c["design_ref"]},
        "level_note": c["note"],
        "technique": c["technique"],
    })
na = [{"property_id": p, "reason": NOT_APPLICABLE.get(p, "check not built yet in this round; the TLA+ module for it is planned in DESIGN.md §4 (not a claim that the technique cannot apply)")}
      for p in props if p not in CLAIMED]
m = {
    "version": 1,
    "setup_cmd": "./check setup",
    "hooks": {
        "guard": "LIQUID_VERIF",
        "enable": "LIQUID_VERIF=1 (set by ./check): vf/instrument.py wraps library methods of /repo's working tree from the harness process; no instrumentation lives in /repo",
        "baseline_off_cmd": "/verif/tools/baseline.py /repo",
        "source_commits": [],
        "add_only": True,
    },
    "engines": [{"name": "tlc+replay", "path": "/verif/check", "serves_properties": [c["property_id"] for c in checks],
                 "kind_free_text": "TLC 1.8 model checking of /verif/spec/*.tla; emitted behaviours replayed into /repo's code; recorded traces validated by *Trace.tla"}],
    "checks": checks,
    "notes": "See DESIGN.md. exit 0 held / exit 1 VIOLATION / exit 2 machinery failure. Fixed defects and recorded findings: known_findings.json.",
    "not_applicable": na,
}
json.dump(m, open(os.path.join(root, "MANIFEST.json"), "w"), indent=1)
print(f"{len(checks)} claimed, {len(na)} not claimed")
