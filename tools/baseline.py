#!/venv/bin/python
"""Run the repository's pinned test suite with the LIQUID_VERIF guard OFF and compare with BASELINE.json."""
import json, os, subprocess, sys, tempfile
import xml.etree.ElementTree as ET

repo = sys.argv[1] if len(sys.argv) > 1 else "/repo"
base = json.load(open("/root/.vp/BASELINE.json"))
env = {k: v for k, v in os.environ.items() if k != "LIQUID_VERIF"}
env["PYTHONDONTWRITEBYTECODE"] = "1"
env["PYTHONPATH"] = repo
with tempfile.TemporaryDirectory() as d:
    x = os.path.join(d, "j.xml")
    p = subprocess.run(["/venv/bin/python", "-m", "pytest", "-ra", "-q", "-p", "no:cacheprovider", "--timeout=900",
                        "--continue-on-collection-errors", "--junitxml=" + x], cwd=repo, env=env,
                       capture_output=True, text=True)
    passed = set()
    for tc in ET.parse(x).getroot().iter("testcase"):
        if not any(c.tag in ("failure", "error", "skipped") for c in tc):
            passed.add(tc.get("classname") + "::" + tc.get("name"))
want = set(base["stable_pass"])
missing = sorted(want - passed)
print(f"baseline: {len(want)} stable-pass tests, {len(want & passed)} pass now, {len(missing)} missing")
for m in missing[:20]:
    print("  NOT PASSING:", m)
sys.exit(1 if missing else 0)
