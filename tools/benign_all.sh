#!/bin/sh
# tools/benign_all.sh : every property-preserving change under /verif/benign/<Cxx>/ against the CURRENT checks (scratch worktree /tmp/mywt)
wt=${SEED_WT:-/tmp/mywt}
[ -d $wt ] || git -C /repo worktree add -q --detach $wt HEAD
for d in /verif/benign/C*/; do
  p=$(basename $d)
  checks=$(sed 's/.*holds_patched_rc=[0-9]*//' $d/result.txt 2>/dev/null | tr ' ' '\n' | sed -n 's/:exit=.*//p' | tr '\n' ' ')
  [ -n "$checks" ] || checks=$p
  cd $wt && git reset -q --hard && git checkout -q --detach "$(git -C /repo rev-parse HEAD)" || exit 2
  git apply $d/patch.diff 2>/dev/null || git apply --3way $d/patch.diff >/dev/null 2>&1 || { echo "$p: patch does not apply to the current tree"; git reset -q --hard; continue; }
  res=""
  for ck in $checks; do
    cd /verif && VERIF_REPO=$wt ./check $ck --tier quick > /tmp/benign_all_$p.$ck.log 2>&1; rc=$?
    res="$res $ck:exit=$rc"
  done
  echo "$p:$res"
  prev=$(sed 's/ C[0-9][0-9]:exit=.*//' $d/result.txt 2>/dev/null)
  echo "${prev:-tests_rc=0 holds_clean_rc=0 holds_patched_rc=0}$res" > $d/result.txt
  cd $wt && git reset -q --hard
done
