#!/bin/sh
# tools/confirm_seed.sh <agent out dir (patch.diff demo.py meta.json)> <seed id, e.g. C06-m1>
# Confirms in a scratch worktree: patch applies to /repo HEAD, pinned tests pass, demo passes clean / fails patched.
src=$1; id=$2; wt=/tmp/cs/$id
rm -rf "$wt"; mkdir -p /tmp/cs
git -C /repo worktree add -q --detach "$wt" HEAD || exit 2
cd "$wt" || exit 2
ok=1
git apply "$src/patch.diff" 2>/dev/null || git apply --3way "$src/patch.diff" >/dev/null 2>&1 || { echo "patch does not apply"; ok=0; }
if [ $ok = 1 ]; then
  /verif/tools/baseline.py "$wt" > /tmp/cs/$id.tests 2>&1; t=$?
  PYTHONPATH=/repo PYTHONDONTWRITEBYTECODE=1 timeout 300 /venv/bin/python "$src/demo.py" > /tmp/cs/$id.clean 2>&1; c=$?
  PYTHONPATH=$wt PYTHONDONTWRITEBYTECODE=1 timeout 300 /venv/bin/python "$src/demo.py" > /tmp/cs/$id.patched 2>&1; p=$?
  echo "tests_rc=$t demo_clean_rc=$c demo_patched_rc=$p"
  if [ $t = 0 ] && [ $c = 0 ] && [ $p != 0 ]; then
    mkdir -p /verif/seeded/$id
    git diff > /verif/seeded/$id/patch.diff
    cp "$src/demo.py" /verif/seeded/$id/demo.py
    /venv/bin/python - "$src/meta.json" "/verif/seeded/$id/meta.json" "$id" <<'P'
import json, sys, subprocess
m = json.load(open(sys.argv[1]))
m["seed_id"] = sys.argv[3]
m["confirmed"] = {"repo_head": subprocess.check_output(["git", "-C", "/repo", "rev-parse", "--short", "HEAD"], text=True).strip(),
                  "ran": ["git apply patch.diff in a scratch worktree of /repo HEAD", "tools/baseline.py <worktree>: all 1385 pinned tests pass",
                          "demo.py exits 0 on /repo, non-zero on the patched worktree"]}
json.dump(m, open(sys.argv[2], "w"), indent=1)
P
    echo "CONFIRMED -> /verif/seeded/$id"
  else
    echo "NOT CONFIRMED"; tail -3 /tmp/cs/$id.tests; tail -3 /tmp/cs/$id.clean
  fi
fi
cd / && git -C /repo worktree remove --force "$wt"; rm -f /tmp/cs/$id.*
