#!/bin/sh
# tools/benign.sh <Cxx> [check ids...] : a property-PRESERVING change written by a sub-agent (/tmp/sw/<Cxx>-b.out): confirm (tests green, holds.py exits 0
# with and without it), then run the checks against it in /tmp/mywt: they must stay silent. Kept under /verif/benign/<Cxx>/.
p=$1; shift; checks=${*:-$p}; src=/tmp/sw/$p-b.out; wt=/tmp/mywt
[ -f $src/patch.diff ] || { echo "no patch"; exit 2; }
cd $wt && git reset -q --hard && git checkout -q --detach "$(git -C /repo rev-parse HEAD)" || exit 2
PYTHONPATH=$wt PYTHONDONTWRITEBYTECODE=1 timeout 600 /venv/bin/python $src/holds.py > /tmp/benign_$p.clean 2>&1; c=$?
git apply $src/patch.diff 2>/dev/null || git apply --3way $src/patch.diff >/dev/null 2>&1 || { echo "patch does not apply"; git reset -q --hard; exit 3; }
/verif/tools/baseline.py $wt > /tmp/benign_$p.tests 2>&1; t=$?
PYTHONPATH=$wt PYTHONDONTWRITEBYTECODE=1 timeout 600 /venv/bin/python $src/holds.py > /tmp/benign_$p.patched 2>&1; h=$?
echo "tests_rc=$t holds_clean_rc=$c holds_patched_rc=$h"
mkdir -p /verif/benign/$p; git diff > /verif/benign/$p/patch.diff; cp $src/holds.py $src/meta.json /verif/benign/$p/ 2>/dev/null
res=""
for ck in $checks; do
  cd /verif && VERIF_REPO=$wt ./check $ck --tier quick > /tmp/benign_$p.$ck.log 2>&1; rc=$?
  echo "--- ./check $ck on benign $p: exit=$rc"; grep "^VIOLATION" /tmp/benign_$p.$ck.log | head -3 | cut -c1-250; tail -1 /tmp/benign_$p.$ck.log | cut -c1-160
  res="$res $ck:exit=$rc"
done
echo "tests_rc=$t holds_clean_rc=$c holds_patched_rc=$h$res" > /verif/benign/$p/result.txt
cd $wt && git reset -q --hard
git -C /repo worktree remove --force /tmp/sw/$p-b 2>/dev/null
