#!/bin/sh
# tools/seed_all.sh [pattern] : every confirmed seed under /verif/seeded/<id>/ against the CURRENT check of its property (scratch worktree)
export SEED_WT=${SEED_WT:-/tmp/x3wt}
for d in /verif/seeded/${1:-C*}/; do
  id=$(basename $d); p=$(echo $id | cut -c1-3)
  [ -f $d/patch.diff ] || continue
  out=$(/verif/tools/try_seed_wt.sh $d $p 2>&1 | tr '\n' ' ')
  case "$out" in
    *"DOES NOT APPLY"*) echo "$id: patch does not apply to the current tree";;
    *"exit=1"*) echo "$id: caught";;
    *"exit=0"*) echo "$id: MISSED";;
    *) echo "$id: ? $out" | cut -c1-200;;
  esac
done
