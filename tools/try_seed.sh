#!/bin/sh
# tools/try_seed.sh <dir with patch.diff> <Cxx> [tier]  : apply a seeded change to /repo, run the check, undo.
d=$1; p=$2; tier=${3:-quick}
cd /repo || exit 2
if [ -n "$(git status --porcelain)" ]; then echo "/repo not clean"; exit 2; fi
git apply "$d/patch.diff" 2>/dev/null || git apply --3way "$d/patch.diff" || { echo "PATCH DOES NOT APPLY"; git checkout HEAD -- . ; exit 3; }
git reset -q 2>/dev/null
cd /verif && ./check "$p" --tier "$tier" > /tmp/try_seed.$$.log 2>&1; rc=$?
grep -c "^VIOLATION" /tmp/try_seed.$$.log | sed "s/^/violations: /"
grep "^VIOLATION" /tmp/try_seed.$$.log | head -3
tail -2 /tmp/try_seed.$$.log
rm -f /tmp/try_seed.$$.log
cd /repo && git checkout HEAD -- . && git status --porcelain | head -3
echo "exit=$rc"
