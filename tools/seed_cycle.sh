#!/bin/sh
# tools/seed_cycle.sh <Cxx> [check-id ...] : confirm the inbox seeds m1,m2 of a property, then run the given checks (default: the property's) on each
p=$1; shift; checks=${*:-$p}
for m in m1 m2; do
  [ -d /verif/seeded/_inbox/$p/$m ] || continue
  echo "=== confirm $p-$m"; /verif/tools/confirm_seed.sh /verif/seeded/_inbox/$p/$m $p-$m 2>&1 | tail -3
  if [ -d /verif/seeded/$p-$m ]; then
    for c in $checks; do echo "=== try $p-$m with ./check $c"; /verif/tools/try_seed.sh /verif/seeded/$p-$m $c 2>&1 | tail -6; done
  fi
done
