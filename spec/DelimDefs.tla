----------------------------- MODULE DelimDefs -----------------------------
(* C11 — constant-level definitions shared by Delims.tla and EnvHistory.tla *)
(*                                                                           *)
(* A template is a sequence of TOKENS that does not mention any delimiter:   *)
(*   [k |-> "text", v]            literal text (also the body of raw,        *)
(*                                comment and doc blocks)                    *)
(*   [k |-> "out",  v, l, r]      output statement, v the expression         *)
(*   [k |-> "tag",  v, l, r]      tag, v = name and expression               *)
(*   [k |-> "cmt",  v, l, r]      shorthand comment                          *)
(*   [k |-> "lq",   lines, l, r]  liquid tag, one [c, v] per line:           *)
(*                                c = "tag"  an ordinary `name expr` line    *)
(*                                c = "hash" an inline comment line `# v`    *)
(*                                c = "mark" a comment line that starts with *)
(*                                           the marker the liquid tag       *)
(*                                           derives from comment_start      *)
(* v is a sequence of one-character strings, l / r say whether the           *)
(* whitespace-control hyphen is present.  A DELIMITER SET is a record        *)
(* [ts, te, ss, se, cs, ce] of character sequences (tag, statement, comment  *)
(* start / end); cs = ce = <<>> means template comments are disabled.        *)
(*   Rewrite(toks, d)   the source text of the template under d              *)
(*   Admissible(toks,d) d collides neither with itself nor with the template *)
(* Rewrite is the only place where tokens become text: the harness joins the *)
(* characters and never assembles markup itself.                             *)
EXTENDS Naturals, Sequences, FiniteSets

Ws == {" ", "\n"}
Hy(b) == IF b THEN <<"-">> ELSE <<>>
Sp == <<" ">>
Nl == <<"\n">>

(* ---- delimiter sets ---------------------------------------------------------------------- *)
Roles == 1..6
Role(d, r) == CASE r = 1 -> d.ts [] r = 2 -> d.te [] r = 3 -> d.ss [] r = 4 -> d.se [] r = 5 -> d.cs [] r = 6 -> d.ce
Mk(a, b, c, e, f, g) == [ts |-> a, te |-> b, ss |-> c, se |-> e, cs |-> f, ce |-> g]
WithRole(d, r, w) == Mk(IF r = 1 THEN w ELSE d.ts, IF r = 2 THEN w ELSE d.te, IF r = 3 THEN w ELSE d.ss,
                        IF r = 4 THEN w ELSE d.se, IF r = 5 THEN w ELSE d.cs, IF r = 6 THEN w ELSE d.ce)
HasComments(d) == d.cs # <<>>

Default  == Mk(<<"{", "%">>, <<"%", "}">>, <<"{", "{">>, <<"}", "}">>, <<>>, <<>>)
DefaultC == Mk(<<"{", "%">>, <<"%", "}">>, <<"{", "{">>, <<"}", "}">>, <<"{", "#">>, <<"#", "}">>)
(* named sets: plain custom, brackets, dollar, single regex metacharacters, repeated metacharacters, letters *)
Angle    == Mk(<<"<", "%">>, <<"%", ">">>, <<"<", "<">>, <<">", ">">>, <<"<", "!">>, <<"!", ">">>)
AngleNC  == Mk(<<"<", "%">>, <<"%", ">">>, <<"<", "<">>, <<">", ">">>, <<>>, <<>>)
Bracket  == Mk(<<"[", "[">>, <<"]", "]">>, <<"(", "(">>, <<")", ")">>, <<"[", "*">>, <<"*", "]">>)
Dollar   == Mk(<<"$", "(">>, <<")", "$">>, <<"$", "{">>, <<"}", "$">>, <<"{", "$", "?">>, <<"?", "$", "}">>)
Single   == Mk(<<"\\">>, <<"/">>, <<"^">>, <<"$">>, <<"|">>, <<"?">>)
Repeat   == Mk(<<".", ".", ".">>, <<"*", "*">>, <<"+", "+">>, <<"?", "?">>, <<".", "*">>, <<"*", ".">>)
Letters  == Mk(<<"A", "b">>, <<"b", "A">>, <<"Q">>, <<"Z">>, <<"A", "A", "#">>, <<"#", "q", "q">>)
Long     == Mk(<<"<", "-", "[", "%">>, <<"%", "]", "-", ">">>, <<"\\", "(", "\\", "{">>, <<"}", "\\", ")", "\\">>, <<"^", "#", "$", "!">>, <<"!", "^", "#", "$">>)
Named == <<Angle, AngleNC, Bracket, Dollar, Single, Repeat, Letters, Long>>

(* alphabet of the generated sets: punctuation, letters, regex metacharacters *)
Alphabet == <<".", "*", "[", "(", "\\", "$", "^", "|", "?", "+", "{", "}", ")", "]",
              "%", "#", "<", ">", "-", "!", "/", "=", ":", "~", "@", "&",
              "A", "b", "q", "Z">>
Meta == {".", "*", "[", "(", "\\", "$", "^", "|", "?", "+", "{", "}", ")", "]"}

(* a reproducible pseudo-random stream (Lehmer generator 75 x + 74 mod 65537; every product stays below 2^31) *)
Lcg(x) == (x * 75 + 74) % 65537
RECURSIVE Iter(_, _)
Iter(x, n) == IF n = 0 THEN x ELSE Iter(Lcg(x), n - 1)
Rnd(seed, k) == Iter((seed * 7919 + 13) % 65537, k + 2) \div 8         \* drop the weak low bits
RECURSIVE SampleChars(_, _, _, _)
SampleChars(seed, r, j, n) ==        \* built by concatenation: a concrete tuple, not a lazily evaluated function
  IF j > n THEN <<>> ELSE <<Alphabet[1 + (Rnd(seed, 5 * r + j) % Len(Alphabet))]>> \o SampleChars(seed, r, j + 1, n)
SampleStr(seed, r, maxlen) == SampleChars(seed, r, 1, 1 + (Rnd(seed, 5 * r) % maxlen))
Sampled(seed, maxlen, comments) ==
  Mk(SampleStr(seed, 1, maxlen), SampleStr(seed, 2, maxlen), SampleStr(seed, 3, maxlen), SampleStr(seed, 4, maxlen),
     IF comments THEN SampleStr(seed, 5, maxlen) ELSE <<>>, IF comments THEN SampleStr(seed, 6, maxlen) ELSE <<>>)

(* one role of the Angle set replaced by a string built around one alphabet character *)
Shapes(c) == <<<<c>>, <<c, c>>, <<"@", c>>, <<c, "@">>, <<c, "~", c>>, <<"@", c, c, "~">>>>
Sweep(r, ci, sh) == WithRole(Angle, r, Shapes(Alphabet[ci])[sh])

(* ---- occurrences -------------------------------------------------------------------------- *)
At(s, p, w) == /\ p >= 1 /\ p + Len(w) - 1 <= Len(s)
               /\ \A j \in 1..Len(w) : s[p + j - 1] = w[j]
SubstringOf(w, s) == \E p \in 1..(Len(s) - Len(w) + 1) : At(s, p, w)
RECURSIVE Strip(_, _)
Strip(s, c) == IF s = <<>> THEN <<>> ELSE (IF Head(s) = c THEN <<>> ELSE <<Head(s)>>) \o Strip(Tail(s), c)
(* the marker of comment lines inside a liquid tag: comment_start_string without its braces *)
Marker(d) == Strip(d.cs, "{")

(* ---- SetOK: the six strings do not collide with each other or with whitespace control ------- *)
SetOK(d) ==
  /\ d.ts # <<>> /\ d.te # <<>> /\ d.ss # <<>> /\ d.se # <<>>
  /\ (d.cs = <<>>) <=> (d.ce = <<>>)
  /\ \A r \in Roles : LET w == Role(d, r) IN
        /\ Len(w) <= 4
        /\ \A j \in 1..Len(w) : w[j] \notin Ws
        /\ w # <<>> => (w[1] # "-" /\ w[Len(w)] # "-")            \* would be read as / swallow a whitespace-control hyphen
  /\ \A r1, r2 \in Roles : (r1 # r2 /\ Role(d, r1) # <<>> /\ Role(d, r2) # <<>>)
        => ~SubstringOf(Role(d, r1), Role(d, r2))                 \* distinct, and none contained in another

(* ---- Rewrite ----------------------------------------------------------------------------- *)
RECURSIVE JoinLines(_, _, _)
LineText(ln, d) == CASE ln.c = "tag" -> ln.v
                     [] ln.c = "hash" -> <<"#">> \o Sp \o ln.v
                     [] ln.c = "mark" -> Marker(d) \o Sp \o ln.v
JoinLines(lines, d, k) == IF k > Len(lines) THEN <<>> ELSE Nl \o LineText(lines[k], d) \o JoinLines(lines, d, k + 1)
wLiquidName == <<"l", "i", "q", "u", "i", "d">>
(* what stands between the delimiters of a token (without hyphens and padding) *)
Payload(t, d) == IF t.k = "lq" THEN wLiquidName \o JoinLines(t.lines, d, 1) ELSE t.v
Open(t, d) == CASE t.k = "out" -> d.ss [] t.k \in {"tag", "lq"} -> d.ts [] t.k = "cmt" -> d.cs
Close(t, d) == CASE t.k = "out" -> d.se [] t.k \in {"tag", "lq"} -> d.te [] t.k = "cmt" -> d.ce
OpenRole(t) == CASE t.k = "out" -> 3 [] t.k \in {"tag", "lq"} -> 1 [] t.k = "cmt" -> 5
Piece(t, d) == IF t.k = "text" THEN t.v
               ELSE Open(t, d) \o Hy(t.l) \o Sp \o Payload(t, d) \o (IF t.k = "lq" THEN Nl ELSE Sp) \o Hy(t.r) \o Close(t, d)
RECURSIVE Cat(_, _, _)
Cat(toks, d, k) == IF k > Len(toks) THEN <<>> ELSE Piece(toks[k], d) \o Cat(toks, d, k + 1)
Rewrite(toks, d) == Cat(toks, d, 1)

(* positions (1-based) at which a delimiter is MEANT to stand, as <<position, role>> *)
RECURSIVE MarkLines(_, _, _, _)
MarkLines(lines, d, k, off) ==      \* off = characters of the source before the newline that precedes line k
  IF k > Len(lines) THEN {}
  ELSE (IF lines[k].c = "mark" /\ Marker(d) = d.cs THEN {<<off + 2, 5>>} ELSE {})
       \cup MarkLines(lines, d, k + 1, off + 1 + Len(LineText(lines[k], d)))
RECURSIVE Meant(_, _, _, _)
Meant(toks, d, k, off) ==
  IF k > Len(toks) THEN {}
  ELSE LET t == toks[k]
           p == Piece(t, d)
       IN (IF t.k = "text" THEN {}
           ELSE {<<off + 1, OpenRole(t)>>, <<off + Len(p) - Len(Close(t, d)) + 1, OpenRole(t) + 1>>}
                \cup (IF t.k = "lq" THEN MarkLines(t.lines, d, 1, off + Len(d.ts) + Len(Hy(t.l)) + 1 + Len(wLiquidName)) ELSE {}))
          \cup Meant(toks, d, k + 1, off + Len(p))

(* ---- SourceOK: the delimiters do not collide with the template ------------------------------- *)
(* every place of the source text where one of the strings can be read is a place where it is meant *)
OccursOnlyWhereMeant(s, d, meant) ==
  LET used == {r \in Roles : Role(d, r) # <<>>}
      firsts == {Role(d, r)[1] : r \in used}
  IN \A p \in 1..Len(s) :
        s[p] \in firsts => \A r \in used : At(s, p, Role(d, r)) => <<p, r>> \in meant
PayloadOK(t, d) ==
  /\ t.k = "cmt" => HasComments(d)
  /\ t.k \in {"out", "tag", "cmt"} => (t.v # <<>> /\ t.v[1] \notin Ws \cup {"-"} /\ t.v[Len(t.v)] \notin Ws \cup {"-"})
  /\ t.k = "lq" => \A j \in 1..Len(t.lines) : LET ln == t.lines[j] IN
        /\ ln.c = "mark" => Marker(d) # <<>>                               \* no marker, no marker line
        /\ (ln.c = "tag" /\ Marker(d) # <<>>) => ~SubstringOf(Marker(d), ln.v)
        /\ (ln.c \in {"hash", "mark"} /\ Marker(d) # <<>> /\ Marker(d) # <<"#">>) => ~SubstringOf(Marker(d), ln.v)
Admissible(toks, d) ==
  /\ SetOK(d)
  /\ \A k \in 1..Len(toks) : PayloadOK(toks[k], d)
  /\ OccursOnlyWhereMeant(Rewrite(toks, d), d, Meant(toks, d, 1, 0))

(* ---- words (sequences of characters) ------------------------------------------------------ *)
wO == <<"'", "o", "'">>
wI == <<"i">>
wQ == <<"q">>
wCup == <<"c", " ", "|", " ", "u", "p", "c", "a", "s", "e">>
wOup == <<"'", "o", "'", " ", "|", " ", "u", "p", "c", "a", "s", "e">>
wXshout == <<"'", "x", "'", " ", "|", " ", "s", "h", "o", "u", "t">>
wIfTrue == <<"i", "f", " ", "t", "r", "u", "e">>
wIfFalse == <<"i", "f", " ", "f", "a", "l", "s", "e">>
wElse == <<"e", "l", "s", "e">>
wEndif == <<"e", "n", "d", "i", "f">>
wFor == <<"f", "o", "r", " ", "i", " ", "i", "n", " ", "(", "1", ".", ".", "3", ")">>
wEndfor == <<"e", "n", "d", "f", "o", "r">>
wAssignV == <<"a", "s", "s", "i", "g", "n", " ", "v", " ", "=", " ", "1">>
wAssignQ == <<"a", "s", "s", "i", "g", "n", " ", "q", " ", "=", " ", "'", "v", "'">>
wCapture == <<"c", "a", "p", "t", "u", "r", "e", " ", "c">>
wEndcapture == <<"e", "n", "d", "c", "a", "p", "t", "u", "r", "e">>
wRaw == <<"r", "a", "w">>
wEndraw == <<"e", "n", "d", "r", "a", "w">>
wComment == <<"c", "o", "m", "m", "e", "n", "t">>
wEndcomment == <<"e", "n", "d", "c", "o", "m", "m", "e", "n", "t">>
wDoc == <<"d", "o", "c">>
wEnddoc == <<"e", "n", "d", "d", "o", "c">>
wInline == <<"#", " ", "a", " ", "n", "o", "t", "e">>
wLiquidAssign == <<"l", "i", "q", "u", "i", "d", " ", "a", "s", "s", "i", "g", "n", " ", "w", " ", "=", " ", "2">>
wStamp == <<"s", "t", "a", "m", "p">>
wAssignW == <<"a", "s", "s", "i", "g", "n", " ", "w", " ", "=", " ", "2">>
wNote == <<"n", "o", "t", "e">>
wEchoW == <<"e", "c", "h", "o", " ", "w">>
wEchoM == <<"e", "c", "h", "o", " ", "'", "m", "'">>
wC == <<"c">>
(* text atoms: plain, default-looking markup, an unterminated default output, regex metacharacters *)
aX == <<"x">>
aBrace == <<"}", " ", "%", "}", "x">>
aOpen == <<"{", "{", " ", "x">>
aMeta == <<".", "*", "x", "$">>
aZ == <<"{", "{", " ", "z", " ", "}", "}">>
aTagZ == <<"{", "%", " ", "y", " ", "%", "}">>
aAltZ == <<"<", "<", " ", "z", " ", ">", ">">>
aHid == <<"{", "%", " ", "a", "s", "s", "i", "g", "n", " ", "q", " ", "=", " ", "1", " ", "%", "}">>

(* token constructors (one record shape for every kind) *)
T(v) == [k |-> "text", v |-> v, l |-> FALSE, r |-> FALSE, lines |-> <<>>]
O(v, l, r) == [k |-> "out", v |-> v, l |-> l, r |-> r, lines |-> <<>>]
G(v, l, r) == [k |-> "tag", v |-> v, l |-> l, r |-> r, lines |-> <<>>]
C(v, l, r) == [k |-> "cmt", v |-> v, l |-> l, r |-> r, lines |-> <<>>]
Q(lines, l, r) == [k |-> "lq", v |-> <<>>, l |-> l, r |-> r, lines |-> lines]
Ln(c, v) == [c |-> c, v |-> v]
=============================================================================
