------------------------------- MODULE Undef --------------------------------
(* C16 — strict undefined types only refine the default behaviour.           *)
(*                                                                           *)
(* A template is a sequence of USES of a variable reference that is present,  *)
(* missing, a missing sub-path of a present value, or a path below a missing  *)
(* root.  The render machine walks the uses once per undefined type:          *)
(*   Undefined (default)   never raises; each use yields its documented text  *)
(*   StrictUndefined       raises UndefinedError at the first output /        *)
(*                         iterate / compare / filter use of something missing*)
(*   FalsyStrictUndefined, StrictDefaultUndefined                             *)
(*                         may raise at such a use (the statement does not    *)
(*                         say where), but while they do not, they yield what *)
(*                         the default type yields                            *)
(* The per-type verdict  must \in {"ok","raise","either"}  and the default    *)
(* type's output are emitted; the replay renders the template under the four  *)
(* types and RefinesDefault / StrictRaises / DefaultNeverRaises are judged on *)
(* the observations by UndefMonitor.tla.                                       *)
EXTENDS Naturals, Sequences, FiniteSets, TLC, Json

CONSTANTS MaxUses

Types == {"Undefined", "StrictUndefined", "FalsyStrictUndefined", "StrictDefaultUndefined"}
Refs == {"p", "m", "p.q", "m.q", "p.l[5]"}          \* p is bound to {k: "v", l: ["i"]} ; everything but "p" is missing
Missing(r) == r # "p"
Kinds == {"output", "echo", "iterate", "tablerow", "truthy", "unless", "eq1", "eqnil", "eqfalse", "eqempty", "eqmissing", "nemissing", "casemissing", "contains",
          "upcase", "size", "default", "join", "assign", "capture_out", "ternary", "case", "index", "arg", "cyclearg"}
(* the statement's four raising uses for StrictUndefined: output, iterate, compare, filter *)
Class(k) == CASE k \in {"output", "echo", "capture_out"} -> "output"
              [] k \in {"iterate", "tablerow"} -> "iterate"
              [] k \in {"eq1", "eqnil", "eqfalse", "eqempty", "eqmissing", "nemissing", "casemissing", "contains", "case"} -> "compare"
              [] k \in {"upcase", "size", "default", "join"} -> "filter"
              [] OTHER -> "other"       \* truthiness, ternary condition, assignment without use, use as index / argument, as an item of a
                                        \* cycle that is not the one printed (two cycle tags differing only in WHICH path is missing)
Uses == [k : Kinds, r : Refs]
(* the *missing kinds compare the reference with ANOTHER missing variable: something missing is used whatever the reference is *)
UsesMissing(u) == Missing(u.r) \/ u.k \in {"eqmissing", "nemissing", "casemissing"}

(* what the DEFAULT undefined type yields for a use of something missing (documented: prints nothing, iterates nothing, *)
(* is falsy, equals nil, has size 0, takes the default) — "?" where the documentation does not fix the text            *)
DefaultText(u) ==
  IF ~Missing(u.r) THEN "?"
  ELSE CASE u.k \in {"output", "echo", "capture_out", "upcase", "join", "assign"} -> ""
         [] u.k = "iterate" -> "E"
         [] u.k \in {"truthy", "ternary", "eq1", "contains"} -> "F"
         [] u.k = "unless" -> "T"
         [] u.k \in {"eqnil", "eqmissing"} -> "T"      \* two missing values are equal (both are nil)
         [] u.k = "nemissing" -> "F"
         [] u.k = "casemissing" -> "W"
         [] u.k = "size" -> "0"
         [] u.k = "default" -> "D"
         [] OTHER -> "?"

VARIABLES prog, k, must, dflt
vars == <<prog, k, must, dflt>>

Progs == UNION { [1..n -> Uses] : n \in 1..MaxUses }
Init == /\ prog \in Progs /\ k = 1
        /\ must = [t \in Types |-> "ok"]
        /\ dflt = <<>>

Worse(a, b) == IF a = "raise" \/ b = "raise" THEN "raise" ELSE IF a = "either" \/ b = "either" THEN "either" ELSE "ok"
UseVerdict(t, u) ==
  IF ~UsesMissing(u) \/ t = "Undefined" THEN "ok"
  ELSE IF t = "StrictUndefined" /\ Class(u.k) # "other" THEN "raise"
  ELSE "either"

Use == /\ k <= Len(prog)
       /\ must' = [t \in Types |-> IF must[t] = "raise" THEN "raise" ELSE Worse(must[t], UseVerdict(t, prog[k]))]
       /\ dflt' = Append(dflt, DefaultText(prog[k]))
       /\ k' = k + 1
       /\ UNCHANGED prog
Next == Use
Spec == Init /\ [][Next]_vars

Done == k = Len(prog) + 1
DefaultNeverRaisesSpec == must["Undefined"] = "ok"
StrictRaisesSpec == Done => ((\E i \in 1..Len(prog) : UsesMissing(prog[i]) /\ Class(prog[i].k) # "other") <=> must["StrictUndefined"] = "raise")
NothingMissingAllOk == Done => ((\A i \in 1..Len(prog) : ~UsesMissing(prog[i])) => \A t \in Types : must[t] = "ok")
Emit == Done => PrintT(ToJson([prog |-> prog, must |-> must, dflt |-> dflt]))

=============================================================================
