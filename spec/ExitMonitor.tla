---------------------------- MODULE ExitMonitor -----------------------------
(* C02 — every recorded exit of the real engine must be an exit of the       *)
(* automaton of Exits.tla: ok, or an exception derived from LiquidError.     *)
(* One observation per (input, mode, sync/async): [st, liquid, phase].       *)
EXTENDS Naturals, Sequences, FiniteSets, TLC, Json, IOUtils
Obs == IF "TRACE_FILE" \in DOMAIN IOEnv THEN JsonDeserialize(IOEnv.TRACE_FILE) ELSE <<>>
VARIABLE tid
Init == tid \in 1..Len(Obs)
Next == UNCHANGED tid
Spec == Init /\ [][Next]_tid
Exit(o) == IF o.st = "ok" THEN "ok" ELSE IF o.liquid THEN "LiquidError" ELSE o.st
Judge == IF Exit(Obs[tid]) \in {"ok", "LiquidError"} THEN PrintT(<<"ACCEPT", tid>>) ELSE PrintT(<<"REJECT", tid, Exit(Obs[tid])>>)
=============================================================================
