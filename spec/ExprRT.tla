------------------------------- MODULE ExprRT -------------------------------
(* C04 — the expression sub-language of the round trip: logical expression  *)
(* trees, the engine's Pratt parser (liquid/builtin/expressions/logical.py  *)
(* parse_boolean_primitive / parse_infix_expression / parse_grouped_        *)
(* expression / LogicalNotExpression.parse) transcribed with its precedence *)
(* table, and four printers:                                                *)
(*   Show      the requirement: parenthesise by the PARSER's precedences    *)
(*             (left operands that are and/or/not, compound operands of a   *)
(*             comparison; a right-hand `or` under `and` keeps its harmless *)
(*             parentheses, `not (x and y)` keeps its group)                *)
(*   ShowMin   only the parentheses the parser needs                        *)
(*   ShowFull  every compound operand parenthesised                         *)
(*   ShowOwn   the named deviation PrinterUsesOwnPrecedence of the pinned   *)
(*             tree: BooleanExpression.__str__ parenthesised by a table of  *)
(*             its own (and=4 > or=3, not=7) that the parser does not have  *)
(* A tree is <<"atom", x>> | <<"not", t>> | <<op, l, r>>.  Token sequences   *)
(* are sequences of strings.  Everything here is a constant-level operator; *)
(* RoundTrip.tla enumerates the trees and checks the invariants.            *)
EXTENDS Naturals, Sequences, FiniteSets, TLC

AtomSeq == <<"a", "b", "c">>
LogOps == {"and", "or"}
RelOps == {"==", "!=", "<"}          \* PRECEDENCE_RELATIONAL
MemOps == {"contains"}               \* PRECEDENCE_MEMBERSHIP
CmpOps == RelOps \cup MemOps
BinOps == LogOps \cup CmpOps

(* the precedence table of logical.py (PRECEDENCES); anything else is PRECEDENCE_LOWEST *)
LOWEST == 1
Prec(tok) == CASE tok \in LogOps -> 2           \* PRECEDENCE_LOGICAL_RIGHT for both and/or
               [] tok \in RelOps -> 5
               [] tok \in MemOps -> 6
               [] tok = "not" -> 7
               [] OTHER -> LOWEST                \* ")" and end of input

IsAtom(t) == t[1] = "atom"
IsNot(t) == t[1] = "not"
IsLog(t) == t[1] \in LogOps
IsCmp(t) == t[1] \in CmpOps
Compound(t) == ~IsAtom(t)

(* ---- shapes: every tree of depth <= d over the operators `ops`, leaves labelled a,b,c,a,.. left to right ---- *)
RECURSIVE Shapes(_, _)
Shapes(d, ops) ==
  IF d = 0 THEN { <<"atom", "_">> }
  ELSE LET s == Shapes(d - 1, ops)
       IN s \cup { <<"not", t>> : t \in s } \cup { <<op, l, r>> : op \in ops, l \in s, r \in s }
RECURSIVE Lab(_, _)
Lab(t, i) ==      \* <<labelled tree, next leaf number>>
  CASE IsAtom(t) -> << <<"atom", AtomSeq[(i % 3) + 1]>>, i + 1 >>
    [] IsNot(t) -> LET r == Lab(t[2], i) IN << <<"not", r[1]>>, r[2] >>
    [] OTHER -> LET l == Lab(t[2], i)
                    r == Lab(t[3], l[2])
                IN << <<t[1], l[1], r[1]>>, r[2] >>
Trees(d, ops, rot) == { Lab(t, rot)[1] : t \in Shapes(d, ops) }

RECURSIVE Depth(_)
Depth(t) == CASE IsAtom(t) -> 0
              [] IsNot(t) -> 1 + Depth(t[2])
              [] OTHER -> 1 + (IF Depth(t[2]) > Depth(t[3]) THEN Depth(t[2]) ELSE Depth(t[3]))

(* ---- the parser, as the code has it ------------------------------------------------------------ *)
(* PPrim(ts, prec) = parse_boolean_primitive(tokens, precedence) -> <<tree, remaining tokens>>       *)
(*   `not` parses its operand with the LOWEST precedence: it takes the rest of its group             *)
(*   `(`   parses a group with the LOWEST precedence and eats the `)`                                *)
(* PLoop is the `while True` loop: stop at end of input, at a token of lower precedence, or at a     *)
(* token that is no binary operator; otherwise build the infix node whose right operand is parsed   *)
(* with the OPERATOR's precedence (so operators of equal precedence nest to the right).              *)
RECURSIVE PPrim(_, _), PLoop(_, _, _)
PPrim(ts, prec) ==
  LET h == Head(ts)
      first == CASE h = "not" -> (LET r == PPrim(Tail(ts), LOWEST) IN << <<"not", r[1]>>, r[2] >>)
                 [] h = "(" -> (LET r == PPrim(Tail(ts), LOWEST) IN << r[1], Tail(r[2]) >>)
                 [] OTHER -> << <<"atom", h>>, Tail(ts) >>
  IN PLoop(first[1], first[2], prec)
PLoop(left, ts, prec) ==
  IF ts = <<>> \/ Prec(Head(ts)) < prec \/ Head(ts) \notin BinOps THEN <<left, ts>>
  ELSE LET r == PPrim(Tail(ts), Prec(Head(ts)))
       IN PLoop(<<Head(ts), left, r[1]>>, r[2], prec)
Parse(ts) == PPrim(ts, LOWEST)[1]
ParsesCompletely(ts) == PPrim(ts, LOWEST)[2] = <<>>

(* ---- meaning (only what the round trip needs: and/or/not/==/!= over truth values) ---------------- *)
Meaningful(t) ==
  LET RECURSIVE M(_)
      M(u) == CASE IsAtom(u) -> TRUE
                [] IsNot(u) -> M(u[2])
                [] OTHER -> u[1] \in LogOps \cup {"==", "!="} /\ M(u[2]) /\ M(u[3])
  IN M(t)
RECURSIVE EvalT(_, _)
EvalT(t, env) == CASE IsAtom(t) -> env[t[2]]
                   [] IsNot(t) -> ~EvalT(t[2], env)
                   [] t[1] = "and" -> EvalT(t[2], env) /\ EvalT(t[3], env)
                   [] t[1] = "or" -> EvalT(t[2], env) \/ EvalT(t[3], env)
                   [] t[1] = "==" -> EvalT(t[2], env) = EvalT(t[3], env)
                   [] t[1] = "!=" -> EvalT(t[2], env) # EvalT(t[3], env)

(* ---- printers ---------------------------------------------------------------------------------- *)
Par(s) == <<"(">> \o s \o <<")">>

RECURSIVE ShowFull(_)
ShowFull(t) == CASE IsAtom(t) -> <<t[2]>>
                 [] IsNot(t) -> <<"not">> \o (IF IsAtom(t[2]) THEN ShowFull(t[2]) ELSE Par(ShowFull(t[2])))
                 [] OTHER -> (IF IsAtom(t[2]) THEN ShowFull(t[2]) ELSE Par(ShowFull(t[2]))) \o <<t[1]>>
                             \o (IF IsAtom(t[3]) THEN ShowFull(t[3]) ELSE Par(ShowFull(t[3])))

(* an unparenthesised text "ends open" when its last operand is a `not`, which would swallow what follows *)
RECURSIVE MinEndsOpen(_)
MinRightBare(op, r) == IsAtom(r) \/ IsNot(r) \/ Prec(r[1]) >= Prec(op)
MinEndsOpen(t) == CASE IsAtom(t) -> FALSE
                    [] IsNot(t) -> TRUE
                    [] OTHER -> MinRightBare(t[1], t[3]) /\ MinEndsOpen(t[3])
MinLeftBare(op, l) == IsAtom(l) \/ (~IsNot(l) /\ Prec(l[1]) > Prec(op) /\ ~MinEndsOpen(l))
RECURSIVE ShowMin(_)
ShowMin(t) == CASE IsAtom(t) -> <<t[2]>>
                [] IsNot(t) -> <<"not">> \o ShowMin(t[2])
                [] OTHER -> (IF MinLeftBare(t[1], t[2]) THEN ShowMin(t[2]) ELSE Par(ShowMin(t[2]))) \o <<t[1]>>
                            \o (IF MinRightBare(t[1], t[3]) THEN ShowMin(t[3]) ELSE Par(ShowMin(t[3])))

(* the requirement-respecting printer in the engine's style *)
RECURSIVE Show(_)
ShowOperand(u) == IF Compound(u) THEN Par(Show(u)) ELSE Show(u)          \* operand of a comparison
Show(t) ==
  CASE IsAtom(t) -> <<t[2]>>
    [] IsNot(t) -> <<"not">> \o (IF IsLog(t[2]) THEN Par(Show(t[2])) ELSE Show(t[2]))
    [] IsCmp(t) -> ShowOperand(t[2]) \o <<t[1]>> \o ShowOperand(t[3])
    [] OTHER -> (IF IsLog(t[2]) \/ IsNot(t[2]) THEN Par(Show(t[2])) ELSE Show(t[2])) \o <<t[1]>>
                \o (IF t[1] = "and" /\ t[3][1] = "or" THEN Par(Show(t[3])) ELSE Show(t[3]))

(* PrinterUsesOwnPrecedence: BooleanExpression.__str__ of the pinned tree (and=4, or=3, prefix=7; *)
(* a child is parenthesised when its own precedence is below its parent's; comparisons print their *)
(* operands with the per-class __str__, which never parenthesises)                                  *)
OwnPrec(op) == IF op = "and" THEN 4 ELSE 3
RECURSIVE ShowPlain(_)
ShowPlain(t) == CASE IsAtom(t) -> <<t[2]>>
                  [] IsNot(t) -> <<"not">> \o ShowPlain(t[2])
                  [] OTHER -> ShowPlain(t[2]) \o <<t[1]>> \o ShowPlain(t[3])
RECURSIVE ShowOwnP(_, _)
ShowOwnP(t, parent) ==
  CASE IsLog(t) -> (LET p == OwnPrec(t[1])
                        e == ShowOwnP(t[2], p) \o <<t[1]>> \o ShowOwnP(t[3], p)
                    IN IF p < parent THEN Par(e) ELSE e)
    [] IsNot(t) -> (LET e == <<"not">> \o ShowOwnP(t[2], 7) IN IF parent > 7 THEN Par(e) ELSE e)
    [] OTHER -> ShowPlain(t)
ShowOwn(t) == ShowOwnP(t, 0)

(* ---- random growth of one tree in prefix order (used with `tlc -simulate` for deeper trees) ------ *)
(* pend is the stack of depth budgets of the operands still to be written                             *)
RECURSIVE FromPrefix(_)
FromPrefix(pre) ==      \* <<tree, rest>>
  LET h == Head(pre)
  IN CASE h = "not" -> (LET r == FromPrefix(Tail(pre)) IN << <<"not", r[1]>>, r[2] >>)
       [] h \in BinOps -> (LET l == FromPrefix(Tail(pre))
                               r == FromPrefix(l[2])
                           IN << <<h, l[1], r[1]>>, r[2] >>)
       [] OTHER -> << <<"atom", h>>, Tail(pre) >>
=============================================================================
