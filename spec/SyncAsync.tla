----------------------------- MODULE SyncAsync ------------------------------
(* C01 — synchronous and asynchronous APIs behave identically.               *)
(*                                                                           *)
(* Every node, expression, context lookup and loader of the engine has two    *)
(* hand-maintained copies (render_to_output / _async, evaluate / _async,      *)
(* get / get_async, load / load_async, analyze / analyze_async).  Both must   *)
(* refine ONE specification; whatever that specification says for an input,   *)
(* the two copies must agree with each other.  This module enumerates the     *)
(* shapes on which the copies differ textually in the code:                   *)
(*   EXPRESSION cells  carrier x expression form x kind of the value of x     *)
(*   LOADER cells      loader kind x name form x namespace x request order    *)
(* and SyncAsyncMonitor.tla judges the recorded pairs of outcomes.            *)
(* (The other families — RoundTrip programs over every standard tag, Scope    *)
(* programs with partials and macros, Loops, Lexer sources, ErrorModes        *)
(* templates, Inherit chains — are fed to the same monitor by the harness.)   *)
EXTENDS Naturals, Sequences, FiniteSets, TLC, Json

CONSTANTS Part     \* "expr" | "loader" | "interrupt"

Carriers == {"output", "echo", "assign", "capture", "if", "elsif", "unless", "case", "when", "for", "forlimit", "tablerow", "cycle",
             "ternary", "ternarycond", "include_arg", "include_with", "include_for", "render_arg", "render_with", "render_for",
             "with", "call_arg", "macro_default", "liquid", "ifchanged", "filter_arg", "range", "index", "include_name", "render_name",
             (* a bound variable AND a keyword argument naming the same root: which scope is the bound expression evaluated in? *)
             "include_with_shadow", "include_for_shadow", "render_with_shadow", "render_for_shadow", "with_shadow", "call_shadow"}
(* expression forms over the variable x (and the helper variables y = "k", i = 0) *)
Exprs == {"x", "x.k", "x[0]", "x['k']", "x[y]", "x[i]", "[x]", "[x].k", "[y]", "['x']", "x.size", "x.first", "x.last", "x[-1]",
          "x | upcase", "x | default: y", "x | append: x", "x | size", "x | join: y", "x.k.k", "nosuch", "nosuch.k"}
(* kind of the value bound to x *)
Vals == {"str", "strx", "int", "float", "true", "false", "nil", "list", "listoflists", "dict", "dictk", "range", "missing", "drop", "asyncdrop"}
ExprCells == [carrier : Carriers, expr : Exprs, val : Vals]

LoaderKinds == {"dict", "choice", "fs", "cachingdict", "cachingchoice", "cachingfs", "fs_ext", "package"}
NameForms == {"a", "dir/a", "dir/sub/a", "a.html", "missing", "dir/missing"}
Namespaces == {"none", "kwarg", "context"}
Orders == {<<"sync", "async">>, <<"async", "sync">>, <<"sync", "sync", "async">>, <<"async", "async", "sync">>}
Uses == {"get_template", "include", "render", "extends"}
Globs == {"every", "firstonly"}       \* globals passed with every request, or only with the first one (a cache hit must not keep them)
LoaderCells == [kind : LoaderKinds, name : NameForms, ns : Namespaces, order : Orders, use : Uses, globs : Globs]

(* INTERRUPT cells: break / continue executed at the top level of a partial, macro or block, inside or outside a loop of the caller; *)
(* an interrupt crosses an include, but an isolated partial (render, call, block) must turn it into an error                       *)
InterruptCells == [caller : {"for", "tablerow", "none"}, interrupt : {"break", "continue"}, mode : {"strict", "lax"},
                   via : {"include", "include_arg", "include_with", "include_for", "render", "render_arg", "render_with", "render_for",
                          "call", "block", "with", "if", "case", "capture", "liquid"}]

VARIABLES cell, done
vars == <<cell, done>>
Init == /\ cell \in (IF Part = "expr" THEN ExprCells ELSE IF Part = "loader" THEN LoaderCells ELSE InterruptCells) /\ done = FALSE
Next == ~done /\ done' = TRUE /\ UNCHANGED cell
Spec == Init /\ [][Next]_vars
Emit == done => PrintT(ToJson(cell))
=============================================================================
