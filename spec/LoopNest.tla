----------------------------- MODULE LoopNest -----------------------------
(* C06 — loop iteration limit over nests of repeating constructs.           *)
(*                                                                          *)
(* A program is a chain of constructs, outermost first; the innermost body  *)
(* emits one mark.  Two things are modelled side by side:                   *)
(*   ghost truth   `nest`  : the lengths of ALL enclosing repeating         *)
(*                           constructs, whatever context they live in      *)
(*   the mechanism `ctxs`  : RenderContext.loops / loop_iteration_carry as  *)
(*                           liquid/context.py keeps them: `for` pushes a   *)
(*                           ForLoop; render/call copy the context and      *)
(*                           carry the product; tablerow / include-with-    *)
(*                           array / render-for contribute via the carry    *)
(* `Deviations` names constructs that check the limit but do not contribute *)
(* their length to inner checks (what the pinned tree did before the fix).  *)
EXTENDS Naturals, Sequences, FiniteSets, TLC, Json

CONSTANTS MaxDepth, Lens, Deviations, MaxSiblings

Kinds == {"for", "tablerow", "incfor", "renderfor", "render", "include", "call"}
Repeats(k) == k \in {"for", "tablerow", "incfor", "renderfor"}
Copies(k) == k \in {"renderfor", "render", "call"}          \* RenderContext.copy(carry_loop_iterations=True)
UsesInclude(k) == k \in {"incfor", "include"}

(* a level is a construct plus, optionally, a leaf sibling construct (sk, sn) that runs in the level's *)
(* body BEFORE the next level: its own body emits the mark "y"                                        *)
SibKinds == {"none", "for", "tablerow", "incfor", "renderfor"}
Construct == [k : Kinds, n : Lens, sk : SibKinds, sn : {0, 2}]
LenOK(c) == /\ (IF Repeats(c.k) THEN TRUE ELSE c.n = 1)      \* single render/include/call execute once
            /\ (c.sk = "none" => c.sn = 0)

RECURSIVE Product(_)
Product(s) == IF s = <<>> THEN 1 ELSE Head(s) * Product(Tail(s))

(* include is a disabled tag inside render / call: keep those programs out of the family *)
WellFormed(p) == /\ \A i, j \in 1..Len(p) : (i < j /\ Copies(p[i].k)) => ~UsesInclude(p[j].k)
                 /\ \A i, j \in 1..Len(p) : (i <= j /\ Copies(p[i].k)) => p[j].sk # "incfor"
                 /\ Cardinality({i \in 1..Len(p) : p[i].sk # "none"}) <= MaxSiblings

Progs == UNION { { p \in [1..d -> Construct] : (\A i \in 1..d : LenOK(p[i])) /\ WellFormed(p) } : d \in 1..MaxDepth }

(* limits worth trying for a program: both sides of every prefix product *)
PrefixProducts(p) == { Product([i \in 1..d |-> p[i].n]) : d \in 1..Len(p) }
                       \cup { Product([i \in 1..d |-> p[i].n]) * p[d].sn : d \in 1..Len(p) }
LimitsFor(p) == { n \in UNION { {q - 1, q, q + 1} : q \in PrefixProducts(p) } : n >= 1 }

VARIABLES prog, N,        \* the input, fixed in Init
          d,              \* constructs entered so far
          nest,           \* ghost: lengths of all enclosing repeating constructs
          ctxs,           \* mechanism: stack of contexts [loops, carry]
          sibdone,        \* the sibling of level d has been executed
          status, bodies, ybodies
vars == <<prog, N, d, nest, ctxs, sibdone, status, bodies, ybodies>>

Init == /\ prog \in Progs
        /\ N \in LimitsFor(prog)
        /\ d = 0 /\ nest = <<>> /\ ctxs = <<[loops |-> <<>>, carry |-> 1]>>
        /\ status = "running" /\ bodies = 0 /\ ybodies = 0 /\ sibdone = TRUE

Top == ctxs[Len(ctxs)]
MechProduct(c) == Product(c.loops) * c.carry                 \* what raise_for_loop_limit multiplies
ReplaceTop(c) == [ctxs EXCEPT ![Len(ctxs)] = c]

(* the limit check of the code, on the mechanism's numbers *)
MechRaises(len) == MechProduct(Top) * len > N
(* the required answer, on ghost truth *)
MustRaise(len) == Product(nest) * len > N

(* the leaf sibling of the level just entered: checks the limit, repeats its body, and leaves *)
(* the context exactly as it found it (RestoredAfterSibling)                                 *)
Sibling ==
  /\ status = "running" /\ d >= 1 /\ ~sibdone
  /\ LET c == prog[d]
     IN IF c.sk = "none" THEN UNCHANGED <<status, ybodies>>
        ELSE IF MechProduct(Top) * c.sn > N
        THEN status' = "LoopIterationLimitError" /\ UNCHANGED ybodies
        ELSE ybodies' = ybodies + Product(nest) * c.sn /\ UNCHANGED status
  /\ sibdone' = TRUE
  /\ UNCHANGED <<prog, N, d, nest, ctxs, bodies>>

Enter ==
  /\ status = "running" /\ d < Len(prog) /\ sibdone
  /\ sibdone' = FALSE /\ UNCHANGED ybodies
  /\ LET c == prog[d + 1]
         contributes == c.k \notin Deviations
     IN /\ d' = d + 1
        /\ IF Repeats(c.k) /\ c.n = 0
           THEN /\ status' = "ok" /\ bodies' = 0              \* nothing to repeat: inner constructs never run
                /\ UNCHANGED <<nest, ctxs>>
           ELSE IF Repeats(c.k) /\ (IF c.k = "renderfor"      \* render-for checks on the *copied* context
                                    THEN MechProduct(Top) * c.n > N
                                    ELSE MechRaises(c.n))
           THEN /\ status' = "LoopIterationLimitError"
                /\ UNCHANGED <<nest, ctxs, bodies>>
           ELSE /\ nest' = IF Repeats(c.k) THEN Append(nest, c.n) ELSE nest
                /\ ctxs' =
                     CASE c.k = "for" -> ReplaceTop([Top EXCEPT !.loops = Append(@, c.n)])
                       [] c.k \in {"tablerow", "incfor"} ->
                            ReplaceTop([Top EXCEPT !.carry = IF contributes THEN @ * c.n ELSE @])
                       [] c.k = "renderfor" ->
                            Append(ctxs, [loops |-> <<>>, carry |-> MechProduct(Top) * (IF contributes THEN c.n ELSE 1)])
                       [] c.k \in {"render", "call"} ->
                            Append(ctxs, [loops |-> <<>>, carry |-> MechProduct(Top)])
                       [] c.k = "include" -> ctxs
                /\ UNCHANGED <<status, bodies>>
  /\ UNCHANGED <<prog, N>>

Body ==
  /\ status = "running" /\ d = Len(prog) /\ sibdone
  /\ bodies' = Product(nest)       \* every enclosing construct repeats the innermost block
  /\ status' = "ok"
  /\ UNCHANGED <<prog, N, d, nest, ctxs, sibdone, ybodies>>

Next == Enter \/ Sibling \/ Body
Spec == Init /\ [][Next]_vars

-----------------------------------------------------------------------------
(* C06: the mechanism's product is the true product wherever a decision is taken *)
MechanismTracksNest == status = "running" => MechProduct(Top) = Product(nest)
(* a block never executes while the product exceeds N *)
LoopLimit == (status = "ok" /\ bodies > 0) => Product(nest) <= N
(* a nest whose lengths multiply to more than N raises *)
OverLimitRaises ==
  (status # "running" /\ \E k \in 1..Len(prog) :
       /\ \/ Product([i \in 1..k |-> prog[i].n]) > N
          \/ Product([i \in 1..k |-> prog[i].n]) * prog[k].sn > N
       /\ \A i \in 1..k : prog[i].n >= 1)
    => status = "LoopIterationLimitError"
RaisesOnlyOverLimit ==
  status = "LoopIterationLimitError" => (Product(nest) * prog[d].n > N \/ Product(nest) * prog[d].sn > N)

Emit == status \notin {"running"} =>
          PrintT(ToJson([prog |-> prog, N |-> N, status |-> status, bodies |-> bodies, ybodies |-> ybodies]))
=============================================================================
