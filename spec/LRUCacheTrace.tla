------------------------- MODULE LRUCacheTrace -------------------------
(* Validates batches of event traces recorded from liquid.utils.LRUCache /  *)
(* ThreadSafeLRUCache (base-class methods wrapped, i.e. logged while the    *)
(* subclass holds its lock) against the actions of LRUCache.tla.            *)
EXTENDS LRUCache, IOUtils, TLCExt

CONSTANT Diag      \* FALSE: strict acceptance; TRUE: print every mismatch and continue

Traces == JsonDeserialize(IOEnv.TRACE_FILE)

VARIABLES tid, l
tvars == <<vars, tid, l>>

TInit == /\ Init
         /\ tid \in 1..Len(Traces)
         /\ l = 1

Step(t, e) ==
  CASE e.op = "get" -> Get(e.k)
    [] e.op = "getd" -> GetDefault(e.k)
    [] e.op = "set" -> SetC(t.cap, e.k, e.v)
    [] e.op = "del" -> Del(e.k)
    [] e.op = "contains" -> Member(e.k)
    [] e.op = "len" -> Length
    [] e.op \in {"keys", "iter", "values", "items"} -> List(e.op)

(* logged fields that must agree with the specification's post-state *)
RetOK(e) == last'.ret = e.ret
LenOK(e) == Len(cache') = e.len
LockOK(t, e) == (t.threadsafe /\ e.op # "len") => e.locked   \* len() reads one field; it is not overridden to lock
SeqOK(e) == e.seq = l

TNext ==
  /\ l <= Len(Traces[tid].ev)
  /\ LET t == Traces[tid]
         e == t.ev[l]
     IN /\ Step(t, e)
        /\ IF Diag
           THEN /\ (IF RetOK(e) THEN TRUE ELSE PrintT(<<"MISMATCH", tid, l, "RetOK", e.op, last'.ret, e.ret>>))
                /\ (IF LenOK(e) THEN TRUE ELSE PrintT(<<"MISMATCH", tid, l, "LenOK", e.op, Len(cache'), e.len>>))
                /\ (IF LockOK(t, e) THEN TRUE ELSE PrintT(<<"MISMATCH", tid, l, "LockOK", e.op>>))
                /\ (IF SeqOK(e) THEN TRUE ELSE PrintT(<<"MISMATCH", tid, l, "SeqOK", e.op, e.seq>>))
           ELSE RetOK(e) /\ LenOK(e) /\ LockOK(t, e) /\ SeqOK(e)
  /\ l' = l + 1
  /\ UNCHANGED tid

TSpec == TInit /\ [][TNext]_tvars

TBounded == Len(cache) <= Traces[tid].cap
Accept == (l = Len(Traces[tid].ev) + 1) => PrintT(<<"ACCEPT", tid>>)
=============================================================================
