----------------------------- MODULE SpansTrace -----------------------------
(* C20, second sentence: "Every Liquid error raised while parsing carries a  *)
(* position inside its own source, and its formatted message, with line and  *)
(* column, can be produced without error."                                   *)
(*                                                                           *)
(* The harness hands back one OBSERVATION per Liquid error raised for a      *)
(* malformed source (families of Spans.tla with Family = "errors" and of     *)
(* BlockParser.tla):                                                         *)
(*   src   the text the error's token refers to (token.source)               *)
(*   exp   the text of the template in which the specification placed the    *)
(*         malformed construct (the partial's text when it is in a partial)  *)
(*   idx   token.start_index                                                 *)
(*   line, col    what LiquidError.context() reports                         *)
(*   mline, mcol  the "line:col" shown in str(error)                         *)
(*   fmt   "ok" or the exception raised by str() / detailed_message() /      *)
(*         context(), or by the same parse in warn mode (the message is      *)
(*         formatted there for the warning)                                  *)
(*   verb, val    the token's value, when the token kind keeps the source    *)
(*         text verbatim (Token: "value: the substring associated with this  *)
(*         token; start_index: the index into source where it starts")       *)
(*   lo    where the malformed construct begins in exp (0 when unknown)      *)
(* and this module judges every one of them: each observation is an initial  *)
(* state, Verdict names the first clause that does not hold.                 *)
EXTENDS SpanDefs, Integers, Json, IOUtils

Obs == JsonDeserialize(IOEnv.TRACE_FILE)

VARIABLE tid
Init == tid \in 1..Len(Obs)
Next == UNCHANGED tid
Spec == Init /\ [][Next]_tid

ob == Obs[tid]
(* the message, line and column could be produced *)
FormatOK == ob.fmt = "ok"
(* the error carries a position at all *)
HasPosition == ob.idx >= 0
(* the position is one of the error's own source: the template that holds the construct *)
OwnSource == ob.src = ob.exp
Inside == ob.idx >= 0 /\ ob.idx <= Len(ob.src)
(* line = 1 + newlines before the position; column = distance from the start of that line *)
NL == Newlines(ob.src)
LineOK == ob.line = LineAt(NL, ob.idx)
ColOK == ob.col = ColAt(NL, ob.idx)
MessageShowsThem == ob.mline = ob.line /\ ob.mcol = ob.col
(* the location points at the reported item *)
Verbatim == ob.verb => PointsAt(ob.src, ob.idx, 0, ob.val)
(* ... which is not in the well-formed text before the malformed construct *)
NotBeforeConstruct == ob.idx >= ob.lo

Verdict ==
  LET nl == Newlines(ob.src) lineok == ob.line = LineAt(nl, ob.idx) colok == ob.col = ColAt(nl, ob.idx) IN
  IF ~FormatOK THEN "FormatOK" ELSE IF ~HasPosition THEN "HasPosition" ELSE IF ~OwnSource THEN "OwnSource" ELSE IF ~Inside THEN "Inside"
  ELSE IF ~lineok THEN "LineOK" ELSE IF ~colok THEN "ColOK" ELSE IF ~MessageShowsThem THEN "MessageShowsThem"
  ELSE IF ~Verbatim THEN "Verbatim" ELSE IF ~NotBeforeConstruct THEN "NotBeforeConstruct" ELSE "ok"
Judge == PrintT(<<"JUDGE", tid, Verdict>>)
=============================================================================
