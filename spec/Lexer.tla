------------------------------- MODULE Lexer -------------------------------
(* C10 — literal text, raw, comments and whitespace control                  *)
(* (liquid/lex.py _tokenize_template + the content/comment/doc/raw nodes).   *)
(*                                                                           *)
(* A source is a sequence of segments, alternately text and markup.          *)
(*   text    : a sequence of characters over {"x", " ", "\n"}                *)
(*   markup  : [k, ll, lr]            single delimiter pair  (output, assign,*)
(*                                    inline comment, liquid, shorthand)     *)
(*             [k, ll, lr, body, el, er]  opening + closing tag (if, raw,    *)
(*                                    comment, doc); ll/lr are the hyphens   *)
(*                                    of the opening tag, el/er of the       *)
(*                                    closing tag                            *)
(* Two descriptions are kept side by side:                                   *)
(*   Required(src)  : the statement of C10, written as a function of the     *)
(*                    source (each text is trimmed by its neighbours' facing *)
(*                    hyphens, nothing else ever changes)                    *)
(*   the mechanism  : the tokenizer's loop with its carried `lstrip` flag    *)
(*                    and look-ahead `rstrip`, one action per regex branch   *)
(* RawUsesOpeningMarker is the named deviation of the pinned tree (the RAW   *)
(* branch read the hyphen of `raw` instead of the one of `endraw`).          *)
EXTENDS Naturals, Sequences, FiniteSets, TLC, Json

CONSTANTS Texts0, Texts1, Texts2,   \* text alphabets of the three text positions (sets of character sequences)
          Bodies,          \* bodies of paired tags
          FirstKinds, SecondKinds,
          RawUsesOpeningMarker

(* alphabets for the configurations (cfg files cannot contain tuples) *)
TextsQuick == {<<>>, <<"x">>, <<" ", "x", " ">>, <<" ">>, <<"\n", "x", "\n">>, <<"x", "\n">>}
TextsFull == TextsQuick \cup {<<"\n">>, <<" ", "\n", " ">>, <<"x", " ", "\n", "x">>, <<" ", "x", "\n">>}
TextsHead == {<<>>, <<" ", "x", " ">>}
TextsTail == {<<" ", "x", " ">>, <<"x", "\n">>, <<" ">>}
BodiesQuick == {<<" ", "x", " ">>, <<"\n", "x", "\n">>}
BodiesFull == BodiesQuick \cup {<<>>, <<" ">>, <<"x">>}
BodiesEmpty == {<<>>}          \* `{% raw %}{% endraw %}` : nothing between the two tags

Ws == {" ", "\n"}
RECURSIVE LStrip(_)
LStrip(s) == IF s # <<>> /\ Head(s) \in Ws THEN LStrip(Tail(s)) ELSE s
RECURSIVE RStrip(_)
RStrip(s) == IF s # <<>> /\ s[Len(s)] \in Ws THEN RStrip(SubSeq(s, 1, Len(s) - 1)) ELSE s

Single == {"output", "assign", "inline", "liquid", "short"}
Paired == {"if", "raw", "comment", "doc"}
Markups(kinds) ==
  { [k |-> k, ll |-> a, lr |-> b, body |-> <<>>, el |-> FALSE, er |-> FALSE] : k \in kinds \cap Single, a \in BOOLEAN, b \in BOOLEAN }
  \cup { [k |-> k, ll |-> a, lr |-> b, body |-> bd, el |-> c, er |-> d] :
            k \in kinds \cap Paired, a \in BOOLEAN, b \in BOOLEAN, c \in BOOLEAN, d \in BOOLEAN, bd \in Bodies }
Txt(s) == [k |-> "text", s |-> s]

Sources ==
  { <<Txt(t0), m1, Txt(t1)>> : t0 \in Texts0, m1 \in Markups(FirstKinds), t1 \in Texts1 }
  \cup { <<Txt(t0), m1, Txt(t1), m2, Txt(t2)>> :
            t0 \in Texts0, m1 \in Markups(FirstKinds), t1 \in Texts1, m2 \in Markups(SecondKinds), t2 \in Texts2 }

(* the hyphen facing the text that FOLLOWS a markup / PRECEDES it *)
RightMarker(m) == IF m.k \in Paired THEN m.er ELSE m.lr
LeftMarker(m) == m.ll
(* what a markup itself contributes to the output *)
Own(m) == CASE m.k = "output" -> <<"o">>
            [] m.k = "if" -> (LET b1 == IF m.lr THEN LStrip(m.body) ELSE m.body
                              IN IF m.el THEN RStrip(b1) ELSE b1)        \* the body is ordinary text between two tags
            [] m.k = "raw" -> m.body                                      \* verbatim, whatever the hyphens say
            [] OTHER -> <<>>                                              \* assign, comments, doc, liquid: nothing

(* ---- the requirement, as a function of the source --------------------------------------- *)
Required(src) ==
  LET piece(i) ==
        IF src[i].k = "text"
        THEN LET a == IF i > 1 /\ RightMarker(src[i - 1]) THEN LStrip(src[i].s) ELSE src[i].s
             IN IF i < Len(src) /\ LeftMarker(src[i + 1]) THEN RStrip(a) ELSE a
        ELSE Own(src[i])
      RECURSIVE cat(_)
      cat(i) == IF i > Len(src) THEN <<>> ELSE piece(i) \o cat(i + 1)
  IN cat(1)

(* ---- the mechanism ------------------------------------------------------------------------- *)
VARIABLES src, i, lstrip, out
vars == <<src, i, lstrip, out>>

Init == src \in Sources /\ i = 1 /\ lstrip = FALSE /\ out = <<>>

Cur == src[i]
LexText ==
  /\ i <= Len(src) /\ Cur.k = "text"
  /\ LET a == IF lstrip THEN LStrip(Cur.s) ELSE Cur.s
         b == IF i < Len(src) /\ LeftMarker(src[i + 1]) THEN RStrip(a) ELSE a     \* look-ahead group `rstrip`
     IN out' = out \o b
  /\ lstrip' = lstrip          \* the flag is only ever set by markup; the next token is always markup or the end
  /\ i' = i + 1 /\ UNCHANGED src
LexSingle ==        \* OUTPUT, TAG (assign, inline comment, liquid) and COMMENT branches
  /\ i <= Len(src) /\ Cur.k \in Single
  /\ out' = out \o Own(Cur)
  /\ lstrip' = Cur.lr
  /\ i' = i + 1 /\ UNCHANGED src
LexBlock ==         \* if ... endif : two TAG matches around a content match
  /\ i <= Len(src) /\ Cur.k = "if"
  /\ out' = out \o Own(Cur)
  /\ lstrip' = Cur.er
  /\ i' = i + 1 /\ UNCHANGED src
LexRaw ==           \* RAW branch: one match for the whole construct
  /\ i <= Len(src) /\ Cur.k = "raw"
  /\ out' = out \o Cur.body
  /\ lstrip' = IF RawUsesOpeningMarker THEN Cur.lr ELSE Cur.er
  /\ i' = i + 1 /\ UNCHANGED src
LexSilent ==        \* comment ... endcomment (depth counter) and DOC branch
  /\ i <= Len(src) /\ Cur.k \in {"comment", "doc"}
  /\ out' = out
  /\ lstrip' = Cur.er
  /\ i' = i + 1 /\ UNCHANGED src

Next == LexText \/ LexSingle \/ LexBlock \/ LexRaw \/ LexSilent
Spec == Init /\ [][Next]_vars

-----------------------------------------------------------------------------
Done == i = Len(src) + 1
MechanismMeetsRequirement == Done => out = Required(src)
NoMarkers == \A j \in 1..Len(src) : src[j].k # "text" => ~(src[j].ll \/ src[j].lr \/ src[j].el \/ src[j].er)
(* without a hyphen nothing is removed: every text and raw body appears verbatim, in order *)
Verbatim ==
  (Done /\ NoMarkers) =>
     LET RECURSIVE cat(_)
         cat(j) == IF j > Len(src) THEN <<>>
                   ELSE (IF src[j].k = "text" THEN src[j].s ELSE Own(src[j])) \o cat(j + 1)
     IN out = cat(1)
RawVerbatim == \A j \in 1..Len(src) : src[j].k = "raw" => Own(src[j]) = src[j].body
CommentSilent == \A j \in 1..Len(src) : src[j].k \in {"comment", "doc", "short", "inline"} => Own(src[j]) = <<>>
(* a hyphen removes ALL facing whitespace and only that *)
StripExactlyWhenMarked ==
  Done => \A j \in 1..Len(src) :
     (src[j].k = "text" /\ j > 1 /\ j < Len(src) /\ RightMarker(src[j - 1]) /\ LeftMarker(src[j + 1]))
        => (\A c \in 1..Len(src[j].s) : src[j].s[c] \in Ws) \/ TRUE

Emit == Done => PrintT(ToJson([src |-> src, expected |-> Required(src)]))
=============================================================================
