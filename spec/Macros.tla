------------------------------- MODULE Macros -------------------------------
(* C27 (first half) — how a `call` tag binds its arguments to the parameters *)
(* of a `macro`, and what the macro body then sees (each parameter, `args`,  *)
(* `kwargs`).  docs/optional_tags.md "macro and call":                       *)
(*   - positional arguments go to the parameters in order,                   *)
(*   - then keyword arguments by name,                                       *)
(*   - a parameter nobody bound takes its default, else it is undefined,     *)
(*   - "argument defaults are bound late. They are evaluated when a call     *)
(*     expression is evaluated, not when the macro is defined",              *)
(*   - "excess arguments passed to call are collected into variables called  *)
(*     args and kwargs".                                                     *)
(* A behaviour is one small program: statements (assign / with / endwith /   *)
(* macro definition / call) executed one at a time on a caller scope         *)
(* (globals, locals, stack of `with` frames) and a table of defined macros;  *)
(* a call is executed as the binding steps BindPositional, CollectArgs,      *)
(* BindKeyword, CollectKwargs, ApplyDefault, BindUndefined.  The invariants  *)
(* state each clause declaratively over the *input* (signature, call).       *)
(*                                                                           *)
(* Values are abstract tokens [k, i]: P i = i-th positional argument,        *)
(* K j = value of the j-th keyword argument, D i = literal default of        *)
(* parameter i, G/E/L/W i = what the caller's variable named by the variable *)
(* default of parameter i holds (global / assigned early / assigned late /   *)
(* bound by an enclosing with), U = undefined.  A binding is a *set* of      *)
(* admissible tokens: a singleton wherever the statement fixes the result.   *)
(* Not fixed by statement or docs (marked, both readings admissible):        *)
(*   - a keyword naming a parameter that a positional argument already bound *)
(*   - the same keyword name given more than once                            *)
EXTENDS Naturals, Sequences, FiniteSets, TLC, Json

CONSTANTS MaxParams,     \* signatures of 0..MaxParams parameters
          MaxPos,        \* 0..MaxPos positional arguments
          MaxKw,         \* 0..MaxKw keyword arguments (literal-default family)
          KwNames,       \* names a keyword argument may carry (parameter names and others)
          MaxKwVar,      \* keyword arguments in the variable-default family
          KwNamesVar

PNames == <<"a", "b", "c">>          \* parameter i is called PNames[i]
DvNames == <<"da", "db", "dc">>      \* the caller variable that parameter i's variable default reads

Tok(k, i) == [k |-> k, i |-> i]
U == Tok("U", 0)

Stmt(op, tag) == [op |-> op, tag |-> tag]

-----------------------------------------------------------------------------
(* The bounded family of inputs *)
SeqsUpTo(S, n) == UNION { [1..m -> S] : m \in 0..n }

Sigs(kinds) == UNION { { [i \in 1..m |-> [name |-> PNames[i], dflt |-> f[i]]] : f \in [1..m -> kinds] } : m \in 0..MaxParams }
HasVar(sig) == \E i \in 1..Len(sig) : sig[i].dflt = "var"

Programs ==
  [ plain      |-> <<Stmt("def", ""), Stmt("call", "")>>,
    callfirst  |-> <<Stmt("call", ""), Stmt("def", ""), Stmt("call", "")>>,
    late       |-> <<Stmt("assign", "E"), Stmt("def", ""), Stmt("assign", "L"), Stmt("call", "")>>,
    callInWith |-> <<Stmt("def", ""), Stmt("with", "W"), Stmt("call", ""), Stmt("endwith", ""), Stmt("call", "")>>,
    defInWith  |-> <<Stmt("with", "W"), Stmt("def", ""), Stmt("endwith", ""), Stmt("call", "")>> ]

Input(sig, npos, kws, shape, glob, via) ==
  [sig |-> sig, npos |-> npos, kws |-> kws, shape |-> shape, glob |-> glob, via |-> via]

Inputs ==
  \* F1: every signature without variable defaults x every call
  { Input(s, n, k, "plain", FALSE, "inline") :
      s \in Sigs({"none", "lit"}), n \in 0..MaxPos, k \in SeqsUpTo(KwNames, MaxKw) }
  \cup
  \* F2: signatures with at least one variable default x caller scopes
  { Input(s, n, k, sh, g, "inline") :
      s \in {x \in Sigs({"none", "lit", "var"}) : HasVar(x)}, n \in 0..MaxPos,
      k \in SeqsUpTo(KwNamesVar, MaxKwVar), sh \in {"plain", "late", "callInWith", "defInWith"}, g \in BOOLEAN }
  \cup
  \* F3: a call that precedes the definition; F4: the definition comes from an included template
  { Input(s, n, k, sh, FALSE, via) :
      s \in Sigs({"none", "lit"}), n \in {0, 2, MaxPos}, k \in SeqsUpTo(KwNamesVar, 1),
      sh \in {"callfirst", "plain"}, via \in {"inline", "include"} }

-----------------------------------------------------------------------------
VARIABLES inp,      \* the input (constant along a behaviour)
          pc,       \* index of the next statement
          phase,    \* "stmt" between statements; "pos" | "kw" | "fill" inside a call
          i,        \* index inside the current phase
          macros,   \* names of the macros defined so far ({"m"} or {})
          locals,   \* caller's assigned variables: name -> token
          stack,    \* caller's with-frames, innermost last: name -> token
          env,      \* parameter index -> [adm: set of tokens, src]
          args,     \* surplus positional arguments collected so far
          kwargs,   \* surplus keyword arguments: sequence of [name, adm]
          out       \* one record per executed call
vars == <<inp, pc, phase, i, macros, locals, stack, env, args, kwargs, out>>

prog == Programs[inp.shape]
sig == inp.sig
NP == Len(sig)
Globals == IF inp.glob THEN [n \in {DvNames[p] : p \in 1..NP} |-> Tok("G", CHOOSE p \in 1..NP : DvNames[p] = n)]
           ELSE [n \in {} |-> U]
VarParams == {p \in 1..NP : sig[p].dflt = "var"}
ParamIndex(name) == CHOOSE p \in 1..NP : sig[p].name = name
IsParam(name) == \E p \in 1..NP : sig[p].name = name

MaxOf(S) == CHOOSE x \in S : \A y \in S : y <= x
(* caller scope: innermost with-frame, then assigned variables, then globals, else undefined *)
Lookup(n) ==
  LET hits == {d \in 1..Len(stack) : n \in DOMAIN stack[d]}
  IN IF hits # {} THEN stack[MaxOf(hits)][n]
     ELSE IF n \in DOMAIN locals THEN locals[n]
     ELSE IF n \in DOMAIN Globals THEN Globals[n]
     ELSE U

Frame(tag) == [n \in {DvNames[p] : p \in VarParams} |-> Tok(tag, CHOOSE p \in 1..NP : DvNames[p] = n)]
Unbound == [adm |-> {}, src |-> "none"]

Init == /\ inp \in Inputs
        /\ pc = 1 /\ phase = "stmt" /\ i = 0
        /\ macros = {} /\ locals = [n \in {} |-> U] /\ stack = <<>>
        /\ env = <<>> /\ args = <<>> /\ kwargs = <<>> /\ out = <<>>

AtStmt(op) == phase = "stmt" /\ pc <= Len(prog) /\ prog[pc].op = op

Assign ==
  /\ AtStmt("assign")
  /\ locals' = [n \in DOMAIN locals \cup DOMAIN Frame("E") |->
                  IF n \in DOMAIN Frame("E") THEN Frame(prog[pc].tag)[n] ELSE locals[n]]
  /\ pc' = pc + 1
  /\ UNCHANGED <<inp, phase, i, macros, stack, env, args, kwargs, out>>

Extend ==
  /\ AtStmt("with")
  /\ stack' = Append(stack, Frame(prog[pc].tag))
  /\ pc' = pc + 1
  /\ UNCHANGED <<inp, phase, i, macros, locals, env, args, kwargs, out>>

Pop ==
  /\ AtStmt("endwith")
  /\ stack' = SubSeq(stack, 1, Len(stack) - 1)
  /\ pc' = pc + 1
  /\ UNCHANGED <<inp, phase, i, macros, locals, env, args, kwargs, out>>

DefineMacro ==
  /\ AtStmt("def")
  /\ macros' = macros \cup {"m"}
  /\ pc' = pc + 1
  /\ UNCHANGED <<inp, phase, i, locals, stack, env, args, kwargs, out>>

(* a call of a name nobody defined (yet) renders as an undefined value and runs no body *)
CallUndefinedMacro ==
  /\ AtStmt("call") /\ "m" \notin macros
  /\ out' = Append(out, [defined |-> FALSE, params |-> <<>>, args |-> <<>>, kwargs |-> <<>>,
                         kwOrderFixed |-> TRUE, contested |-> FALSE])
  /\ pc' = pc + 1
  /\ UNCHANGED <<inp, phase, i, macros, locals, stack, env, args, kwargs>>

BeginCall ==
  /\ AtStmt("call") /\ "m" \in macros
  /\ phase' = "pos" /\ i' = 1
  /\ env' = [p \in 1..NP |-> Unbound] /\ args' = <<>> /\ kwargs' = <<>>
  /\ UNCHANGED <<inp, pc, macros, locals, stack, out>>

BindPositional ==
  /\ phase = "pos" /\ i <= inp.npos /\ i <= NP
  /\ env' = [env EXCEPT ![i] = [adm |-> {Tok("P", i)}, src |-> "pos"]]
  /\ i' = i + 1
  /\ UNCHANGED <<inp, pc, phase, macros, locals, stack, args, kwargs, out>>

CollectArgs ==
  /\ phase = "pos" /\ i <= inp.npos /\ i > NP
  /\ args' = Append(args, Tok("P", i))
  /\ i' = i + 1
  /\ UNCHANGED <<inp, pc, phase, macros, locals, stack, env, kwargs, out>>

PositionalDone ==
  /\ phase = "pos" /\ i > inp.npos
  /\ phase' = "kw" /\ i' = 1
  /\ UNCHANGED <<inp, pc, macros, locals, stack, env, args, kwargs, out>>

(* keyword j names a parameter.  If a positional argument or an earlier keyword of the same  *)
(* name already bound it, which of them the body sees is not fixed: both stay admissible.   *)
BindKeyword ==
  /\ phase = "kw" /\ i <= Len(inp.kws) /\ IsParam(inp.kws[i])
  /\ LET p == ParamIndex(inp.kws[i])
     IN env' = [env EXCEPT ![p] = IF env[p].src = "none" THEN [adm |-> {Tok("K", i)}, src |-> "kw"]
                                  ELSE [adm |-> env[p].adm \cup {Tok("K", i)}, src |-> "contested"]]
  /\ i' = i + 1
  /\ UNCHANGED <<inp, pc, phase, macros, locals, stack, args, kwargs, out>>

CollectKwargs ==
  /\ phase = "kw" /\ i <= Len(inp.kws) /\ ~IsParam(inp.kws[i])
  /\ LET nm == inp.kws[i]
         at == {x \in 1..Len(kwargs) : kwargs[x].name = nm}
     IN kwargs' = IF at = {} THEN Append(kwargs, [name |-> nm, adm |-> {Tok("K", i)}])
                  ELSE [kwargs EXCEPT ![CHOOSE x \in at : TRUE].adm = @ \cup {Tok("K", i)}]
  /\ i' = i + 1
  /\ UNCHANGED <<inp, pc, phase, macros, locals, stack, env, args, out>>

KeywordsDone ==
  /\ phase = "kw" /\ i > Len(inp.kws)
  /\ phase' = "fill" /\ i' = 1
  /\ UNCHANGED <<inp, pc, macros, locals, stack, env, args, kwargs, out>>

(* the default expression is evaluated now, in the scope of the call *)
DefaultValue(p) == IF sig[p].dflt = "lit" THEN Tok("D", p) ELSE Lookup(DvNames[p])

ApplyDefault ==
  /\ phase = "fill" /\ i <= NP /\ env[i].src = "none" /\ sig[i].dflt # "none"
  /\ env' = [env EXCEPT ![i] = [adm |-> {DefaultValue(i)}, src |-> "default"]]
  /\ i' = i + 1
  /\ UNCHANGED <<inp, pc, phase, macros, locals, stack, args, kwargs, out>>

BindUndefined ==
  /\ phase = "fill" /\ i <= NP /\ env[i].src = "none" /\ sig[i].dflt = "none"
  /\ env' = [env EXCEPT ![i] = [adm |-> {U}, src |-> "undefined"]]
  /\ i' = i + 1
  /\ UNCHANGED <<inp, pc, phase, macros, locals, stack, args, kwargs, out>>

AlreadyBound ==
  /\ phase = "fill" /\ i <= NP /\ env[i].src # "none"
  /\ i' = i + 1
  /\ UNCHANGED <<inp, pc, phase, macros, locals, stack, env, args, kwargs, out>>

Distinct(s) == \A x, y \in 1..Len(s) : x # y => s[x] # s[y]
SurplusNames == [x \in 1..Len(kwargs) |-> kwargs[x].name]

EndCall ==
  /\ phase = "fill" /\ i > NP
  /\ out' = Append(out, [defined |-> TRUE,
                         params |-> [p \in 1..NP |-> [name |-> sig[p].name, adm |-> env[p].adm, src |-> env[p].src]],
                         args |-> args, kwargs |-> kwargs,
                         kwOrderFixed |-> \A x \in 1..Len(kwargs) : Cardinality(kwargs[x].adm) = 1,
                         contested |-> \E p \in 1..NP : env[p].src = "contested"])
  /\ phase' = "stmt" /\ i' = 0 /\ pc' = pc + 1
  /\ UNCHANGED <<inp, macros, locals, stack, env, args, kwargs>>

Next == \/ Assign \/ Extend \/ Pop \/ DefineMacro \/ CallUndefinedMacro \/ BeginCall
        \/ BindPositional \/ CollectArgs \/ PositionalDone \/ BindKeyword \/ CollectKwargs \/ KeywordsDone
        \/ ApplyDefault \/ BindUndefined \/ AlreadyBound \/ EndCall
Spec == Init /\ [][Next]_vars

-----------------------------------------------------------------------------
Done == phase = "stmt" /\ pc = Len(prog) + 1
npos == inp.npos
kws == inp.kws
KwAt(name) == {j \in 1..Len(kws) : kws[j] = name}
KTok(S) == {Tok("K", j) : j \in S}
Calls == {c \in 1..Len(out) : out[c].defined}
Min2(x, y) == IF x < y THEN x ELSE y
FirstAt(name) == CHOOSE j \in KwAt(name) : \A j2 \in KwAt(name) : j <= j2

(* positional argument i is what parameter i holds (unless a keyword also names it: then at least admissible) *)
PositionalInOrder ==
  \A c \in Calls : \A p \in 1..Min2(npos, NP) :
     /\ Tok("P", p) \in out[c].params[p].adm
     /\ out[c].params[p].adm \subseteq {Tok("P", p)} \cup KTok(KwAt(sig[p].name))
     /\ (KwAt(sig[p].name) = {} => out[c].params[p].adm = {Tok("P", p)})

(* a parameter no positional argument reached holds the value of the keyword argument carrying its name *)
KeywordByName ==
  \A c \in Calls : \A p \in 1..NP :
     (p > npos /\ KwAt(sig[p].name) # {}) =>
        /\ out[c].params[p].adm = KTok(KwAt(sig[p].name))
        /\ (Cardinality(KwAt(sig[p].name)) = 1 => out[c].params[p].src = "kw")

(* the statement-order of the clauses: a bound parameter never shows its default, an unbound one shows *)
(* its default if it has one and is undefined otherwise                                               *)
DefaultsThenUndefined ==
  \A c \in Calls : \A p \in 1..NP :
     LET b == out[c].params[p]
         reached == p <= npos \/ KwAt(sig[p].name) # {}
     IN /\ (reached => (U \notin b.adm /\ Tok("D", p) \notin b.adm /\ b.src \in {"pos", "kw", "contested"}))
        /\ (~reached /\ sig[p].dflt = "none" => b.adm = {U})
        /\ (~reached /\ sig[p].dflt = "lit" => b.adm = {Tok("D", p)})
        /\ (~reached /\ sig[p].dflt = "var" => b.src = "default" /\ Cardinality(b.adm) = 1)

(* surplus positional arguments, in order, are `args`; keyword arguments naming no parameter are `kwargs` *)
SurplusInArgsKwargs ==
  \A c \in Calls :
     /\ out[c].args = [x \in 1..(IF npos > NP THEN npos - NP ELSE 0) |-> Tok("P", NP + x)]
     /\ {out[c].kwargs[x].name : x \in 1..Len(out[c].kwargs)} = {kws[j] : j \in {y \in 1..Len(kws) : ~IsParam(kws[y])}}
     /\ \A x \in 1..Len(out[c].kwargs) :
          /\ out[c].kwargs[x].adm = KTok(KwAt(out[c].kwargs[x].name))
          /\ \A y \in 1..Len(out[c].kwargs) : x < y =>
                /\ out[c].kwargs[x].name # out[c].kwargs[y].name
                /\ FirstAt(out[c].kwargs[x].name) < FirstAt(out[c].kwargs[y].name)
     \* nothing is both bound and surplus, nothing is lost: every argument token is admissible somewhere
     /\ \A j \in 1..Len(kws) :
          \/ (IsParam(kws[j]) /\ Tok("K", j) \in out[c].params[ParamIndex(kws[j])].adm)
          \/ (~IsParam(kws[j]) /\ \E x \in 1..Len(out[c].kwargs) : Tok("K", j) \in out[c].kwargs[x].adm)

(* what a variable default yields is the caller's binding of that variable at the moment of the call,   *)
(* stated over the program text: the k-th executed call of each program shape                           *)
ExpectedDefault(p, c) ==
  LET g == IF inp.glob THEN Tok("G", p) ELSE U
  IN CASE inp.shape = "late" -> Tok("L", p)
       [] inp.shape = "callInWith" -> IF c = 1 THEN Tok("W", p) ELSE g
       [] OTHER -> g
DefaultsEvaluatedInCallerScope ==
  \A c \in Calls : \A p \in 1..NP :
     (out[c].params[p].src = "default" /\ sig[p].dflt = "var") => out[c].params[p].adm = {ExpectedDefault(p, c)}

(* a call before the definition is an undefined macro; once defined every call runs the body *)
UndefinedBeforeDefinition ==
  Done => /\ (inp.shape = "callfirst" => (~out[1].defined /\ out[2].defined))
          /\ (inp.shape # "callfirst" => \A c \in 1..Len(out) : out[c].defined)
          /\ Len(out) = Cardinality({s \in 1..Len(prog) : prog[s].op = "call"})

(* the with-frames pushed for the caller are gone at the end *)
StackBalanced == Done => stack = <<>>

Emit == Done => PrintT(ToJson([sig |-> sig, npos |-> npos, kws |-> kws, shape |-> inp.shape, glob |-> inp.glob,
                               via |-> inp.via, admitUndefinedMacro |-> (inp.via = "include"),
                               prog |-> prog, out |-> out]))
=============================================================================
