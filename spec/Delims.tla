------------------------------- MODULE Delims -------------------------------
(* C11, first half — custom delimiters.                                      *)
(*                                                                           *)
(* "Rewriting a template with different tag, output-statement and comment    *)
(*  delimiters, and rendering it in an environment configured with those     *)
(*  delimiters, gives the same output as the original, for any delimiter     *)
(*  strings that do not collide with each other or with the template text."  *)
(*                                                                           *)
(* DelimDefs.tla defines templates as delimiter-free token sequences, the    *)
(* rewriting Rewrite(toks, d) and the predicate Admissible(toks, d).  This   *)
(* module                                                                    *)
(*  - draws PROGRAMS from the Lexer.tla family (every markup kind, hyphens,  *)
(*    whitespace shapes; expected output = Lexer!Required, which does not    *)
(*    mention delimiters) and from a list of tag programs (if/else, for,     *)
(*    assign, capture, raw, comment, inline comment, liquid) with their      *)
(*    expected output;                                                       *)
(*  - draws DELIMITER SETS from named sets, a sweep that puts every alphabet *)
(*    character into every role in several shapes, and a seeded sample of    *)
(*    strings of length 1..4;                                                *)
(*  - keeps the admissible pairs (action Prepare), rewrites the program and   *)
(*    runs a REFERENCE                                                       *)
(*    SCANNER parametrised by the delimiter record over the resulting        *)
(*    characters, one action per alternative of the tokenizer's pattern (raw,*)
(*    doc, comment, output, tag, content; first alternative that matches at  *)
(*    the position, shortest match up to the closing delimiter);             *)
(*  - requires ScanRecovers: the scanner reads back exactly the tokens that  *)
(*    were written, whatever the delimiters are (so Admissible is strong     *)
(*    enough: no admissible pair is ambiguous), and emits (program, set,     *)
(*    source text, expected output) for replay.                              *)
(* Unescaped is the named deviation "a delimiter is interpolated into the    *)
(* pattern as it is": the character `.` of a delimiter then matches any      *)
(* character, and ScanRecovers fails.                                        *)
(* Mode = "judge": the observer DelimiterIndependence over the outcomes the  *)
(* harness recorded for one program under several delimiter sets.            *)
EXTENDS DelimDefs, TLC, Json, IOUtils

CONSTANTS Mode,                  \* "gen" | "judge"
          ProgFam,               \* which programs: "short" | "wide_v1".."wide_v4" | "sets" | "kitchen" | "tags" | "dev"
          DSetFam,               \* which delimiter sets: "few" | "named" | "sweep2" | "sweep6" | "sampled" | "dot"
          SeedLo, SeedHi,        \* seeds of the sampled sets
          Unescaped,             \* deviation
          Texts0, Texts1, Texts2, Bodies, FirstKinds, SecondKinds    \* the Lexer family

LX == INSTANCE Lexer WITH RawUsesOpeningMarker <- FALSE, src <- <<>>, i <- 0, lstrip <- FALSE, out <- <<>>

(* ---- programs of the Lexer family ------------------------------------------------------------ *)
TextsOne == {<<" ", "x", " ">>}
TextsA == {<<>>, <<" ", "x", " ">>}
TextsB == {<<"x">>, <<" ", "x", " ">>, <<"\n", "x", "\n">>, <<" ">>}
TextsC == {<<" ", "x", " ">>, <<"x", "\n">>}
BodiesA == {<<" ", "x", " ">>}
BodiesB == {<<" ", "x", " ">>, <<>>}
AllKinds == {"output", "assign", "inline", "liquid", "short", "if", "raw", "comment", "doc"}

Variant(v) == CASE v = 1 -> [ta |-> aX, ra |-> aX, ha |-> aX]
                [] v = 2 -> [ta |-> aBrace, ra |-> aZ, ha |-> aHid]        \* what looks like default markup is text
                [] v = 3 -> [ta |-> aOpen, ra |-> aTagZ, ha |-> aZ]        \* text that begins like a default output statement
                [] v = 4 -> [ta |-> aMeta, ra |-> aAltZ, ha |-> aAltZ]     \* regex metacharacters in the text
RECURSIVE Expand(_, _)
Expand(s, atom) == IF s = <<>> THEN <<>> ELSE (IF Head(s) = "x" THEN atom ELSE <<Head(s)>>) \o Expand(Tail(s), atom)
SubstSeg(m, v) ==
  IF m.k = "text" THEN [m EXCEPT !.s = Expand(m.s, Variant(v).ta)]
  ELSE [m EXCEPT !.body = Expand(m.body, CASE m.k = "raw" -> Variant(v).ra
                                             [] m.k \in {"comment", "doc"} -> Variant(v).ha
                                             [] OTHER -> Variant(v).ta)]
RECURSIVE SubstFrom(_, _, _)
SubstFrom(src, v, j) == IF j > Len(src) THEN <<>> ELSE <<SubstSeg(src[j], v)>> \o SubstFrom(src, v, j + 1)
Subst(src, v) == SubstFrom(src, v, 1)
(* a segment of Lexer.tla as tokens *)
SegToks(m) ==
  CASE m.k = "text" -> <<T(m.s)>>
    [] m.k = "output" -> <<O(wO, m.ll, m.lr)>>
    [] m.k = "assign" -> <<G(wAssignV, m.ll, m.lr)>>
    [] m.k = "inline" -> <<G(wInline, m.ll, m.lr)>>
    [] m.k = "liquid" -> <<G(wLiquidAssign, m.ll, m.lr)>>
    [] m.k = "short" -> <<C(wC, m.ll, m.lr)>>
    [] m.k = "if" -> <<G(wIfTrue, m.ll, m.lr), T(m.body), G(wEndif, m.el, m.er)>>
    [] m.k = "raw" -> <<G(wRaw, m.ll, m.lr), T(m.body), G(wEndraw, m.el, m.er)>>
    [] m.k = "comment" -> <<G(wComment, m.ll, m.lr), T(m.body), G(wEndcomment, m.el, m.er)>>
    [] m.k = "doc" -> <<G(wDoc, m.ll, m.lr), T(m.body), G(wEnddoc, m.el, m.er)>>
RECURSIVE SegsToks(_, _)
SegsToks(src, j) == IF j > Len(src) THEN <<>> ELSE SegToks(src[j]) \o SegsToks(src, j + 1)
NonEmpty(toks) == SelectSeq(toks, LAMBDA t : ~(t.k = "text" /\ t.v = <<>>))

(* hyphen patterns kept for paired tags: none, all, outer, inner (Lexer.tla / C10 runs all sixteen under the default set) *)
HyphenShape(m) == m.k \notin LX!Paired \/ <<m.ll, m.lr, m.el, m.er>> \in
                     {<<FALSE, FALSE, FALSE, FALSE>>, <<TRUE, TRUE, TRUE, TRUE>>, <<TRUE, FALSE, FALSE, TRUE>>, <<FALSE, TRUE, TRUE, FALSE>>}
LexSources == {x \in LX!Sources : \A j \in 1..Len(x) : x[j].k = "text" \/ HyphenShape(x[j])}
LexProg(src, v) == [name |-> "lexer", v |-> v, src |-> src, toks |-> NonEmpty(SegsToks(Subst(src, v), 1)),
                    exp |-> LX!Required(Subst(src, v)), err |-> FALSE]
LexProgs(vs) == {LexProg(src, v) : src \in LexSources, v \in vs}
ShortSources == {x \in LexSources : Len(x) = 3}
ShortProgs(vs) == {LexProg(src, v) : src \in ShortSources, v \in vs}

(* ---- tag programs: tokens and the output every delimiter set must give ---------------------------- *)
F == FALSE
Y == TRUE
TagProg(n) ==
  CASE n = 1 -> [name |-> "ifelse", toks |-> <<G(wIfFalse, F, F), T(<<"A">>), G(wElse, F, F), T(<<"B">>), G(wEndif, F, F)>>,
                 exp |-> <<"B">>, err |-> FALSE]
    [] n = 2 -> [name |-> "for", toks |-> <<G(wFor, F, F), O(wI, F, F), T(<<",">>), G(wEndfor, F, F)>>,
                 exp |-> <<"1", ",", "2", ",", "3", ",">>, err |-> FALSE]
    [] n = 3 -> [name |-> "assigncapture",
                 toks |-> <<G(wAssignQ, F, F), G(wCapture, F, F), T(<<"[">>), O(wQ, F, F), T(<<"]">>), G(wEndcapture, F, F), O(wCup, F, F)>>,
                 exp |-> <<"[", "V", "]">>, err |-> FALSE]
    [] n = 4 -> [name |-> "rawcomment",
                 toks |-> <<T(<<"a">>), G(wRaw, F, F), T(aZ \o Sp \o aTagZ), G(wEndraw, F, F), T(<<"b">>), G(wComment, F, F), T(<<" ", "h", " ">>),
                            G(wEndcomment, F, F), T(<<"c">>), G(wInline, F, F), T(<<"d">>), G(wDoc, F, F), T(<<" ", "h", " ">>), G(wEnddoc, F, F),
                            T(<<"e">>)>>,
                 exp |-> <<"a">> \o aZ \o Sp \o aTagZ \o <<"b", "c", "d", "e">>, err |-> FALSE]
    [] n = 5 -> [name |-> "liquidhash",
                 toks |-> <<T(<<"a">>), Q(<<Ln("tag", wAssignW), Ln("hash", wNote), Ln("tag", wEchoW)>>, F, F), T(<<"b">>)>>,
                 exp |-> <<"a", "2", "b">>, err |-> FALSE]
    [] n = 6 -> [name |-> "liquidmark",
                 toks |-> <<Q(<<Ln("mark", wNote), Ln("tag", wEchoM), Ln("mark", wNote)>>, F, F), T(<<"|">>), C(wC, F, F), T(<<"e">>)>>,
                 exp |-> <<"m", "|", "e">>, err |-> FALSE]
    [] n = 7 -> [name |-> "hyphens",
                 toks |-> <<T(<<" ", "a", " ">>), G(wIfTrue, Y, Y), T(<<" ", "b", "\n">>), G(wEndif, Y, Y), T(<<" ", "c", " ">>), O(wO, Y, Y),
                            T(<<"\n", "d", " ">>), Q(<<Ln("tag", wEchoM)>>, Y, Y), T(<<" ">>)>>,
                 exp |-> <<" ", "a", "b", "c", "o", "d", "m">>, err |-> FALSE]
    [] n = 8 -> [name |-> "rawalt",
                 toks |-> <<G(wRaw, Y, F), T(Sp \o aAltZ \o Sp \o aMeta), G(wEndraw, F, Y), T(<<" ", "t">>)>>,
                 exp |-> Sp \o aAltZ \o Sp \o aMeta \o <<"t">>, err |-> FALSE]
    [] n = 9 -> [name |-> "unclosed", toks |-> <<T(<<"a", " ">>), [O(wO, F, F) EXCEPT !.k = "open"]>>,
                 exp |-> <<>>, err |-> TRUE]
NTagProgs == 9
TagProgs == {TagProg(n) @@ [v |-> 0, src |-> <<>>] : n \in 1..NTagProgs}
KitchenProgs == {p \in TagProgs : p.name \in {"assigncapture", "rawcomment", "liquidhash", "liquidmark", "hyphens"}}

(* ---- families of delimiter sets ----------------------------------------------------------------- *)
DS_named == {Default, DefaultC} \cup {Named[n] : n \in 1..Len(Named)}
DS_few == {Default, DefaultC, Angle, Bracket, Single}
DS_sweep(shapes) == {Sweep(r, ci, sh) : r \in Roles, ci \in 1..Len(Alphabet), sh \in shapes}
DS_sampled(lo, hi) == {Sampled(seed, 1 + (seed % 4), seed % 3 # 0) : seed \in lo..hi}

(* the families the configurations name (zero-arity, so TLC evaluates the chosen one once) *)
SomeShort == {x \in ShortSources : x[1].s = <<>> /\ x[3].s = <<" ", "x", " ">> /\ x[2].ll /\ ~x[2].lr /\ x[2].k \in {"doc", "short", "raw"}}
Progs == CASE ProgFam = "wide_v1" -> LexProgs({1})
           [] ProgFam = "wide_v2" -> LexProgs({2})
           [] ProgFam = "wide_v3" -> LexProgs({3})
           [] ProgFam = "wide_v4" -> LexProgs({4})
           [] ProgFam = "short" -> ShortProgs({1, 2, 3, 4})
           [] ProgFam = "sets" -> KitchenProgs \cup {LexProg(src, 2) : src \in SomeShort}
           [] ProgFam = "kitchen" -> {p \in TagProgs : p.name \in {"assigncapture", "rawcomment", "liquidmark"}}
           [] ProgFam = "tags" -> TagProgs
           [] ProgFam = "dev" -> {p \in TagProgs : p.name = "assigncapture"}
           [] OTHER -> {}
DotSet == WithRole(Angle, 3, <<".", "<">>)
DSets == {x \in (CASE DSetFam = "few" -> DS_few
                   [] DSetFam = "named" -> DS_named
                   [] DSetFam = "sweep2" -> DS_sweep({1, 3})
                   [] DSetFam = "sweep6" -> DS_sweep({1, 2, 3, 4, 5, 6})
                   [] DSetFam = "sampled" -> DS_sampled(SeedLo, SeedHi)
                   [] DSetFam = "dot" -> {DotSet}
                   [] OTHER -> {}) : SetOK(x)}

(* an output statement that is never closed: `open` tokens are written without the closing delimiter *)
PieceX(t, d) == IF t.k = "open" THEN d.ss \o Sp \o t.v ELSE Piece(t, d)
RECURSIVE CatX(_, _, _)
CatX(toks, d, k) == IF k > Len(toks) THEN <<>> ELSE PieceX(toks[k], d) \o CatX(toks, d, k + 1)
HasOpen(toks) == \E k \in 1..Len(toks) : toks[k].k = "open"
RewriteX(toks, d) == IF HasOpen(toks) THEN CatX(toks, d, 1) ELSE Rewrite(toks, d)
(* for a program with an unclosed statement: the closed part is admissible and the tail holds no delimiter at all *)
AdmissibleX(toks, d) ==
  IF HasOpen(toks)
  THEN /\ toks[Len(toks)].k = "open"
       /\ Admissible(SubSeq(toks, 1, Len(toks) - 1), d)
       /\ OccursOnlyWhereMeant(RewriteX(toks, d), d,
                               Meant(SubSeq(toks, 1, Len(toks) - 1), d, 1, 0) \cup {<<Len(Rewrite(SubSeq(toks, 1, Len(toks) - 1), d)) + 1, 3>>})
  ELSE Admissible(toks, d)

(* ---- the reference scanner ---------------------------------------------------------------------- *)
VARIABLES prog, d, s, p, scanned, alts, verdict
vars == <<prog, d, s, p, scanned, alts, verdict>>

EqP(a, b) == a = b \/ (Unescaped /\ b = ".")               \* b is a character of the pattern
AtP(t, q, w) == /\ q >= 1 /\ q + Len(w) - 1 <= Len(t)
                /\ \A j \in 1..Len(w) : EqP(t[q + j - 1], w[j])
RECURSIVE Find(_, _, _)
Find(t, q, w) == IF q + Len(w) - 1 > Len(t) THEN 0 ELSE IF AtP(t, q, w) THEN q ELSE Find(t, q + 1, w)
RECURSIVE SkipWs(_, _)
SkipWs(t, q) == IF q <= Len(t) /\ t[q] \in Ws THEN SkipWs(t, q + 1) ELSE q
RECURSIVE RTrim(_)
RTrim(t) == IF t # <<>> /\ t[Len(t)] \in Ws THEN RTrim(SubSeq(t, 1, Len(t) - 1)) ELSE t

(* `open -? \s* (inner, shortest) \s* (-?) close` at position q *)
NoMatch == [ok |-> FALSE, l |-> FALSE, r |-> FALSE, v |-> <<>>, end |-> 0]
Markup(t, q, o, c) ==
  IF o = <<>> \/ ~AtP(t, q, o) THEN NoMatch
  ELSE LET q1 == q + Len(o)
           l == q1 <= Len(t) /\ t[q1] = "-"
           q2 == SkipWs(t, IF l THEN q1 + 1 ELSE q1)
           e == Find(t, q1, c)
       IN IF e = 0 THEN NoMatch
          ELSE LET r == e - 1 >= q2 /\ t[e - 1] = "-"
                   last == IF r THEN e - 2 ELSE e - 1
               IN [ok |-> TRUE, l |-> l, r |-> r, v |-> IF last >= q2 THEN RTrim(SubSeq(t, q2, last)) ELSE <<>>, end |-> e + Len(c)]
RECURSIVE FindTag(_, _, _)
FindTag(t, q, name) ==         \* the first tag at or after q whose whole content is `name`
  IF q > Len(t) THEN 0
  ELSE LET m == Markup(t, q, d.ts, d.te) IN IF m.ok /\ m.v = name THEN q ELSE FindTag(t, q + 1, name)
BlockAt(q, name, endname) ==
  LET m == Markup(s, q, d.ts, d.te)
      c == IF m.ok /\ m.v = name THEN FindTag(s, m.end, endname) ELSE 0
  IN [ok |-> c # 0, open |-> m, at |-> c, close |-> IF c # 0 THEN Markup(s, c, d.ts, d.te) ELSE NoMatch]
RECURSIVE NextStart(_, _)
NextStart(t, q) == IF q > Len(t) THEN q
                   ELSE IF AtP(t, q, d.ts) \/ AtP(t, q, d.ss) \/ (d.cs # <<>> /\ AtP(t, q, d.cs)) THEN q ELSE NextStart(t, q + 1)
(* the alternatives in the order the tokenizer tries them *)
Alt(q) == IF BlockAt(q, wRaw, wEndraw).ok THEN "raw"
          ELSE IF BlockAt(q, wDoc, wEnddoc).ok THEN "doc"
          ELSE IF Markup(s, q, d.cs, d.ce).ok THEN "comment"
          ELSE IF Markup(s, q, d.ss, d.se).ok THEN "output"
          ELSE IF Markup(s, q, d.ts, d.te).ok THEN "tag"
          ELSE "content"

Gen == Mode = "gen"
Init == /\ Gen
        /\ prog \in Progs
        /\ d \in DSets
        /\ s = <<>> /\ p = 1 /\ scanned = <<>> /\ alts = {} /\ verdict = "new"

(* the pair is kept only if the set is admissible for the program; then the program is rewritten *)
Prepare ==
  /\ Gen /\ verdict = "new"
  /\ IF AdmissibleX(prog.toks, d)
     THEN s' = RewriteX(prog.toks, d) /\ verdict' = "scan"
     ELSE s' = s /\ verdict' = "rejected"
  /\ UNCHANGED <<prog, d, p, scanned, alts>>

(* one step of the scanner: the first alternative that matches at p; `alts` remembers which ones were taken *)
BlockStep(a, name, endname) ==
  LET b == BlockAt(p, name, endname)
      body == SubSeq(s, b.open.end, b.at - 1)
  IN /\ scanned' = scanned \o <<G(name, b.open.l, b.open.r)>> \o (IF body = <<>> THEN <<>> ELSE <<T(body)>>)
                            \o <<G(endname, b.close.l, b.close.r)>>
     /\ p' = b.close.end
OneStep(o, c, k) ==
  LET m == Markup(s, p, o, c)
  IN /\ scanned' = Append(scanned, [k |-> k, v |-> m.v, l |-> m.l, r |-> m.r, lines |-> <<>>])
     /\ p' = m.end
ContentStep ==
  LET e == NextStart(s, p + 1)
  IN /\ scanned' = Append(scanned, T(SubSeq(s, p, e - 1)))
     /\ p' = e
Scan ==
  /\ Gen /\ verdict = "scan" /\ p <= Len(s)
  /\ LET a == Alt(p)
     IN /\ CASE a = "raw" -> BlockStep(a, wRaw, wEndraw)
               [] a = "doc" -> BlockStep(a, wDoc, wEnddoc)
               [] a = "comment" -> OneStep(d.cs, d.ce, "cmt")
               [] a = "output" -> OneStep(d.ss, d.se, "out")
               [] a = "tag" -> OneStep(d.ts, d.te, "tag")
               [] a = "content" -> ContentStep
        /\ alts' = alts \cup {a}
  /\ UNCHANGED <<prog, d, s, verdict>>

(* ---- the observer (Mode = "judge") ---------------------------------------------------------------- *)
(* one observation: [exp, runs]; exp is what the specification says ("ok:<text>", "err", "none");      *)
(* runs[j] = [sync, async] the outcomes under the j-th delimiter set, "ok:<text>" or "err:<class>"      *)
Obs == IF Mode = "judge" THEN JsonDeserialize(IOEnv.TRACE_FILE) ELSE <<>>
SyncAsyncAgree(r) == \A j \in 1..Len(r.runs) : r.runs[j].sync = r.runs[j].async
MatchesSpec(r) == \A j \in 1..Len(r.runs) :
                     CASE r.exp.k = "ok" -> r.runs[j].sync = r.exp
                       [] r.exp.k = "err" -> r.runs[j].sync.k = "err"
                       [] OTHER -> TRUE
SameAcrossSets(r) == \A j1, j2 \in 1..Len(r.runs) : r.runs[j1].sync = r.runs[j2].sync     \* same output, or the same class of error
DelimiterIndependence(r) == SyncAsyncAgree(r) /\ MatchesSpec(r) /\ SameAcrossSets(r)
JInit == /\ Mode = "judge"
         /\ p \in 1..Len(Obs)
         /\ prog = <<>> /\ d = <<>> /\ s = <<>> /\ scanned = <<>> /\ alts = {} /\ verdict = "pending"
Judge == /\ Mode = "judge" /\ verdict = "pending"
         /\ verdict' = IF ~SameAcrossSets(Obs[p]) THEN "SameAcrossSets"
                       ELSE IF ~MatchesSpec(Obs[p]) THEN "MatchesSpec"
                       ELSE IF ~SyncAsyncAgree(Obs[p]) THEN "SyncAsyncAgree"
                       ELSE "holds"
         /\ UNCHANGED <<prog, d, s, p, scanned, alts>>

Next == Prepare \/ Scan \/ Judge
Spec == (Init \/ JInit) /\ [][Next]_vars

-----------------------------------------------------------------------------
Done == Gen /\ verdict = "scan" /\ p = Len(s) + 1
(* what the scanner must read back: the tokens that were written; a liquid tag is a tag whose content is its lines *)
WrittenTok(t) == IF t.k = "lq" THEN G(Payload(t, d), t.l, t.r)
                 ELSE IF t.k = "open" THEN T(d.ss \o Sp \o t.v) ELSE t
RECURSIVE WrittenFrom(_)
WrittenFrom(k) == IF k > Len(prog.toks) THEN <<>> ELSE <<WrittenTok(prog.toks[k])>> \o WrittenFrom(k + 1)
Written == WrittenFrom(1)
ScanRecovers == Done => scanned = Written
(* the position only moves forward and never passes the end *)
ScanAdvances == Gen => (p >= 1 /\ p <= Len(s) + 1)
(* nothing of the text is lost or invented by the scanner: pieces are contiguous *)
ASSUME NamedSetsOK == \A n \in 1..Len(Named) : SetOK(Named[n])
ASSUME DefaultOK == SetOK(Default) /\ SetOK(DefaultC)

Emit == Done => PrintT(ToJson([name |-> prog.name, v |-> prog.v, src |-> prog.src, toks |-> IF prog.name = "lexer" THEN <<>> ELSE prog.toks, d |-> d,
                               source |-> s, exp |-> prog.exp, err |-> prog.err, alts |-> alts]))
Report == (Mode = "judge" /\ verdict \notin {"pending", "holds"}) => PrintT(<<"REJECT", p, verdict>>)
Counted == (Mode = "judge" /\ verdict = "holds") => PrintT(<<"ACCEPT", p>>)
=============================================================================
