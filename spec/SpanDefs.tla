------------------------------ MODULE SpanDefs ------------------------------
(* C20 - variable-free definitions shared by Spans.tla (generator) and      *)
(* SpansTrace.tla (judgement of observed error positions).                  *)
(*                                                                          *)
(* A template source is TEXT (a TLC string; Len, \o and SubSeq work on      *)
(* strings in TLC, so the abstract source *is* the character sequence).     *)
(* A FRAGMENT is a piece of source together with the NAME OCCURRENCES in it *)
(*    [t  |-> text,                                                         *)
(*     it |-> sequence of items, in source order,                           *)
(*     ps |-> set of [name, text]: partial templates the fragment loads]    *)
(* and an ITEM is one reportable name occurrence                            *)
(*    [k  |-> kind: "var" "local" "filter" "tag" "itag" "ltag" "bad",       *)
(*     n  |-> the name, o |-> 0-based offset of the occurrence in the       *)
(*     source of template tn ("" = the template under construction),        *)
(*     q  |-> characters between o and the name (2 for ['a b'], else 0),    *)
(*     io, inx |-> offset inside the innermost enclosing EXPRESSION token   *)
(*                 (frozen once the expression is closed: inx),             *)
(*     lo, inl |-> offset inside the enclosing {% liquid %} expression,     *)
(*     ind     |-> indentation stripped in front of its liquid-tag line]    *)
(* The only offset rule is Cat: an item of g that follows f moves by        *)
(* Len(f.t). Everything else (tags, paths, filters, liquid lines) is built  *)
(* from Lit / Name / Cat, so                                                *)
(*    Offset(item) = sum of the lengths of what precedes it + its offset    *)
(*                   inside its own piece.                                  *)
(* io / lo decompose the same number the way the code computes it:          *)
(*    start_index = parent_token.start_index + match.start()                *)
(* (lex.py -> liquid_tag.py -> _tokenize.py).                               *)
EXTENDS Naturals, Sequences, FiniteSets, TLC

Item(kind, name, q) ==
  [k |-> kind, n |-> name, o |-> 0, q |-> q, tn |-> "",
   io |-> 0, inx |-> FALSE, lo |-> 0, inl |-> FALSE, ind |-> 0]

Lit(s) == [t |-> s, it |-> <<>>, ps |-> {}]
Name(kind, s) == [t |-> s, it |-> <<Item(kind, s, 0)>>, ps |-> {}]

(* items of another template (a partial) are positions in THAT source: they do not move *)
ShiftItem(x, d) ==
  IF x.tn # "" THEN x
  ELSE [x EXCEPT !.o = @ + d,
                 !.io = IF x.inx THEN @ ELSE @ + d,
                 !.lo = IF x.inl THEN @ ELSE @ + d]
Shift(its, d) == [i \in 1..Len(its) |-> ShiftItem(its[i], d)]

Cat(f, g) == [t |-> f.t \o g.t, it |-> f.it \o Shift(g.it, Len(f.t)), ps |-> f.ps \cup g.ps]
RECURSIVE CatAll(_)
CatAll(fs) == IF fs = <<>> THEN Lit("") ELSE Cat(fs[1], CatAll(Tail(fs)))

MapOwn(f, Op(_)) == [f EXCEPT !.it = [i \in 1..Len(f.it) |-> IF f.it[i].tn = "" THEN Op(f.it[i]) ELSE f.it[i]]]

(* f is exactly one expression token of the template lexer / liquid-tag lexer *)
AsExpr(f) == LET S(x) == IF x.inx THEN x ELSE [x EXCEPT !.inx = TRUE] IN MapOwn(f, S)
(* f is exactly the expression token of a {% liquid %} tag *)
AsLiquid(f) == LET S(x) == IF x.inl THEN x ELSE [x EXCEPT !.inl = TRUE] IN MapOwn(f, S)
(* f is one line of a liquid tag that had n characters of indentation in front *)
Indented(n, f) == LET S(x) == [x EXCEPT !.ind = n] IN MapOwn(f, S)

(* body is the whole source of the partial template `name` *)
InPartial(name, body) ==
  LET S(x) == [x EXCEPT !.tn = name]
  IN [t |-> "", it |-> MapOwn(body, S).it, ps |-> body.ps \cup {[name |-> name, text |-> body.t]}]

-----------------------------------------------------------------------------
(* positions, lines and columns of a text *)
Ch(text, i) == SubSeq(text, i, i)                       \* 1-based character
Newlines(text) == {i \in 1..Len(text) : Ch(text, i) = "\n"}        \* 1-based positions of the newline characters
SetMax(S) == CHOOSE m \in S : \A x \in S : x <= m
(* line (1-based) and column (0-based) of the 0-based offset o, given the newline positions nl *)
LineAt(nl, o) == 1 + Cardinality({i \in nl : i <= o})
ColAt(nl, o) == o - SetMax({0} \cup {i \in nl : i <= o})
LineOf(text, o) == LineAt(Newlines(text), o)
ColOf(text, o) == ColAt(Newlines(text), o)

(* the name stands at offset o (after q opening characters: bracket and quote) *)
PointsAt(text, o, q, n) ==
  /\ o + q + Len(n) <= Len(text)
  /\ SubSeq(text, o + q + 1, o + q + Len(n)) = n
  /\ (q > 0 => Ch(text, o + 1) = "[")

IsSpace(c) == c \in {" ", "\n", "\t"}
=============================================================================
