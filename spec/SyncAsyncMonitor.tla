-------------------------- MODULE SyncAsyncMonitor --------------------------
(* C01 — the relation between what the synchronous and the asynchronous API   *)
(* made of ONE input, judged on observations recorded from the real engine    *)
(* (batched: one initial state per observation).                              *)
(*   render    [kind |-> "render", s, a]   s, a = [st, out, liquid]           *)
(*   load      [kind |-> "load", s, a]     s, a = [st, name, src, out]        *)
(*   analysis  [kind |-> "analysis", s, a] s, a = [st, sets : Seq of strings] *)
EXTENDS Naturals, Sequences, FiniteSets, TLC, Json, IOUtils

Obs == IF "TRACE_FILE" \in DOMAIN IOEnv THEN JsonDeserialize(IOEnv.TRACE_FILE) ELSE <<>>
VARIABLE tid
Init == tid \in 1..Len(Obs)
Next == UNCHANGED tid
Spec == Init /\ [][Next]_tid

(* the same output, or the same kind of Liquid error; an exception that is not a Liquid error has no place in the specification *)
OnlyLiquid(o) == (o.s.st # "ok" => o.s.liquid) /\ (o.a.st # "ok" => o.a.liquid)
SameStatus(o) == o.s.st = o.a.st
SameOutput(o) == o.s.st = "ok" => o.s.out = o.a.out
SameTemplate(o) == (o.kind = "load" /\ o.s.st = "ok") => (o.s.name = o.a.name /\ o.s.src = o.a.src)
SameAnalysis(o) == (o.kind = "analysis" /\ o.s.st = "ok") => o.s.sets = o.a.sets
Why(o) == IF ~SameStatus(o) THEN "SameStatus" ELSE IF ~SameOutput(o) THEN "SameOutput" ELSE IF ~SameTemplate(o) THEN "SameTemplate"
          ELSE IF ~SameAnalysis(o) THEN "SameAnalysis" ELSE IF ~OnlyLiquid(o) THEN "OnlyLiquid" ELSE "ok"
Judge == IF Why(Obs[tid]) = "ok" THEN PrintT(<<"ACCEPT", tid>>) ELSE PrintT(<<"REJECT", tid, Why(Obs[tid])>>)
=============================================================================
