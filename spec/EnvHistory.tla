----------------------------- MODULE EnvHistory -----------------------------
(* C11, second half — environments in one process do not influence each     *)
(* other.                                                                    *)
(*                                                                           *)
(* "Templates parsed by one environment are unaffected by the delimiters,    *)
(*  tags, filters or tolerance of any other environment in the same process."*)
(*                                                                           *)
(* The process-wide state of the library is three memo tables:               *)
(*   lexMemo   get_lexer(six delimiter strings)  ->  compiled tokenizer      *)
(*   parMemo   get_parser(environment)           ->  Parser bound to an env  *)
(*   (implicit environments of liquid.Template(): one object per argument    *)
(*    tuple; modelled by EnvId)                                              *)
(* A HISTORY is a sequence of operations on up to three environments that    *)
(* differ in exactly one respect from a base configuration (one delimiter,   *)
(* comment syntax on/off, all delimiters, an extra tag, an extra filter, a   *)
(* missing filter, tolerance, implicit instead of explicit, or nothing):     *)
(*   parse(t, e)   parse template t (written for the delimiters of           *)
(*                 environment t) with environment e                         *)
(*   render(k)     render the template produced by the k-th parse            *)
(* The mechanism computes every result THROUGH the memo tables (which        *)
(* tokenizer was handed out, which Parser and therefore whose tag register   *)
(* and tolerance; filters and render-time tolerance come from the            *)
(* environment the template is bound to).  The requirement is                *)
(*   HistoryIndependent: every result equals Alone(operation), the result of *)
(*   the same operation in a process that has done nothing else.             *)
(* It holds because the keys separate what matters; the named deviations     *)
(* (a key that omits one delimiter, a parser memoised per class or per       *)
(* hash tuple) break it, which the deviation configurations demonstrate.     *)
(* Every complete history is emitted with Alone() of each operation; the     *)
(* harness replays it in one process and each operation again in a fresh     *)
(* process.  Mode = "judge" is the observer over those recordings.           *)
EXTENDS DelimDefs, TLC, Json, IOUtils

CONSTANTS Mode,          \* "gen" | "judge"
          MaxOps,        \* operations per history
          NEnvs,         \* 2 or 3 environments
          Vars,          \* variations that make environment 2
          Vars3,         \* variations that make environment 3 (when NEnvs = 3)
          Bases,         \* base configurations (numbers)
          WideFeatures,  \* TRUE: every template feature with every variation
          Deviation      \* "none" | "KeyOmits1".."KeyOmits6" | "ParserPerClass" | "ParserByHash"

ErrParse == "LiquidSyntaxError"
ErrRender == "UnknownFilterError"

(* ---- delimiter sets by number ------------------------------------------------------------------ *)
AltRole(r) == CASE r = 1 -> <<"[", "%">> [] r = 2 -> <<"%", "]">> [] r = 3 -> <<"<", "(">>
                [] r = 4 -> <<")", ">">> [] r = 5 -> <<"<", "#">> [] r = 6 -> <<"#", ">">>
DSetOf(n) == CASE n = 1 -> Default [] n = 2 -> DefaultC [] n = 3 -> Angle [] n = 4 -> AngleNC
               [] OTHER -> WithRole(Angle, n - 4, AltRole(n - 4))           \* 5..10: Angle with one role changed
DIds == 1..10
ASSUME DSetsOK == \A n \in DIds : SetOK(DSetOf(n))

(* ---- configurations ---------------------------------------------------------------------------- *)
Cfg(dn, st, sh, up, md, im) == [d |-> dn, stamp |-> st, shout |-> sh, upcase |-> up, mode |-> md, impl |-> im]
Base(b) == CASE b = 1 -> Cfg(1, FALSE, FALSE, TRUE, "strict", FALSE)
             [] b = 2 -> Cfg(3, FALSE, FALSE, TRUE, "strict", FALSE)
             [] b = 3 -> Cfg(2, FALSE, FALSE, TRUE, "lax", FALSE)
             [] b = 4 -> Cfg(1, FALSE, FALSE, TRUE, "strict", TRUE)          \* liquid.Template(): an implicit environment
AllVars == {"role1", "role2", "role3", "role4", "role5", "role6", "comments", "custom", "stamp", "shout", "noupcase",
            "lax", "warn", "impl", "same"}
RoleOf(v) == CASE v = "role1" -> 1 [] v = "role2" -> 2 [] v = "role3" -> 3 [] v = "role4" -> 4 [] v = "role5" -> 5 [] v = "role6" -> 6 [] OTHER -> 0
Applicable(c, v) ==
  CASE RoleOf(v) # 0 -> c.d = 3
    [] v = "comments" -> c.d \in 1..4
    [] v = "custom" -> c.d \in 1..3
    [] v \in {"lax", "warn"} -> c.mode # v
    [] v = "impl" -> ~c.stamp /\ ~c.shout /\ c.upcase /\ ~c.impl
    [] v \in {"stamp", "shout", "noupcase"} -> ~c.impl                        \* liquid.Template() cannot register anything
    [] OTHER -> TRUE
Apply(c, v) ==
  CASE RoleOf(v) # 0 -> [c EXCEPT !.d = 4 + RoleOf(v)]
    [] v = "comments" -> [c EXCEPT !.d = CASE c.d = 1 -> 2 [] c.d = 2 -> 1 [] c.d = 3 -> 4 [] c.d = 4 -> 3]
    [] v = "custom" -> [c EXCEPT !.d = IF c.d = 3 THEN 1 ELSE 3]
    [] v = "stamp" -> [c EXCEPT !.stamp = TRUE]
    [] v = "shout" -> [c EXCEPT !.shout = TRUE]
    [] v = "noupcase" -> [c EXCEPT !.upcase = FALSE]
    [] v = "lax" -> [c EXCEPT !.mode = "lax"]
    [] v = "warn" -> [c EXCEPT !.mode = "warn"]
    [] v = "impl" -> [c EXCEPT !.impl = TRUE]
    [] v = "same" -> c
(* which template feature is worth pairing with a variation (all of them when WideFeatures) *)
Features == {"plain", "stamp", "shout"}
Relevant(v, f) == \/ WideFeatures
                  \/ f = "plain" /\ v \notin {"stamp", "shout"}
                  \/ f = "stamp" /\ v \in {"stamp", "lax", "warn", "same"}
                  \/ f = "shout" /\ v \in {"shout", "lax", "warn", "impl"}

(* ---- templates ------------------------------------------------------------------------------------ *)
F == FALSE
KToks(f, comments) ==
  <<T(<<"a">>), O(wOup, F, F), G(wIfTrue, F, F), T(<<"Y">>), G(wEndif, F, F)>>
  \o (IF f = "stamp" THEN <<G(wStamp, F, F)>> ELSE <<>>)
  \o (IF f = "shout" THEN <<O(wXshout, F, F)>> ELSE <<>>)
  \o (IF comments THEN <<C(wC, F, F), Q(<<Ln("mark", wNote), Ln("tag", wEchoM)>>, F, F)>> ELSE <<>>)
  \o <<T(<<"b">>)>>
Src(dn, f) == Rewrite(KToks(f, HasComments(DSetOf(dn))), DSetOf(dn))
ASSUME TemplatesAdmissible == \A dn \in DIds : \A f \in Features : Admissible(KToks(f, HasComments(DSetOf(dn))), DSetOf(dn))
(* a template written for delimiters td is nothing but text for delimiters ed *)
ForeignTriples == {x \in DIds \X DIds \X Features : OccursOnlyWhereMeant(Src(x[1], x[3]), DSetOf(x[2]), {})}    \* evaluated once
Foreign(td, ed, f) == <<td, ed, f>> \in ForeignTriples

VARIABLES cfgs,        \* the environments' configurations, in creation order
          feat,        \* the feature the templates of this history use
          hist,        \* operations so far: [op, t, e, k, got, alone]
          lexMemo,     \* set of [key, d]: the tokenizer handed out for `key` was compiled for delimiter set d
          parMemo,     \* set of [key, e]: the Parser handed out for `key` is bound to environment e
          parses,      \* one entry per parse operation: [ok, t, e, dl, pe]
          verdict, obsi
vars == <<cfgs, feat, hist, lexMemo, parMemo, parses, verdict, obsi>>
Gen == Mode = "gen"

(* ---- keys -------------------------------------------------------------------------------------------- *)
Omitted == CASE Deviation = "KeyOmits1" -> 1 [] Deviation = "KeyOmits2" -> 2 [] Deviation = "KeyOmits3" -> 3
             [] Deviation = "KeyOmits4" -> 4 [] Deviation = "KeyOmits5" -> 5 [] Deviation = "KeyOmits6" -> 6 [] OTHER -> 0
KeyPart(dn, r) == IF r = Omitted THEN <<>> ELSE Role(DSetOf(dn), r)
LexKey(dn) == <<KeyPart(dn, 1), KeyPart(dn, 2), KeyPart(dn, 3), KeyPart(dn, 4), KeyPart(dn, 5), KeyPart(dn, 6)>>
(* liquid.Template() hands out one environment object per argument tuple; explicit environments are themselves *)
EnvId(e) == IF cfgs[e].impl THEN CHOOSE m \in 1..e : cfgs[m] = cfgs[e] /\ \A m2 \in 1..(m - 1) : cfgs[m2] # cfgs[e] ELSE e
ParKey(e) == CASE Deviation = "ParserPerClass" -> <<"class">>
               [] Deviation = "ParserByHash" -> <<"hash", DSetOf(cfgs[e].d), cfgs[e].mode>>
               [] OTHER -> <<"env", EnvId(e)>>
Lookup(memo, key, fresh) == IF \E m \in memo : m.key = key THEN (CHOOSE m \in memo : m.key = key).v ELSE fresh
Remember(memo, key, fresh) == IF \E m \in memo : m.key = key THEN memo ELSE memo \cup {[key |-> key, v |-> fresh]}

(* ---- what an operation yields ------------------------------------------------------------------------ *)
Ok == [k |-> "ok", v |-> <<>>]
Err(c) == [k |-> "err", v |-> <<c>>]
Out(chars) == [k |-> "out", v |-> chars]
Garbled == [k |-> "garbled", v |-> <<>>]
(* how a tokenizer compiled for dl reads a template written for td *)
Reading(td, dl, f) == IF dl = td THEN "full" ELSE IF Foreign(td, dl, f) THEN "text" ELSE "garbled"
(* tags and parse-time tolerance come from the Parser's environment pe *)
ParseResult(t, dl, pe) ==
  LET rd == Reading(cfgs[t].d, dl, feat)
  IN IF rd = "garbled" THEN Garbled
     ELSE IF rd = "full" /\ feat = "stamp" /\ ~cfgs[pe].stamp /\ cfgs[pe].mode = "strict" THEN Err(ErrParse)
     ELSE Ok
(* filters and render-time tolerance come from the environment the template is bound to *)
RenderResult(t, dl, pe, e) ==
  LET rd == Reading(cfgs[t].d, dl, feat)
      tg == cfgs[pe]
      fl == cfgs[e]
  IN IF rd = "garbled" THEN Garbled
     ELSE IF rd = "text" THEN Out(Src(cfgs[t].d, feat))
     ELSE IF fl.mode = "strict" /\ (~fl.upcase \/ (feat = "shout" /\ ~fl.shout)) THEN Err(ErrRender)
     ELSE Out(<<"a">> \o (IF fl.upcase THEN <<"O">> ELSE <<>>) \o <<"Y">>
              \o (IF feat = "stamp" /\ tg.stamp THEN <<"S">> ELSE <<>>)
              \o (IF feat = "shout" /\ fl.shout THEN <<"X", "!">> ELSE <<>>)
              \o (IF HasComments(DSetOf(cfgs[t].d)) THEN <<"m">> ELSE <<>>)          \* the liquid tag after the comment
              \o <<"b">>)

(* ---- the history --------------------------------------------------------------------------------------- *)
Init == /\ Gen
        /\ \E b \in Bases : \E v \in Vars :
             /\ Applicable(Base(b), v)
             /\ feat \in {f \in Features : Relevant(v, f)}
             /\ IF NEnvs = 2 THEN cfgs = <<Base(b), Apply(Base(b), v)>>
                ELSE \E v3 \in Vars3 : Applicable(Base(b), v3) /\ cfgs = <<Base(b), Apply(Base(b), v), Apply(Base(b), v3)>>
        /\ hist = <<>> /\ lexMemo = {} /\ parMemo = {} /\ parses = <<>>
        /\ verdict = "" /\ obsi = 0

(* template t stands for "the template written for environment t's delimiters"; equal delimiters, equal template *)
Rep(t) == \A t2 \in 1..(t - 1) : cfgs[t2].d # cfgs[t].d
Parse(t, e) ==
  /\ Gen /\ Len(hist) < MaxOps
  /\ Rep(t)
  /\ cfgs[t].d = cfgs[e].d \/ Foreign(cfgs[t].d, cfgs[e].d, feat)          \* otherwise the outcome is outside the family
  /\ LET lk == LexKey(cfgs[e].d)
         dl == Lookup(lexMemo, lk, cfgs[e].d)                            \* Environment.tokenizer() -> get_lexer(...)
         pk == ParKey(e)
         pe == Lookup(parMemo, pk, EnvId(e))                             \* get_parser(env)
         got == ParseResult(t, dl, pe)
     IN /\ lexMemo' = Remember(lexMemo, lk, cfgs[e].d)
        /\ parMemo' = Remember(parMemo, pk, EnvId(e))
        /\ parses' = Append(parses, [ok |-> got = Ok, t |-> t, e |-> e, dl |-> dl, pe |-> pe])
        /\ hist' = Append(hist, [op |-> "parse", t |-> t, e |-> e, k |-> 0, got |-> got,
                                 alone |-> ParseResult(t, cfgs[e].d, e)])
  /\ UNCHANGED <<cfgs, feat, verdict, obsi>>
Render(k) ==
  /\ Gen /\ Len(hist) < MaxOps
  /\ k \in 1..Len(parses) /\ parses[k].ok
  /\ LET q == parses[k]
     IN hist' = Append(hist, [op |-> "render", t |-> q.t, e |-> q.e, k |-> k, got |-> RenderResult(q.t, q.dl, q.pe, q.e),
                              alone |-> RenderResult(q.t, cfgs[q.e].d, q.e, q.e)])
  /\ UNCHANGED <<cfgs, feat, lexMemo, parMemo, parses, verdict, obsi>>

(* ---- the observer (Mode = "judge") ------------------------------------------------------------------------ *)
(* one observation per history: ops[j] = [inhist, alone, spec], outcomes [k, v] as strings                       *)
Obs == IF Mode = "judge" THEN JsonDeserialize(IOEnv.TRACE_FILE) ELSE <<>>
SameAsAlone(r) == \A j \in 1..Len(r.ops) : r.ops[j].inhist = r.ops[j].alone
AloneMatchesSpec(r) == \A j \in 1..Len(r.ops) : r.ops[j].alone = r.ops[j].spec
JInit == /\ Mode = "judge"
         /\ obsi \in 1..Len(Obs)
         /\ cfgs = <<>> /\ feat = "" /\ hist = <<>> /\ lexMemo = {} /\ parMemo = {} /\ parses = <<>> /\ verdict = "pending"
Judge == /\ Mode = "judge" /\ verdict = "pending"
         /\ verdict' = IF ~SameAsAlone(Obs[obsi]) THEN "HistoryIndependent"
                       ELSE IF ~AloneMatchesSpec(Obs[obsi]) THEN "AloneMatchesSpec" ELSE "holds"
         /\ UNCHANGED <<cfgs, feat, hist, lexMemo, parMemo, parses, obsi>>

Next == (\E t \in 1..NEnvs : \E e \in 1..NEnvs : Parse(t, e)) \/ (\E k \in 1..MaxOps : Render(k)) \/ Judge
Spec == (Init \/ JInit) /\ [][Next]_vars

-----------------------------------------------------------------------------
Done == Gen /\ Len(hist) = MaxOps
(* THE requirement: no operation's result depends on what the process did before *)
HistoryIndependent == \A j \in 1..Len(hist) : hist[j].got = hist[j].alone
(* the tables never hand out something built for another configuration *)
LexMemoFaithful == \A m \in lexMemo : LexKey(m.v) = m.key
ParMemoFaithful == Gen => \A m \in parMemo : \E e \in 1..Len(cfgs) : ParKey(e) = m.key /\ EnvId(e) = m.v
(* a history starts with a parse, and renders only what was parsed *)
WellFormed == /\ hist # <<>> => hist[1].op = "parse"
              /\ \A j \in 1..Len(hist) : hist[j].op = "render" => (hist[j].k \in 1..Len(parses) /\ parses[hist[j].k].ok)
(* within the family nothing is ever garbled when the keys are right *)
NeverGarbled == \A j \in 1..Len(hist) : hist[j].alone.k # "garbled"

RECURSIVE SrcsFrom(_)
SrcsFrom(t) == IF t > Len(cfgs) THEN <<>> ELSE <<Src(cfgs[t].d, feat)>> \o SrcsFrom(t + 1)
RECURSIVE DelimsFrom(_)
DelimsFrom(e) == IF e > Len(cfgs) THEN <<>> ELSE <<DSetOf(cfgs[e].d)>> \o DelimsFrom(e + 1)
Emit == Done => PrintT(ToJson([cfgs |-> cfgs, delims |-> DelimsFrom(1), feat |-> feat, srcs |-> SrcsFrom(1), hist |-> hist]))
Report == (Mode = "judge" /\ verdict \notin {"pending", "holds"}) => PrintT(<<"REJECT", obsi, verdict>>)
Counted == (Mode = "judge" /\ verdict = "holds") => PrintT(<<"ACCEPT", obsi>>)
=============================================================================
