---------------------------- MODULE FilterValues ----------------------------
(* Typed value model for the filter contracts of C25 (spec/Filters.tla).     *)
(*                                                                           *)
(* A Liquid value is a tagged record.  Text is a sequence of one-character   *)
(* strings (TLC strings are not sequences); the harness joins them.          *)
(* Integers are exact; decimals are exact *centi-units* (1.5 = Dec(150)):    *)
(* inputs carry at most one decimal digit, so sums, differences, products    *)
(* and remainders of inputs are exactly representable with two.  A "huge"    *)
(* integer is the symbolic value m*H + k with H = 10^20 in the harness (TLC  *)
(* integers are 32 bit): arithmetic that stays inside {m*H + k} is exact,    *)
(* everything else involving a huge operand is left unspecified.             *)
(* This module does not share records with Values.tla (those carry pool ids  *)
(* that computed results cannot have); the equality rule EqL below is the    *)
(* same rule as Values!EqV (numbers by value, true is not 1, nil ~ undefined)*)
EXTENDS Integers, Sequences, FiniteSets, TLC

IntV(n) == [t |-> "int", n |-> n]
Dec(c) == [t |-> "dec", c |-> c]                    \* centi-units
Big(m, k) == [t |-> "big", m |-> m, k |-> k]        \* m * H + k,  m \in {1, -1}
Str(s) == [t |-> "str", s |-> s]
Bool(b) == [t |-> "bool", b |-> b]
Nil == [t |-> "nil"]
Undef == [t |-> "undef"]
Lst(xs) == [t |-> "list", xs |-> xs]
Dct(kv) == [t |-> "dict", kv |-> kv]                \* sequence of <<key, value>>, key a one-character string
Kw(name, v) == [t |-> "kw", name |-> name, v |-> v] \* a keyword argument
Opaque == [t |-> "opaque"]                          \* a value the model does not determine

Abs(x) == IF x < 0 THEN 0 - x ELSE x
Mx(a, b) == IF a > b THEN a ELSE b
Mn(a, b) == IF a < b THEN a ELSE b
(* floor division / floor modulus for any non-zero divisor (the integer rule of Liquid, Ruby and Python) *)
FloorDiv(a, b) ==
  LET q == Abs(a) \div Abs(b)
      exact == (Abs(a) % Abs(b)) = 0
  IN IF a = 0 THEN 0
     ELSE IF (a > 0) = (b > 0) THEN q
     ELSE IF exact THEN 0 - q ELSE 0 - q - 1
FloorMod(a, b) == a - b * FloorDiv(a, b)
(* truncating remainder (sign of the dividend): what decimal.Decimal.__mod__ computes *)
TruncMod(a, b) == LET r == Abs(a) % Abs(b) IN IF a < 0 THEN 0 - r ELSE r
Divides(b, a) == b # 0 /\ (Abs(a) % Abs(b)) = 0

(* ---- characters and text ------------------------------------------------------------------ *)
Digits == <<"0", "1", "2", "3", "4", "5", "6", "7", "8", "9">>
IsDigit(c) == \E d \in 1..10 : Digits[d] = c
DigitOf(c) == (CHOOSE d \in 1..10 : Digits[d] = c) - 1
IsWs(c) == c \in {" ", "\n", "\t"}
Up(c) == CASE c = "a" -> "A" [] c = "b" -> "B" [] OTHER -> c
Down(c) == CASE c = "A" -> "a" [] c = "B" -> "b" [] OTHER -> c
Ord(c) == CASE c = "\t" -> 9 [] c = "\n" -> 10 [] c = " " -> 32 [] c = "-" -> 45 [] c = "." -> 46
            [] IsDigit(c) -> 48 + DigitOf(c)
            [] c = "A" -> 65 [] c = "B" -> 66 [] c = "a" -> 97 [] c = "b" -> 98 [] OTHER -> 120
UpS(s) == [i \in 1..Len(s) |-> Up(s[i])]
DownS(s) == [i \in 1..Len(s) |-> Down(s[i])]
RECURSIVE StrLt(_, _)
StrLt(x, y) == IF y = <<>> THEN FALSE
               ELSE IF x = <<>> THEN TRUE
               ELSE IF Ord(Head(x)) # Ord(Head(y)) THEN Ord(Head(x)) < Ord(Head(y))
               ELSE StrLt(Tail(x), Tail(y))
StrLe(x, y) == x = y \/ StrLt(x, y)
Prefix(s, n) == SubSeq(s, 1, Mn(Mx(n, 0), Len(s)))
Suffix(s, n) == SubSeq(s, Len(s) - Mn(Mx(n, 0), Len(s)) + 1, Len(s))
EndsWith(s, e) == Len(e) <= Len(s) /\ Suffix(s, Len(e)) = e
RECURSIVE LStrip(_)
LStrip(s) == IF s # <<>> /\ IsWs(s[1]) THEN LStrip(Tail(s)) ELSE s
RECURSIVE RStrip(_)
RStrip(s) == IF s # <<>> /\ IsWs(s[Len(s)]) THEN RStrip(SubSeq(s, 1, Len(s) - 1)) ELSE s
MatchAt(s, sep, i) == i + Len(sep) - 1 <= Len(s) /\ SubSeq(s, i, i + Len(sep) - 1) = sep
RECURSIVE Flat(_)
Flat(ss) == IF ss = <<>> THEN <<>> ELSE Head(ss) \o Flat(Tail(ss))
RECURSIVE JoinWith(_, _)
JoinWith(ss, sep) == IF ss = <<>> THEN <<>>
                     ELSE IF Len(ss) = 1 THEN ss[1]
                     ELSE ss[1] \o sep \o JoinWith(Tail(ss), sep)
(* split on every non-overlapping occurrence of a non-empty separator, left to right; empty pieces are kept *)
RECURSIVE SplitOn(_, _)
SplitOn(s, sep) ==
  IF \E i \in 1..Len(s) : MatchAt(s, sep, i)
  THEN LET i == CHOOSE i \in 1..Len(s) : MatchAt(s, sep, i) /\ \A j \in 1..(i - 1) : ~MatchAt(s, sep, j)
       IN <<SubSeq(s, 1, i - 1)>> \o SplitOn(SubSeq(s, i + Len(sep), Len(s)), sep)
  ELSE <<s>>
(* maximal runs of non-whitespace *)
RECURSIVE Words(_)
Words(s) ==
  LET u == LStrip(s)
  IN IF u = <<>> THEN <<>>
     ELSE LET n == IF \E i \in 1..Len(u) : IsWs(u[i]) THEN CHOOSE i \in 1..Len(u) : IsWs(u[i]) /\ \A j \in 1..(i - 1) : ~IsWs(u[j])
                   ELSE Len(u) + 1
          IN <<SubSeq(u, 1, n - 1)>> \o Words(SubSeq(u, n, Len(u)))

(* ---- numbers <-> text ---------------------------------------------------------------------- *)
RECURSIVE NatStr(_)
NatStr(n) == IF n < 10 THEN <<Digits[n + 1]>> ELSE NatStr(n \div 10) \o <<Digits[(n % 10) + 1]>>
IntStr(n) == IF n < 0 THEN <<"-">> \o NatStr(0 - n) ELSE NatStr(n)
DecStr(c) == LET a == Abs(c)
                 frac == a % 100
             IN (IF c < 0 THEN <<"-">> ELSE <<>>) \o NatStr(a \div 100) \o <<".">>
                \o (IF frac % 10 = 0 THEN <<Digits[(frac \div 10) + 1]>> ELSE <<Digits[(frac \div 10) + 1], Digits[(frac % 10) + 1]>>)
RECURSIVE NatVal(_)
NatVal(s) == IF s = <<>> THEN 0 ELSE NatVal(SubSeq(s, 1, Len(s) - 1)) * 10 + DigitOf(s[Len(s)])
AllDigits(s) == Len(s) > 0 /\ \A i \in 1..Len(s) : IsDigit(s[i])
NoNum == [ok |-> FALSE, isdec |-> FALSE, c |-> 0]
DotAt(s, i) == s[i] = "." /\ AllDigits(SubSeq(s, 1, i - 1)) /\ AllDigits(SubSeq(s, i + 1, Len(s))) /\ Len(s) - i <= 2
ParseUnsigned(s) ==
  IF AllDigits(s) THEN [ok |-> TRUE, isdec |-> FALSE, c |-> NatVal(s) * 100]
  ELSE IF \E i \in 1..Len(s) : DotAt(s, i)
  THEN LET i == CHOOSE i \in 1..Len(s) : DotAt(s, i)
           fr == SubSeq(s, i + 1, Len(s))
       IN [ok |-> TRUE, isdec |-> TRUE, c |-> NatVal(SubSeq(s, 1, i - 1)) * 100 + (IF Len(fr) = 1 THEN NatVal(fr) * 10 ELSE NatVal(fr))]
  ELSE NoNum
ParseNum(s) == IF Len(s) > 1 /\ s[1] = "-"
               THEN LET p == ParseUnsigned(Tail(s)) IN [ok |-> p.ok, isdec |-> p.isdec, c |-> 0 - p.c]
               ELSE ParseUnsigned(s)

(* the number a value stands for in an arithmetic filter: "if that conversion fails, 0 is used instead" *)
Zero == [isdec |-> FALSE, c |-> 0]
NumOf(v) == CASE v.t = "int" -> [isdec |-> FALSE, c |-> v.n * 100]
              [] v.t = "dec" -> [isdec |-> TRUE, c |-> v.c]
              [] v.t = "str" -> (LET p == ParseNum(v.s) IN IF p.ok THEN [isdec |-> p.isdec, c |-> p.c] ELSE Zero)
              [] OTHER -> Zero
MkNum(isdec, c) == IF isdec THEN Dec(c) ELSE IntV(FloorDiv(c, 100))
IsNumV(v) == v.t \in {"int", "dec"}
Centi(v) == IF v.t = "int" THEN v.n * 100 ELSE v.c

(* the text a string filter works on: "if the input is not a string it is converted to a string"; nil and undefined are "" *)
HasText(v) == v.t \in {"str", "int", "dec", "nil", "undef"}
TextOf(v) == CASE v.t = "str" -> v.s [] v.t = "int" -> IntStr(v.n) [] v.t = "dec" -> DecStr(v.c) [] OTHER -> <<>>

(* ---- equality and order of values ------------------------------------------------------------ *)
RECURSIVE EqL(_, _)
EqL(a, b) ==
  CASE a.t = "bool" \/ b.t = "bool" -> a.t = b.t /\ a.b = b.b                 \* true is not 1
    [] IsNumV(a) /\ IsNumV(b) -> Centi(a) = Centi(b)                          \* 1 == 1.0
    [] a.t \in {"nil", "undef"} /\ b.t \in {"nil", "undef"} -> TRUE
    [] a.t = "str" /\ b.t = "str" -> a.s = b.s
    [] a.t = "list" /\ b.t = "list" -> Len(a.xs) = Len(b.xs) /\ \A i \in 1..Len(a.xs) : EqL(a.xs[i], b.xs[i])
    [] a.t = "dict" /\ b.t = "dict" -> Len(a.kv) = Len(b.kv) /\ \A i \in 1..Len(a.kv) : a.kv[i][1] = b.kv[i][1] /\ EqL(a.kv[i][2], b.kv[i][2])
    [] OTHER -> FALSE
(* Python's == on the same values: bool is an int (named deviation PythonBoolIsInt) *)
AsPyNum(v) == IF v.t = "bool" THEN IntV(IF v.b THEN 1 ELSE 0) ELSE v
EqPy(a, b) == IF (a.t = "bool" \/ b.t = "bool") /\ AsPyNum(a).t \in {"int", "dec"} /\ AsPyNum(b).t \in {"int", "dec"}
              THEN Centi(AsPyNum(a)) = Centi(AsPyNum(b)) ELSE EqL(a, b)

RECURSIVE Flatten(_)
Flatten(xs) == IF xs = <<>> THEN <<>>
               ELSE IF Head(xs).t = "list" THEN Flatten(Head(xs).xs) \o Flatten(Tail(xs))
               ELSE <<Head(xs)>> \o Flatten(Tail(xs))
HasKey(d, k) == \E i \in 1..Len(d.kv) : d.kv[i][1] = k
Get(d, k) == d.kv[CHOOSE i \in 1..Len(d.kv) : d.kv[i][1] = k][2]
GetOrNil(d, k) == IF HasKey(d, k) THEN Get(d, k) ELSE Nil
(* multiset equality of two sequences *)
SamePerm(xs, ys) == Len(xs) = Len(ys) /\ \E p \in Permutations(1..Len(xs)) : \A i \in 1..Len(xs) : ys[i] = xs[p[i]]
(* ys is xs with some items deleted, order kept *)
RECURSIVE IsSubseq(_, _)
IsSubseq(ys, xs) == IF ys = <<>> THEN TRUE
                    ELSE IF xs = <<>> THEN FALSE
                    ELSE IF Head(ys) = Head(xs) THEN IsSubseq(Tail(ys), Tail(xs))
                    ELSE IsSubseq(ys, Tail(xs))
=============================================================================
