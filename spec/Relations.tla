----------------------------- MODULE Relations -----------------------------
(* Observer machines for properties that relate SEVERAL runs of one input    *)
(* (hyperproperties).  The harness only records observations; the relation   *)
(* is evaluated here, by TLC, on every recorded tuple.                       *)
(*                                                                           *)
(* An observation file is a JSON array of records, each with a field `rel`   *)
(* naming the relation and the fields that relation reads.  Outcomes are     *)
(* strings: "ok:<digest of output>" or "err:<LiquidErrorClass>" or           *)
(* "py:<ExceptionClass>" (an exception that is not a LiquidError).           *)
EXTENDS Naturals, Integers, Sequences, FiniteSets, TLC, Json, IOUtils

Obs == JsonDeserialize(IOEnv.TRACE_FILE)

IsOk(o) == o.k = "ok"
IsErr(o) == o.k = "err"
IsPy(o) == o.k = "py"
UndefinedError == [k |-> "err", v |-> "UndefinedError"]

(* ---- C12: "<=" means "< or ==" (and ">=" likewise) whatever a cell's value is ------------- *)
OrderingConsistent(r) ==
  /\ (r.lt \in {"T", "F"} /\ r.eq \in {"T", "F"} /\ r.le \in {"T", "F"}) => (r.le = "T" <=> (r.lt = "T" \/ r.eq = "T"))
  /\ (r.gt \in {"T", "F"} /\ r.eq \in {"T", "F"} /\ r.ge \in {"T", "F"}) => (r.ge = "T" <=> (r.gt = "T" \/ r.eq = "T"))
  /\ (r.eq \in {"T", "F"} /\ r.ne \in {"T", "F"}) => (r.ne = "T" <=> r.eq = "F")
  /\ (r.lt \in {"T", "F"} /\ r.gtrev \in {"T", "F"}) => r.lt = r.gtrev          \* a < b  <=>  b > a
  /\ (r.lt = "T" => r.gt # "T")                                                  \* never both a < b and a > b
  /\ (r.lt = "E" <=> r.gt = "E")                                                 \* unorderable both ways or neither

(* ---- C01: sync and async agree: same output, or the same class of Liquid error ------------ *)
SyncAsync(r) ==
  /\ ~IsPy(r.sync) /\ ~IsPy(r.async)
  /\ r.sync = r.async

(* ---- C03: lax / warn only suppress ---------------------------------------------------------- *)
Modes(r) ==
  /\ ~IsErr(r.lax) /\ ~IsPy(r.lax)                        \* lax never raises
  /\ ~IsErr(r.warn) /\ ~IsPy(r.warn)                      \* warn never raises
  /\ IsOk(r.strict) => (r.lax = r.strict /\ r.warn = r.strict /\ r.warnings = 0)
  /\ (IsOk(r.warn) /\ IsOk(r.lax)) => r.warn = r.lax      \* warn behaves as lax apart from the warnings
  /\ IsErr(r.strict) => r.warnings >= 1                   \* each suppressed error is reported

(* ---- C08: a limit only aborts; success is monotone in the limit ----------------------------- *)
(* r.sweep : sequence of [v |-> limit value, o |-> outcome], ascending v; r.free : outcome without the limit *)
LimitSweep(r) ==
  /\ \A i \in 1..Len(r.sweep) :
        \/ r.sweep[i].o = r.free
        \/ r.sweep[i].o \in r.limiterrs
  /\ \A i, j \in 1..Len(r.sweep) :
        (i < j /\ IsOk(r.sweep[i].o)) => r.sweep[j].o = r.sweep[i].o

(* ---- C16: strict undefined types only refine the default ------------------------------------ *)
UndefinedRefines(r) ==
  /\ r.default # UndefinedError                                    \* the default type never raises for a missing name
  /\ \A k \in DOMAIN r.strict : IsOk(r.strict[k]) => r.strict[k] = r.default
  /\ \A k \in DOMAIN r.strict : IsErr(r.strict[k]) => r.strict[k] = UndefinedError

(* ---- C04: str() round trip ----------------------------------------------------------------- *)
RoundTrip(r) ==
  /\ r.reparse = "ok"
  /\ r.s2 = r.s1
  /\ \A i \in 1..Len(r.orig) : r.orig[i] = r.again[i]

(* ---- C11: delimiter independence -------------------------------------------------------------- *)
DelimiterIndependence(r) == \A i \in 1..Len(r.alts) : r.alts[i] = r.base

(* ---- C15: caller isolation (self-composition): partial output equal, caller unaffected -------- *)
CallerIsolation(r) == r.partial1 = r.partial2 /\ r.after = r.afterexpected

(* ---- C17: history independence ----------------------------------------------------------------- *)
HistoryIndependence(r) == r.inhistory = r.fresh /\ r.datasame /\ r.templatesame

Holds(r) ==
  CASE r.rel = "OrderingConsistent" -> OrderingConsistent(r)
    [] r.rel = "SyncAsync" -> SyncAsync(r)
    [] r.rel = "Modes" -> Modes(r)
    [] r.rel = "LimitSweep" -> LimitSweep(r)
    [] r.rel = "UndefinedRefines" -> UndefinedRefines(r)
    [] r.rel = "RoundTrip" -> RoundTrip(r)
    [] r.rel = "DelimiterIndependence" -> DelimiterIndependence(r)
    [] r.rel = "CallerIsolation" -> CallerIsolation(r)
    [] r.rel = "HistoryIndependence" -> HistoryIndependence(r)

VARIABLES i, verdict
vars == <<i, verdict>>
Init == i \in 1..Len(Obs) /\ verdict = "pending"
Judge == /\ verdict = "pending"
         /\ verdict' = IF Holds(Obs[i]) THEN "holds" ELSE "violated"
         /\ UNCHANGED i
Next == Judge
Spec == Init /\ [][Next]_vars

Report == verdict = "violated" => PrintT(<<"REJECT", i>>)
Counted == verdict = "holds" => PrintT(<<"ACCEPT", i>>)
=============================================================================
