------------------------------ MODULE TableRow ------------------------------
(* X04 (beyond the listed properties) — the `tablerow` tag.                   *)
(*                                                                           *)
(* What the documentation (docs/tag_reference.md "tablerow", "tablerowloop",  *)
(* docs/environment.md "loop iteration limit") and the reference engine the   *)
(* project declares itself output-compatible with (docs/known_issues.md) fix: *)
(*   - items: the iterable with the first `offset` items dropped, then at     *)
(*     most `limit` items taken (the arguments clamp to the iterable)         *)
(*   - one <tr class="rowR"> per row of `cols` cells (default: one row with   *)
(*     one column per item), one <td class="colC"> per item, the block's      *)
(*     text inside the <td>;  the first <tr> is followed by a newline, every  *)
(*     </tr> is followed by a newline, later <tr>s are not                    *)
(*   - tablerowloop.{length,index,index0,rindex,rindex0,first,last,col,col0,  *)
(*     col_first,col_last,row} in every cell                                  *)
(*   - break / continue in the block are handled by the tablerow itself       *)
(*     (break: the cell is closed, no further cell and NO further row is      *)
(*     opened; continue: the rest of the cell is skipped)                     *)
(*   - forloop in the block is the enclosing for's drop; a for inside the     *)
(*     block has the enclosing for as its parentloop (a tablerow is not a     *)
(*     forloop) and its own break / continue never reach the tablerow         *)
(*   - a tablerow multiplies its length into the loop iteration count         *)
(*                                                                           *)
(* The module has two formulations that TLC must find equal:                  *)
(*   * the MECHANISM, step by step as TablerowNode.render_to_output and the   *)
(*     TableRow drop do it (evaluate the loop expression by clamped slicing,  *)
(*     write row 1, step the drop's _index/_row/_col counters, write <td>,    *)
(*     run the block, write </td>, break test, row separator, final </tr>,    *)
(*     loop stack + carry for the iteration limit), and                       *)
(*   * the REQUIREMENT, a closed form: cell j of m sits in row (j-1) div c +1 *)
(*     and column (j-1) mod c + 1, the table is the concatenation of its      *)
(*     cells with a separator after every full row that is followed by        *)
(*     another cell, and the limit fails iff a product of enclosing lengths   *)
(*     exceeds it.                                                            *)
(* The emitted record carries the output as a sequence of atoms together with *)
(* the exact text of each atom (built here with \o); the harness only joins.  *)
EXTENDS Integers, Sequences, FiniteSets, TLC, Json

CONSTANTS Lens,          \* iterable lengths in the family (a set, so that runs can be split by length)
          ColsSet,       \* explicit `cols:` values tried besides absent, 0, n+1 and n+3
          RangeStarts,   \* first bound of the (a..b) ranges
          Outers,        \* subset of BOOLEAN: is the tablerow inside a for over (1..2)  (a set, so that runs can be split)
          Deviations     \* named deviations of the engine from the requirement (empty in every checking run)

None == 0 - 99           \* absent argument / no limit
Min2(a, b) == IF a < b THEN a ELSE b
Max2(a, b) == IF a > b THEN a ELSE b

-----------------------------------------------------------------------------
(* The input family                                                          *)
Items(coll) == IF coll.b < coll.a THEN <<>> ELSE [i \in 1..(coll.b - coll.a + 1) |-> coll.a + i - 1]
Colls(n) == { [src |-> "array", a |-> 11, b |-> 10 + n] }
            \cup { [src |-> "range", a |-> s, b |-> s + n - 1] : s \in RangeStarts }
            \cup (IF n = 0 THEN { [src |-> "range", a |-> s, b |-> s - 2] : s \in RangeStarts } ELSE {})   \* (5..3): empty too

(* the loop expression, as LoopExpression._slice computes it *)
SliceLo(n, offset) == Min2(Max2(IF offset = None THEN 0 ELSE offset, 0), n)
SliceHi(n, limit, offset) ==
  IF limit = None THEN n ELSE Min2(Max2(limit + (IF offset = None THEN 0 ELSE offset), 0), n)       \* exclusive
Segment(items, limit, offset) ==
  LET n == Len(items)  lo == SliceLo(n, offset)  hi == SliceHi(n, limit, offset)
  IN [i \in 1..Max2(hi - lo, 0) |-> items[lo + i]]
(* ... and as the documentation words it: start at index `offset`, stop after `limit` iterations *)
DropN(s, k) == [i \in 1..Max2(Len(s) - k, 0) |-> s[i + k]]
TakeN(s, k) == [i \in 1..Min2(Len(s), k) |-> s[i]]
DocSegment(items, limit, offset) ==
  LET d == IF offset = None THEN items ELSE DropN(items, offset)
  IN IF limit = None THEN d ELSE TakeN(d, limit)

Intrs(m) == { [k |-> "none", at |-> 0] } \cup { [k |-> kk, at |-> i] : kk \in {"break", "continue"}, i \in 1..m }
Inners == {"none", "plain", "break", "continue"}      \* a for over (1..2) in the block; break / continue at its first item
ArgVals(n) == {None} \cup (0..(n + 1))
ColsVals(n) == {None, 0} \cup ColsSet \cup {n + 1, n + 3}
Simple(i) == i.cols = None /\ i.offset = None /\ i.intr.k = "none"
Plain(i) == i.offset = None /\ i.intr.k = "none" /\ i.inner = "none"        \* the unspecified cols = 0 is only tried on these
Inputs(n) ==
  LET base == { [coll |-> c, cols |-> cl, limit |-> l, offset |-> f, intr |-> x, outer |-> ou, inner |-> inn, lim |-> None] :
                  c \in Colls(n), cl \in ColsVals(n), l \in ArgVals(n), f \in ArgVals(n),
                  x \in Intrs(n), ou \in Outers, inn \in Inners }
      ok == { i \in base : i.intr.at <= Len(Segment(Items(i.coll), i.limit, i.offset)) /\ (i.cols = 0 => Plain(i))
                          /\ (i.outer => i.offset \in {None, 1}) }       \* inside a for the offsets are thinned out
  IN ok \cup { [i EXCEPT !.lim = v] : i \in { j \in ok : Simple(j) /\ j.coll.src = "array" }, v \in 1..(4 * n + 1) }

-----------------------------------------------------------------------------
(* Output atoms and their exact text                                         *)
(* only the "pre" atom carries the drop's fields; records with different fields are simply unequal *)
Atom(k, r, c, p) == [k |-> k, r |-> r, c |-> c, p |-> p]
TR(r, nl) == Atom("tr", r, nl, 0)                 \* <tr class="rowR"> (+ newline iff nl = 1)
TD(c) == Atom("td", 0, c, 0)                      \* <td class="colC">
ETD == Atom("etd", 0, 0, 0)                       \* </td>
ETR == Atom("etr", 0, 0, 0)                       \* </tr> + newline
PRE(h, o) == [k |-> "pre", r |-> o, c |-> 0, p |-> 0, h |-> h]   \* item, every tablerowloop field, forloop.index of the enclosing for (0: none)
INN(j, o, ti) == Atom("in", j, ti, o)             \* inner for: item (= its forloop.index), parentloop.index, tablerowloop.index
BANG == Atom("bang", 0, 0, 0)                     \* end of an inner iteration that was not interrupted
POST == Atom("post", 0, 0, 0)                     \* end of a cell block that was not interrupted
OHEAD(o) == Atom("ohead", o, 0, 0)                \* start of an iteration of the enclosing for
OTAIL == Atom("otail", 0, 0, 0)
AFTER == Atom("after", 0, 0, 0)                   \* after endtablerow / endfor: tablerowloop and the loop variable are out of scope

IntFields == <<"length", "index", "index0", "rindex", "rindex0", "col", "col0", "row">>
BoolFields == <<"first", "last", "col_first", "col_last">>
Opt(v) == IF v = 0 THEN "" ELSE ToString(v)       \* an undefined forloop prints nothing
B(v) == IF v THEN "true" ELSE "false"
RECURSIVE IntsText(_, _)
IntsText(h, i) == IF i > Len(IntFields) THEN "" ELSE ToString(h[IntFields[i]]) \o "," \o IntsText(h, i + 1)
RECURSIVE BoolsText(_, _)
BoolsText(h, i) == IF i > Len(BoolFields) THEN "" ELSE B(h[BoolFields[i]]) \o "," \o BoolsText(h, i + 1)
Text(a) ==
  CASE a.k = "tr" -> "<tr class=\"row" \o ToString(a.r) \o "\">" \o (IF a.c = 1 THEN "\n" ELSE "")
    [] a.k = "td" -> "<td class=\"col" \o ToString(a.c) \o "\">"
    [] a.k = "etd" -> "</td>"
    [] a.k = "etr" -> "</tr>\n"
    [] a.k = "pre" -> ToString(a.h.item) \o ":" \o IntsText(a.h, 1) \o BoolsText(a.h, 1) \o ";f" \o Opt(a.r)
    [] a.k = "in" -> "(" \o ToString(a.r) \o "." \o ToString(a.r) \o "." \o Opt(a.p) \o "." \o ToString(a.c) \o ")"
    [] a.k = "bang" -> "!"
    [] a.k = "post" -> "P"
    [] a.k = "ohead" -> "[" \o ToString(a.r) \o ":"
    [] a.k = "otail" -> "]"
    [] OTHER -> "AZ"

InnerAtoms(kind, o, ti) ==
  CASE kind = "none" -> <<>>
    [] kind = "plain" -> <<INN(1, o, ti), BANG, INN(2, o, ti), BANG>>
    [] kind = "break" -> <<INN(1, o, ti)>>                               \* the inner for ends; the cell goes on
    [] OTHER -> <<INN(1, o, ti), INN(2, o, ti), BANG>>                   \* continue: only the rest of that inner iteration is skipped

-----------------------------------------------------------------------------
(* The mechanism                                                             *)
VARIABLES inp,      \* the input (constant along a behaviour)
          pc, o,    \* control point; iteration of the enclosing for (0: there is none)
          seg, ncols, idx, row, col,   \* the evaluated loop expression and the TableRow drop's counters (_index, _row, _col)
          sig,      \* interrupt raised by the block of the current cell
          loops, carry, ghost,   \* RenderContext.loops (lengths), loop_iteration_carry; ghost: true product of enclosing repetitions
          out       \* atoms written so far
vars == <<inp, pc, o, seg, ncols, idx, row, col, sig, loops, carry, ghost, out>>

Init == /\ inp \in UNION { Inputs(n) : n \in Lens }
        /\ pc = "start" /\ o = 0 /\ seg = <<>> /\ ncols = 0 /\ idx = 0 - 1 /\ row = 1 /\ col = 0 /\ sig = "none"
        /\ loops = <<>> /\ carry = 1 /\ ghost = 1 /\ out = <<>>

RECURSIVE Prod(_)
Prod(s) == IF s = <<>> THEN 1 ELSE Head(s) * Prod(Tail(s))
(* RenderContext.raise_for_loop_limit(length) *)
OverLimit(length) == inp.lim # None /\ Prod(loops) * carry * length > inp.lim

Keep(vs) == UNCHANGED vs
Start ==
  /\ pc = "start"
  /\ IF inp.outer
       THEN IF OverLimit(2)
              THEN pc' = "error" /\ Keep(<<o, loops, ghost>>)
              ELSE pc' = "ohead" /\ o' = 1 /\ loops' = <<2>> /\ ghost' = 2
       ELSE pc' = "enter" /\ Keep(<<o, loops, ghost>>)
  /\ Keep(<<inp, seg, ncols, idx, row, col, sig, carry, out>>)
OuterHead ==
  /\ pc = "ohead"
  /\ out' = Append(out, OHEAD(o)) /\ pc' = "enter"
  /\ Keep(<<inp, o, seg, ncols, idx, row, col, sig, loops, carry, ghost>>)
(* evaluate the loop expression and `cols`, check the limit, write the first row *)
Enter ==
  /\ pc = "enter"
  /\ LET s == Segment(Items(inp.coll), inp.limit, inp.offset)
         m == Len(s)
     IN IF inp.cols = 0
          THEN pc' = "unspecified" /\ Keep(<<seg, ncols, idx, row, col, carry, ghost, out>>)       \* cols <= 0: nothing is promised
          ELSE IF OverLimit(m)
                 THEN pc' = "error" /\ Keep(<<seg, ncols, idx, row, col, carry, ghost, out>>)
                 ELSE /\ seg' = s /\ ncols' = (IF inp.cols = None THEN m ELSE inp.cols)
                      /\ idx' = 0 - 1 /\ row' = 1 /\ col' = 0                    \* a fresh TableRow drop per execution of the tag
                      /\ carry' = carry * m /\ ghost' = ghost * m
                      /\ out' = Append(out, TR(1, 1))
                      /\ pc' = "next"
  /\ sig' = "none"
  /\ Keep(<<inp, o, loops>>)
(* `for item in tablerow`: TableRow.__next__ steps the counters, then takes the next item *)
NextCell ==
  /\ pc = "next"
  /\ IF idx + 1 < Len(seg)
       THEN /\ idx' = idx + 1
            /\ IF col = ncols THEN col' = 1 /\ row' = row + 1 ELSE col' = col + 1 /\ row' = row
            /\ out' = Append(out, TD(col'))
            /\ pc' = "body"
       ELSE pc' = "exit" /\ Keep(<<idx, row, col, out>>)
  /\ Keep(<<inp, o, seg, ncols, sig, loops, carry, ghost>>)
Helper == [item |-> seg[idx + 1], length |-> Len(seg), index |-> idx + 1, index0 |-> idx,
           rindex |-> Len(seg) - idx, rindex0 |-> Len(seg) - idx - 1, first |-> (idx = 0), last |-> (idx = Len(seg) - 1),
           col |-> col, col0 |-> col - 1, col_first |-> (col = 1), col_last |-> (col = ncols), row |-> row]
(* the block of one cell: drop fields, the inner for (entering it checks the limit), the interrupt, the rest *)
Body ==
  /\ pc = "body"
  /\ IF inp.inner # "none" /\ OverLimit(2)
       THEN pc' = "error" /\ Keep(<<sig, out>>)
       ELSE LET hit == inp.intr.k # "none" /\ inp.intr.at = idx + 1
            IN /\ out' = out \o <<PRE(Helper, o)>> \o InnerAtoms(inp.inner, o, idx + 1) \o (IF hit THEN <<>> ELSE <<POST>>)
               /\ sig' = (IF hit THEN inp.intr.k ELSE "none")
               /\ pc' = "close"
  /\ Keep(<<inp, o, seg, ncols, idx, row, col, loops, carry, ghost>>)
(* </td>, then the break test, then the row separator (the engine's order is the named deviation) *)
Close ==
  /\ pc = "close"
  /\ LET sep == IF col = ncols /\ idx # Len(seg) - 1 THEN <<ETR, TR(row + 1, 0)>> ELSE <<>>
     IN IF sig = "break"
          THEN /\ out' = out \o <<ETD>> \o (IF "SeparatorBeforeBreak" \in Deviations THEN sep ELSE <<>>)
               /\ pc' = "exit"
          ELSE out' = out \o <<ETD>> \o sep /\ pc' = "next"
  /\ sig' = "none"
  /\ Keep(<<inp, o, seg, ncols, idx, row, col, loops, carry, ghost>>)
Exit ==
  /\ pc = "exit"
  /\ out' = Append(out, ETR)
  /\ carry' = 1 /\ ghost' = (IF inp.outer THEN 2 ELSE 1)              \* carry_loop_iterations restores the carry
  /\ pc' = (IF inp.outer THEN "otail" ELSE "after")
  /\ Keep(<<inp, o, seg, ncols, idx, row, col, sig, loops>>)
OuterTail ==
  /\ pc = "otail"
  /\ out' = Append(out, OTAIL)
  /\ IF o < 2 THEN o' = o + 1 /\ pc' = "ohead" /\ Keep(<<loops, ghost>>)
              ELSE o' = o /\ pc' = "after" /\ loops' = <<>> /\ ghost' = 1
  /\ Keep(<<inp, seg, ncols, idx, row, col, sig, carry>>)
After ==
  /\ pc = "after"
  /\ out' = Append(out, AFTER) /\ pc' = "done"
  /\ Keep(<<inp, o, seg, ncols, idx, row, col, sig, loops, carry, ghost>>)

Next == Start \/ OuterHead \/ Enter \/ NextCell \/ Body \/ Close \/ Exit \/ OuterTail \/ After
Spec == Init /\ [][Next]_vars

-----------------------------------------------------------------------------
(* The requirement                                                           *)
TheSeg == DocSegment(Items(inp.coll), inp.limit, inp.offset)
M == Len(TheSeg)
C == IF inp.cols = None THEN M ELSE inp.cols
RefHelper(j) == [item |-> TheSeg[j], length |-> M, index |-> j, index0 |-> j - 1, rindex |-> M - j + 1, rindex0 |-> M - j,
                 first |-> (j = 1), last |-> (j = M), col |-> ((j - 1) % C) + 1, col0 |-> (j - 1) % C,
                 col_first |-> ((j - 1) % C = 0), col_last |-> (((j - 1) % C) + 1 = C), row |-> ((j - 1) \div C) + 1]
(* dev: the table as the named deviation SeparatorBeforeBreak writes it (the row separator before the break test) *)
RECURSIVE RefCells(_, _, _)
RefCells(j, oo, dev) ==
  IF j > M THEN <<>>
  ELSE LET hit == inp.intr.k # "none" /\ inp.intr.at = j
           brk == hit /\ inp.intr.k = "break"
           cell == <<TD(((j - 1) % C) + 1), PRE(RefHelper(j), oo)>> \o InnerAtoms(inp.inner, oo, j)
                   \o (IF hit THEN <<>> ELSE <<POST>>) \o <<ETD>>
           sep == IF (~brk \/ dev) /\ j % C = 0 /\ j < M THEN <<ETR, TR((j \div C) + 1, 0)>> ELSE <<>>    \* a full row followed by another cell
       IN cell \o sep \o (IF brk THEN <<>> ELSE RefCells(j + 1, oo, dev))
RefTable(oo, dev) == <<TR(1, 1)>> \o RefCells(1, oo, dev) \o <<ETR>>
RefOutD(dev) == (IF inp.outer THEN <<OHEAD(1)>> \o RefTable(1, dev) \o <<OTAIL, OHEAD(2)>> \o RefTable(2, dev) \o <<OTAIL>> ELSE RefTable(0, dev))
                \o <<AFTER>>
RefOut == RefOutD("SeparatorBeforeBreak" \in Deviations)
(* the limit is exceeded iff the product of the lengths of some reached nest of repeating tags exceeds it *)
RefOver ==
  /\ inp.lim # None
  /\ LET outerLen == IF inp.outer THEN 2 ELSE 1
     IN \/ inp.outer /\ 2 > inp.lim
        \/ outerLen * M > inp.lim
        \/ M >= 1 /\ inp.inner # "none" /\ outerLen * M * 2 > inp.lim

-----------------------------------------------------------------------------
Done == pc \in {"done", "error", "unspecified"}
Claimed == inp.cols # 0

(* the clamped slice is "drop offset, take limit" *)
SliceIsDropThenTake == pc = "next" => seg = TheSeg
(* the mechanism writes exactly the required atoms; it fails on the limit exactly when required *)
MechanismMeetsRequirement == (pc = "done" => out = RefOut) /\ (Done /\ Claimed => (pc = "error" <=> RefOver))
(* the drop's counters agree with the closed form in every cell *)
CountersAreClosedForm == pc = "body" => Helper = RefHelper(idx + 1)
DropConsistent ==
  pc = "body" => LET h == Helper
                 IN /\ h.index = h.index0 + 1 /\ h.rindex = h.rindex0 + 1 /\ h.index0 + h.rindex = h.length
                    /\ (h.first <=> h.index = 1) /\ (h.last <=> h.index = h.length)
                    /\ h.col = h.col0 + 1 /\ h.col \in 1..ncols /\ (h.row - 1) * ncols + h.col = h.index
                    /\ (h.col_first <=> h.col = 1) /\ (h.col_last <=> h.col = ncols)
                    /\ h.length = Len(seg) /\ h.item = seg[h.index]
(* loop stack and carry multiply to the true number of enclosing repetitions *)
LimitAccounting == Prod(loops) * carry = ghost

(* shape of the HTML: (tr (td .. etd)* etr)+ with rows numbered from 1, cells numbered from 1 in every row, at most      *)
(* `cols` cells in a row, every row but the last full, and no empty row except the single row of an empty table          *)
Html == SelectSeq(out, LAMBDA a : a.k \in {"tr", "td", "etd", "etr", "ohead", "otail", "after"})
RECURSIVE Shape(_, _, _, _, _)
Shape(h, i, st, r, c) ==        \* st: "top" | "row" | "cell"; r: current row; c: cells so far in the row
  IF i > Len(h) THEN st = "top"
  ELSE LET a == h[i]
       IN CASE a.k \in {"ohead", "otail", "after"} -> st = "top" /\ Shape(h, i + 1, "top", 0, 0)
            [] a.k = "tr" -> st = "top" /\ a.r = r + 1 /\ (a.c = 1 <=> r = 0) /\ Shape(h, i + 1, "row", a.r, 0)
            [] a.k = "td" -> st = "row" /\ a.c = c + 1 /\ a.c <= ncols /\ Shape(h, i + 1, "cell", r, c + 1)
            [] a.k = "etd" -> st = "cell" /\ Shape(h, i + 1, "row", r, c)
            [] OTHER -> /\ st = "row"
                        /\ (c = 0 => r = 1 /\ ~(i < Len(h) /\ h[i + 1].k = "tr"))             \* an empty row only as the whole (empty) table
                        /\ (i < Len(h) /\ h[i + 1].k = "tr" => c = ncols)                      \* a row that is followed by a row is full
                        /\ Shape(h, i + 1, "top", (IF i < Len(h) /\ h[i + 1].k = "tr" THEN r ELSE 0), 0)
WellFormed == pc = "done" => Shape(Html, 1, "top", 0, 0)
NoEmptyRow == pc = "done" => \A i \in 2..Len(out) : out[i].k = "etr" /\ out[i - 1].k = "tr" => out[i - 1].r = 1 /\ Len(seg) = 0
(* exactly the visited items get a cell *)
CellCount == (pc = "done" /\ ~inp.outer) =>
               Len(SelectSeq(out, LAMBDA a : a.k = "td")) = (IF inp.intr.k = "break" THEN inp.intr.at ELSE Len(seg))

RECURSIVE Texts(_, _)
Texts(s, i) == IF i > Len(s) THEN <<>> ELSE <<Text(s[i])>> \o Texts(s, i + 1)
Emit == Done => PrintT(ToJson([inp |-> inp, outcome |-> pc, claimed |-> Claimed,
                               seglen |-> (IF Claimed THEN M ELSE 0),
                               text |-> (IF pc = "done" THEN Texts(out, 1) ELSE <<>>),
                               kinds |-> (IF pc = "done" THEN [i \in 1..Len(out) |-> out[i].k] ELSE <<>>),
                               devtext |-> (IF pc = "done" /\ RefOutD(TRUE) # RefOutD(FALSE) THEN Texts(RefOutD(TRUE), 1) ELSE <<>>),
                               ints |-> IntFields, bools |-> BoolFields]))
=============================================================================
