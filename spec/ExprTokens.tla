----------------------------- MODULE ExprTokens ------------------------------
(* C03 (family C) — malformed EXPRESSIONS inside well-formed markup.          *)
(*                                                                           *)
(* BlockParser.tla enumerates sequences of whole tags; this module enumerates *)
(* the token sequences INSIDE one tag or output statement: operands (literal, *)
(* variable, dotted / bracketed / indexed paths), a stray word, separators   *)
(* (`,` `or` `and`), operators, pipes, parentheses - every sequence of up to  *)
(* MaxLen atoms, in every carrier that parses an expression (when-list, if / *)
(* unless / elsif condition, output, echo, assign, for, cycle, ternary).      *)
(* Some carriers RECOVER from a malformed tail (a when-list keeps the        *)
(* expressions parsed so far; if / unless fall back in lax mode), so a        *)
(* malformed sequence can be "strict-clean": the template renders without    *)
(* error in strict mode.  Relations.tla!Modes then requires lax and warn to  *)
(* render the same text without a warning - wherever the recovery happens.   *)
(* There is no behaviour here beyond the choice of the input: the family is   *)
(* the specification's quantifier, the judgement is Relations.tla's.          *)
EXTENDS Naturals, Sequences, TLC, Json

CONSTANTS Atoms, Carriers, MaxLen

(* conditions and when-lists are also entered behind a well-formed first operand and a separator: `1 , ...`, `x or ...` *)
CondCarriers == {"when", "if", "unless", "elsif", "tern"}
Prefixes == {"none", "onecomma", "xor"}

VARIABLES seq, carrier, pre
vars == <<seq, carrier, pre>>

Init == /\ seq \in UNION { [1..n -> Atoms] : n \in 1..MaxLen }
        /\ carrier \in Carriers
        /\ pre \in (IF carrier \in CondCarriers THEN Prefixes ELSE {"none"})
Next == UNCHANGED vars
Spec == Init /\ [][Next]_vars

Emit == PrintT(ToJson([seq |-> seq, carrier |-> carrier, pre |-> pre]))
=============================================================================
