---------------------------- MODULE LoaderCache ----------------------------
(* C23 — caching loaders (liquid/builtin/loaders/mixins.py CachingLoaderMixin) *)
(* in front of a namespace-aware source loader.                              *)
(*   store   : what the underlying (non-caching) loader would read now       *)
(*   cache   : the LRU map cache_key -> loaded template, least recent first  *)
(*             (an entry remembers which API loaded it: the template's       *)
(*             `uptodate` callable is the sync or the async flavour)         *)
(* A request is answered from the cache (hit, still fresh or staleness not   *)
(* detectable) or loaded through the reference loader and inserted.          *)
(* `Ref(req)` is the non-caching loader's answer to the same request now.    *)
EXTENDS Naturals, Sequences, FiniteSets, TLC, Json

CONSTANTS Cap,          \* cache capacity
          AutoReload,   \* loader option
          Detectable,   \* the source kind provides an `uptodate` callable (file system: yes, dict: no)
          NSAware,      \* the source loader reads "<namespace>/<name>"; FALSE: the namespace only partitions the cache
          MaxEdits,     \* how many times one source may be edited
          MaxLen        \* behaviours of at most this many operations

Names == {"a", "b"}
Spaces == {"n1", "n2"}
Vias == {"none", "kwarg", "context", "both"}   \* how the namespace reaches the loader; "both": kwarg n, context other
Globs == {"none", "g1", "g2"}
Modes == {"sync", "async"}

SrcKey(name, via, ns) == IF via = "none" THEN name ELSE ns \o "/" \o name
SrcOf(name, via, ns) == IF NSAware THEN SrcKey(name, via, ns) ELSE name
AllSrc == Names \cup { n \o "/" \o x : n \in Spaces, x \in Names }
Missing == {"n2/b"}                      \* a template that does not exist in namespace n2
Editable == {"a", "n1/a"}

VARIABLES store, cache, last, hist
vars == <<store, cache, last, hist>>

Init == /\ store = [k \in AllSrc |-> IF k \in Missing THEN 0 ELSE 1]
        /\ cache = <<>>
        /\ last = [op |-> "init"]
        /\ hist = <<>>

Has(k) == \E i \in 1..Len(cache) : cache[i].key = k
Entry(k) == cache[CHOOSE i \in 1..Len(cache) : cache[i].key = k]
Without(k) == SelectSeq(cache, LAMBDA e : e.key # k)
Insert(e) == LET base == IF Has(e.key) THEN Without(e.key)
                         ELSE IF Len(cache) >= Cap THEN Tail(cache) ELSE cache
             IN Append(base, e)

(* the non-caching loader's answer *)
Ref(name, via, ns, g) ==
  LET k == SrcOf(name, via, ns)
  IN IF store[k] = 0 THEN [found |-> FALSE, src |-> k, ver |-> 0, glob |-> g]
     ELSE [found |-> TRUE, src |-> k, ver |-> store[k], glob |-> g]

Fresh(e) == ~AutoReload \/ ~Detectable \/ e.ver = store[e.src]

Request(mode, name, via, ns, g) ==
  LET key == SrcKey(name, via, ns)            \* cache key: "<namespace>/<name>" or just the name
      ref == Ref(name, via, ns, g)
      rec(res, how) == [op |-> "req", mode |-> mode, name |-> name, via |-> via, ns |-> ns, g |-> g,
                        res |-> res, how |-> how]
  IN IF Has(key) /\ Fresh(Entry(key))
     THEN LET e == [Entry(key) EXCEPT !.glob = g]     \* globals passed with the request apply (also "none")
          IN /\ cache' = Append(Without(key), e)
             /\ last' = rec([found |-> TRUE, src |-> e.src, ver |-> e.ver, glob |-> g], "hit")
     ELSE IF ref.found
     THEN /\ cache' = Insert([key |-> key, src |-> ref.src, ver |-> ref.ver, glob |-> g, by |-> mode])
          /\ last' = rec(ref, IF Has(key) THEN "reload" ELSE "miss")
     ELSE /\ cache' = cache
          /\ last' = rec(ref, "notfound")

DoRequest ==
  \E mode \in Modes, name \in Names, via \in Vias, ns \in Spaces, g \in Globs :
     /\ (via = "none" => ns = "n1")          \* ns is irrelevant without a namespace: one representative
     /\ Request(mode, name, via, ns, g)
     /\ hist' = Append(hist, last')
     /\ UNCHANGED store

Edit ==
  \E k \in Editable :
     /\ store[k] <= MaxEdits
     /\ store' = [store EXCEPT ![k] = @ + 1]
     /\ last' = [op |-> "edit", src |-> k, ver |-> store[k] + 1]
     /\ hist' = Append(hist, last')
     /\ UNCHANGED cache

Next == Len(hist) < MaxLen /\ (DoRequest \/ Edit)
Spec == Init /\ [][Next]_vars

-----------------------------------------------------------------------------
IsReq == last.op = "req"
TheRef == Ref(last.name, last.via, last.ns, last.g)

(* same name/source as the non-caching loader; a stale version only where staleness is not detectable *)
Transparent ==
  IsReq => /\ last.res.found = TheRef.found
           /\ last.res.found =>
                /\ last.res.src = TheRef.src
                /\ (AutoReload /\ Detectable) => last.res.ver = TheRef.ver
                /\ last.res.ver <= TheRef.ver
NoCrossNamespace == (IsReq /\ last.res.found) => last.res.src = SrcOf(last.name, last.via, last.ns)
GlobalsApply == (IsReq /\ last.res.found) => last.res.glob = last.g
Bounded == Len(cache) <= Cap
NoDupKeys == \A i, j \in 1..Len(cache) : cache[i].key = cache[j].key => i = j
CacheHoldsLoadedVersions == \A i \in 1..Len(cache) : cache[i].ver >= 1 /\ cache[i].ver <= store[cache[i].src]
(* the mode of a request never influences the answer nor the cache *)
ModeIndependent ==
  [][\A m \in Modes, name \in Names, via \in Vias, ns \in Spaces, g \in Globs :
        (last'.op = "req" /\ last'.name = name /\ last'.via = via /\ last'.ns = ns /\ last'.g = g)
          => last'.res = (IF Has(SrcKey(name, via, ns)) /\ Fresh(Entry(SrcKey(name, via, ns)))
                          THEN [found |-> TRUE, src |-> Entry(SrcKey(name, via, ns)).src,
                                ver |-> Entry(SrcKey(name, via, ns)).ver, glob |-> g]
                          ELSE Ref(name, via, ns, g))]_vars

(* one emitted behaviour per distinct (store, cache, last): a shortest path ending in that transition *)
View == <<store, cache, last>>
Emit == last.op = "req" => PrintT(ToJson([cap |-> Cap, autoReload |-> AutoReload, detectable |-> Detectable, nsaware |-> NSAware, steps |-> hist]))
=============================================================================
