-------------------------------- MODULE Spans --------------------------------
(* C20 - reported locations point at the reported item.                     *)
(*                                                                          *)
(* The module defines, in TLA+, a bounded family of Liquid template sources *)
(* as sequences of SEGMENTS (text with newlines, output statements with     *)
(* paths and filters, tags with their argument shapes, {% liquid %} tags    *)
(* with several indented lines, comments, partial templates holding more of *)
(* the same) with varied whitespace, and - by construction from Lit / Name  *)
(* / Cat of SpanDefs - the offset of every NAME occurrence in them:         *)
(*   variable roots ("var"), names bound by assign / capture / increment    *)
(*   ("local"), filter names ("filter"), tag names: "tag" = reported by     *)
(*   static analysis and by tag analysis, "itag" = inner / end tags, seen   *)
(*   by tag analysis only, "ltag" = tags on the lines of a {% liquid %} tag,*)
(*   seen by static analysis only (tag analysis does not look inside).      *)
(* A behaviour appends segments one at a time (Append* actions); `frag` is  *)
(* the source built so far with the items found so far. The invariants      *)
(* state the property on the abstract character sequence; Emit prints each  *)
(* finished source with the expected (kind, name, template, offset, line,   *)
(* column) list, which the harness compares with what analyze(),            *)
(* analyze_async(), analyze_tags() and Span.line_col() report.              *)
(*                                                                          *)
(* Family = "errors" builds malformed sources instead: exactly one segment  *)
(* is a malformed construct ("bad" item = where the construct begins, in    *)
(* which template), the others are well formed context. What the raised     *)
(* error must satisfy is judged by SpansTrace.tla.                          *)
(*                                                                          *)
(* Dev names a deviation of the offset mechanism (what a defective          *)
(* tokenizer would report); the *_dev cfgs show that each one breaks        *)
(* ItemsPointAtNames. All checking cfgs run with Dev = "none".              *)
EXTENDS SpanDefs, Json

CONSTANTS MaxSegs,     \* segments per template
          MaxRich,     \* how many of them may come from the full family
          Level,       \* 1 = quick family, 2 = thorough family (more styles, context shapes)
          Family,      \* "spans" | "errors"
          Dev          \* "none" | "ExprStart" | "LiquidStart" | "Indent" | "ParentName" | "Pipe"

-----------------------------------------------------------------------------
(* whitespace styles: lc/rc whitespace control, a = after the start          *)
(* delimiter, b = before the end delimiter, g = optional gap (around pipes,  *)
(* colons, commas, operators), h = mandatory gap (after a tag name, around   *)
(* keywords)                                                                 *)
St(lc, a, g, h, b, rc) == [lc |-> lc, a |-> a, g |-> g, h |-> h, b |-> b, rc |-> rc]
St1 == St("", " ", " ", " ", " ", "")
St2 == St("", "", "", " ", "", "")
St3 == St("-", "  ", "  ", "  ", " ", "-")
St4 == St("", "\n  ", " ", "\n  ", "\n", "-")
St5 == St("-", "\t", "\t", "\t", "", "")
St6 == St("", " ", "", "  ", "  \n ", "-")
Styles == IF Level = 1 THEN {St2, St3, St4} ELSE {St1, St2, St3, St4, St5, St6}
Styles2 == IF Level = 1 THEN {St1, St3} ELSE {St1, St3, St4}       \* for the larger sub-families

OutOpen(st) == Lit("{{" \o st.lc \o st.a)
OutClose(st) == Lit(st.b \o st.rc \o "}}")
TagOpen(st) == Lit("{%" \o st.lc \o st.a)
TagClose(st) == Lit(st.b \o st.rc \o "%}")
(* the lexer's expression token starts at the first non-space character after the delimiter / tag name *)
Output(st, e) == CatAll(<<OutOpen(st), AsExpr(e), OutClose(st)>>)
Tag(st, kind, name, e) ==
  CatAll(<<TagOpen(st), Name(kind, name), IF e.t = "" THEN Lit("") ELSE Cat(Lit(st.h), AsExpr(e)), TagClose(st)>>)
Bare(st, kind, name) == Tag(st, kind, name, Lit(""))

-----------------------------------------------------------------------------
(* paths *)
V(x) == Name("var", x)
QRoot(x, qu, sp) == [t |-> "[" \o sp \o qu \o x \o qu \o sp \o "]", it |-> <<Item("var", x, 2 + Len(sp))>>, ps |-> {}]
PDot(x) == Cat(V(x), Lit(".name"))
PNest(x, y) == CatAll(<<V(x), Lit("["), V(y), Lit(".id].z")>>)
PQuot(x) == Cat(V(x), Lit("['k x'][0]"))
PSpace(x, y) == CatAll(<<V(x), Lit("[ "), V(y), Lit(" ]")>>)
PDeep(x, y, z) == CatAll(<<V(x), Lit(".a["), V(y), Lit("["), V(z), Lit("]].b")>>)
Paths(x, y) == {V(x), PDot(x), PNest(x, y), PQuot(x), Cat(QRoot("a b", "'", ""), Lit(".c")), QRoot("q r", "\"", " "),
                PSpace(x, y), V("is-ok?"), PDeep(x, y, "k2")}

(* filters *)
Pipe(g) == Lit(g \o "|" \o g)
Fn(s) == Name("filter", s)
FUp(g) == Cat(Pipe(g), Fn("upcase"))
FApp(g, y) == CatAll(<<Pipe(g), Fn("append"), Lit(":" \o g), V(y)>>)
FDef(g, y, z) == CatAll(<<Pipe(g), Fn("default"), Lit(":" \o g), V(y), Lit(g \o "," \o g \o "allow_false:" \o g), Cat(V(z), Lit(".k"))>>)
FChain(g, y, z) == CatAll(<<Pipe(g), Fn("upcase"), Pipe(g), Fn("append"), Lit(":" \o g), CatAll(<<V(y), Lit("["), V(z), Lit("]")>>)>>)
Filters(g, y, z) == {FUp(g), FApp(g, y), FDef(g, y, z), FChain(g, y, z)}

-----------------------------------------------------------------------------
(* {% liquid %}: ls is a sequence of lines [ind |-> indentation, f |-> line, sep |-> what follows the line]. *)
(* The tag's expression token starts at the first line's tag name (the template lexer skips the        *)
(* white space - newline and indentation - after `liquid`); inside it, each line is lexed as           *)
(* [ \t]* name [ \t]* expr.                                                                           *)
LLine(kind, name, h, e) == CatAll(<<Name(kind, name), IF e.t = "" THEN Lit("") ELSE Cat(Lit(h), AsExpr(e))>>)
LPlain(name) == Lit(name)                         \* else / endif / endfor ... : reported by neither analysis
LLineX(name, h, e) == CatAll(<<Lit(name), Lit(h), AsExpr(e)>>)     \* when ... : only the names in its expression are reported
RECURSIVE LRest(_, _)
LRest(ls, first) ==
  IF ls = <<>> THEN Lit("")
  ELSE CatAll(<<IF first THEN Lit("") ELSE Lit(ls[1].ind), Indented(Len(ls[1].ind), ls[1].f),
                IF Len(ls) = 1 THEN Lit("") ELSE Lit(ls[1].sep), LRest(Tail(ls), FALSE)>>)
Liquid(st, sep0, ls, tail) ==
  CatAll(<<TagOpen(st), Name("tag", "liquid"), Lit(sep0 \o ls[1].ind), AsLiquid(LRest(ls, TRUE)), Lit(tail), TagClose(st)>>)

(* layouts: indentation of line i and the separator after it *)
Lay(n) == CASE n = 1 -> [ind |-> [i \in 1..9 |-> "  "], sep |-> "\n", sep0 |-> "\n", tail |-> "\n"]
            [] n = 2 -> [ind |-> [i \in 1..9 |-> ""], sep |-> "\n", sep0 |-> "\n", tail |-> "\n"]
            [] n = 3 -> [ind |-> [i \in 1..9 |-> IF i % 2 = 1 THEN "  " ELSE "      "], sep |-> "\n\n", sep0 |-> "\n\n", tail |-> ""]
            [] n = 4 -> [ind |-> [i \in 1..9 |-> IF i = 1 THEN "" ELSE "\t "], sep |-> "  \n", sep0 |-> " ", tail |-> " "]
            [] n = 5 -> [ind |-> [i \in 1..9 |-> IF i % 3 = 0 THEN "" ELSE "    "], sep |-> "\n", sep0 |-> "\n", tail |-> "\n  "]
            [] n = 6 -> [ind |-> [i \in 1..9 |-> IF i = 2 THEN " \t" ELSE " "], sep |-> " \n\n", sep0 |-> " \n", tail |-> ""]
            (* 7: a line holding only spaces and a tab between the statements. The engine may refuse such a tag (it does); if it *)
            (* accepts it, every offset is still the sum of what precedes it                                                     *)
            [] n = 7 -> [ind |-> [i \in 1..9 |-> "  "], sep |-> "\n \t \n", sep0 |-> "\n", tail |-> "\n"]
Layouts == (IF Level = 1 THEN 1..4 ELSE 1..6) \cup {7}
LayLines(lay, fs) == [i \in 1..Len(fs) |-> [ind |-> lay.ind[i], f |-> fs[i], sep |-> lay.sep]]
LiquidOf(st, n, fs) == Liquid(st, Lay(n).sep0, LayLines(Lay(n), fs), Lay(n).tail)

LAssign(g) == LLine("ltag", "assign", " ", CatAll(<<Name("local", "lv"), Lit(" = "), V("user"), FUp(g)>>))
LEcho(g) == LLine("ltag", "echo", "  ", Cat(PNest("item", "key"), FApp(g, "sep")))
LEchoV(x) == LLine("ltag", "echo", " ", V(x))
LineSeqs(g, k) ==
  { <<LAssign(g)>>,
    <<LAssign(g), LEcho(g)>>,
    <<LLine("ltag", "#", " ", Lit("a comment, {{ not.a.var }}")), LAssign(g), LEcho(g)>>,
    <<LLine("ltag", "if", " ", CatAll(<<V("user"), Lit(" == "), V("item")>>)), LEchoV("flag"), LPlain("else"), LLine("ltag", "echo", " ", Lit("'n'")), LPlain("endif")>>,
    <<LLine("ltag", "for", " ", Cat(Lit("i in "), PDot("arr"))), LEcho(g), LLine("ltag", "break", "", Lit("")), LPlain("endfor"), LEchoV("after")>>,
    <<LEcho(g), LLine("ltag", "capture", " ", Name("local", "cv")), LEchoV("user"), LPlain("endcapture")>>,
    <<LLine("ltag", "case", " ", V("user")), LLineX("when", " ", V("item")), LEchoV("flag"), LPlain("endcase")>>,
    <<LAssign(g), Cat(LLine("ltag", "include", " ", CatAll(<<Lit("'p" \o k \o "' with "), V("user"), Lit(" as v")>>)),
                      InPartial("p" \o k, CatAll(<<Lit("in partial\n"), Output(St1, V("px"))>>)))>> }
LiquidSegs(k) == UNION { { LiquidOf(st, n, fs) : n \in Layouts, fs \in LineSeqs(st.g, k) } : st \in Styles2 }

-----------------------------------------------------------------------------
(* partial template bodies; k makes the partial names of a segment unique in the template *)
Bodies(k) ==
  { Output(St1, V("px")),
    CatAll(<<Lit("line\n\n"), Output(St3, Cat(V("px"), FUp(" "))), Tag(St1, "tag", "assign", CatAll(<<Name("local", "pl"), Lit(" = "), PDot("py")>>))>>),
    CatAll(<<Lit("\n"), LiquidOf(St1, 1, <<LLine("ltag", "echo", " ", Cat(V("pz"), FApp(" ", "pw")))>>)>>),
    CatAll(<<Lit("x\n"), Tag(St1, "tag", "include", Lit("'r" \o k \o "'")),
             InPartial("r" \o k, CatAll(<<Lit("\n "), Output(St4, Cat(V("rz"), Lit(".k")))>>)), Lit("\ny"), Output(St1, V("pafter"))>>) }
Body1 == Output(St1, V("px"))

PartialArgs(st, nm) ==
  { Lit("'" \o nm \o "'"),
    CatAll(<<Lit("'" \o nm \o "'" \o st.h \o "with" \o st.h), PDot("user"), Lit(st.h \o "as" \o st.h \o "v")>>),
    CatAll(<<Lit("'" \o nm \o "'," \o st.g \o "k:" \o st.g), V("user"), Lit(st.g \o "," \o st.g \o "j:" \o st.g), PNest("item", "key")>>),
    CatAll(<<Lit("'" \o nm \o "'" \o st.h \o "for" \o st.h), V("arr"), Lit(st.h \o "as" \o st.h \o "v")>>) }
PartialSegs(st, tagname, nm, k) ==
  { Cat(Tag(st, "tag", tagname, e), InPartial(nm, Body1)) : e \in PartialArgs(st, nm) }
  \cup { Cat(Tag(st, "tag", tagname, Lit("'" \o nm \o "'")), InPartial(nm, b)) : b \in Bodies(k) }

-----------------------------------------------------------------------------
(* the full ("rich") segment family *)
OutSegs(st) ==
  { Output(st, p) : p \in Paths("user", "item") }
  \cup { Output(st, Cat(p, f)) : p \in {V("user"), PNest("user", "item")}, f \in Filters(st.g, "sep", "opt") }

AssignSegs(st) ==
  { Tag(st, "tag", "assign", CatAll(<<Name("local", "lv"), Lit(st.g \o "=" \o st.g), p, f>>)) :
      p \in {V("user"), PNest("user", "item"), Cat(QRoot("a b", "'", ""), Lit(".c"))}, f \in {Lit(""), FApp(st.g, "sep")} }

BlockSegs(st) ==
  { CatAll(<<Tag(st, "tag", "capture", Name("local", "cap")), bd, Bare(st, "itag", "endcapture")>>) :
      bd \in {Lit(""), Lit("a\nb"), Output(st, V("inner"))} }
  \cup
  { CatAll(<<Tag(st, "tag", "if", PDot("user")), Lit("yes\n"), Bare(st, "itag", "endif")>>),
    CatAll(<<Tag(st, "tag", "if", CatAll(<<V("user"), Lit(st.g \o "==" \o st.g), V("item")>>)), Output(st, V("t1")),
             Bare(st, "itag", "else"), Lit("no"), Bare(st, "itag", "endif")>>),
    CatAll(<<Tag(st, "tag", "if", CatAll(<<V("user"), Lit(st.h \o "and" \o st.h), PNest("item", "key"), Lit(st.h \o "or" \o st.h), V("flag")>>)),
             Lit("\n"), Tag(st, "itag", "elsif", V("other")), Output(st, V("t2")), Bare(st, "itag", "endif")>>),
    CatAll(<<Tag(st, "tag", "unless", V("user")), Lit("x"), Bare(st, "itag", "endunless")>>),
    CatAll(<<Tag(st, "tag", "case", V("user")), Lit("\n"), Tag(st, "itag", "when", CatAll(<<V("item"), Lit(st.g \o "," \o st.g), V("other")>>)),
             Lit("a"), Bare(st, "itag", "else"), Lit("b"), Bare(st, "itag", "endcase")>>),
    CatAll(<<Tag(st, "tag", "for", Cat(Lit("i" \o st.h \o "in" \o st.h), V("arr"))), Output(st, V("i")), Bare(st, "itag", "endfor")>>),
    CatAll(<<Tag(st, "tag", "for", CatAll(<<Lit("i" \o st.h \o "in" \o st.h), PDot("user"), Lit(st.h \o "limit:" \o st.g), V("n"),
                                            Lit(st.h \o "offset:" \o st.g \o "2" \o st.h \o "reversed")>>)),
             Output(st, Cat(V("i"), Lit(".x"))), Output(St1, Cat(V("forloop"), Lit(".index"))), Bare(st, "itag", "else"), Lit("none"),
             Bare(st, "itag", "endfor")>>),
    CatAll(<<Tag(st, "tag", "for", CatAll(<<Lit("i" \o st.h \o "in" \o st.h \o "(1.."), V("n"), Lit(")")>>)), Bare(st, "tag", "break"),
             Bare(st, "itag", "endfor")>>),
    CatAll(<<Tag(st, "tag", "tablerow", CatAll(<<Lit("i" \o st.h \o "in" \o st.h), V("arr"), Lit(st.h \o "cols:" \o st.g), V("c")>>)),
             Output(st, V("i")), Bare(st, "itag", "endtablerow")>>),
    CatAll(<<Tag(st, "tag", "with", CatAll(<<Lit("k:" \o st.g), V("user"), Lit(st.g \o "," \o st.g \o "j:" \o st.g \o "1")>>)),
             Output(st, V("k")), Bare(st, "itag", "endwith")>>),
    CatAll(<<Tag(st, "tag", "macro", CatAll(<<Lit("m" \o st.h \o "a," \o st.g \o "b:" \o st.g), V("dflt")>>)), Output(st, V("a")),
             Bare(st, "itag", "endmacro"), Lit("\n"),
             Tag(st, "tag", "call", CatAll(<<Lit("m" \o st.h), V("user"), Lit(st.g \o "," \o st.g \o "b:" \o st.g), PDot("item")>>))>>) }

MiscSegs(st) ==
  { Tag(st, "tag", "echo", Cat(V("user"), FUp(st.g))),
    Tag(st, "tag", "cycle", CatAll(<<V("grp"), Lit(":" \o st.g), V("one"), Lit(st.g \o "," \o st.g), V("two")>>)),
    Tag(st, "tag", "increment", Name("local", "ctr")),
    Tag(st, "tag", "decrement", Name("local", "ctr")),
    CatAll(<<TagOpen(st), Name("tag", "#"), Lit(" some note, {{ not.a.var }}"), TagClose(st)>>),
    CatAll(<<Bare(st, "tag", "comment"), Lit("{% if x %}{{ y }}\n"), Bare(st, "itag", "endcomment")>>),
    Lit("{% raw %}{{ a }} {% if %}\n{% endraw %}"),
    Lit("plain\ntext\n") }

Rich(k) ==
  UNION { OutSegs(st) \cup AssignSegs(st) \cup BlockSegs(st) \cup MiscSegs(st) : st \in Styles }
  \cup UNION { PartialSegs(st, "include", "p" \o k, k) \cup PartialSegs(st, "render", "q" \o k, k) : st \in Styles2 }
  \cup LiquidSegs(k)

(* the small context family placed before / after *)
Ctx ==
  {Lit("x\n\ny\n"), Output(St1, V("u")), LiquidOf(St1, 1, <<LEchoV("v")>>)}
  \cup (IF Level = 1 THEN {} ELSE {Lit("ab"), CatAll(<<Bare(St3, "tag", "comment"), Lit(" {{ z }}\n"), Bare(St1, "itag", "endcomment")>>),
                                   Tag(St3, "tag", "assign", CatAll(<<Name("local", "w"), Lit(" = "), V("u")>>))})

-----------------------------------------------------------------------------
(* malformed constructs: Mark records where the construct begins *)
Mark(label) == [t |-> "", it |-> <<Item("bad", label, 0)>>, ps |-> {}]
Bad(label, f) == Cat(Mark(label), f)
BadExprs(st) ==   \* label, malformed expression of an output statement
  { <<"filter-missing-name", Cat(V("user"), Lit(st.g \o "|"))>>,
    <<"filter-is-number", Cat(V("user"), Lit(st.g \o "|" \o st.g \o "5"))>>,
    <<"filter-two-words", Cat(V("user"), Lit(st.g \o "|" \o st.g \o "upcase" \o st.h \o "x"))>>,
    <<"double-pipe", Cat(V("user"), Lit(st.g \o "||" \o st.g \o "upcase"))>>,
    <<"unclosed-string", Lit("'abc")>>,
    <<"unclosed-string-after-prefix", Cat(V("user"), Lit(st.g \o "|" \o st.g \o "append:" \o st.g \o "\"abc"))>>,
    <<"extra-word", Cat(V("user"), Lit(st.h \o "item"))>>,
    <<"illegal-char", Cat(V("user"), Lit(st.g \o "~" \o st.g \o "item"))>>,
    <<"trailing-dot", Cat(V("user"), Lit("."))>>,
    <<"open-bracket", Cat(V("user"), Lit("["))>>,
    <<"close-bracket", Cat(V("user"), Lit(".a]"))>> }
BadSegs(st) ==
  { Bad(e[1], Output(st, e[2])) : e \in BadExprs(st) }
  \cup { Bad("assign:" \o e[1], Tag(st, "tag", "assign", Cat(Lit("lv" \o st.g \o "=" \o st.g), e[2]))) : e \in BadExprs(st) }
  \cup
  { Bad("if-missing-operand", CatAll(<<Tag(st, "tag", "if", Cat(V("user"), Lit(st.g \o "=="))), Lit("x"), Bare(st, "itag", "endif")>>)),
    Bad("if-unknown-operator", CatAll(<<Tag(st, "tag", "if", Cat(V("user"), Lit(st.g \o "=!" \o st.g \o "item"))), Lit("x"), Bare(st, "itag", "endif")>>)),
    Bad("for-missing-iterable", CatAll(<<Tag(st, "tag", "for", Lit("i" \o st.h \o "in")), Bare(st, "itag", "endfor")>>)),
    Bad("for-missing-in", CatAll(<<Tag(st, "tag", "for", Lit("i" \o st.h \o "arr")), Bare(st, "itag", "endfor")>>)),
    Bad("unknown-tag-expr", Tag(st, "tag", "nosuch", V("user"))),
    Bad("unknown-tag", Bare(st, "tag", "nosuch")),
    Bad("missing-endif", Cat(Tag(st, "tag", "if", V("user")), Lit("text"))),
    Bad("missing-endfor", Cat(Tag(st, "tag", "for", Lit("i" \o st.h \o "in" \o st.h \o "arr")), Lit("\n"))),
    Bad("missing-endcapture", Cat(Tag(st, "tag", "capture", Lit("c")), Lit("x\n"))),
    Bad("wrong-end-tag", CatAll(<<Tag(st, "tag", "if", V("user")), Lit("x\n"), Bare(st, "itag", "endfor")>>)),
    Bad("unclosed-output", Lit("{{" \o st.lc \o st.a \o "user")),
    Bad("unclosed-tag", Lit("{%" \o st.lc \o st.a \o "if user")),
    Bad("missing-tag-name", Lit("{%" \o st.lc \o st.a \o st.rc \o "%}")),
    Bad("if-missing-expression", CatAll(<<Bare(st, "tag", "if"), Lit("x"), Bare(st, "itag", "endif")>>)),
    Bad("stray-endif", Bare(st, "itag", "endif")),
    Bad("stray-else", Bare(st, "itag", "else")),
    Bad("assign-missing-name", Tag(st, "tag", "assign", Lit("=" \o st.g \o "user"))),
    Bad("assign-missing-equals", Tag(st, "tag", "assign", Lit("lv" \o st.h \o "user"))),
    Bad("include-missing-name", Bare(st, "tag", "include")),
    Bad("case-missing-expression", CatAll(<<Bare(st, "tag", "case"), Bare(st, "itag", "endcase")>>)),
    Bad("cycle-missing-expression", Bare(st, "tag", "cycle")),
    Bad("when-missing-expression", CatAll(<<Tag(st, "tag", "case", V("user")), Bare(st, "itag", "when"), Bare(st, "itag", "endcase")>>)),
    Bad("macro-missing-name", CatAll(<<Bare(st, "tag", "macro"), Bare(st, "itag", "endmacro")>>)),
    Bad("with-missing-args", CatAll(<<Bare(st, "tag", "with"), Bare(st, "itag", "endwith")>>)),
    Bad("comment-unclosed", Cat(Bare(st, "tag", "comment"), Lit("x\n"))) }

BadLines ==   \* malformed lines of a {% liquid %} tag
  { <<"liquid:extra-word", LLine("ltag", "assign", " ", Lit("lv = user item"))>>,
    <<"liquid:filter-missing-name", LLine("ltag", "echo", " ", Lit("item |"))>>,
    <<"liquid:unknown-tag", LLine("ltag", "nosuch", "", Lit(""))>>,
    <<"liquid:unknown-tag-expr", LLine("ltag", "nosuch", " ", Lit("user"))>>,
    <<"liquid:unclosed-string", LLine("ltag", "echo", " ", Lit("'abc"))>>,
    <<"liquid:illegal-line", Lit("?? user")>>,
    <<"liquid:missing-endif", LLine("ltag", "if", " ", Lit("user"))>>,
    <<"liquid:stray-endif", Lit("endif")>>,
    <<"liquid:assign-missing-expression", LLine("ltag", "assign", "", Lit(""))>> }
BadLiquidSegs ==
  { Bad(e[1], LiquidOf(st, n, pre \o <<e[2]>> \o post)) :
      e \in BadLines, st \in {St1, St3}, n \in {1, 3, 4},
      pre \in {<<>>, <<LEchoV("user")>>, <<LEchoV("user"), LAssign(" ")>>}, post \in {<<>>, <<LEchoV("z")>>} }

(* a malformed partial: the construct begins after two lines of the partial's own text; the parent is well formed *)
BadPartialBodies ==
  { Cat(Lit(pre), b) : pre \in {"", "l1\nl2\n  "},
      b \in {x \in BadSegs(St1) \cup BadSegs(St4) : x.it[1].n \in {"filter-missing-name", "extra-word", "unknown-tag", "missing-endif",
                                                                    "assign:unclosed-string", "stray-endif", "if-missing-expression", "illegal-char"}}
           \cup {Bad(e[1], LiquidOf(St1, 1, <<LEchoV("user"), e[2]>>)) :
                   e \in {y \in BadLines : y[1] \in {"liquid:extra-word", "liquid:unknown-tag", "liquid:missing-endif"}}} }
BadPartialSegs(k) ==
  { Cat(Tag(St1, "tag", tg[1], Lit("'" \o tg[2] \o k \o "'")), InPartial(tg[2] \o k, b)) :
      tg \in {<<"include", "p">>, <<"render", "q">>}, b \in BadPartialBodies }

BadFamily(k) == UNION { BadSegs(st) : st \in Styles2 \cup {St2, St4} } \cup BadLiquidSegs \cup BadPartialSegs(k)

-----------------------------------------------------------------------------
(* the i-th segment taken from the full family names its partials p<i>, q<i>, r<i>. Constant-level *)
(* definitions, so that TLC evaluates each family once.                                             *)
Rich1 == IF Family = "spans" THEN Rich("1") ELSE {}
Rich2 == IF Family = "spans" /\ MaxRich >= 2 THEN Rich("2") ELSE {}
Rich3 == IF Family = "spans" /\ MaxRich >= 3 THEN Rich("3") ELSE {}
Bad1 == IF Family = "errors" THEN BadFamily("1") ELSE {}
FullFamily(i) == IF Family = "spans" THEN (CASE i = 1 -> Rich1 [] i = 2 -> Rich2 [] OTHER -> Rich3) ELSE Bad1
ASSUME MaxRich <= 3 /\ (Family = "errors" => MaxRich = 1)

VARIABLES frag,    \* the source built so far and the name occurrences in it
          k,       \* segments appended
          rich     \* ... of which from the full family
vars == <<frag, k, rich>>

Init == frag = Lit("") /\ k = 0 /\ rich = 0

AppendCtx ==
  /\ k < MaxSegs
  /\ \E c \in Ctx : frag' = Cat(frag, c)
  /\ k' = k + 1 /\ UNCHANGED rich

AppendRich ==
  /\ k < MaxSegs /\ rich < MaxRich
  /\ \E r \in FullFamily(rich + 1) : frag' = Cat(frag, r)
  /\ k' = k + 1 /\ rich' = rich + 1

Next == AppendCtx \/ AppendRich
(* every state holding MaxRich segments of the full family is a finished template (and may still grow) *)
Complete == rich = MaxRich
Spec == Init /\ [][Next]_vars

-----------------------------------------------------------------------------
SrcOf(tn) == IF tn = "" THEN frag.t ELSE (CHOOSE p \in frag.ps : p.name = tn).text
Names == {x \in DOMAIN frag.it : frag.it[x].k # "bad"}

(* what the (possibly deviating) offset mechanism reports for an item *)
Reported(x) ==
  CASE Dev = "ExprStart" -> IF x.inx THEN x.io ELSE x.o            \* inner token offset without the parent token's start
    [] Dev = "LiquidStart" -> IF x.inl THEN x.lo ELSE x.o          \* liquid-tag line offset without the liquid token's start
    [] Dev = "Indent" -> IF x.inl /\ x.o >= x.ind THEN x.o - x.ind ELSE x.o     \* ... off by the stripped indentation
    [] Dev = "Pipe" -> IF x.k = "filter" THEN x.o - 1 ELSE x.o
    [] OTHER -> x.o
ReportedTemplate(x) == IF Dev = "ParentName" THEN "" ELSE x.tn

(* every partial name denotes exactly one source *)
PartialsWellDefined == \A p, r \in frag.ps : p.name = r.name => p = r

(* THE PROPERTY on the abstract source: the name stands at the reported offset of the named template *)
ItemsPointAtNames ==
  \A i \in Names : LET x == frag.it[i] IN PointsAt(SrcOf(ReportedTemplate(x)), Reported(x), x.q, x.n)

(* occurrences of one template are listed in source order and never overlap *)
OffsetsIncreasing ==
  \A i, j \in Names : (i < j /\ frag.it[i].tn = frag.it[j].tn) => frag.it[i].o + frag.it[i].q + Len(frag.it[i].n) <= frag.it[j].o

(* the offset is the parent token's start plus the offset inside the parent, and the parent *)
(* expression token starts at a non-space character that follows a space or a delimiter     *)
ParentPlusInner ==
  \A i \in Names : LET x == frag.it[i] s == SrcOf(x.tn) IN
     /\ x.io <= x.o /\ x.lo <= x.o
     /\ (x.inx => ~IsSpace(Ch(s, x.o - x.io + 1)))
     /\ (x.inl => (~IsSpace(Ch(s, x.o - x.lo + 1)) /\ x.o - x.lo >= 1 /\ IsSpace(Ch(s, x.o - x.lo))))
     /\ (x.inl /\ x.inx => x.lo >= x.io)
     /\ (x.k \in {"var", "filter"} => x.inx)
     /\ (x.k = "ltag" => x.inl /\ ~x.inx)
     /\ (x.k \in {"tag", "itag"} => ~x.inl /\ ~x.inx)

(* a name is delimited: it is not the tail or the head of a longer word *)
WordCh(c) == c \in {"a","b","c","d","e","f","g","h","i","j","k","l","m","n","o","p","q","r","s","t","u","v","w","x","y","z","_","0","1","2","3","4","5","6","7","8","9"}
NamesDelimited ==
  \A i \in Names : LET x == frag.it[i] s == SrcOf(x.tn) e == x.o + x.q + Len(x.n) IN
     /\ (x.o > 0 => ~WordCh(Ch(s, x.o)))
     /\ (e < Len(s) => ~WordCh(Ch(s, e + 1)))

(* malformed family: the mark is a position of its own template *)
MarksInside == \A i \in DOMAIN frag.it : frag.it[i].k = "bad" => frag.it[i].o <= Len(SrcOf(frag.it[i].tn))

Final(x, nl) == [k |-> x.k, n |-> x.n, o |-> x.o, q |-> x.q, tn |-> IF x.tn = "" THEN "main" ELSE x.tn,
                 ln |-> LineAt(nl, x.o), cl |-> ColAt(nl, x.o)]
Emit == Complete =>
  LET nls == [tn \in {""} \cup {p.name : p \in frag.ps} |-> Newlines(SrcOf(tn))]
  IN PrintT(ToJson([src |-> frag.t, ps |-> frag.ps, items |-> [i \in DOMAIN frag.it |-> Final(frag.it[i], nls[frag.it[i].tn])], segs |-> k]))
=============================================================================
