---------------------------- MODULE UndefMonitor ----------------------------
(* C16 — the relation between the outcomes of ONE template+data under the four undefined types, judged on        *)
(* observations recorded from the real engine (batched: one initial state per observation).                     *)
EXTENDS Naturals, Sequences, FiniteSets, TLC, Json, IOUtils
Types == {"Undefined", "StrictUndefined", "FalsyStrictUndefined", "StrictDefaultUndefined"}
(* MONITOR: one observation = the four outcomes of one template+data (from this family or from any other family with   *)
(* keys removed from its data).  outcome = [st |-> "ok" | error class, out |-> text]                                   *)
Obs == IF "TRACE_FILE" \in DOMAIN IOEnv THEN JsonDeserialize(IOEnv.TRACE_FILE) ELSE <<>>
VARIABLE tid
MInit == tid \in 1..Len(Obs)
MNext == UNCHANGED tid
MSpec == MInit /\ [][MNext]_tid

DefaultNeverRaises(o) == o.claims_default => o.Undefined.st = "ok"
RefinesDefault(o) == \A t \in Types \ {"Undefined"} : (o[t].st = "ok" /\ o.Undefined.st = "ok") => o[t].out = o.Undefined.out
StrictRaises(o) == o.strict_must_raise => o.StrictUndefined.st = "UndefinedError"
OnlyUndefinedErrors(o) == o.claims_default => \A t \in Types : o[t].st \in {"ok", "UndefinedError"}
Accept(o) == DefaultNeverRaises(o) /\ RefinesDefault(o) /\ StrictRaises(o) /\ OnlyUndefinedErrors(o)
Why(o) == IF ~DefaultNeverRaises(o) THEN "DefaultNeverRaises" ELSE IF ~RefinesDefault(o) THEN "RefinesDefault"
          ELSE IF ~StrictRaises(o) THEN "StrictRaises" ELSE "OnlyUndefinedErrors"
Judge == IF Accept(Obs[tid]) THEN PrintT(<<"ACCEPT", tid>>) ELSE PrintT(<<"REJECT", tid, Why(Obs[tid])>>)
=============================================================================
