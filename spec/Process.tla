------------------------------ MODULE Process ------------------------------
(* C17 - rendering is pure and independent of history.                       *)
(*                                                                           *)
(* One operating-system process renders a HISTORY of jobs (template, data,   *)
(* environment).  The module models every piece of state of the library      *)
(* that outlives one render, as the code has it:                             *)
(*   memo     process-wide  functools.lru_cache on the `date` filter: an LRU  *)
(*            table of capacity Cap from Key(value, format, environment) to   *)
(*            the formatted result; exceptions are not stored                 *)
(*   lexm     process-wide  get_lexer memo, keyed by the delimiter strings    *)
(*   parm     process-wide  get_parser memo, keyed by the Environment object  *)
(*   impl     process-wide  get_implicit_environment memo used by Template()  *)
(*   tmpl     per object    the parsed node list of every BoundTemplate that  *)
(*            exists (kept by the caller, or by a caching loader's cache)     *)
(*   cbind    per object    the globals a caching loader's shared            *)
(*            BoundTemplate is bound to; hold: which object the caller holds  *)
(*            for a template it asked the loader for (the shared one or its   *)
(*            own) and the globals it asked for                               *)
(*   data     per object    the data objects the caller passes in, which it   *)
(*            may pass again to a later render                                *)
(* and the state that must NOT outlive a render: the RenderContext (ctx:      *)
(* counters, locals, cycles, ifchanged, stopindex, macros), created by        *)
(* RenderBegin and dropped by RenderEnd.                                      *)
(*                                                                           *)
(* Requirement (the property): the result of a render is Pure(job), a         *)
(* function of its arguments only (HistoryIndependent); no step changes       *)
(* `data` (DataUnchanged) or `tmpl` (TemplateUnchanged).                      *)
(* HistoryIndependent holds exactly when Key separates arguments that `date`  *)
(* formats differently (KeySeparates); the deviation MemoKeyedByEquality is   *)
(* the pinned tree (key = Python ==/hash of the arguments) and TLC exhibits   *)
(* the counterexample history.  Three more deviations are the realistic       *)
(* changes the check is built to catch.                                       *)
EXTENDS Naturals, Integers, Sequences, SequencesExt, FiniteSets, TLC, Json

CONSTANTS MaxHist,      \* number of renders in a history
          Family,       \* "full" | "core" | "impl" | "sweep" : which job pool (defined below)
          Deviations,   \* subset of AllDeviations; {} = the required behaviour
          Cap           \* capacity of the date memo (10 in the code)

AllDeviations == {"MemoKeyedByEquality", "SortInPlace", "StateOnNode", "ContextKeptOnTemplate", "CacheRebindsGlobals"}
Dev(x) == x \in Deviations

-----------------------------------------------------------------------------
(* Values.  `eq` is the class of Python ==/hash, `ty` the type (with the      *)
(* time zone for an aware datetime).  Different ids are different objects a   *)
(* template can tell apart in some way.                                       *)
Val == [ tU |-> [eq |-> "noon", ty |-> "dt+00"],     \* 2020-01-01 12:00 UTC
         tP |-> [eq |-> "noon", ty |-> "dt+01"],     \* the same instant at +01:00
         tD |-> [eq |-> "noon", ty |-> "dt+00du"],   \* the same instant, dateutil's tzutc (unhashable tzinfo)
         i1 |-> [eq |-> "one",  ty |-> "int"],
         b1 |-> [eq |-> "one",  ty |-> "bool"],      \* True == 1, hash equal
         f1 |-> [eq |-> "one",  ty |-> "float"],     \* 1.0 == 1
         d1 |-> [eq |-> "one",  ty |-> "decimal"],   \* Decimal(1) == 1
         fS |-> [eq |-> "fmt",  ty |-> "str"],       \* "<b>%H %z"
         fM |-> [eq |-> "fmt",  ty |-> "markup"],    \* Markup("<b>%H %z") == "<b>%H %z"
         k0 |-> [eq |-> "k0", ty |-> "int"], k1 |-> [eq |-> "k1", ty |-> "int"], k2 |-> [eq |-> "k2", ty |-> "int"],
         k3 |-> [eq |-> "k3", ty |-> "int"], k4 |-> [eq |-> "k4", ty |-> "int"], k5 |-> [eq |-> "k5", ty |-> "int"],
         k6 |-> [eq |-> "k6", ty |-> "int"], k7 |-> [eq |-> "k7", ty |-> "int"], k8 |-> [eq |-> "k8", ty |-> "int"],
         k9 |-> [eq |-> "k9", ty |-> "int"], gF |-> [eq |-> "gF", ty |-> "str"] ]   \* fillers: ten timestamps, format "%s"
Fillers == <<"k0", "k1", "k2", "k3", "k4", "k5", "k6", "k7", "k8", "k9">>

(* what `date` makes of a value: which formatted text, or an error            *)
DateRep(v) == CASE v \in {"i1", "b1"} -> "epoch1"          \* fromtimestamp(1) == fromtimestamp(True)
                [] v \in {"f1", "d1"} -> "ERR"             \* neither str, int nor datetime: FilterArgumentError
                [] v \in {"tU", "tD"} -> "noon+00"         \* both print 12 +0000
                [] OTHER -> v

(* Environments.  `caching`: partials come from a CachingDictLoader (the      *)
(* BoundTemplate of a partial is shared by all later renders); `keep`: the    *)
(* caller keeps the BoundTemplate and renders it again (otherwise it parses   *)
(* the source anew for each render); `implicit`: liquid.Template(source).     *)
Env == [ E0 |-> [auto |-> FALSE, caching |-> TRUE,  keep |-> TRUE,  implicit |-> FALSE, delims |-> "std", flags |-> FALSE],
         EA |-> [auto |-> TRUE,  caching |-> TRUE,  keep |-> TRUE,  implicit |-> FALSE, delims |-> "std", flags |-> FALSE],
         E1 |-> [auto |-> FALSE, caching |-> FALSE, keep |-> FALSE, implicit |-> FALSE, delims |-> "std", flags |-> FALSE],
         EI |-> [auto |-> FALSE, caching |-> FALSE, keep |-> TRUE,  implicit |-> TRUE,  delims |-> "std", flags |-> FALSE],
         EJ |-> [auto |-> TRUE,  caching |-> FALSE, keep |-> FALSE, implicit |-> TRUE,  delims |-> "std", flags |-> FALSE],
         \* same delimiters and mode as E0 (so the same __hash__) but ternary / `not` / keyword syntax switched on at parse time
         EF |-> [auto |-> FALSE, caching |-> TRUE,  keep |-> TRUE,  implicit |-> FALSE, delims |-> "std", flags |-> TRUE],
         \* other delimiters: a second key in the lexer memo
         ED |-> [auto |-> FALSE, caching |-> TRUE,  keep |-> TRUE,  implicit |-> FALSE, delims |-> "alt", flags |-> FALSE] ]

(* Data objects: x a scalar, f a format, a an array that is ALSO reachable    *)
(* as h.l (one shared list object), c the integer 7.                          *)
Data == [ dU |-> [x |-> "tU", f |-> "fS", a |-> <<3, 1, 2, 1>>],
          dP |-> [x |-> "tP", f |-> "fS", a |-> <<3, 1, 2, 1>>],
          dD |-> [x |-> "tD", f |-> "fS", a |-> <<3, 1, 2, 1>>],
          dM |-> [x |-> "tU", f |-> "fM", a |-> <<3, 1, 2, 1>>],
          dI |-> [x |-> "i1", f |-> "fS", a |-> <<2, 1>>],
          dB |-> [x |-> "b1", f |-> "fS", a |-> <<2, 1>>],
          dF |-> [x |-> "f1", f |-> "fS", a |-> <<2, 1>>],
          dC |-> [x |-> "d1", f |-> "fS", a |-> <<2, 1>>] ]

(* Templates as parsed: a sequence of operations.                             *)
O(op, n, k) == [op |-> op, n |-> n, k |-> k]
TmplBase ==
        [ TD |-> << O("date", "x", "f") >>,
          TF |-> << O("fill", "", "") >>,
          TW |-> << O("incr", "q", ""), O("incr", "q", ""), O("assign", "v", "5"), O("cycle", "g", ""), O("ifch", "x", ""),
                    O("forlim", "a", ""), O("def", "m", ""), O("call", "m", ""), O("out", "q", "") >>,
          TR |-> << O("out", "q", ""), O("out", "v", ""), O("cycle", "g", ""), O("cycle", "g", ""), O("ifch", "x", ""),
                    O("forcont", "a", ""), O("call", "m", ""), O("incr", "q", ""), O("decr", "r", "") >>,
          TA |-> << O("arr", "a", "sort"), O("arr", "h.l", "reverse"), O("arr", "a", "uniq"), O("arr", "h.l", "concat"),
                    O("pure", "rows", ""), O("pure", "tuple", ""), O("pure", "nested", ""), O("out", "a", "") >>,
          TS |-> << O("out", "c", ""), O("incr", "c", ""), O("out", "c", ""), O("assign", "c", "5"), O("out", "c", ""),
                    O("capture", "x", "9"), O("out", "x", ""), O("decr", "f", ""), O("forlim", "a", ""), O("out", "a", "") >>,
          TI |-> << O("incr", "q", ""), O("inc", "TP", ""), O("ren", "TP", ""), O("incr", "q", ""), O("cycle", "g", "") >>,
          TP |-> << O("date", "x", "f"), O("incr", "q", ""), O("cycle", "g", "") >>,
          TX |-> << O("pure", "inherit", "") >>,
          \* an extending template that defines an inline snippet outside its blocks and renders it inside one (experimental tag, registered
          \* explicitly): finding the blocks of a template walks its nodes WITH the live render context
          TZ |-> << O("pure", "snippet", "") >>,
          TY |-> << O("pure", "with", ""), O("pure", "tablerow", ""), O("pure", "case", ""), O("pure", "loops", ""), O("out", "a", "") >>,
          TT |-> << O("pure", "ternary", ""), O("incr", "q", "") >>,
          \* TG is asked of the loader by the caller, env.get_template("TG", globals = {gl: 5}); TIG includes and renders it
          TG |-> << O("out", "gl", ""), O("incr", "q", "") >>,
          TIG |-> << O("inc", "TG", ""), O("ren", "TG", ""), O("out", "gl", "") >> ]
Partials == {"TP", "TG"}
ViaLoader == {"TG"}                  \* top-level templates the caller gets from the loader, bound to CallerGlobals
CallerGlobals == "5"
NoGlobals == ""
(* The sweep family: every array-capable filter applied to every shape of data structure; the result is not interpreted  *)
(* here (a "pure" operation: some function of the arguments), the claim is DataUnchanged and HistoryIndependent.          *)
SweepFilters == {"compact", "concat", "default", "find", "find_index", "first", "has", "index", "join", "json", "last", "map",
                 "reject", "reverse", "size", "slice", "sort", "sort_natural", "sort_numeric", "sum", "uniq", "where"}
SweepPaths == {"a", "rows", "h", "t", "n", "h.m.z"}          \* int list, list of hashes, hash, tuple, list with nil, nested lists
Sweep == { [id |-> f \o ":" \o p, f |-> f, p |-> p] : f \in SweepFilters, p \in SweepPaths }
SweepIds == { w.id : w \in Sweep }
Tmpl == [ t \in DOMAIN TmplBase \cup SweepIds |->
            IF t \in DOMAIN TmplBase THEN TmplBase[t] ELSE << O("pure", t, ""), O("out", "a", "") >> ]

J(t, d, e) == [t |-> t, d |-> d, e |-> e]
PoolFull == << J("TD", "dU", "E0"), J("TD", "dP", "E0"), J("TD", "dM", "E0"), J("TD", "dI", "E0"), J("TD", "dB", "E0"), J("TD", "dF", "E0"),
               J("TD", "dU", "EA"), J("TD", "dP", "EA"), J("TD", "dM", "EA"), J("TD", "dF", "EA"),
               J("TD", "dU", "E1"), J("TD", "dP", "E1"), J("TD", "dD", "E0"), J("TD", "dC", "E0"),
               J("TD", "dP", "EI"), J("TD", "dM", "EJ"),
               J("TF", "dI", "E0"),
               J("TW", "dU", "E0"), J("TR", "dU", "E0"), J("TW", "dP", "EI"), J("TR", "dP", "EI"),
               J("TA", "dU", "E0"), J("TS", "dU", "E0"), J("TA", "dI", "E1"),
               J("TI", "dU", "E0"), J("TI", "dP", "E0"), J("TI", "dM", "EA"),
               J("TX", "dU", "E0"), J("TY", "dU", "E0"), J("TZ", "dU", "E0"),
               J("TT", "dU", "EF"), J("TT", "dU", "E0"), J("TD", "dP", "ED"), J("TW", "dU", "ED"),
               J("TG", "dU", "E0"), J("TIG", "dU", "E0"), J("TG", "dU", "E1"), J("TIG", "dP", "E1") >>
PoolCore == << J("TD", "dU", "E0"), J("TD", "dP", "E0"), J("TD", "dM", "EA"),
               J("TF", "dI", "E0"),
               J("TW", "dU", "E0"), J("TR", "dU", "E0"),
               J("TA", "dU", "E0"), J("TS", "dU", "E0"),
               J("TI", "dP", "E0"), J("TT", "dU", "EF"), J("TT", "dU", "E0"),
               J("TG", "dU", "E0"), J("TIG", "dU", "E0"), J("TZ", "dU", "E0") >>
(* the jobs that go through liquid.Template() and its process-wide memo of implicit environments, and one that does not *)
PoolImpl == << J("TD", "dP", "EI"), J("TD", "dM", "EJ"), J("TW", "dP", "EI"), J("TR", "dP", "EI"), J("TD", "dM", "EA") >>
PoolSweep == SetToSeq({ J(id, "dU", "E0") : id \in SweepIds })
Pool == IF Family = "core" THEN PoolCore ELSE IF Family = "sweep" THEN PoolSweep ELSE IF Family = "impl" THEN PoolImpl ELSE PoolFull
N == Len(Pool)

-----------------------------------------------------------------------------
VARIABLES hist,    \* finished renders: sequence of [job (index in Pool), res (token sequence)]
          phase,   \* "idle" | "run"
          cur,     \* index of the job being rendered
          pc,      \* next operation of the top-level template
          ctx,     \* the RenderContext of the running render (NoCtx when idle)
          out,     \* tokens written so far
          memo,    \* date memo: sequence of [k, r], least recently used first
          lexm, parm, impl,
          tmpl,    \* [<<env, template>> -> operations] for every BoundTemplate alive
          kept,    \* deviation ContextKeptOnTemplate only: [<<env, template>> -> ctx]
          cbind,   \* [<<env, template>> -> globals the caching loader's shared object is bound to]
          hold,    \* [<<env, template>> -> [alias: the caller holds the shared object, own: the globals it asked for]]
          data     \* [data id -> record]  the caller's objects
vars == <<hist, phase, cur, pc, ctx, out, memo, lexm, parm, impl, tmpl, kept, cbind, hold, data>>

NoCtx == [cnt |-> <<>>, loc |-> <<>>, cyc |-> <<>>, ifc |-> <<"">>, stop |-> <<>>, mac |-> {}]
(* small finite maps as sequences of <<key, value>> pairs                     *)
Has(m, k) == \E i \in 1..Len(m) : m[i][1] = k
Get(m, k, dflt) == IF Has(m, k) THEN m[CHOOSE i \in 1..Len(m) : m[i][1] = k][2] ELSE dflt
Put(m, k, v) == IF Has(m, k) THEN [i \in 1..Len(m) |-> IF m[i][1] = k THEN <<k, v>> ELSE m[i]] ELSE Append(m, <<k, v>>)

Num(i) == IF i < 0 THEN "-" \o ToString(0 - i) ELSE ToString(i)
RECURSIVE Strs(_)
Strs(s) == IF s = <<>> THEN <<>> ELSE <<Num(Head(s))>> \o Strs(Tail(s))
ArrTok(s) == <<"A">> \o Strs(s)
Empty == <<"">>

(* ---- the date filter ------------------------------------------------------ *)
KeyOf(v) == IF Dev("MemoKeyedByEquality") THEN Val[v].eq ELSE v
Key(x, f, e) == <<KeyOf(x), KeyOf(f), e>>                 \* Environment: identity (it defines __hash__ only)
(* what formatting produces: which text, and whether it is marked safe        *)
DateRes(x, f, e) == IF DateRep(x) = "ERR" THEN <<"ERR">>
                    ELSE <<"D", DateRep(x), Val[f].eq, IF Env[e].auto /\ Val[f].ty = "markup" THEN "safe" ELSE "plain">>
(* what reaches the output: plain text is escaped under autoescape            *)
Shown(r, e) == IF r[1] = "ERR" THEN r ELSE <<"D", r[2], r[3], IF ~Env[e].auto THEN "raw" ELSE IF r[4] = "safe" THEN "safe" ELSE "esc">>
Hit(m, k) == \E i \in 1..Len(m) : m[i].k = k
HitAt(m, k) == CHOOSE i \in 1..Len(m) : m[i].k = k
(* one call through the memo: <<result, memo'>>                               *)
DateCall(m, x, f, e) ==
  LET k == Key(x, f, e) IN
  IF Hit(m, k)
    THEN LET i == HitAt(m, k) IN <<m[i].r, Append(SubSeq(m, 1, i - 1) \o SubSeq(m, i + 1, Len(m)), m[i])>>
    ELSE LET r == DateRes(x, f, e) IN
         IF r[1] = "ERR" THEN <<r, m>>                                   \* exceptions are not cached
         ELSE LET m2 == Append(m, [k |-> k, r |-> r]) IN
              <<r, IF Len(m2) > Cap THEN Tail(m2) ELSE m2>>

(* ---- one operation -------------------------------------------------------- *)
(* st = [c: context, m: memo, d: data record, g: globals of the top-level template, o: tokens, err: BOOLEAN, nd: the operation as (re)written] *)
ArrOf(d, path) == d.a                                     \* "a" and "h.l" are the same list object
Uniq(s) == LET RECURSIVE U(_, _)
               U(rest, acc) == IF rest = <<>> THEN acc
                               ELSE U(Tail(rest), IF \E i \in 1..Len(acc) : acc[i] = Head(rest) THEN acc ELSE Append(acc, Head(rest)))
           IN U(s, <<>>)
ArrFilter(f, s) == CASE f = "sort" -> SortSeq(s, LAMBDA p, q : p < q)
                     [] f = "reverse" -> Reverse(s)
                     [] f = "uniq" -> Uniq(s)
                     [] f = "concat" -> s \o s
                     [] OTHER -> s

Lookup(c, d, n, g) ==                                     \* locals, then data, then the top-level template's globals, then counters
  IF Has(c.loc, n) THEN <<"n", Get(c.loc, n, "")>>
  ELSE IF n = "gl" THEN (IF g = "" THEN Empty ELSE <<"n", g>>)
  ELSE IF n = "x" THEN <<"v", d.x>> ELSE IF n = "f" THEN <<"v", d.f>> ELSE IF n = "c" THEN <<"n", "7">>
  ELSE IF n = "a" THEN ArrTok(d.a)
  ELSE IF Has(c.cnt, n) THEN <<"n", Num(Get(c.cnt, n, 0))>>
  ELSE Empty

CycleItems == <<"p", "q", "r">>

Exec(o, st, e, did, dv) ==                                \* dv: deviations apply (never inside Pure)
  LET c == st.c IN
  CASE o.op = "date" ->
         LET rm == DateCall(st.m, st.d[o.n], st.d[o.k], e)               \* (no template in the pool shadows x or f)
         IN IF rm[1][1] = "ERR" THEN [st EXCEPT !.err = TRUE, !.m = rm[2]]
            ELSE [st EXCEPT !.m = rm[2], !.o = Append(@, Shown(rm[1], e))]
    [] o.op = "fill" ->
         LET RECURSIVE F(_, _, _)
             F(i, m, acc) == IF i > Len(Fillers) THEN <<m, acc>>
                             ELSE LET rm == DateCall(m, Fillers[i], "gF", e) IN F(i + 1, rm[2], Append(acc, Shown(rm[1], e)))
             r == F(1, st.m, <<>>)
         IN [st EXCEPT !.m = r[1], !.o = @ \o r[2]]
    [] o.op = "out" -> [st EXCEPT !.o = Append(@, Lookup(c, st.d, o.n, st.g))]
    [] o.op = "incr" -> LET v == Get(c.cnt, o.n, 0) IN
         [st EXCEPT !.c.cnt = Put(@, o.n, v + 1), !.o = Append(@, <<"n", Num(v)>>)]
    [] o.op = "decr" -> LET v == Get(c.cnt, o.n, 0) - 1 IN
         [st EXCEPT !.c.cnt = Put(@, o.n, v), !.o = Append(@, <<"n", Num(v)>>)]
    [] o.op \in {"assign", "capture"} -> [st EXCEPT !.c.loc = Put(@, o.n, o.k), !.o = Append(@, Empty)]
    [] o.op = "cycle" ->
         LET i == IF dv /\ Dev("StateOnNode") THEN (IF o.k = "" THEN 0 ELSE IF o.k = "1" THEN 1 ELSE 2) ELSE Get(c.cyc, o.n, 0)
             j == (i + 1) % 3
         IN [st EXCEPT !.c.cyc = Put(@, o.n, j), !.o = Append(@, <<"c", CycleItems[i + 1]>>),
                       !.nd = IF dv /\ Dev("StateOnNode") THEN [o EXCEPT !.k = IF j = 0 THEN "" ELSE Num(j)] ELSE o]
    [] o.op = "ifch" ->
         LET t == Lookup(c, st.d, o.n, st.g) IN
         IF t = c.ifc THEN [st EXCEPT !.o = Append(@, Empty)] ELSE [st EXCEPT !.c.ifc = t, !.o = Append(@, t)]
    [] o.op = "forlim" ->                                 \* for i in a limit: 1
         LET s == ArrOf(st.d, o.n) IN
         [st EXCEPT !.c.stop = Put(@, o.n, 1), !.o = Append(@, ArrTok(SubSeq(s, 1, 1)))]
    [] o.op = "forcont" ->                                \* for i in a offset: continue
         LET s == ArrOf(st.d, o.n)
             from == Get(c.stop, o.n, 0)
         IN [st EXCEPT !.c.stop = Put(@, o.n, Len(s)), !.o = Append(@, ArrTok(SubSeq(s, from + 1, Len(s))))]
    [] o.op = "arr" ->
         LET r == ArrFilter(o.k, ArrOf(st.d, o.n)) IN
         [st EXCEPT !.o = Append(@, ArrTok(r)),
                    !.d.a = IF dv /\ Dev("SortInPlace") /\ o.k = "sort" THEN r ELSE @]
    [] o.op = "pure" -> [st EXCEPT !.o = Append(@, <<"P", o.n, did, e>>)]      \* a function of the arguments, not interpreted here
    [] o.op = "def" -> [st EXCEPT !.c.mac = @ \cup {o.n}, !.o = Append(@, Empty)]
    [] o.op = "call" -> [st EXCEPT !.o = Append(@, IF o.n \in c.mac THEN <<"m", o.n>> ELSE Empty)]
    [] OTHER -> st

(* run a partial's operations (a partial holds no further partial)            *)
(* (results are bound through singleton sets so that TLC evaluates each step once) *)
RECURSIVE ExecSeq(_, _, _, _, _)
ExecSeq(ops, i, st, e, did) ==                            \* returns <<st, ops as rewritten>>
  IF i > Len(ops) \/ st.err THEN <<st, ops>>
  ELSE CHOOSE r \in { ExecSeq([ops EXCEPT ![i] = s2.nd], i + 1, s2, e, did) :
                        s2 \in {Exec(ops[i], [st EXCEPT !.nd = ops[i]], e, did, TRUE)} } : TRUE

-----------------------------------------------------------------------------
(* F: the result as a function of the arguments only - the same operations,   *)
(* run from the state of a process that has rendered nothing.                 *)
RECURSIVE PureSeq(_, _, _, _, _)
PureSeq(ops, i, st, e, did) ==
  IF i > Len(ops) \/ st.err THEN st
  ELSE LET o == ops[i]
           fresh == [st EXCEPT !.m = <<>>, !.nd = o]
           after == IF o.op = "inc" THEN {PureSeq(Tmpl[o.n], 1, fresh, e, did)}
                    ELSE IF o.op = "ren" THEN {[sub EXCEPT !.c = st.c] : sub \in {PureSeq(Tmpl[o.n], 1, [fresh EXCEPT !.c = NoCtx], e, did)}}
                    ELSE {Exec(o, fresh, e, did, FALSE)}
       IN CHOOSE r \in { PureSeq(ops, i + 1, s2, e, did) : s2 \in after } : TRUE
St0(d, g) == [c |-> NoCtx, m |-> <<>>, d |-> Data[d], g |-> g, o |-> <<>>, err |-> FALSE, nd |-> O("", "", "")]
PureOf(j) == LET s == PureSeq(Tmpl[j.t], 1, St0(j.d, IF j.t \in ViaLoader THEN CallerGlobals ELSE NoGlobals), j.e, j.d) IN IF s.err THEN << <<"ERR">> >> ELSE s.o
PureTab == [i \in 1..N |-> PureOf(Pool[i])]                \* constant: evaluated once
Pure(i) == PureTab[i]

-----------------------------------------------------------------------------
(* A request to a caching loader for a template bound to globals g: <<cbind', the requester gets the shared object>>.   *)
(* Required: the shared object is never re-bound - a request with other globals gets its own copy (same nodes).        *)
(* Deviation CacheRebindsGlobals (the pinned tree): the shared object is bound to the latest request's globals.        *)
CacheRequest(cb, key, g) ==
  IF ~Has(cb, key) THEN <<Put(cb, key, g), TRUE>>                        \* miss: loaded, bound to g, cached
  ELSE IF Get(cb, key, "") = g THEN <<cb, TRUE>>
  ELSE IF Dev("CacheRebindsGlobals") THEN <<Put(cb, key, g), TRUE>>
  ELSE <<cb, FALSE>>

Init == /\ hist = <<>> /\ phase = "idle" /\ cur = 0 /\ pc = 0 /\ ctx = NoCtx /\ out = <<>>
        /\ memo = <<>> /\ lexm = {} /\ parm = {} /\ impl = {}
        /\ tmpl = <<>> /\ kept = <<>> /\ cbind = <<>> /\ hold = <<>>
        /\ data = Data

(* The caller obtains the BoundTemplate (parsing the source on first use: the *)
(* lexer and parser come from the process-wide memos and are pure), and the   *)
(* library creates a new RenderContext.                                       *)
RenderBegin(i) ==
  /\ phase = "idle" /\ Len(hist) < MaxHist
  /\ LET j == Pool[i]
         key == <<j.e, j.t>>
     IN /\ tmpl' = IF Has(tmpl, key) THEN tmpl ELSE Put(tmpl, key, Tmpl[j.t])
        /\ lexm' = IF Has(tmpl, key) THEN lexm ELSE lexm \cup {Env[j.e].delims}
        /\ parm' = IF Has(tmpl, key) THEN parm ELSE parm \cup {j.e}
        /\ impl' = IF Env[j.e].implicit THEN impl \cup {j.e} ELSE impl
        /\ ctx' = IF Dev("ContextKeptOnTemplate") THEN Get(kept, key, NoCtx) ELSE NoCtx
        /\ IF j.t \in ViaLoader /\ ~Has(hold, key)                      \* env.get_template(t, globals = CallerGlobals)
             THEN IF Env[j.e].caching
                    THEN \E r \in {CacheRequest(cbind, key, CallerGlobals)} :
                           cbind' = r[1] /\ hold' = Put(hold, key, [alias |-> r[2], own |-> CallerGlobals])
                    ELSE cbind' = cbind /\ hold' = Put(hold, key, [alias |-> FALSE, own |-> CallerGlobals])
             ELSE UNCHANGED <<cbind, hold>>
  /\ cur' = i /\ pc' = 1 /\ out' = <<>> /\ phase' = "run"
  /\ UNCHANGED <<hist, memo, kept, data>>

Job == Pool[cur]
TKey == <<Job.e, Job.t>>
Nodes == Get(tmpl, TKey, <<>>)
(* the globals of the object being rendered *)
TopGlobals == IF ~Has(hold, TKey) THEN NoGlobals
              ELSE IF Get(hold, TKey, 0).alias THEN Get(cbind, TKey, NoGlobals) ELSE Get(hold, TKey, 0).own

Step ==
  /\ phase = "run" /\ pc <= Len(Nodes)
  /\ \E o \in {Nodes[pc]} : \E st \in {[c |-> ctx, m |-> memo, d |-> data[Job.d], g |-> TopGlobals, o |-> out, err |-> FALSE, nd |-> o]} :
     IF o.op \in {"inc", "ren"}
       THEN LET pkey == <<Job.e, o.n>>
                cached == Env[Job.e].caching /\ Has(tmpl, pkey)
                pops == IF cached THEN Get(tmpl, pkey, <<>>) ELSE Tmpl[o.n]       \* loader: cache hit or parse
            IN \E r \in {ExecSeq(pops, 1, IF o.op = "ren" THEN [st EXCEPT !.c = NoCtx] ELSE st, Job.e, Job.d)} :
               \E s2 \in {r[1]} :
                  /\ ctx' = IF o.op = "ren" THEN ctx ELSE s2.c
                  /\ memo' = s2.m /\ data' = [data EXCEPT ![Job.d] = s2.d]
                  /\ out' = IF s2.err THEN << <<"ERR">> >> ELSE s2.o
                  /\ pc' = IF s2.err THEN Len(Nodes) + 1 ELSE pc + 1
                  /\ tmpl' = IF Env[Job.e].caching THEN Put(tmpl, pkey, r[2]) ELSE tmpl
                  /\ parm' = parm \cup {Job.e} /\ lexm' = lexm \cup {Env[Job.e].delims}
                  /\ cbind' = IF Env[Job.e].caching THEN CacheRequest(cbind, pkey, NoGlobals)[1] ELSE cbind   \* the tag asks without globals
       ELSE \E s2 \in {Exec(o, st, Job.e, Job.d, TRUE)} :
                  /\ ctx' = s2.c /\ memo' = s2.m /\ data' = [data EXCEPT ![Job.d] = s2.d]
                  /\ out' = IF s2.err THEN << <<"ERR">> >> ELSE s2.o
                  /\ pc' = IF s2.err THEN Len(Nodes) + 1 ELSE pc + 1
                  /\ tmpl' = Put(tmpl, TKey, [Nodes EXCEPT ![pc] = s2.nd])
                  /\ UNCHANGED <<parm, lexm, cbind>>
  /\ UNCHANGED <<hist, phase, cur, impl, kept, hold>>

RenderEnd ==
  /\ phase = "run" /\ pc > Len(Nodes)
  /\ hist' = Append(hist, [job |-> cur, res |-> out])
  /\ kept' = IF Dev("ContextKeptOnTemplate") THEN Put(kept, TKey, ctx) ELSE kept
  /\ tmpl' = IF Env[Job.e].keep THEN tmpl                 \* the caller drops a template it does not keep
             ELSE SelectSeq(tmpl, LAMBDA p : p[1] # TKey)
  /\ hold' = IF Env[Job.e].keep THEN hold ELSE SelectSeq(hold, LAMBDA p : p[1] # TKey)
  /\ ctx' = NoCtx /\ phase' = "idle" /\ cur' = 0 /\ pc' = 0 /\ out' = <<>>
  /\ UNCHANGED <<memo, lexm, parm, impl, data, cbind>>

Next == (\E i \in 1..N : RenderBegin(i)) \/ Step \/ RenderEnd
Spec == Init /\ [][Next]_vars

-----------------------------------------------------------------------------
(* The property.                                                              *)
HistoryIndependent == \A i \in 1..Len(hist) : hist[i].res = Pure(hist[i].job)
DataUnchanged == data = Data
TemplateUnchanged == /\ \A i \in 1..Len(tmpl) : tmpl[i][2] = Tmpl[tmpl[i][1][2]]                 \* the nodes
                     /\ \A i \in 1..Len(hold) : hold[i][2].alias => Get(cbind, hold[i][1], NoGlobals) = hold[i][2].own   \* and what a held template is bound to
(* per-render state is created by RenderBegin and does not exist between renders *)
ContextFresh == (phase = "idle" => ctx = NoCtx) /\ (phase = "run" /\ pc = 1 => ctx = NoCtx)
(* every memo entry is what formatting ANY argument with that key would give  *)
MemoSound == \A i \in 1..Len(memo) :
               \A x \in {v \in DOMAIN Val : KeyOf(v) = memo[i].k[1]} : \A f \in {v \in {"fS", "fM", "gF"} : KeyOf(v) = memo[i].k[2]} :
                  DateRes(x, f, memo[i].k[3]) \in {memo[i].r, <<"ERR">>}
MemoBounded == Len(memo) <= Cap /\ \A i, j \in 1..Len(memo) : i # j => memo[i].k # memo[j].k
(* "HistoryIndependent holds exactly when Key separates observably different arguments": the static half *)
KeySeparates == \A x, y \in DOMAIN Val : KeyOf(x) = KeyOf(y) => (DateRep(x) = DateRep(y) /\ Val[x].ty = Val[y].ty) \/ x = y
ASSUME KeySeparates <=> ~Dev("MemoKeyedByEquality")
(* the process-wide lexer / parser / implicit-environment memos only ever hold keys of environments that were used *)
MemoKeysUsed == parm \subseteq DOMAIN Env /\ impl \subseteq {e \in DOMAIN Env : Env[e].implicit} /\ lexm \subseteq {"std", "alt"}

-----------------------------------------------------------------------------
(* What the harness replays.                                                  *)
Done == phase = "idle" /\ Len(hist) = MaxHist
(* earlier renders that touch a piece of state this render touches too        *)
UsesDate(t) == \E i \in 1..Len(Tmpl[t]) : Tmpl[t][i].op \in {"date", "fill"} \/ (Tmpl[t][i].op \in {"inc", "ren"})
Touch(a, b) ==
  LET ja == Pool[a]  jb == Pool[b] IN
  (IF ja.t = jb.t /\ ja.e = jb.e /\ Env[ja.e].keep THEN {"template"} ELSE {}) \cup
  (IF ja.d = jb.d THEN {"data"} ELSE {}) \cup
  (IF ja.e = jb.e THEN {"env"} ELSE {}) \cup
  (IF UsesDate(ja.t) /\ UsesDate(jb.t) /\ ja.e = jb.e /\ ja.d # jb.d /\ Val[Data[ja.d].x].eq = Val[Data[jb.d].x].eq
      /\ Val[Data[ja.d].f].eq = Val[Data[jb.d].f].eq THEN {"datekey"} ELSE {})
Conf(i) == [j \in 1..(i - 1) |-> Touch(hist[j].job, hist[i].job)]
Emit == Done => PrintT(ToJson([kind |-> "history", jobs |-> [i \in 1..Len(hist) |-> hist[i].job],
                               res |-> IF MaxHist <= 2 THEN [i \in 1..Len(hist) |-> hist[i].res] ELSE <<>>,   \* (= Pure, by HistoryIndependent)
                               conf |-> [i \in 1..Len(hist) |-> Conf(i)]]))
(* the pool itself, printed once: the jobs, their operations and F(job)       *)
PoolRecord == [kind |-> "pool", family |-> Family,
               jobs |-> [i \in 1..N |-> [t |-> Pool[i].t, d |-> Pool[i].d, e |-> Pool[i].e, ops |-> Tmpl[Pool[i].t], pure |-> Pure(i)]],
               partials |-> [p \in Partials |-> Tmpl[p]], vialoader |-> ViaLoader, callerglobals |-> CallerGlobals, env |-> Env, data |-> Data, val |-> Val, fillers |-> Fillers]
ASSUME PrintT(ToJson(PoolRecord))
=============================================================================
