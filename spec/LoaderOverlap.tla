---------------------------- MODULE LoaderOverlap ---------------------------
(* C23 — overlapping asynchronous requests to a caching loader.              *)
(*                                                                           *)
(* LoaderCache.tla treats a request as atomic.  An asynchronous request is    *)
(* not: _check_cache_async looks in the cache, awaits the source loader on a  *)
(* miss (or when the cached entry is stale), stores the new template and      *)
(* returns.  Several tasks can be between "looked" and "stored" for the same  *)
(* key at the same time, and the source may be edited while they wait.        *)
(*   Begin(t)     the task consults the cache: hit -> answers at once         *)
(*   Source(t)    the awaited source loader returns the version current NOW,  *)
(*                the task stores its template and answers                    *)
(*   Edit         the source changes (new version)                            *)
(* REQUIREMENT (what the non-caching loader gives the same request): every    *)
(* answer carries the REQUESTER'S globals and a version of the source that    *)
(* was current at some moment between the request's begin and its answer.     *)
EXTENDS Naturals, Sequences, FiniteSets, TLC, Json

CONSTANTS Tasks,       \* e.g. {1, 2, 3}
          AutoReload,  \* BOOLEAN
          StartCached  \* BOOLEAN: the key is cached (version 1, globals g0) before the tasks start

Globals == [t \in Tasks |-> IF t = 3 THEN 1 ELSE t]     \* tasks 1 and 3 pass the same globals, task 2 different ones

VARIABLES version,    \* current version of the source
          cache,      \* [v, g] or <<>> : the cached template (version it was built from, globals bound into it)
          pc,         \* task -> "idle" | "waiting" | "done"
          got,        \* task -> version returned by the source loader
          answer,     \* task -> [v, g] answered
          began,      \* task -> version current when the task began (ghost)
          edits,      \* number of edits so far
          sched       \* history: the schedule, replayed into the real loader
vars == <<version, cache, pc, got, answer, began, edits, sched>>

Init == /\ version = 1
        /\ cache = IF StartCached THEN <<[v |-> 1, g |-> 0]>> ELSE <<>>
        /\ pc = [t \in Tasks |-> "idle"] /\ got = [t \in Tasks |-> 0]
        /\ answer = [t \in Tasks |-> [v |-> 0, g |-> 0]] /\ began = [t \in Tasks |-> 0]
        /\ edits = 0 /\ sched = <<>>

Stale == AutoReload /\ cache # <<>> /\ cache[1].v # version
Log(e) == sched' = Append(sched, e)

Begin(t) ==
  /\ pc[t] = "idle"
  /\ began' = [began EXCEPT ![t] = version]
  /\ IF cache # <<>> /\ ~Stale
     THEN /\ pc' = [pc EXCEPT ![t] = "done"]          \* cache hit: the shared template bound to THIS request's globals
          /\ answer' = [answer EXCEPT ![t] = [v |-> cache[1].v, g |-> Globals[t]]]
          /\ Log([e |-> "begin", t |-> t, hit |-> TRUE])
     ELSE /\ pc' = [pc EXCEPT ![t] = "waiting"]       \* miss or stale: await the source loader
          /\ UNCHANGED answer
          /\ Log([e |-> "begin", t |-> t, hit |-> FALSE])
  /\ UNCHANGED <<version, cache, got, edits>>

(* the awaited source loader returns the version current NOW; the code builds the template, stores it and answers without *)
(* another await in between, so this is one step                                                                          *)
Source(t) ==
  /\ pc[t] = "waiting"
  /\ got' = [got EXCEPT ![t] = version]
  /\ cache' = <<[v |-> version, g |-> Globals[t]]>>
  /\ answer' = [answer EXCEPT ![t] = [v |-> version, g |-> Globals[t]]]
  /\ pc' = [pc EXCEPT ![t] = "done"]
  /\ Log([e |-> "source", t |-> t, hit |-> FALSE])
  /\ UNCHANGED <<version, began, edits>>

Edit == /\ edits < 1 /\ \E t \in Tasks : pc[t] # "done"
        /\ version' = version + 1 /\ edits' = edits + 1
        /\ Log([e |-> "edit", t |-> 0, hit |-> FALSE])
        /\ UNCHANGED <<cache, pc, got, answer, began>>

Next == (\E t \in Tasks : Begin(t) \/ Source(t)) \/ Edit
Spec == Init /\ [][Next]_vars

Done == \A t \in Tasks : pc[t] = "done"
(* every answer carries the requester's own globals *)
OwnGlobals == \A t \in Tasks : pc[t] = "done" => answer[t].g = Globals[t]
(* ... and a version that was current between the request's begin and now; with auto-reload never an older one than at its begin *)
VersionInWindow == \A t \in Tasks : pc[t] = "done" =>
                      /\ answer[t].v <= version
                      /\ (AutoReload => answer[t].v >= began[t])
Emit == Done => PrintT(ToJson([sched |-> sched, answers |-> answer, auto |-> AutoReload, cached |-> StartCached]))
=============================================================================
