----------------------------- MODULE ErrorModes -----------------------------
(* C03 / C02 — the exit automaton of a render under the three tolerance      *)
(* modes (liquid/template.py render_with_context, Environment.error,         *)
(* RenderContext.error).                                                     *)
(*                                                                           *)
(* A template is a sequence of top-level nodes.  A failing node raises a     *)
(* Liquid error when rendered.  The error travels up to the node loop of the *)
(* TEMPLATE that contains it (the root or an included partial), which        *)
(*   STRICT : re-raises                -> the render ends with that class    *)
(*   WARN   : emits one warning, drops the rest of that top-level node and   *)
(*            goes on with the next one                                      *)
(*   LAX    : the same, silently                                             *)
(* There is deliberately NO action for any other kind of exit.               *)
EXTENDS Naturals, Sequences, FiniteSets, TLC, Json

CONSTANTS MaxNodes

Fails == {"unknown_filter", "missing_arg", "type_error", "missing_partial", "disabled_tag", "stray_break", "bad_int"}
ClassOf(f) == CASE f = "unknown_filter" -> "UnknownFilterError"
                [] f = "missing_arg" -> "FilterArgumentError"
                [] f = "type_error" -> "LiquidTypeError"
                [] f = "missing_partial" -> "TemplateNotFoundError"
                [] f = "disabled_tag" -> "DisabledTagError"
                [] f = "stray_break" -> "LiquidSyntaxError"
                [] f = "bad_int" -> "LiquidTypeError"

(* node shapes: plain text; a failing node; a block (if) holding text, a failing node, text;   *)
(* a partial (include) whose own top-level nodes are text, a failing node, text                *)
Nodes == { [k |-> "text"] }
         \cup { [k |-> "fail", f |-> f] : f \in Fails }
         \cup { [k |-> "block", f |-> f] : f \in Fails }
         \cup { [k |-> "partial", f |-> f] : f \in Fails \ {"stray_break"} }
Progs == UNION { [1..n -> Nodes] : n \in 1..MaxNodes }
Modes == {"strict", "warn", "lax"}

VARIABLES prog, mode, i, out, warnings, status
vars == <<prog, mode, i, out, warnings, status>>

Init == prog \in Progs /\ mode \in Modes /\ i = 1 /\ out = <<>> /\ warnings = 0 /\ status = "running"

(* output atoms: "t<i>" the text node i; "a<i>"/"z<i>" the text before/after the failing node inside node i *)
Atom(p, n) == <<p, n>>

NodeOk ==
  /\ status = "running" /\ i <= Len(prog) /\ prog[i].k = "text"
  /\ out' = Append(out, Atom("t", i))
  /\ i' = i + 1 /\ UNCHANGED <<prog, mode, warnings, status>>

(* what is written before the error, and after it when the enclosing template goes on *)
Before(n) == IF prog[n].k = "fail" THEN <<>> ELSE <<Atom("a", n)>>
(* `disabled_tag` is raised INSIDE the partial that the failing construct renders: that partial's loop absorbs it *)
Contained(f) == f = "disabled_tag"
After(n) == IF prog[n].k = "partial" \/ (prog[n].k = "block" /\ Contained(prog[n].f))
            THEN <<Atom("z", n)>> ELSE <<>>     \* only a template's own node loop continues past the error

NodeError ==
  /\ status = "running" /\ i <= Len(prog) /\ prog[i].k # "text"
  /\ IF mode = "strict"
     THEN /\ status' = "err:" \o ClassOf(prog[i].f)
          /\ out' = out \o Before(i)
          /\ UNCHANGED <<warnings, i>>
     ELSE /\ out' = out \o Before(i) \o After(i)
          /\ warnings' = IF mode = "warn" THEN warnings + 1 ELSE warnings
          /\ i' = i + 1
          /\ UNCHANGED status
  /\ UNCHANGED <<prog, mode>>

Finish ==
  /\ status = "running" /\ i = Len(prog) + 1
  /\ status' = "ok"
  /\ UNCHANGED <<prog, mode, i, out, warnings>>

Next == NodeOk \/ NodeError \/ Finish
Spec == Init /\ [][Next]_vars

-----------------------------------------------------------------------------
NFail == Cardinality({n \in 1..Len(prog) : prog[n].k # "text"})
LaxNeverRaises == mode \in {"lax", "warn"} => status \in {"running", "ok"}
WarnCountsSuppressed == (mode = "warn" /\ status = "ok") => warnings = NFail
OnlyWarnWarns == mode # "warn" => warnings = 0
StrictRaisesFirstError ==
  (mode = "strict" /\ status # "running") =>
     IF NFail = 0 THEN status = "ok"
     ELSE LET n == CHOOSE m \in 1..Len(prog) : prog[m].k # "text" /\ \A q \in 1..(m - 1) : prog[q].k = "text"
          IN status = "err:" \o ClassOf(prog[n].f)
OnlyLiquidExits == status \in {"running", "ok"} \cup { "err:" \o ClassOf(f) : f \in Fails }
Emit == status # "running" => PrintT(ToJson([prog |-> prog, mode |-> mode, status |-> status, out |-> out, warnings |-> warnings]))
=============================================================================
