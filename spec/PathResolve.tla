---------------------------- MODULE PathResolve ----------------------------
(* C22 — single requests against the fixed sandbox tree of PathDefs.tla.     *)
EXTENDS PathDefs

CONSTANTS MaxComps
(* every name of <= MaxComps components, plus every name of 3 components over the components that walk up and sideways *)
CoreComps == {"..", "rootx", "a.txt", "sub", "dlink_out"}
Names == UNION { [1..n -> Comps] : n \in 0..MaxComps } \cup [1..3 -> CoreComps]

VARIABLES req, ans
vars == <<req, ans>>
Init == /\ req \in [prefix : Prefixes, cs : Names, ext : Exts, reject : BOOLEAN]
        /\ ans = "pending"
Resolve == /\ ans = "pending"
           /\ ans' = Outcome(req.prefix, req.cs, req.ext, req.reject)
           /\ UNCHANGED req
Next == Resolve
Spec == Init /\ [][Next]_vars

-----------------------------------------------------------------------------
InsideContents == { FS[p].c : p \in { q \in DOMAIN FS : FS[q].t = "file" /\ q[1] = "root" } }
OutsideContents == { FS[p].c : p \in { q \in DOMAIN FS : FS[q].t = "file" /\ q[1] # "root" } }
(* with symlink rejection nothing from outside is ever returned *)
RealInsideWhenRejectingSymlinks == (ans # "pending" /\ req.reject) => ans \in InsideContents \cup {NotFound}
(* without it, outside content is reachable only THROUGH a link that lives inside the search path *)
Contained ==
  (ans \in OutsideContents) =>
     /\ ~req.reject /\ req.prefix = "rel"
     /\ \E i \in 1..Len(req.cs) : req.cs[i] \in {"link_out.txt", "dlink_out", "link_x.txt", "dlink_x"}
OnlyNotFound == ans \in {"pending", NotFound} \cup InsideContents \cup OutsideContents
UpwardsNeverResolves == (ans # "pending" /\ \E i \in 1..Len(req.cs) : req.cs[i] = "..") => ans = NotFound
(* an absolute name that points INTO the search path may also be answered with that inside file: the statement only *)
(* forbids content from outside (the file-system loader answers NotFound, which is what `Outcome` says)             *)
AlsoAdmissible == IF req.prefix = "abs_root" THEN Outcome("rel", req.cs, req.ext, req.reject) ELSE ans
(* a name that walks upwards may be refused (as the reference mechanism does) or resolved - but then only to a file INSIDE the search path *)
UpwardsAdmissible == IF \E i \in 1..Len(req.cs) : req.cs[i] = ".." THEN InsideContents ELSE {}
Emit == ans # "pending" => PrintT(ToJson([prefix |-> req.prefix, cs |-> req.cs, ext |-> req.ext, reject |-> req.reject,
                                          expect |-> ans, also |-> AlsoAdmissible, upwards |-> UpwardsAdmissible]))
=============================================================================
