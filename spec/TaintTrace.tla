---------------------------- MODULE TaintTrace ----------------------------
(* C05 -- what the real engine did, judged by the specification.           *)
(*                                                                         *)
(* The harness only records: the strings it saw (as sequences of one-      *)
(* character strings) and which obligation of Taint.tla the case carries.  *)
(* The character predicates are the ones of TaintChars.tla; nothing is     *)
(* decided in Python.  One record per distinct observation:                *)
(*   k = "safe"       a value flagged safe (markupsafe.Markup) that a      *)
(*                    filter received, was given as an argument, or        *)
(*                    returned, in a case whose data is not marked safe:   *)
(*                    Taint!SafeIsClean                                    *)
(*   k = "out"        the output of such a case: Taint!OutputClean         *)
(*   k = "unchanged"  output of a case that prints data explicitly marked  *)
(*                    safe, and the marked text: Taint!MarkupUnchanged     *)
(*   k = "sameoff"    the outcome with autoescape on and off of a case     *)
(*                    for which the model says no special character is     *)
(*                    involved: Taint!NoSpecialNoChange (claimed only if   *)
(*                    the real autoescape-off output has none either)      *)
EXTENDS TaintChars, Integers, TLC, Json, IOUtils

Obs == JsonDeserialize(IOEnv.TRACE_FILE)

Holds(r) ==
  CASE r.k = "safe" -> Clean(r.cs)
    [] r.k = "out" -> Clean(r.cs)
    [] r.k = "unchanged" -> r.cs = r.want
    [] r.k = "sameoff" -> (r.offok /\ NoSpecial(r.off)) => (r.onok /\ r.cs = r.off)

VARIABLES i, verdict
vars == <<i, verdict>>
Init == i \in 1..Len(Obs) /\ verdict = "pending"
Judge == /\ verdict = "pending"
         /\ verdict' = IF Holds(Obs[i]) THEN "holds" ELSE "violated"
         /\ UNCHANGED i
Next == Judge
Spec == Init /\ [][Next]_vars

(* which half of Clean fails: a raw < > " ' , or only an ampersand that begins no escape sequence *)
RawSpecial(cs) == \E j \in 1..Len(cs) : cs[j] \in (Specials \ {"&"})
Why(r) == IF r.k \in {"safe", "out"} THEN (IF RawSpecial(r.cs) THEN "raw" ELSE "amp") ELSE r.k
Report == verdict = "violated" => PrintT(<<"REJECT", i, Why(Obs[i])>>)
Counted == verdict = "holds" => PrintT(<<"ACCEPT", i>>)
=============================================================================
