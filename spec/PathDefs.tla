---------------------------- MODULE PathDefs ----------------------------
(* C22 — template loaders never read outside their search paths.            *)
(* The file system is a small tree under a world directory:                 *)
(*    root/      the loader's search path                                   *)
(*    outside/   a sibling directory with decoy files                       *)
(* with file and directory symlinks pointing in and out.  A requested name  *)
(* is a sequence of components plus a prefix kind.  `Outcome` is what a     *)
(* conforming loader may answer: NotFound, or the content of ONE file that  *)
(* lies inside `root` (lexically; and really inside when symlinks are       *)
(* rejected).                                                               *)
EXTENDS Naturals, Sequences, FiniteSets, TLC, Json


D == [t |-> "dir"]
F(c) == [t |-> "file", c |-> c]
Lnk(p) == [t |-> "link", to |-> p]

FS0 == ( <<"root">> :> D
     @@ <<"root", "a.txt">> :> F("in:a.txt")
     @@ <<"root", "sub">> :> D
     @@ <<"root", "sub", "b.txt">> :> F("in:sub/b.txt")
     @@ <<"root", "noext">> :> F("in:noext")
     @@ <<"root", "a">> :> F("in:a")
     @@ <<"root", "uni.txt">> :> F("in:uni.txt")
     @@ <<"root", "link_in.txt">> :> Lnk(<<"root", "a.txt">>)
     @@ <<"root", "link_out.txt">> :> Lnk(<<"outside", "secret.txt">>)
     @@ <<"root", "dlink_out">> :> Lnk(<<"outside">>)
     @@ <<"root", "dlink_in">> :> Lnk(<<"root", "sub">>)
     @@ <<"outside">> :> D
     @@ <<"outside", "secret.txt">> :> F("OUT:secret.txt")
     @@ <<"outside", "a.txt">> :> F("OUT:a.txt")
     @@ <<"rootx">> :> D                                     \* a sibling whose NAME begins with the search path's name
     @@ <<"rootx", "a.txt">> :> F("OUT:rootx/a.txt")
     @@ <<"root", "link_x.txt">> :> Lnk(<<"rootx", "a.txt">>)      \* links into that sibling: a containment test on path STRINGS lets them through
     @@ <<"root", "dlink_x">> :> Lnk(<<"rootx">>) )

Comps == {"a.txt", "sub", "b.txt", "..", ".", "", "link_out.txt", "dlink_out", "secret.txt", "link_in.txt",
          "dlink_in", "noext", "a", "outside", "uni.txt", "nul", "ctl", "long", "root", "rootx", "link_x.txt", "dlink_x"}
Prefixes == {"rel", "abs_root", "abs_outside", "abs_world"}
Exts == {"none", ".txt"}


(* pathlib normalisation: "." and "" components vanish *)
Norm(cs) == SelectSeq(cs, LAMBDA c : c \notin {".", ""})

HasSuffix(c) == c \in {"a.txt", "b.txt", "link_out.txt", "secret.txt", "link_in.txt", "uni.txt", "link_x.txt"}
ApplyExt(cs, ext) ==
  IF ext = "none" \/ cs = <<>> \/ HasSuffix(cs[Len(cs)]) \/ cs[Len(cs)] = ".." THEN cs
  ELSE [cs EXCEPT ![Len(cs)] = CASE @ = "a" -> "a.txt" [] @ = "sub" -> "sub.txt" [] OTHER -> @ \o ".txt"]

(* follow one path from a real directory, resolving links; result: <<"missing">> or the real path reached *)
RECURSIVE WalkIn(_, _, _, _)
WalkIn(FS, cur, cs, fuel) ==
  IF fuel = 0 THEN <<"missing">>
  ELSE IF cs = <<>> THEN cur
  ELSE LET nxt == Append(cur, Head(cs))
       IN IF nxt \notin DOMAIN FS THEN <<"missing">>
          ELSE IF FS[nxt].t = "link" THEN WalkIn(FS, FS[nxt].to, Tail(cs), fuel - 1)
          ELSE IF FS[nxt].t = "file" /\ Tail(cs) # <<>> THEN <<"missing">>
          ELSE WalkIn(FS, nxt, Tail(cs), fuel - 1)

NotFound == "NotFound"
OutcomeIn(FS, prefix, cs, ext, reject) ==
  LET n0 == Norm(cs)
      n == ApplyExt(n0, ext)
  IN IF prefix # "rel" \/ (cs # <<>> /\ cs[1] = "") THEN NotFound   \* absolute names (also "/x": a leading empty component) are never resolved
     ELSE IF n0 = <<>> THEN NotFound                        \* no file name at all
     ELSE IF \E i \in 1..Len(n) : n[i] = ".." THEN NotFound   \* never walk upwards
     ELSE LET p == WalkIn(FS, <<"root">>, n, 8)
          IN IF p = <<"missing">> \/ p \notin DOMAIN FS \/ FS[p].t # "file" THEN NotFound
             ELSE IF reject /\ p[1] # "root" THEN NotFound  \* the real file lies outside
             ELSE FS[p].c

Outcome(prefix, cs, ext, reject) == OutcomeIn(FS0, prefix, cs, ext, reject)
FS == FS0
=============================================================================
