------------------------------ MODULE RoundTrip ------------------------------
(* C04 — serialising a template back to source preserves its meaning.       *)
(*                                                                           *)
(*   t = parse(src) ; s1 = str(t) ; t2 = parse(s1) ; s2 = str(t2)            *)
(*   required:  parse(s1) succeeds,  s2 = s1,  render(t2, d) = render(t, d)  *)
(*              for every data valuation d                                   *)
(*                                                                           *)
(* The module has three uses, selected by the constant Mode:                 *)
(*  "gen"   Init chooses one program of the bounded family below.  For the   *)
(*          logical-expression programs the round trip itself is run inside  *)
(*          the specification, one step per step of the harness              *)
(*          (Parse ; Print ; Reparse ; Reprint with ExprRT's transcription   *)
(*          of the engine's parser and a printer), and the clauses of the    *)
(*          property are invariants of that machine — so the requirement is  *)
(*          satisfiable by a printer that parenthesises by the PARSER's      *)
(*          precedences, and refuted (cfg RoundTrip_deviation) for the       *)
(*          pinned tree's printer with its own precedence table.  Every      *)
(*          terminal state emits the program: source pieces, the variables   *)
(*          it reads with their domains, every valuation, and (where the     *)
(*          specification fixes it) the expected output per valuation.       *)
(*  "grow"  the same machine preceded by the random growth of one deeper     *)
(*          tree in prefix order (run with tlc -simulate).                   *)
(*  "judge" the observer: Init chooses one observation recorded by the       *)
(*          harness from the real library, Judge folds it into a verdict     *)
(*          naming the first clause of the relation that fails.              *)
(*                                                                           *)
(* Tag programs are built from options [t: labels, s: source pieces,         *)
(* v: variables read]; a family is the product of the options of each        *)
(* argument position of a tag, so every argument shape meets every other.    *)
(* The harness only joins the pieces, looks the valuations up in `dom`, runs *)
(* the library and reports what it saw; it never decides anything.           *)
(* Several TLC runs share the family: Families / Roots / Rotations select a  *)
(* slice, Wide the larger products of the thorough tier.                     *)
EXTENDS ExprRT, Json, IOUtils, SequencesExt

CONSTANTS Mode,            \* "gen" | "grow" | "judge"
          Printer,         \* "ref" | "min" | "own"   (printer used by the in-spec round trip)
          Families,        \* names of the families to enumerate
          LogicDepth,      \* and/or/not trees up to this depth, every carrier up to CarrierDepth
          CarrierDepth,
          Rotations,       \* leaf labellings (rotation of a,b,c)
          CmpDepth,        \* trees that also nest ==  (deep) and < != contains (depth 2)
          GrowDepth,
          Roots,           \* only trees with these root operators (lets several TLC runs share the family)
          Wide             \* BOOLEAN: the larger products of the thorough tier

VARIABLES prog, phase, ast, text, ast2, text2
vars == <<prog, phase, ast, text, ast2, text2>>

(* C12's reference parser and printer for and/or/not (Expr.tla, unchanged); its variables play no part here *)
C12 == INSTANCE Expr WITH MaxDepth <- 0, WithGroups <- FALSE, case <- prog, verdict <- phase

-----------------------------------------------------------------------------
(* data: variable -> sequence of values it takes; a valuation maps each variable to an index *)
Undef == "@undef"                 \* the harness leaves such a variable out of the render arguments
O1 == [b |-> [c |-> 1, d |-> "k1", e |-> <<4, 5>>], k1 |-> 2, arr |-> <<10, 20, 30>>]
      @@ ("b c" :> 3) @@ ("and" :> 4) @@ ("it's" :> 5) @@ ("q\"q" :> 6) @@ ("a\\b" :> 7) @@ ("empty" :> 8) @@ ("1" :> 9) @@ ("2024" :> [b |-> 10]) @@ ("1-2" :> 11) @@ ("7up" :> 12)
O2 == [b |-> [c |-> 21, d |-> "arr", e |-> <<24>>], k1 |-> 22, arr |-> <<40, 2>>]
      @@ ("b c" :> 23) @@ ("and" :> 24) @@ ("it's" :> 25) @@ ("q\"q" :> 26) @@ ("a\\b" :> 27) @@ ("empty" :> 28) @@ ("1" :> 29) @@ ("2024" :> [b |-> 30]) @@ ("1-2" :> 31) @@ ("7up" :> 32)
Dom == [a |-> <<TRUE, FALSE>>, b |-> <<TRUE, FALSE>>, c |-> <<TRUE, FALSE>>,
        n |-> <<0, 2, 3>>, k |-> <<0, 1>>,
        xs |-> << <<>>, <<1, 2, 3, 1>> >>,
        x |-> <<5, 6>>, y |-> <<7, 6>>, u |-> <<Undef, FALSE, "v">>,
        s |-> <<"", "a b", "it's">>, g |-> <<"G", "H">>, h |-> <<"G">>,
        tn |-> <<"part", "other">>, o |-> <<O1, O2>>, p |-> <<"x", "y">>, q |-> <<"o", "zz">>]
       @@ ("a b" :> << <<1, 2>>, <<3>> >>)
MaxDom == 3
ValSeq(vs) == SetToSeq({ f \in [vs -> 1..MaxDom] : \A z \in vs : f[z] <= Len(Dom[z]) })
Partials == [part |-> "<{{ x }}|{{ y }}|{{ part }}>", other |-> "<o:{{ y }}>"]

-----------------------------------------------------------------------------
(* options and their combination *)
E == [t |-> <<>>, s |-> <<>>, v |-> {}]
L(str) == [t |-> <<>>, s |-> <<str>>, v |-> {}]
O(tag, str, vs) == [t |-> <<tag>>, s |-> <<str>>, v |-> vs]
V(name) == O("var", name, {name})
RECURSIVE Cat(_)
Cat(xs) == IF xs = <<>> THEN E
           ELSE LET r == Cat(Tail(xs)) IN [t |-> Head(xs).t \o r.t, s |-> Head(xs).s \o r.s, v |-> Head(xs).v \cup r.v]
Prog(fam, opt) == [fam |-> fam, t |-> opt.t, s |-> opt.s, v |-> opt.v]
At(pos, opd) == Cat(<<O(pos.n, pos.pre, pos.v), opd, L(pos.post)>>)
Pos(n, pre, post, vs) == [n |-> n, pre |-> pre, post |-> post, v |-> vs]
RECURSIVE SeqsUpTo(_, _)
SeqsUpTo(S, n) == IF n = 0 THEN {<<>>} ELSE LET r == SeqsUpTo(S, n - 1) IN r \cup { <<z>> \o w : z \in S, w \in { w2 \in r : Len(w2) = n - 1 } }

(* ---- operands ------------------------------------------------------------------------------------ *)
Strs == { O("str-plain", "'pl'", {}), O("str-dqplain", "\"dq\"", {}), O("str-sq", "\"it's\"", {}), O("str-dq", "'q\"q'", {}),
          O("str-backslash", "'a\\b'", {}), O("str-backslash-n", "'a\\nb'", {}), O("str-newline", "'a\nb'", {}),
          O("str-empty", "''", {}), O("str-space", "' '", {}), O("str-braces", "'{{'", {}) }
Nums == { O("int", "2", {}), O("int-neg", "-1", {}), O("float", "1.5", {}), O("float-neg", "-0.5", {}),
          O("float-small", "0.00001", {}), O("float-big", "10000000000000000.0", {}) }
Consts == { O("true", "true", {}), O("false", "false", {}), O("nil", "nil", {}) }
Paths == { O("path-dotted", "o.b.c", {"o"}), O("path-sq", "o['b c']", {"o"}), O("path-dq", "o[\"b c\"]", {"o"}),
           O("path-nested", "o[o.b.d]", {"o"}), O("path-index", "o.arr[0]", {"o"}), O("path-negindex", "o.arr[-1]", {"o"}),
           O("path-first", "o.arr.first", {"o"}), O("path-size", "o.arr.size", {"o"}), O("path-mixed", "o.b['e'][1]", {"o"}),
           O("path-qfirst", "o['b'].c", {"o"}), O("path-keyword", "o['and']", {"o"}), O("path-keyword-empty", "o[\"empty\"]", {"o"}),
           O("path-seg-digits", "o['1']", {"o"}), O("path-seg-digits-dot", "o['2024'].b", {"o"}), O("path-seg-digit-dash", "o['1-2']", {"o"}),
           O("path-seg-digit-word", "o['7up']", {"o"}),
           O("path-seg-sq", "o[\"it's\"]", {"o"}), O("path-seg-dq", "o['q\"q']", {"o"}), O("path-seg-backslash", "o['a\\b']", {"o"}),
           O("path-nested-root", "o.arr[['a b'][0]]", {"o", "a b"}), O("path-nested-bracket", "o[[p]]", {"o", "p", "x", "y"}) }
(* bracketed roots: a variable whose NAME is computed ([p]) or quoted (['a b']) *)
PathsB == { O("root-bracket", "[p]", {"p", "x", "y"}), O("root-bracket-path", "[q].b.c", {"q", "o"}),
           O("root-bracket-quoted-seg", "[q]['b c']", {"q", "o"}), O("root-bracket-index", "[q].arr[-1]", {"q", "o"}) }
PathsQ == { O("root-quoted", "['a b']", {"a b"}), O("root-dquoted", "[\"a b\"]", {"a b"}), O("root-quoted-index", "['a b'][0]", {"a b"}),
           O("root-quoted-size", "['a b'].size", {"a b"}) }
Ranges == { O("range-lit", "(1..3)", {}), O("range-var", "(1..n)", {"n"}), O("range-vars", "(k..n)", {"k", "n"}),
            O("range-path", "(k..o.b.e[0])", {"k", "o"}), O("range-bracket-root", "(1..['a b'][0])", {"a b"}) }

(* ---- positions an expression can stand in --------------------------------------------------------- *)
ExprPositions ==
  { Pos("out", "{{ ", " }}", {}), Pos("echo", "{% echo ", " %}", {}), Pos("assign", "{% assign z = ", " %}[{{ z }}]", {}),
    Pos("filter-arg", "{{ x | append: ", " }}", {"x"}), Pos("filter-kwarg", "{{ u | default: 'd', allow_false: ", " }}", {"u"}),
    Pos("cmp-right", "{% if x == ", " %}T{% else %}F{% endif %}", {"x"}), Pos("cmp-left", "{% if ", " != 2 %}T{% else %}F{% endif %}", {}),
    Pos("truthy", "{% unless ", " %}T{% else %}F{% endunless %}", {}), Pos("case-subject", "{% case ", " %}{% when 2 %}two{% when 'pl' %}pl{% else %}E{% endcase %}", {}),
    Pos("when", "{% case s %}{% when 'zz', ", " %}W{% else %}E{% endcase %}", {"s"}), Pos("for-target", "{% for i in ", " %}{{ i }},{% else %}none{% endfor %}", {}),
    Pos("for-limit", "{% for i in xs limit: ", " %}{{ i }},{% endfor %}", {"xs"}), Pos("tablerow-cols", "{% tablerow i in xs cols: ", " %}{{ i }}{% endtablerow %}", {"xs"}),
    Pos("cycle-arg", "{% cycle ", ", 'z' %}", {}), Pos("include-kwarg", "{% include 'part', y: ", " %}", {}),
    Pos("ternary-left", "{{ ", " if a else 'F' }}", {"a"}),
    Pos("ternary-alt", "{{ 'T' if a else ", " }}", {"a"}), Pos("ternary-cond", "{{ 'T' if ", " else 'F' }}", {}),
    Pos("range-stop", "{{ (1..", ") | join: ',' }}", {}) }
(* `render ... with` takes a path that starts with a word; a filter argument cannot start with a quoted root (parser limits, not C04's) *)
RenderWith == Pos("render-with", "{% render 'part' with ", " as y %}", {})
FilterArg == Pos("filter-arg", "{{ x | append: ", " }}", {"x"})
ComparePositions ==
  { Pos("eq-right", "{% if s == ", " %}T{% else %}F{% endif %}", {"s"}), Pos("eq-left", "{% if ", " == xs %}T{% else %}F{% endif %}", {"xs"}),
    Pos("ne-in-and", "{% if a and u != ", " %}T{% else %}F{% endif %}", {"a", "u"}), Pos("ternary-eq", "{{ 'T' if o.b.e == ", " else 'F' }}", {"o"}) }
Keywords == { O("empty", "empty", {}), O("blank", "blank", {}), O("nil", "nil", {}), O("null", "null", {}) }
StringPositions ==
  ExprPositions \cup
  { Pos("cycle-group", "{% for i in (1..3) %}{% cycle ", ": 1, 2 %}{% cycle 'other': 1, 2 %}{% endfor %}", {}),
    Pos("include-name", "{% include 'part', x: ", " %}", {}), Pos("contains", "{% if s contains ", " %}T{% else %}F{% endif %}", {"s"}),
    Pos("filter-two-args", "{{ s | replace: ", ", 'R' }}", {"s"}) }

(* ---- tags ------------------------------------------------------------------------------------------ *)
Targets == { V("xs"), O("range", "(1..n)", {"n"}), O("path", "o.arr", {"o"}) } \cup (IF Wide THEN { O("range2", "(k..3)", {"k"}), O("string", "s", {"s"}) } ELSE {})
Limits == { E, O("limit=lit", " limit:2", {}), O("limit=var", " limit:n", {"n"}) }
Offsets == { E, O("offset=lit", " offset:1", {}), O("offset=var", " offset:k", {"k"}) }
Revs == { E, O("reversed", " reversed", {}) }
ForElse == { E, O("else", "{% else %}none", {}) }
ForProgs ==
  { Cat(<<O("for", "{% for i in ", {}), tg, li, of, rv, L(" %}{{ i }},"), el, L("{% endfor %}")>>) :
      tg \in Targets, li \in Limits, of \in Offsets, rv \in Revs, el \in ForElse }
  \cup { Cat(<<O("for-continue", "{% for i in xs limit:2 %}{{ i }},{% endfor %}|{% for i in xs offset:continue", {"xs"}), li, rv,
               L(" %}{{ i }},{% endfor %}")>>) : li \in Limits, rv \in Revs }
  \cup { O("for-break", "{% for i in xs %}{% if i == 3 %}{% break %}{% endif %}{{ i }},{% endfor %}", {"xs"}),
         O("for-continue-tag", "{% for i in xs %}{% if i == 2 %}{% continue %}{% endif %}{{ i }},{% endfor %}", {"xs"}),
         O("for-commas", "{% for i in xs, limit: 2, offset: k %}{{ i }}{{ forloop.index }}{% endfor %}", {"xs", "k"}),
         O("for-nested", "{% for i in xs %}{% for j in (1..i) limit:2 %}{{ j }}{{ forloop.parentloop.index }}{% endfor %};{% endfor %}", {"xs"}) }
Cols == { E, O("cols=lit", " cols:2", {}), O("cols=var", " cols:n", {"n"}) }
TablerowProgs ==
  { Cat(<<O("tablerow", "{% tablerow i in ", {}), tg, co, li, of, L(" %}{{ i }}{% endtablerow %}")>>) :
      tg \in Targets, co \in Cols, li \in { E, O("limit=lit", " limit:2", {}) }, of \in { E, O("offset=lit", " offset:1", {}) } }
  \cup { O("tablerow-reversed", "{% tablerow i in xs cols:2 reversed %}{{ i }}{{ tablerowloop.col }}{% endtablerow %}", {"xs"}),
         O("tablerow-break", "{% tablerow i in xs %}{% if i == 3 %}{% break %}{% endif %}{{ i }}{% endtablerow %}", {"xs"}) }

Conds3 == << V("a"), V("b"), V("c") >>
IfChain(open, close, nelsif, els) ==
  Cat(<<O(open, "{% " \o open \o " ", {}), Conds3[1], L(" %}1")>>
      \o (IF nelsif >= 1 THEN <<O("elsif", "{% elsif ", {}), Conds3[2], L(" %}2")>> ELSE <<>>)
      \o (IF nelsif >= 2 THEN <<O("elsif", "{% elsif ", {}), Conds3[3], L(" %}3")>> ELSE <<>>)
      \o (IF els THEN <<O("else", "{% else %}4", {})>> ELSE <<>>)
      \o <<L("{% " \o close \o " %}")>>)
IfProgs == { IfChain("if", "endif", ne, el) : ne \in 0..2, el \in BOOLEAN }
           \cup { IfChain("unless", "endunless", ne, el) : ne \in 0..2, el \in BOOLEAN }
           \cup { O("if-empty-blocks", "{% if a %}{% elsif b %}{% else %}{% endif %}|", {"a", "b"}) }

CaseBlocks == { O("when", "{% when 5 %}A", {}), O("when-list", "{% when 6, y %}B", {"y"}), O("when-or", "{% when 5 or 8 %}C", {}),
                O("when-str", "{% when 'five', \"it's\" %}D", {}), O("else", "{% else %}E", {}) }
CaseProgs ==
  { Cat(<<O("case", "{% case x %}", {"x"})>> \o bs \o <<L("{% endcase %}")>>) : bs \in SeqsUpTo(CaseBlocks, IF Wide THEN 3 ELSE 2) \ {<<>>} }
  \cup { O("case-junk", "{% case x %} junk {% when 5 %}A{% endcase %}", {"x"}),
         O("case-str-subject", "{% case s %}{% when 'a b' %}A{% when \"it's\" %}B{% endcase %}", {"s"}) }

Filters == { E, O("filter-arg-lit", " | plus: 1", {}), O("filter-arg-var", " | plus: y", {"y"}),
             O("filter-chain", " | append: 'u' | upcase", {}), O("filter-two-args", " | append: 'abcd' | slice: 1, 2", {}),
             O("filter-kwarg", " | default: 'd', allow_false: true", {}), O("filter-kwarg-var", " | default: y, allow_false: a", {"y", "a"}),
             O("filter-noarg", " | size", {}) }
Lefts == { V("x"), V("u"), O("str", "'pl'", {}), O("int", "3", {}), O("path", "o.arr", {"o"}), O("range", "(1..n)", {"n"}) }
Filtered == { Cat(<<l, f>>) : l \in Lefts, f \in Filters }
TernConds == { V("a"), O("cond-and", "a and b", {"a", "b"}), O("cond-not", "not a", {"a"}), O("cond-group", "(a or b) and u", {"a", "b", "u"}),
               O("cond-cmp", "x == 5", {"x"}) }
TernAlts == { E } \cup { Cat(<<O("else", " else ", {}), al, af>>) :
                           al \in { V("y"), O("str", "'alt'", {}) }, af \in { E, O("alt-filter", " | append: 'f'", {}), O("alt-filters", " | append: 'f' | upcase", {}) } }
TernTails == { E, O("tail", " || append: '!'", {}), O("tail-chain", " || append: '!' | append: y", {"y"}) }
Ternaries == { Cat(<<l, lf, O("if", " if ", {}), cn, al, tl>>) :
                 l \in { V("x"), O("str", "'pl'", {}) }, lf \in { E, O("left-filter", " | append: 'L'", {}) },
                 cn \in (IF Wide THEN TernConds ELSE { V("a"), O("cond-group", "(a or b) and u", {"a", "b", "u"}) }), al \in TernAlts, tl \in TernTails }
OutPositions == { Pos("out", "{{ ", " }}", {}), Pos("echo", "{% echo ", " %}", {}), Pos("assign", "{% assign z = ", " %}[{{ z }}]", {}) }
OutputProgs == { At(ps, e) : ps \in OutPositions, e \in Filtered }
               \cup { At(ps, e) : ps \in (IF Wide THEN OutPositions ELSE { Pos("out", "{{ ", " }}", {}) }), e \in Ternaries }
               \cup { O("echo-bare", "{% echo %}", {}), O("capture", "{% capture z %}[{{ x }}]{% endcapture %}{{ z }}{{ z }}", {"x"}),
                      O("capture-tags", "{% capture z %}{% if a %}A{% endif %}{% for i in xs %}{{ i }}{% endfor %}{% endcapture %}<{{ z }}>", {"a", "xs"}),
                      O("assign-twice", "{% assign z = x %}{% assign z = z | plus: y %}{{ z }}", {"x", "y"}) }

CycleGroups == { <<E, E>>, <<O("group=lit", "'g1': ", {}), O("group=lit", "'g2': ", {})>>,
                 <<O("group=lit-space", "'a b': ", {}), O("group=lit-space", "'c d': ", {})>>,
                 <<O("group=lit-quote", "\"it's\": ", {}), O("group=lit", "'its': ", {})>>,
                 <<O("group=var", "g: ", {"g"}), O("group=var", "h: ", {"h"})>>, <<O("group=var", "g: ", {"g"}), O("group=lit", "'G': ", {})>>,
                 <<O("group=int", "1: ", {}), O("group=int", "2: ", {})>>, <<O("group=lit", "'g1': ", {}), E>> }
CycleItems == { O("items=str", "'a', 'b'", {}), O("items=mixed", "1, x, 'c'", {"x"}), O("items=var", "x, y", {"x", "y"}) }
CycleProgs == { Cat(<<O("cycle", "{% for i in (1..3) %}{% cycle ", {}), gp[1], it, L(" %}{% cycle "), gp[2], it, L(" %},{% endfor %}")>>) :
                  gp \in CycleGroups, it \in CycleItems }
CounterProgs == { O("increment", "{% increment cn %}{% increment cn %}{{ cn }}", {}), O("decrement", "{% decrement dn %}{% decrement dn %}{{ dn }}", {}),
                  O("increment-decrement", "{% increment cn %}{% decrement cn %}{% decrement cn %}{% increment x %}{{ x }}", {"x"}) }
IfchangedProgs == { O("ifchanged", "{% for i in xs %}{% ifchanged %}{{ i }}{% endifchanged %}{% endfor %}", {"xs"}),
                    O("ifchanged-text", "{% for i in xs %}{% ifchanged %}<b>{{ i }}</b> {% endifchanged %}{% endfor %}", {"xs"}),
                    O("ifchanged-tag", "{% for i in xs %}{% ifchanged %}{% if i == 1 %}one{% else %}many{% endif %}{% endifchanged %}{% endfor %}", {"xs"}),
                    O("ifchanged-empty", "{% ifchanged %}{% endifchanged %}|", {}) }

Kwargs == { E, O("kwarg", ", x: 1", {}), O("kwargs", ", x: 1, y: g", {"g"}), O("kwarg-str", ", y: 'k v'", {}), O("kwarg-path", ", y: o.b.c, x: true", {"o"}) }
IncludeBinds == { E, O("with", " with x", {"x"}), O("with-as", " with xs as y", {"xs"}), O("for-as", " for xs as y", {"xs"}),
                  O("with-as-str", " with s as y", {"s"}), O("with-path", " with o.arr[0]", {"o"}) }
RenderBinds == { E, O("with", " with x", {"x"}), O("with-as", " with x as y", {"x"}), O("for", " for xs", {"xs"}), O("for-as", " for xs as y", {"xs"}),
                 O("with-path-as", " with o.arr[-1] as y", {"o"}) }
PartialProgs ==
  { Cat(<<O("include", "{% include ", {}), nm, bd, kw, L(" %}")>>) :
      nm \in { O("name=lit", "'part'", {}), O("name=var", "tn", {"tn"}) }, bd \in IncludeBinds, kw \in Kwargs }
  \cup { Cat(<<O("render", "{% render ", {}), nm, bd, kw, L(" %}")>>) :
           nm \in { O("name=lit", "'part'", {}), O("name=dq", "\"other\"", {}) }, bd \in RenderBinds, kw \in Kwargs }

LiquidProgs == { O("liquid", "{% liquid assign z = x\necho z\nif a\n echo 'T'\nendif %}", {"x", "a"}),
                 O("liquid-for", "{% liquid\n  for i in xs\n    echo i\n  endfor\n%}", {"xs"}), O("liquid-empty", "{% liquid %}", {}),
                 O("liquid-comment", "{% liquid # note\necho x %}", {"x"}),
                 O("liquid-case", "{% liquid case x\nwhen 5\necho 'five'\nelse\necho 'other'\nendcase %}", {"x"}),
                 O("liquid-strings", "{% liquid echo \"it's\" | append: 'a\\b'\n assign z = 'q\"q' %}{{ z }}", {}) }
SilentProgs == { O("comment", "{% comment %} hidden {{ x }} {% endcomment %}A{{ x }}", {"x"}), O("comment-markup", "{% comment %}{% if %}{{ {% endcomment %}A", {}),
                 O("comment-nested", "{% comment %}a{% comment %}b{% endcomment %}c{% endcomment %}Z", {}), O("comment-empty", "{% comment %}{% endcomment %}|", {}),
                 O("inline-comment", "{% # inline comment %}A", {}), O("inline-comment-tight", "{%# tight %}A", {}),
                 O("inline-comment-lines", "{% #\n # two\n # lines %}A", {}), O("doc", "{% doc %} text {{ x }} {% enddoc %}A", {}),
                 O("raw-output", "{% raw %}{{ x }}{% endraw %}{{ x }}", {"x"}), O("raw-tag", "{% raw %}{% if %}{% endraw %}|", {}),
                 O("raw-plain", "{% raw %} plain {% endraw %}", {}), O("raw-spaces", "a {% raw %}  {{ x }}\n{% endraw %} b", {}),
                 O("raw-raw", "a{% raw %}{% raw %}{% endraw %}b", {}), O("raw-comment", "{% raw %}{% comment %}{% endraw %}", {}),
                 O("whitespace-control", "  {{- x -}}  a  {%- if a -%}  b  {%- endif -%}  c", {"x", "a"}),
                 O("whitespace-control-tags", "{% for i in xs -%}\n  {{ i }}\n{%- endfor %}", {"xs"}),
                 O("text", "plain text with { braces } % and\nnewlines, 'quotes' \"too\"", {}), O("text-unicode", "café {{ x }} ☃", {"x"}) }

Blocks == { <<O("in-if", "{% if a %}", {"a"}), L("{% endif %}")>>, <<O("in-else", "{% unless a %}U{% else %}", {"a"}), L("{% endunless %}")>>,
            <<O("in-for", "{% for i in xs %}", {"xs"}), L("{% endfor %}")>>, <<O("in-tablerow", "{% tablerow i in xs cols:2 %}", {"xs"}), L("{% endtablerow %}")>>,
            <<O("in-capture", "{% capture z %}", {}), L("{% endcapture %}<{{ z }}>")>>, <<O("in-ifchanged", "{% for i in xs %}{% ifchanged %}", {"xs"}), L("{% endifchanged %}{% endfor %}")>>,
            <<O("in-when", "{% case x %}{% when 5 %}", {"x"}), L("{% endcase %}")>>, <<O("in-elsif", "{% if a %}A{% elsif b %}", {"a", "b"}), L("{% endif %}")>> }
Inners == { O("output", "{{ x | plus: 1 }}", {"x"}), O("assign", "{% assign z = 's' %}{{ z }}", {}), O("cycle", "{% cycle 'g': 1, 2 %}", {}),
            O("increment", "{% increment cn %}", {}), O("include", "{% include 'part' %}", {}), O("raw", "{% raw %}{{ x }}{% endraw %}", {}),
            O("comment", "{% comment %}c{% endcomment %}", {}), O("if", "{% if b and (c or a) %}B{% endif %}", {"a", "b", "c"}),
            O("for", "{% for j in (1..2) %}{{ j }}{% endfor %}", {}), O("liquid", "{% liquid echo x %}", {"x"}), O("echo", "{% echo \"it's\" %}", {}),
            O("tablerow", "{% tablerow j in (1..2) %}{{ j }}{% endtablerow %}", {}), O("ifchanged", "{% ifchanged %}{{ x }}{% endifchanged %}", {"x"}),
            O("case", "{% case x %}{% when 5 %}A{% else %}E{% endcase %}", {"x"}), O("text", " t ", {}) }
NestProgs == { Cat(<<bk[1], inr, bk[2]>>) : bk \in Blocks, inr \in Inners }
             \cup (IF Wide THEN { Cat(<<bk[1], b2[1], inr, b2[2], bk[2]>>) : bk \in Blocks, b2 \in Blocks, inr \in Inners } ELSE {})

TagFamily(f) ==
  CASE f = "if" -> IfProgs
    [] f = "case" -> CaseProgs
    [] f = "for" -> ForProgs
    [] f = "tablerow" -> TablerowProgs
    [] f = "output" -> OutputProgs
    [] f = "cycle" -> CycleProgs
    [] f = "counter" -> CounterProgs
    [] f = "ifchanged" -> IfchangedProgs
    [] f = "partial" -> PartialProgs
    [] f = "liquid" -> LiquidProgs
    [] f = "silent" -> SilentProgs
    [] f = "nest" -> NestProgs
    [] f = "string" -> { At(ps, e) : ps \in StringPositions, e \in Strs }
    [] f = "path" -> { At(ps, e) : ps \in ExprPositions \cup {RenderWith}, e \in Paths }
                     \cup { At(ps, e) : ps \in ExprPositions, e \in PathsB }
                     \cup { At(ps, e) : ps \in ExprPositions \ {FilterArg}, e \in PathsQ }
    [] f = "number" -> { At(ps, e) : ps \in ExprPositions, e \in Nums \cup Consts }
    [] f = "range" -> { At(ps, e) : ps \in ExprPositions \ { Pos("range-stop", "{{ (1..", ") | join: ',' }}", {}) }, e \in Ranges }
    [] f = "keyword" -> { At(ps, e) : ps \in ComparePositions, e \in Keywords }
TagFamilies == {"if", "case", "for", "tablerow", "output", "cycle", "counter", "ifchanged", "partial", "liquid", "silent", "nest",
                "string", "path", "number", "range", "keyword"}

(* ---- logical expressions in every carrier ----------------------------------------------------------- *)
Carriers == {"if", "unless", "elsif", "unless-elsif", "ternary", "assign-ternary"}
RECURSIVE Spaced(_)
Spaced(ts) == IF Len(ts) <= 1 THEN ts ELSE <<Head(ts), " ">> \o Spaced(Tail(ts))
Carry(cr, ts) ==
  CASE cr = "if" -> <<"{% if ">> \o Spaced(ts) \o <<" %}T{% else %}F{% endif %}">>
    [] cr = "unless" -> <<"{% unless ">> \o Spaced(ts) \o <<" %}F{% else %}T{% endunless %}">>
    [] cr = "elsif" -> <<"{% if false %}X{% elsif ">> \o Spaced(ts) \o <<" %}T{% else %}F{% endif %}">>
    [] cr = "unless-elsif" -> <<"{% unless true %}X{% elsif ">> \o Spaced(ts) \o <<" %}T{% else %}F{% endunless %}">>
    [] cr = "ternary" -> <<"{{ 'T' if ">> \o Spaced(ts) \o <<" else 'F' }}">>
    [] cr = "assign-ternary" -> <<"{% assign z = 'T' if ">> \o Spaced(ts) \o <<" else 'F' | append: '' %}{{ z }}">>
RECURSIVE AtomsOf(_)
AtomsOf(t) == CASE IsAtom(t) -> {t[2]}
                [] IsNot(t) -> AtomsOf(t[2])
                [] OTHER -> AtomsOf(t[2]) \cup AtomsOf(t[3])
Rooted(S) == { t \in S : t[1] \in Roots }
LogicProgs ==
  { [fam |-> "logic", tree |-> t, carrier |-> cr] : cr \in Carriers, t \in Rooted(UNION { Trees(CarrierDepth, LogOps, r) : r \in Rotations }) }
  \cup { [fam |-> "logic", tree |-> t, carrier |-> "if"] : t \in Rooted(UNION { Trees(LogicDepth, LogOps, r) : r \in Rotations }) }
(* the joint of the two printers: a comparison (every operator) with possibly negated operands, as the left or the right *)
(* operand of and / or - depth 3, but only 128 trees (`a == (not b) and c` must keep its group: `not` takes the rest)     *)
Unary == { <<"atom", "_">>, <<"not", <<"atom", "_">>>> }
JointTrees == { Lab(t, 0)[1] : t \in { <<lop, <<cop, u1, u2>>, u3>> : lop \in LogOps, cop \in CmpOps, u1 \in Unary, u2 \in Unary, u3 \in Unary }
                                  \cup { <<lop, u3, <<cop, u1, u2>>>> : lop \in LogOps, cop \in CmpOps, u1 \in Unary, u2 \in Unary, u3 \in Unary } }
CmpProgs ==
  { [fam |-> "compare", tree |-> t, carrier |-> cr] : cr \in (IF Wide THEN {"if", "ternary"} ELSE {"if"}), t \in Rooted(Trees(2, BinOps, 0)) }
  \cup { [fam |-> "compare", tree |-> t, carrier |-> "if"] : t \in Rooted(Trees(CmpDepth, LogOps \cup {"=="}, 1)) }
  \cup { [fam |-> "compare", tree |-> t, carrier |-> "if"] : t \in Rooted(JointTrees) }
IsTree(pg) == pg.fam \in {"logic", "compare", "grown"}
ASSUME FamiliesKnown == Families \subseteq TagFamilies \cup {"logic", "compare"}

Programs(f) == CASE f = "logic" -> LogicProgs
                 [] f = "compare" -> CmpProgs
                 [] OTHER -> { Prog(f, opt) : opt \in TagFamily(f) }

-----------------------------------------------------------------------------
(* observations handed back by the harness *)
Obs == JsonDeserialize(IOEnv.TRACE_FILE)
Parses(r) == r.parse = "ok"
Stable(r) == r.s2 = r.s1
SameMeaningAt(r, j) == r.orig[j] = r.again[j]
SameMeaning(r) == Len(r.again) = Len(r.orig) /\ \A j \in 1..Len(r.orig) : SameMeaningAt(r, j)
(* calibration of ExprRT's parser against the engine's: where the specification fixes the output of the ORIGINAL template *)
Calibrated(r) == \A j \in 1..Len(r.expect) : r.orig[j] = [k |-> "ok", v |-> r.expect[j]]
RoundTripHolds(r) == Parses(r) /\ Stable(r) /\ SameMeaning(r)
FirstFailure(r) ==
  IF ~Parses(r) THEN "ReparseFails"
  ELSE IF ~SameMeaning(r) THEN "MeaningChanged"
  ELSE IF ~Stable(r) THEN "NotIdempotent"
  ELSE IF ~Calibrated(r) THEN "SpecParserDisagreesWithEngine"
  ELSE "holds"

-----------------------------------------------------------------------------
ShowP(t) == CASE Printer = "ref" -> Show(t)
              [] Printer = "min" -> ShowMin(t)
              [] Printer = "own" -> ShowOwn(t)

Init ==
  /\ ast = <<>> /\ text = <<>> /\ ast2 = <<>> /\ text2 = <<>>
  /\ IF Mode = "gen" THEN /\ \E f \in Families : prog \in Programs(f)
                          /\ phase = "src"
     ELSE IF Mode = "grow" THEN prog = [pre |-> <<>>, pend |-> <<GrowDepth>>] /\ phase = "growing"
     ELSE prog \in 1..Len(Obs) /\ phase = "pending"

(* "grow": write the next node of the tree in prefix order; leaves only near the depth bound *)
Grow ==
  /\ phase = "growing" /\ prog.pend # <<>>
  /\ LET d == Head(prog.pend)
         rest == Tail(prog.pend)
     IN \/ /\ d <= 1
           /\ \E z \in {"a", "b", "c"} : prog' = [pre |-> Append(prog.pre, z), pend |-> rest]
        \/ /\ d >= 1
           /\ prog' = [pre |-> Append(prog.pre, "not"), pend |-> <<d - 1>> \o rest]
        \/ /\ d >= 1
           /\ \E op \in LogOps \cup (IF d <= 2 THEN {"=="} ELSE {}) : prog' = [pre |-> Append(prog.pre, op), pend |-> <<d - 1, d - 1>> \o rest]
  /\ UNCHANGED <<phase, ast, text, ast2, text2>>
Grown ==
  /\ phase = "growing" /\ prog.pend = <<>>
  /\ prog' = [fam |-> "grown", tree |-> FromPrefix(prog.pre)[1], carrier |-> "if"]
  /\ phase' = "src"
  /\ UNCHANGED <<ast, text, ast2, text2>>

(* the round trip inside the specification: the source is the minimally parenthesised text of the tree. *)
(* A text that is not consumed completely by the parser does not parse.                                   *)
Source(pg) == ShowMin(pg.tree)
ParseAll(ts) == LET r == PPrim(ts, LOWEST) IN IF r[2] = <<>> THEN r[1] ELSE <<"unparsable", r[2]>>
DoParse == /\ phase = "src" /\ IsTree(prog)
           /\ ast' = ParseAll(Source(prog)) /\ phase' = "parsed" /\ UNCHANGED <<prog, text, ast2, text2>>
DoPrint == /\ phase = "parsed"
           /\ text' = ShowP(ast) /\ phase' = "printed" /\ UNCHANGED <<prog, ast, ast2, text2>>
DoReparse == /\ phase = "printed"
             /\ ast2' = ParseAll(text) /\ phase' = "reparsed" /\ UNCHANGED <<prog, ast, text, text2>>
DoReprint == /\ phase = "reparsed"
             /\ text2' = ShowP(ast2) /\ phase' = "done" /\ UNCHANGED <<prog, ast, text, ast2>>
(* tag programs are opaque to the specification: their meaning is whatever the engine renders *)
Opaque == /\ phase = "src" /\ Mode = "gen" /\ ~IsTree(prog)
          /\ phase' = "done" /\ UNCHANGED <<prog, ast, text, ast2, text2>>

Judge == /\ phase = "pending"
         /\ phase' = FirstFailure(Obs[prog])
         /\ UNCHANGED <<prog, ast, text, ast2, text2>>

Next == Grow \/ Grown \/ DoParse \/ DoPrint \/ DoReparse \/ DoReprint \/ Opaque \/ Judge
Spec == Init /\ [][Next]_vars

-----------------------------------------------------------------------------
(* the clauses of the property on the in-spec round trip *)
Envs(t) == [AtomsOf(t) -> BOOLEAN]
SourceParsesToTree == phase = "parsed" => ast = prog.tree
ReparseSucceeds == phase = "reparsed" => ast2[1] # "unparsable"                 \* str() output parses
ShowParseInverse == phase = "reparsed" => ast2 = ast                            \* ... to the same tree
MeaningPreserved == (phase = "reparsed" /\ Meaningful(ast)) => \A e \in Envs(ast) : EvalT(ast2, e) = EvalT(ast, e)
Idempotent == phase = "done" /\ IsTree(prog) => text2 = text                    \* serialising again yields the same text
(* the source (ShowMin) and the printer under test already went through the parser; so does the fully parenthesised text *)
FullyParenthesisedInverts == phase = "parsed" => ParseAll(ShowFull(ast)) = ast
(* on and/or/not the Pratt transcription agrees with C12's recursive-descent reference, and C12's printer round-trips through it *)
RECURSIVE PureLogic(_)
PureLogic(t) == IsAtom(t) \/ (IsNot(t) /\ PureLogic(t[2])) \/ (IsLog(t) /\ PureLogic(t[2]) /\ PureLogic(t[3]))
AgreesWithExpr == (phase = "printed" /\ PureLogic(ast)) =>
                     (C12!Parse(text) = ast /\ C12!Parse(Source(prog)) = ast /\ ParseAll(C12!Show(ast)) = ast)
(* facts about the engine's parser the family relies on (calibrated against the code by `expect`) *)
ASSUME ParserFacts ==
  /\ Parse(<<"a", "or", "b", "and", "c">>) = <<"or", <<"atom", "a">>, <<"and", <<"atom", "b">>, <<"atom", "c">>>>>>
  /\ Parse(<<"a", "and", "b", "or", "c">>) = <<"and", <<"atom", "a">>, <<"or", <<"atom", "b">>, <<"atom", "c">>>>>>
  /\ Parse(<<"not", "a", "and", "b">>) = <<"not", <<"and", <<"atom", "a">>, <<"atom", "b">>>>>>
  /\ Parse(<<"a", "==", "b", "and", "c">>) = <<"and", <<"==", <<"atom", "a">>, <<"atom", "b">>>>, <<"atom", "c">>>>
  /\ Parse(<<"a", "and", "b", "==", "c">>) = <<"and", <<"atom", "a">>, <<"==", <<"atom", "b">>, <<"atom", "c">>>>>>
  /\ Parse(<<"a", "==", "b", "==", "c">>) = <<"==", <<"atom", "a">>, <<"==", <<"atom", "b">>, <<"atom", "c">>>>>>
  /\ Parse(<<"a", "contains", "b", "==", "c">>) = <<"==", <<"contains", <<"atom", "a">>, <<"atom", "b">>>>, <<"atom", "c">>>>
  /\ Parse(<<"a", "==", "not", "b", "and", "c">>) = <<"==", <<"atom", "a">>, <<"not", <<"and", <<"atom", "b">>, <<"atom", "c">>>>>>>>
TypeOK == phase \in {"src", "growing", "parsed", "printed", "reparsed", "done", "pending",
                     "ReparseFails", "MeaningChanged", "NotIdempotent", "SpecParserDisagreesWithEngine", "holds"}

(* ---- what the harness gets ---------------------------------------------------------------------------- *)
Tf(bv) == IF bv THEN "T" ELSE "F"
TreeRecord(pg) ==
  LET vs == AtomsOf(pg.tree)
      vals == ValSeq(vs)
      src == Source(pg)
  IN [fam |-> pg.fam, cls |-> pg.fam, partials |-> Partials, t |-> <<pg.carrier>> \o src, s |-> Carry(pg.carrier, src),
      dom |-> [z \in vs |-> Dom[z]], vals |-> vals,
      expect |-> IF Meaningful(pg.tree) THEN [j \in 1..Len(vals) |-> Tf(EvalT(pg.tree, [z \in vs |-> Dom[z][vals[j][z]]]))] ELSE <<>>,
      depth |-> Depth(pg.tree), reftext |-> text]
(* the input class a failure is filed under: the nil literal is a class of its own (known finding), otherwise the family *)
ClassOf(pg) == IF \E j \in 1..Len(pg.t) : pg.t[j] \in {"nil", "null"} THEN "nil-literal" ELSE pg.fam
TagRecord(pg) ==
  [fam |-> pg.fam, cls |-> ClassOf(pg), t |-> pg.t, s |-> pg.s, dom |-> [z \in pg.v |-> Dom[z]], vals |-> ValSeq(pg.v), expect |-> <<>>,
   depth |-> 0, reftext |-> <<>>, partials |-> Partials]
Emit == (phase = "done" /\ Mode # "judge") =>
          PrintT(ToJson(IF IsTree(prog) THEN TreeRecord(prog) ELSE TagRecord(prog)))
Report == (Mode = "judge" /\ phase \notin {"pending", "holds"}) => PrintT(<<"REJECT", prog, phase>>)
Counted == (Mode = "judge" /\ phase = "holds") => PrintT(<<"ACCEPT", prog>>)
=============================================================================
