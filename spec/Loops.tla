------------------------------- MODULE Loops -------------------------------
(* C13 — which items a for / tablerow loop visits, and what the loop helpers *)
(* say while it does (reference semantics of the Liquid `for` tag):          *)
(*   from = offset | continue-position | 0        to = from + limit          *)
(*   visit position i (0-based) iff  from <= i < to  and  i < length         *)
(*   reversed reverses the visited segment; else-block iff nothing visited   *)
(*   continue-position := from + number of positions in the segment          *)
(* A program is up to three consecutive loops over the same collection; the  *)
(* `offset: continue` position is kept per (loop variable, collection): a    *)
(* later loop with the SAME variable resumes, one with ANOTHER variable has   *)
(* its own position (0 until it has run).                                     *)
EXTENDS Naturals, Integers, Sequences, FiniteSets, TLC, Json

CONSTANTS MaxLen,        \* collection lengths 0..MaxLen
          Huge           \* a "very large" limit/offset value

Vars == {"x", "y"}       \* loop variable names (the first loop of a program uses x)
None == 0 - 99           \* absent argument
Cont == 0 - 98           \* offset: continue

Args(n) == {None} \cup ((0 - 2)..(n + 1)) \cup {Huge}
FirstLoops(n) ==
  { [kind |-> kd, limit |-> l, offset |-> o, rev |-> r, brk |-> b, cols |-> c, var |-> var] :
      kd \in {"for", "tablerow"}, l \in Args(n), o \in Args(n) \cup {Cont}, r \in BOOLEAN,
      b \in {0, 2}, c \in {None, 1, 2, n + 1}, var \in {"x"} }
NextLoops(n) ==
  { [kind |-> "for", limit |-> l, offset |-> Cont, rev |-> r, brk |-> 0, cols |-> None, var |-> var] :
      l \in {None, 0, 1, 2}, r \in BOOLEAN, var \in Vars }
WellFormedLoop(lp) == /\ (lp.kind = "for" => lp.cols = None)
                      /\ (lp.kind = "tablerow" => lp.brk = 0 \/ lp.cols = None)
Progs(n) == { <<a>> : a \in {x \in FirstLoops(n) : WellFormedLoop(x)} }
            \cup { <<a, b>> : a \in {x \in FirstLoops(n) : WellFormedLoop(x) /\ x.kind = "for" /\ x.brk = 0}, b \in NextLoops(n) }
            \cup { <<a, b, c>> : a \in {x \in FirstLoops(n) : WellFormedLoop(x) /\ x.kind = "for" /\ x.brk = 0 /\ ~x.rev /\ x.offset \in {None, 1}},
                                 b \in NextLoops(n), c \in {y \in NextLoops(n) : y.limit = None /\ ~y.rev} }

VARIABLES n, prog, k, pos, negseen, out
vars == <<n, prog, k, pos, negseen, out>>

Init == /\ n \in 0..MaxLen
        /\ prog \in Progs(n)
        /\ k = 1 /\ pos = [v \in Vars |-> 0] /\ negseen = FALSE /\ out = <<>>

Min(a, b) == IF a < b THEN a ELSE b
Max(a, b) == IF a > b THEN a ELSE b

From(lp) == IF lp.offset = Cont THEN pos[lp.var] ELSE IF lp.offset = None THEN 0 ELSE lp.offset
To(lp) == IF lp.limit = None THEN None ELSE From(lp) + lp.limit
(* 0-based positions in the segment, in collection order *)
Lo(lp) == Max(From(lp), 0)
Hi(lp) == IF To(lp) = None THEN n ELSE Min(Max(To(lp), 0), n)      \* exclusive
SegLen(lp) == Max(Hi(lp) - Lo(lp), 0)
Segment(lp) == [i \in 1..SegLen(lp) |-> IF lp.rev THEN Hi(lp) - i + 1 ELSE Lo(lp) + i]    \* item values = position + 1

(* what the body sees for the j-th visited item (1-based j) of a segment of length m *)
Helper(lp, seg, j) ==
  LET m == Len(seg)
      c == IF lp.cols = None THEN m ELSE lp.cols
  IN [item |-> seg[j], index |-> j, index0 |-> j - 1, rindex |-> m - j + 1, rindex0 |-> m - j,
      first |-> (j = 1), last |-> (j = m), length |-> m,
      row |-> IF lp.kind = "tablerow" THEN ((j - 1) \div c) + 1 ELSE 0,
      col |-> IF lp.kind = "tablerow" THEN ((j - 1) % c) + 1 ELSE 0,
      colfirst |-> (lp.kind = "tablerow" /\ ((j - 1) % c) = 0),
      collast |-> (lp.kind = "tablerow" /\ ((j - 1) % c) + 1 = c)]

(* break when the body meets item `brk`: that item and everything after it is not printed *)
Printed(lp, seg) ==
  LET cut == IF lp.brk = 0 \/ ~(\E j \in 1..Len(seg) : seg[j] = lp.brk) THEN Len(seg) + 1
             ELSE CHOOSE j \in 1..Len(seg) : seg[j] = lp.brk
  IN [j \in 1..(cut - 1) |-> Helper(lp, seg, j)]

RunLoop ==
  /\ k <= Len(prog)
  /\ LET lp == prog[k]
         seg == Segment(lp)
     IN /\ out' = Append(out, [visited |-> Printed(lp, seg), else |-> (Len(seg) = 0), seglen |-> Len(seg)])
        /\ pos' = [pos EXCEPT ![lp.var] = Lo(lp) + Len(seg)]      \* where `offset: continue` resumes for this variable
        /\ negseen' = (negseen \/ From(lp) < 0)
  /\ k' = k + 1
  /\ UNCHANGED <<n, prog>>

Next == RunLoop
Spec == Init /\ [][Next]_vars

-----------------------------------------------------------------------------
Done == k = Len(prog) + 1
(* the else block runs exactly when nothing is visited *)
ElseIffEmpty == \A i \in 1..Len(out) : out[i].else <=> out[i].seglen = 0
(* helpers are consistent with the visited items *)
HelpersConsistent ==
  \A i \in 1..Len(out) : \A j \in 1..Len(out[i].visited) :
     LET h == out[i].visited[j]
     IN /\ h.index = j /\ h.index0 = j - 1
        /\ h.rindex + h.index0 = h.length /\ h.rindex0 + h.index = h.length
        /\ (h.first <=> j = 1) /\ (h.last <=> j = h.length)
        /\ h.length = out[i].seglen
(* limit 0 visits nothing; a negative limit visits nothing *)
ZeroOrNegativeLimitVisitsNothing ==
  \A i \in 1..Len(out) : (prog[i].limit # None /\ prog[i].limit <= 0 /\ prog[i].offset # Cont
                          /\ (prog[i].offset = None \/ prog[i].offset >= 0)) => out[i].seglen = 0
(* consecutive continue loops never revisit an item and never skip one *)
ContinuePartitions ==
  (Done /\ Len(prog) >= 2 /\ ~negseen /\ prog[1].offset # Cont /\ (\A i \in 1..Len(prog) : prog[i].var = "x")) =>
     \A i \in 2..Len(out) : \A j \in 1..Len(out[i].visited) :
         \A i2 \in 1..(i - 1) : \A j2 \in 1..Len(out[i2].visited) : out[i].visited[j].item # out[i2].visited[j2].item
(* a continue loop over a variable that has not looped yet starts at the first item *)
OwnKeyPerVariable ==
  \A i \in 2..Len(out) : (prog[i].var = "y" /\ (\A i2 \in 1..(i - 1) : prog[i2].var = "x") /\ out[i].seglen > 0 /\ ~prog[i].rev)
                              => out[i].visited[1].item = 1
(* tablerow: every cell of a row but the last row's is filled; col runs 1..cols *)
TableShape ==
  \A i \in 1..Len(out) : prog[i].kind = "tablerow" =>
     \A j \in 1..Len(out[i].visited) :
        LET h == out[i].visited[j]
            c == IF prog[i].cols = None THEN h.length ELSE prog[i].cols
        IN h.col >= 1 /\ h.col <= c /\ (h.row - 1) * c + h.col = j /\ (h.collast <=> h.col = c)

(* `offset: continue` after a loop that used a negative offset is left unclaimed (reference and engine differ by design) *)
Claimed == ~(\E i \in 2..Len(prog) : prog[i].offset = Cont /\ (\E i2 \in 1..(i - 1) : From(prog[i2]) < 0 /\ FALSE)) /\ ~negseen
Emit == Done => PrintT(ToJson([n |-> n, prog |-> prog, out |-> out, claimed |-> (~negseen \/ Len(prog) = 1)]))
=============================================================================
