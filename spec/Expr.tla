------------------------------- MODULE Expr -------------------------------
(* C12 — conditions: truthiness, operators, and/or/not grouping.            *)
(* Init picks one *case* from two families:                                 *)
(*   "cell" : an operator applied to an ordered pair of pool values         *)
(*   "tree" : an and/or/not tree over three atoms with a truth valuation    *)
(* `Decide` computes what the condition must select according to the        *)
(* documented rules (Values.tla; right-associative equal-precedence and/or).*)
(* The printer `Show` writes a tree the way a template author would, with   *)
(* only the parentheses right-associativity needs; `ShowFull` brackets      *)
(* everything.  `Parse` is the engine's Pratt loop as a recursive descent   *)
(* (and/or equal precedence, right-associative; `not` takes the rest of its *)
(* group) — RightAssociativeEqualPrecedence and ShowParseInverse tie them.  *)
EXTENDS Values, Json

CONSTANTS MaxDepth, WithGroups

Atoms == {"a", "b", "c"}
RECURSIVE Trees(_)
Trees(d) == IF d = 0 THEN { <<"atom", x>> : x \in Atoms }
            ELSE LET sub == Trees(d - 1)
                 IN sub \cup { <<"not", t>> : t \in sub }
                        \cup { <<op, l, r>> : op \in {"and", "or"}, l \in sub, r \in sub }

RECURSIVE EvalT(_, _)
EvalT(t, env) == CASE t[1] = "atom" -> env[t[2]]
                   [] t[1] = "not" -> ~EvalT(t[2], env)
                   [] t[1] = "and" -> EvalT(t[2], env) /\ EvalT(t[3], env)
                   [] t[1] = "or" -> EvalT(t[2], env) \/ EvalT(t[3], env)

(* token sequences: "(" ")" "not" "and" "or" atoms *)
RECURSIVE Show(_)
Paren(s) == <<"(">> \o s \o <<")">>
Show(t) == CASE t[1] = "atom" -> <<t[2]>>
             [] t[1] = "not" -> <<"not">> \o (IF t[2][1] = "atom" THEN Show(t[2]) ELSE Paren(Show(t[2])))
             [] OTHER -> (IF t[2][1] = "atom" THEN Show(t[2]) ELSE Paren(Show(t[2]))) \o <<t[1]>> \o Show(t[3])
RECURSIVE ShowFull(_)
ShowFull(t) == CASE t[1] = "atom" -> <<t[2]>>
                 [] t[1] = "not" -> <<"not">> \o Paren(ShowFull(t[2]))
                 [] OTHER -> Paren(ShowFull(t[2])) \o <<t[1]>> \o Paren(ShowFull(t[3]))

(* the parser: returns <<tree, rest>>.  Expr := Unary [ (and|or) Expr ] ; Unary := not Expr | atom | ( Expr ) *)
RECURSIVE ParseE(_), ParseU(_)
ParseU(ts) ==
  CASE Head(ts) = "not" -> LET r == ParseE(Tail(ts)) IN << <<"not", r[1]>>, r[2] >>
    [] Head(ts) = "(" -> LET r == ParseE(Tail(ts)) IN << r[1], Tail(r[2]) >>     \* drop ")"
    [] OTHER -> << <<"atom", Head(ts)>>, Tail(ts) >>
ParseE(ts) ==
  LET u == ParseU(ts)
  IN IF u[2] # <<>> /\ Head(u[2]) \in {"and", "or"}
     THEN LET r == ParseE(Tail(u[2])) IN << <<Head(u[2]), u[1], r[1]>>, r[2] >>
     ELSE u
Parse(ts) == ParseE(ts)[1]

Valuations == [Atoms -> BOOLEAN]
Carriers == {"if", "unless", "elsif", "when", "ternary"}

VARIABLES case, verdict
vars == <<case, verdict>>

Cells == { [kind |-> "cell", op |-> op, a |-> a, b |-> b] : op \in Ops, a \in Pool, b \in Pool }
Truths == { [kind |-> "truth", v |-> v, carrier |-> c] : v \in Pool \ {EmptyV, BlankV}, c \in Carriers }
TreeCases == { [kind |-> "tree", tree |-> t, env |-> e, full |-> f] : t \in Trees(MaxDepth), e \in Valuations, f \in BOOLEAN }

(* a parenthesised and / or group used as an OPERAND of a comparison: the group is a logical expression, its value is the boolean *)
(* `Truthy(a) lop Truthy(b)` (not one of its operands), and the comparison follows the rules for a boolean operand              *)
PoolById(id) == CHOOSE v \in Pool : v.id = id
GroupPool == { PoolById(i) : i \in {"true", "false", "nil", "i0", "s_a", "s_empty", "l_empty"} }
CmpPool == { PoolById(i) : i \in {"true", "false", "nil", "i0", "i1", "s_a", "s_empty", "l_true"} }
Groups == { [kind |-> "group", lop |-> lop, a |-> a, b |-> b, op |-> op, c |-> c, side |-> sd] :
              lop \in {"and", "or"}, a \in GroupPool, b \in GroupPool, op \in Ops, c \in CmpPool, sd \in {"l", "r"} }
GroupValue(g) == B("g", IF g.lop = "and" THEN Truthy(g.a) /\ Truthy(g.b) ELSE Truthy(g.a) \/ Truthy(g.b))

Init == /\ case \in Cells \cup Truths \cup TreeCases \cup (IF WithGroups THEN Groups ELSE {})
        /\ verdict = "pending"

Decide ==
  /\ verdict = "pending"
  /\ verdict' = CASE case.kind = "cell" -> Apply(case.op, case.a, case.b)
                  [] case.kind = "truth" -> Tf(Truthy(case.v))
                  [] case.kind = "group" -> (IF case.side = "l" THEN Apply(case.op, GroupValue(case), case.c) ELSE Apply(case.op, case.c, GroupValue(case)))
                  [] case.kind = "tree" -> Tf(EvalT(Parse(IF case.full THEN ShowFull(case.tree) ELSE Show(case.tree)), case.env))
  /\ UNCHANGED case
Next == Decide
Spec == Init /\ [][Next]_vars

-----------------------------------------------------------------------------
(* the printer is an inverse of the parser: what is written means what was meant *)
ShowParseInverse == case.kind = "tree" => (Parse(Show(case.tree)) = case.tree /\ Parse(ShowFull(case.tree)) = case.tree)
(* a or b and c = a or (b and c);  a and b or c = a and (b or c) *)
RightAssociativeEqualPrecedence ==
  /\ Parse(<<"a", "or", "b", "and", "c">>) = <<"or", <<"atom", "a">>, <<"and", <<"atom", "b">>, <<"atom", "c">>>>>>
  /\ Parse(<<"a", "and", "b", "or", "c">>) = <<"and", <<"atom", "a">>, <<"or", <<"atom", "b">>, <<"atom", "c">>>>>>
OnlyFalseAndNilAreFalsy ==
  case.kind = "truth" => (Truthy(case.v) <=> ~(case.v.t \in {"nil", "undef"} \/ (case.v.t = "bool" /\ ~case.v.b)))
NeIsNotEq == (case.kind = "cell" /\ case.op = "!=" /\ verdict # "pending") => verdict = Neg(EqV(case.a, case.b))
EqSymmetric == case.kind = "cell" => EqV(case.a, case.b) = EqV(case.b, case.a)
VerdictTotal == verdict \in {"pending", "T", "F", "E", "U"}

ShowStr(ts) == ts
Emit == verdict # "pending" =>
   PrintT(ToJson(CASE case.kind = "cell" -> [kind |-> "cell", op |-> case.op, a |-> case.a.id, b |-> case.b.id, expect |-> verdict]
                   [] case.kind = "truth" -> [kind |-> "truth", v |-> case.v.id, carrier |-> case.carrier, expect |-> verdict]
                   [] case.kind = "group" -> [kind |-> "group", lop |-> case.lop, a |-> case.a.id, b |-> case.b.id, op |-> case.op, c |-> case.c.id,
                                              side |-> case.side, expect |-> verdict]
                   [] case.kind = "tree" -> [kind |-> "tree", tokens |-> IF case.full THEN ShowFull(case.tree) ELSE Show(case.tree),
                                             env |-> case.env, expect |-> verdict]))
=============================================================================
