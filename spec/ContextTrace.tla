---------------------------- MODULE ContextTrace ----------------------------
(* Trace validation of RenderContext (liquid/context.py, template.py,        *)
(* output.py) against the mechanism + ghost specification of the limits and   *)
(* of scope push/pop balance.  One trace = the events of one public           *)
(* render()/render_async() call, recorded by LIQUID_VERIF-guarded wrappers    *)
(* (vf/instrument.py) from ANY client of the API: the template families of    *)
(* the other specifications and the repository's own test-suite.  Only        *)
(* client-agnostic clauses are stated:                                        *)
(*   Balanced     every Pop matches a Push of the same context; a render that *)
(*                returns leaves every scope chain as it found it             *)
(*   CheckOK      raise_for_loop_limit(len) raises exactly when               *)
(*                len x carry x (lengths of the open loops) exceeds N         *)
(*   GhostOK      that mechanism product equals the true product of the       *)
(*                lengths of ALL enclosing repeating constructs, across       *)
(*                context copies (C06)                                        *)
(*   CopyOK       a copy's carry is the caller's product iff it is asked to   *)
(*                carry loop iterations, else 1                               *)
(*   BufOK        a sub-buffer's limit is L minus the size of its parent      *)
(*   WriteOK      a write raises exactly when the buffer would exceed its     *)
(*                limit (UTF-8 bytes) (C07)                                   *)
(*   NamespaceOK  assign raises exactly when the measured size of the locals   *)
(*                plus the carried size exceeds M; CopyNsOK: a copy carries    *)
(*                everything its callers hold (C07)                           *)
(*   DepthOK      extend refuses exactly when the scope chain is longer than   *)
(*                the context depth limit (C09)                               *)
(*   ErrorOK      Environment.error raises in STRICT, warns in WARN, is       *)
(*                silent in LAX (C03)                                         *)
EXTENDS Integers, Sequences, FiniteSets, TLC, Json, IOUtils

CONSTANT Diag      \* FALSE: strict acceptance; TRUE: print every mismatch and go on

Traces == JsonDeserialize(IOEnv.TRACE_FILE)

VARIABLES tid, l,
          ctxs,     \* sequence indexed by context number: [loops, carries, base, ghost, depth]
          bufs      \* sequence indexed by buffer number: [size, limit]
vars == <<tid, l, ctxs, bufs>>

Prod(s) == LET RECURSIVE P(_)
               P(i) == IF i = 0 THEN 1 ELSE s[i] * P(i - 1)
           IN P(Len(s))
MechCarry(c) == c.base * Prod(c.carries)                \* RenderContext.loop_iteration_carry
MechProduct(c) == MechCarry(c) * Prod(c.loops)
GhostProduct(c) == c.ghost * Prod(c.carries) * Prod(c.loops)

Init == tid \in 1..Len(Traces) /\ l = 1 /\ ctxs = <<>> /\ bufs = <<>>

T == Traces[tid]
E == T.ev[l]
Say(name, a, b) == IF Diag THEN PrintT(<<"MISMATCH", tid, l, name, a, b>>) ELSE FALSE
Need(ok, name, a, b) == IF ok THEN TRUE ELSE Say(name, a, b)
SetCtx(i, r) == ctxs' = [ctxs EXCEPT ![i] = r]

Step ==
  /\ l <= Len(T.ev)
  /\ CASE E.e = "Ctx" ->          \* RenderContext.__init__: the top-level context of the render, or the body of a copy (announced again by Copy)
            /\ Need(E.c = Len(ctxs) + 1, "CtxNumbering", E.c, Len(ctxs) + 1)
            /\ ctxs' = Append(ctxs, [loops |-> <<>>, carries |-> <<>>, base |-> E.n,
                                     ghost |-> IF E.p = 0 THEN 1 ELSE GhostProduct(ctxs[E.p]), depth |-> 0, held |-> 0, nscarry |-> 0, cd |-> 0])
            /\ UNCHANGED bufs
       [] E.e = "Copy" ->
            /\ Need(E.n = (IF E.f THEN MechProduct(ctxs[E.p]) ELSE 1), "CopyOK", E.n, MechProduct(ctxs[E.p]))
            /\ UNCHANGED <<ctxs, bufs>>
       [] E.e = "Push" ->             \* n = length of the scope chain after the push: it was <= D before, or the push would have been refused
            /\ Need(T.D = -1 \/ E.n - 1 <= T.D, "DepthOK", E.n, T.D)
            /\ SetCtx(E.c, [ctxs[E.c] EXCEPT !.depth = @ + 1]) /\ UNCHANGED bufs
       [] E.e = "PushRefused" ->      \* ContextDepthError from extend: only when the chain is already longer than the limit
            /\ Need(T.D # -1 /\ E.n > T.D, "DepthOK", E.n, T.D)
            /\ UNCHANGED <<ctxs, bufs>>
       [] E.e = "Assign" ->           \* n = measured size of this context's locals after the assignment (sys.getsizeof, by the recorder)
            LET total == E.n + ctxs[E.c].nscarry
            IN /\ Need((E.o = "raise") <=> (T.M # -1 /\ total > T.M), "NamespaceOK", total, T.M)
               /\ SetCtx(E.c, [ctxs[E.c] EXCEPT !.held = E.n]) /\ UNCHANGED bufs
       [] E.e = "CopyDepth" ->        \* every copy is one level deeper than the context it was copied from, and was allowed only within the limit
            /\ Need(E.n = ctxs[E.p].cd + 1, "CopyDepthOK", E.n, ctxs[E.p].cd + 1)
            /\ Need(T.D = -1 \/ ctxs[E.p].cd <= T.D, "DepthOK", ctxs[E.p].cd, T.D)
            /\ SetCtx(E.c, [ctxs[E.c] EXCEPT !.cd = E.n]) /\ UNCHANGED bufs
       [] E.e = "CopyNs" ->           \* the child's carried size is everything its callers hold: the parent's locals + the parent's own carry
            /\ Need(E.n = ctxs[E.p].held + ctxs[E.p].nscarry, "CopyNsOK", E.n, ctxs[E.p].held + ctxs[E.p].nscarry)
            /\ SetCtx(E.c, [ctxs[E.c] EXCEPT !.nscarry = E.n]) /\ UNCHANGED bufs
       [] E.e = "Pop" ->
            /\ Need(ctxs[E.c].depth > 0, "Balanced", E.c, ctxs[E.c].depth)
            /\ SetCtx(E.c, [ctxs[E.c] EXCEPT !.depth = @ - 1]) /\ UNCHANGED bufs
       [] E.e = "LoopEnter" -> SetCtx(E.c, [ctxs[E.c] EXCEPT !.loops = Append(@, E.n)]) /\ UNCHANGED bufs
       [] E.e = "LoopExit" ->
            /\ Need(ctxs[E.c].loops # <<>>, "LoopBalanced", E.c, 0)
            /\ SetCtx(E.c, [ctxs[E.c] EXCEPT !.loops = SubSeq(@, 1, Len(@) - 1)]) /\ UNCHANGED bufs
       [] E.e = "CarryEnter" -> SetCtx(E.c, [ctxs[E.c] EXCEPT !.carries = Append(@, E.n)]) /\ UNCHANGED bufs
       [] E.e = "CarryExit" ->
            /\ Need(ctxs[E.c].carries # <<>>, "CarryBalanced", E.c, 0)
            /\ SetCtx(E.c, [ctxs[E.c] EXCEPT !.carries = SubSeq(@, 1, Len(@) - 1)]) /\ UNCHANGED bufs
       [] E.e = "Check" ->
            LET c == ctxs[E.c]
                mech == E.n * MechProduct(c)
                ghost == E.n * GhostProduct(c)
            IN /\ Need((E.o = "raise") <=> (T.N # -1 /\ mech > T.N), "CheckOK", mech, T.N)
               /\ Need(mech = ghost, "GhostOK", mech, ghost)
               /\ UNCHANGED <<ctxs, bufs>>
       [] E.e = "Buf" ->
            /\ Need(E.b = Len(bufs) + 1, "BufNumbering", E.b, Len(bufs) + 1)
            /\ Need(E.n = T.L - (IF E.p = 0 THEN 0 ELSE bufs[E.p].size), "BufOK", E.n, T.L)
            /\ bufs' = Append(bufs, [size |-> 0, limit |-> E.n])
            /\ UNCHANGED ctxs
       [] E.e = "Write" ->
            LET b == bufs[E.b]  s2 == b.size + E.n
            IN /\ Need((E.o = "raise") <=> (s2 > b.limit), "WriteOK", s2, b.limit)
               /\ bufs' = [bufs EXCEPT ![E.b].size = s2]
               /\ UNCHANGED ctxs
       [] E.e = "Error" ->
            /\ Need(E.o = (CASE T.mode = "strict" -> "raise" [] T.mode = "warn" -> "warn" [] OTHER -> "ignore"), "ErrorOK", E.o, T.mode)
            /\ UNCHANGED <<ctxs, bufs>>
       [] E.e = "End" ->
            /\ Need(E.o # "ok" \/ (\A i \in 1..Len(ctxs) : ctxs[i].depth = 0 /\ ctxs[i].loops = <<>> /\ ctxs[i].carries = <<>>), "Balanced", 0, 0)
            /\ UNCHANGED <<ctxs, bufs>>
  /\ l' = l + 1 /\ UNCHANGED tid

Spec == Init /\ [][Step]_vars
Accept == (l = Len(T.ev) + 1) => PrintT(<<"ACCEPT", tid>>)
=============================================================================
