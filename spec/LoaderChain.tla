---------------------------- MODULE LoaderChain ----------------------------
(* X05 (beyond the listed properties) — loader composition and precedence    *)
(* as a state machine over a history of store operations.                     *)
(*                                                                           *)
(* STORES   in-memory dictionaries (M1, M2: what a DictLoader reads) and      *)
(*          directories (D1, D2, D3: search paths of a FileSystemLoader).     *)
(*          A store maps a key (dictionary key / file path relative to the    *)
(*          directory) to the VERSION of its content, 0 = absent.  A cell     *)
(*          that is written again gets the next version; a deleted and        *)
(*          re-created cell never reuses a version (the harness gives every   *)
(*          written file a strictly larger mtime).                            *)
(* LOADERS  a tree: DictLoader(store) | FileSystemLoader(search paths, ext)   *)
(*          | ChoiceLoader(sub-loaders), possibly nested; the root may be     *)
(*          the caching flavour (CachingDictLoader / CachingFileSystemLoader  *)
(*          / CachingChoiceLoader with auto_reload, namespace_key, capacity). *)
(*          A file-system leaf may be NAMESPACE AWARE (a custom loader in     *)
(*          the documented "load context" style that reads <ns>/<name>,       *)
(*          "strict", or <ns>/<name> and then <name>, "fallback"); the        *)
(*          built-in leaves ignore the namespace.                             *)
(* REQUIREMENT (docs/loading_templates.md, loader doc strings)                *)
(*   Ref(request) = the content of the FIRST probe, in order, that exists:    *)
(*   ChoiceLoader: "each one is tried in turn until a template is found";     *)
(*   FileSystemLoader: search_path "a list of paths to search in order",      *)
(*   "returns the first path where template_name exists"; `ext` is "a default *)
(*   file extension": a name WITHOUT a suffix gets it appended, a name with a *)
(*   suffix is used as given; DictLoader: the exact key.  Nothing found:      *)
(*   TemplateNotFoundError.                                                   *)
(*   A caching root with auto_reload answers like the non-caching tree,       *)
(*   EXCEPT where the docs promise nothing: auto_reload only "check[s] ...    *)
(*   if each cached template has been modified since it was last loaded", so  *)
(*   (a) a cached template whose own source is unmodified but which is now    *)
(*   SHADOWED by an earlier loader / search path, and (b) a cached template   *)
(*   from a dictionary (no `uptodate` callable) are UNSPECIFIED: the cached   *)
(*   and the current answer are both admissible.  With auto_reload = FALSE    *)
(*   the loader does not check: the cached version is served until the        *)
(*   entry is evicted ("capacity ... before removing the least recently used  *)
(*   template").                                                              *)
(* MECHANISM (liquid/builtin/loaders/mixins.py, choice_loader.py,             *)
(*   file_system_loader.py) as steps of the code: Begin (cache key and LRU    *)
(*   get, which touches the entry; a plain root or a miss goes straight to    *)
(*   the first probe), Check (is_up_to_date of the cached template), Walk     *)
(*   (one probe per step, in order: a dictionary lookup / one search path),   *)
(*   Store (LRU put, evicting the least recently used entry; the answer).     *)
(*   A caching loader INSIDE a ChoiceLoader is asked for get_source only,     *)
(*   so its cache is never consulted: only the root's cache is state.         *)
EXTENDS Naturals, Sequences, FiniteSets, TLC, Json

CONSTANTS Family,        \* name of the family of configurations (see Families): "quick" | "thorough"
          Part, Parts    \* this run explores the configurations number i of the family with i % Parts = Part

-----------------------------------------------------------------------------
(* names and the default-extension rule *)
Stems == {"a", "b"}
Exts == {".liquid", ".txt"}
AllNames == {"a", "a.liquid", "a.txt", "b"}
NameSet(k) == CASE k = "two" -> {"a", "a.liquid"} [] k = "txt" -> {"a", "a.liquid", "a.txt"} [] k = "three" -> {"a", "a.liquid", "b"}
NameKeys == {"two", "txt", "three"}
Spaces == {"n1"}                         \* namespaces that requests name ("nx" is a second one that never has files)
HasSuffix(n) == \E s \in Stems, e \in Exts : n = s \o e
WithExt(n, ext) == IF ext = "" \/ HasSuffix(n) THEN n ELSE n \o ext     \* Path(n).suffix empty -> with_suffix(ext)

(* loader trees (one record shape for every node) *)
Node(k, stores, ext, ns, caching, subs) == [k |-> k, stores |-> stores, ext |-> ext, ns |-> ns, caching |-> caching, subs |-> subs]
Dict(s) == Node("dict", <<s>>, "", "none", FALSE, <<>>)
FS(paths, ext) == Node("fs", paths, ext, "none", FALSE, <<>>)
NSFS(paths, ext, how) == Node("fs", paths, ext, how, FALSE, <<>>)
Choice(subs) == Node("choice", <<>>, "", "none", FALSE, subs)
InnerCaching(t) == [t EXCEPT !.caching = TRUE]

Comps == {"dict", "fs2", "fs3", "fs2noext", "dd", "dfs", "fsdfs", "nested", "nestedlast", "overlay", "nsfs", "nsstrict", "nschoice"}
Base(comp) ==
  CASE comp = "dict"      -> Dict("M1")
    [] comp = "fs2"       -> FS(<<"D1", "D2">>, ".liquid")
    [] comp = "fs3"       -> FS(<<"D1", "D2", "D3">>, ".liquid")
    [] comp = "fs2noext"  -> FS(<<"D1", "D2">>, "")
    [] comp = "dd"        -> Choice(<<Dict("M1"), Dict("M2")>>)
    [] comp = "dfs"       -> Choice(<<Dict("M1"), FS(<<"D1", "D2">>, ".liquid")>>)
    [] comp = "fsdfs"     -> Choice(<<FS(<<"D1">>, ".liquid"), Dict("M1"), FS(<<"D2">>, "")>>)
    [] comp = "nested"    -> Choice(<<Choice(<<Dict("M1"), FS(<<"D1">>, ".liquid")>>), Dict("M2"), FS(<<"D2">>, ".liquid")>>)
    [] comp = "nestedlast" -> Choice(<<FS(<<"D1">>, ".liquid"), Choice(<<Dict("M1"), FS(<<"D2">>, ".liquid")>>)>>)
    [] comp = "overlay"   -> Choice(<<InnerCaching(FS(<<"D1">>, ".liquid")), Dict("M1")>>)   \* the example of the docs
    [] comp = "nsfs"      -> NSFS(<<"D1", "D2">>, ".liquid", "fallback")
    [] comp = "nsstrict"  -> NSFS(<<"D1", "D2">>, ".liquid", "strict")
    [] comp = "nschoice"  -> Choice(<<NSFS(<<"D1">>, ".liquid", "fallback"), Dict("M1")>>)

(* the probes of a request, in the order the loaders make them: [store, key, det]; det = the source can tell that it changed *)
RECURSIVE Probes(_, _, _), Flat(_, _, _, _)
Flat(subs, i, name, ns) == IF i > Len(subs) THEN <<>> ELSE Probes(subs[i], name, ns) \o Flat(subs, i + 1, name, ns)
Probes(t, name, ns) ==
  CASE t.k = "dict" -> <<[store |-> t.stores[1], key |-> name, det |-> FALSE]>>
    [] t.k = "fs" ->
         LET file == WithExt(name, t.ext)
             at(prefix) == [i \in 1..Len(t.stores) |-> [store |-> t.stores[i], key |-> prefix \o file, det |-> TRUE]]
         IN IF t.ns = "none" \/ ns = "none" THEN at("")
            ELSE IF t.ns = "strict" THEN at(ns \o "/")
            ELSE at(ns \o "/") \o at("")
    [] OTHER -> Flat(t.subs, 1, name, ns)

RECURSIVE StoresOf(_), FlatStores(_, _)
FlatStores(subs, i) == IF i > Len(subs) THEN <<>> ELSE StoresOf(subs[i]) \o FlatStores(subs, i + 1)
StoresOf(t) == IF t.k = "choice" THEN FlatStores(t.subs, 1) ELSE t.stores
RECURSIVE ExtStores(_)
ExtStores(t) == IF t.k = "choice" THEN UNION { ExtStores(t.subs[i]) : i \in 1..Len(t.subs) }
                ELSE IF t.k = "fs" /\ t.ext # "" THEN { t.stores[i] : i \in 1..Len(t.stores) } ELSE {}

Cell(p) == [store |-> p.store, key |-> p.key]
Range(s) == { s[i] : i \in 1..Len(s) }

(* constant tables, computed once per run: the probe sequence of every request form, the cells, ... of every tree *)
ProbeTab == [comp \in Comps |-> [n \in AllNames, ns \in Spaces \cup {"none"} |-> Probes(Base(comp), n, ns)]]
ExtStoreTab == [comp \in Comps |-> ExtStores(Base(comp))]
LastStoreTab == [comp \in Comps |-> LET o == StoresOf(Base(comp)) IN o[Len(o)]]
(* every cell a request of the family can touch, plus the DECOY: a suffix-less file in a directory searched with a default *)
(* extension (it exists, and must not be served for the suffix-less name)                                                   *)
CellTab == [comp \in Comps |-> [nk \in NameKeys |->
              UNION { { Cell(p) : p \in Range(ProbeTab[comp][n, ns]) } : n \in NameSet(nk), ns \in Spaces \cup {"none"} }
              \cup { [store |-> s, key |-> n] : s \in ExtStoreTab[comp], n \in NameSet(nk) \cap Stems }]]

-----------------------------------------------------------------------------
(* configurations: [comp, caching, auto, nskey, cap, names, pops, len]                                                      *)
(*   caching: the root is the caching flavour; auto: its auto_reload; nskey: namespace_key = "ns" (requests may carry a      *)
(*   namespace), FALSE: namespace_key = ""; cap: capacity; names: key of NameSet; pops: initial populations ("empty",       *)
(*   "full": every cell at version 1, "low": only the cells of the store searched last); len: operations per history        *)
Cf(comp, caching, auto, nskey, cap, names, pops, len) ==
  [comp |-> comp, caching |-> caching, auto |-> auto, nskey |-> nskey, cap |-> cap, names |-> names, pops |-> pops, len |-> len]
EF == {"empty", "full"}
EFL == {"empty", "full", "low"}
PlainComps == <<"fs2", "fs2noext", "dd", "dfs", "fsdfs", "nested", "nestedlast", "overlay">>
NsComps == <<"nsfs", "nsstrict", "nschoice">>
Plain(L) == [i \in 1..Len(PlainComps) |-> Cf(PlainComps[i], FALSE, TRUE, FALSE, 1, "two", EFL, L)]
            \o <<Cf("fs3", FALSE, TRUE, FALSE, 1, "txt", {"empty", "low"}, L)>>
            \o [i \in 1..Len(NsComps) |-> Cf(NsComps[i], FALSE, TRUE, TRUE, 1, "two", EF, L)]
LF == {"low", "full"}
Quick == Plain(3) \o
  << Cf("dict", TRUE, TRUE, FALSE, 1, "two", EF, 4),        Cf("nsfs", TRUE, TRUE, TRUE, 2, "two", LF, 3),
     Cf("dd", TRUE, TRUE, FALSE, 1, "two", LF, 3),          Cf("nsfs", TRUE, FALSE, TRUE, 1, "two", LF, 3),
     Cf("fs2", TRUE, TRUE, FALSE, 1, "two", LF, 4),         Cf("nsstrict", TRUE, TRUE, TRUE, 1, "two", LF, 3),
     Cf("fs2", TRUE, FALSE, FALSE, 1, "two", LF, 4),        Cf("nschoice", TRUE, TRUE, TRUE, 2, "two", LF, 3),
     Cf("fs2", TRUE, TRUE, TRUE, 2, "two", LF, 3),          Cf("dfs", TRUE, TRUE, FALSE, 1, "two", LF, 3),
     Cf("fs2", TRUE, FALSE, TRUE, 2, "two", LF, 3),         Cf("dfs", TRUE, FALSE, FALSE, 2, "two", LF, 3),
     Cf("fs2noext", TRUE, TRUE, FALSE, 2, "two", LF, 3),    Cf("fsdfs", TRUE, TRUE, FALSE, 2, "two", LF, 3),
     Cf("nested", TRUE, TRUE, FALSE, 2, "two", LF, 3),      Cf("nestedlast", TRUE, TRUE, FALSE, 1, "two", LF, 3),
     Cf("nestedlast", TRUE, FALSE, FALSE, 1, "two", LF, 3) >>
CachingComps == <<"dict", "dd", "fs2", "fs2noext", "dfs", "fsdfs", "nested", "nestedlast">>
SeqOfSet(S) == LET RECURSIVE f(_) f(T) == IF T = {} THEN <<>> ELSE LET x == CHOOSE y \in T : TRUE IN <<x>> \o f(T \ {x}) IN f(S)
Thorough == Plain(4) \o
  SeqOfSet({ Cf(CachingComps[i], TRUE, auto, FALSE, cap, "two", EF, IF CachingComps[i] \in {"dict", "dd", "fs2"} THEN 5 ELSE 4)
               : i \in 1..Len(CachingComps), auto \in BOOLEAN, cap \in {1, 2} }
           \cup { Cf(c, TRUE, auto, TRUE, 2, "two", EF, 4) : c \in {"fs2", "dfs", "nestedlast"}, auto \in BOOLEAN }
           \cup { Cf(c, TRUE, auto, TRUE, cap, "two", EF, 4) : c \in {"nsfs", "nsstrict", "nschoice"}, auto \in BOOLEAN, cap \in {1, 2} }
           \cup { Cf("fs2", TRUE, FALSE, FALSE, 2, "three", {"full"}, 5),        \* LRU order with three keys
                  Cf("fs3", TRUE, TRUE, FALSE, 1, "txt", {"empty", "low"}, 4) })
FamilySeq == CASE Family = "quick" -> Quick [] Family = "thorough" -> Thorough
Configs == { FamilySeq[i] : i \in { j \in 1..Len(FamilySeq) : j % Parts = Part } }
MaxVer == 2                              \* a cell is written at most twice

VARIABLES cf,      \* the configuration (never changes)
          store,   \* cell -> current version (0 = absent)
          wr,      \* cell -> number of writes so far
          cache,   \* the root's LRU cache: sequence of [key, ans], least recently used first
          gone,    \* ghost: cache keys that were evicted and not cached again since (a miss on one of them shows the eviction)
          pc, req, idx, ans, how,   \* the request in progress
          last,    \* the last completed operation
          hist     \* all completed operations (not part of the VIEW)
vars == <<cf, store, wr, cache, gone, pc, req, idx, ans, how, last, hist>>

RootCaching == cf.caching
AutoReload == cf.auto
NSKey == cf.nskey
Cap == cf.cap
ReqNames == NameSet(cf.names)
MaxLen == cf.len
Tree == [Base(cf.comp) EXCEPT !.caching = cf.caching]
PT(n, ns) == ProbeTab[cf.comp][n, ns]
Cells == CellTab[cf.comp][cf.names]
DecoyStores == ExtStoreTab[cf.comp]

(* a request names a template and possibly a namespace.  HOW the namespace travels (keyword argument, render-context globals, or *)
(* both, the keyword winning over another namespace "nx" in the context) does not change the model: it is a choice of the     *)
(* concretisation, like sync / async and get_template / include / render.                                                     *)
ReqSpaces == IF NSKey THEN Spaces \cup {"none"} ELSE {"none"}

NoReq == [name |-> "", ns |-> "none"]
NotFound == [found |-> FALSE, store |-> "", key |-> "", ver |-> 0, det |-> FALSE]
Ver(c) == IF c \in Cells THEN store[c] ELSE 0

PopStore(c, p) == [x \in CellTab[c.comp][c.names] |-> IF p = "full" \/ (p = "low" /\ x.store = LastStoreTab[c.comp]) THEN 1 ELSE 0]
Init == /\ \E c \in Configs, p \in EFL :
              /\ p \in c.pops
              /\ cf = c
              /\ store = PopStore(c, p)
              /\ hist = <<[op |-> "init", pop |-> p, present |-> { x \in DOMAIN PopStore(c, p) : PopStore(c, p)[x] > 0 }]>>
        /\ wr = store
        /\ cache = <<>> /\ gone = {}
        /\ pc = "idle" /\ req = NoReq /\ idx = 0 /\ ans = NotFound /\ how = ""
        /\ last = [op |-> "init"]

Ops == Len(hist) - 1

-----------------------------------------------------------------------------
(* REQUIREMENT: the answer of the non-caching composition on the stores as they are now *)
SeenNs(r) == r.ns
Found(p) == [found |-> TRUE, store |-> p.store, key |-> p.key, ver |-> Ver(Cell(p)), det |-> p.det]
Ref(r) == LET ps == PT(r.name, SeenNs(r))
              hits == { i \in 1..Len(ps) : Ver(Cell(ps[i])) > 0 }
          IN IF hits = {} THEN NotFound
             ELSE Found(ps[CHOOSE i \in hits : \A j \in hits : i <= j])

-----------------------------------------------------------------------------
(* MECHANISM *)
CKey(r) == IF ~NSKey \/ r.ns = "none" THEN r.name ELSE r.ns \o "/" \o r.name     \* CachingLoaderMixin.cache_key
Has(k) == \E i \in 1..Len(cache) : cache[i].key = k
Entry(k) == cache[CHOOSE i \in 1..Len(cache) : cache[i].key = k]
Without(k) == SelectSeq(cache, LAMBDA e : e.key # k)
Touch(k) == Append(Without(k), Entry(k))
Insert(e) == Append(IF Has(e.key) THEN Without(e.key) ELSE IF Len(cache) >= Cap THEN Tail(cache) ELSE cache, e)
Evicted(k) == IF ~Has(k) /\ Len(cache) >= Cap THEN {cache[1].key} ELSE {}      \* what Insert of key k pushes out
UpToDate(a) == ~a.det \/ Ver([store |-> a.store, key |-> a.key]) = a.ver         \* dictionaries have no `uptodate`: always "up to date"

(* what the docs leave open: a cached template that the up-to-date check accepted although the composition would now answer otherwise *)
Unspecified(r, a, h) == h = "hit" /\ a # Ref(r)
(* the request r is answered with a, reached along the mechanism path h: record it with the requirement's answer and the admissible set *)
Done(r, a, h) ==
  /\ LET ref == Ref(r)
         rec == [op |-> "get", name |-> r.name, ns |-> r.ns, ckey |-> CKey(r),
                 ref |-> ref, mech |-> a,
                 adm |-> IF Unspecified(r, a, h) THEN <<a, ref>> ELSE <<a>>,
                 how |-> IF Unspecified(r, a, h) THEN (IF a.det THEN "shadowed" ELSE "undetectable")
                         ELSE IF h = "miss" /\ CKey(r) \in gone THEN "miss-evicted" ELSE h]
     IN last' = rec /\ hist' = Append(hist, rec)
  /\ pc' = "idle" /\ req' = NoReq /\ idx' = 0 /\ ans' = NotFound /\ how' = ""

(* probe number i of request r: a dictionary lookup / one search path (all probes before i were absent) *)
Probe(r, i, h) ==
  LET ps == PT(r.name, r.ns)
  IN IF Ver(Cell(ps[i])) > 0
     THEN IF RootCaching
          THEN pc' = "store" /\ req' = r /\ idx' = i /\ ans' = Found(ps[i]) /\ how' = h /\ UNCHANGED <<cache, gone, last, hist>>
          ELSE Done(r, Found(ps[i]), h) /\ UNCHANGED <<cache, gone>>
     ELSE IF i = Len(ps)
          THEN Done(r, NotFound, h) /\ UNCHANGED <<cache, gone>>         \* TemplateNotFoundError; the cache is left alone
          ELSE pc' = "walk" /\ req' = r /\ idx' = i + 1 /\ ans' = NotFound /\ how' = h /\ UNCHANGED <<cache, gone, last, hist>>

(* Environment.get_template: a plain root starts probing; a caching root computes the cache key and looks it up -- *)
(* self.cache[cache_key]: a hit moves the entry to the most-recent end; a miss goes on to the first probe          *)
Begin(name, ns) ==
  /\ pc = "idle" /\ Ops < MaxLen
  /\ LET r == [name |-> name, ns |-> ns]
     IN IF ~RootCaching THEN Probe(r, 1, "direct")
        ELSE IF ~Has(CKey(r)) THEN Probe(r, 1, "miss")
        ELSE /\ cache' = Touch(CKey(r)) /\ gone' = gone
             /\ IF AutoReload
                THEN pc' = "check" /\ req' = r /\ idx' = 0 /\ ans' = NotFound /\ how' = "" /\ UNCHANGED <<last, hist>>
                ELSE Done(r, Entry(CKey(r)).ans, "nocheck")
  /\ UNCHANGED <<cf, store, wr>>

Check ==                                    \* cached_template.is_up_to_date(); not up to date: load again, starting at the first probe
  /\ pc = "check"
  /\ IF UpToDate(Entry(CKey(req)).ans)
     THEN Done(req, Entry(CKey(req)).ans, "hit") /\ UNCHANGED <<cache, gone>>
     ELSE Probe(req, 1, "reload")
  /\ UNCHANGED <<cf, store, wr>>

Walk ==                                     \* the next loader / search path
  /\ pc = "walk"
  /\ Probe(req, idx, how)
  /\ UNCHANGED <<cf, store, wr>>

Store ==                                    \* self.cache[cache_key] = template, then the template is returned
  /\ pc = "store"
  /\ cache' = Insert([key |-> CKey(req), ans |-> ans])
  /\ gone' = (gone \cup Evicted(CKey(req))) \ {CKey(req)}
  /\ Done(req, ans, how)
  /\ UNCHANGED <<cf, store, wr>>

Write(c) ==
  /\ pc = "idle" /\ Ops < MaxLen - 1 /\ wr[c] < MaxVer          \* the last operation of a history is a request
  /\ wr' = [wr EXCEPT ![c] = @ + 1]
  /\ store' = [store EXCEPT ![c] = wr[c] + 1]
  /\ last' = [op |-> "write", store |-> c.store, key |-> c.key, ver |-> wr[c] + 1]
  /\ hist' = Append(hist, last')
  /\ UNCHANGED <<cf, cache, gone, pc, req, idx, ans, how>>

Delete(c) ==
  /\ pc = "idle" /\ Ops < MaxLen - 1 /\ store[c] > 0
  /\ store' = [store EXCEPT ![c] = 0]
  /\ last' = [op |-> "delete", store |-> c.store, key |-> c.key]
  /\ hist' = Append(hist, last')
  /\ UNCHANGED <<cf, wr, cache, gone, pc, req, idx, ans, how>>

Next == \/ \E n \in ReqNames, s \in ReqSpaces : Begin(n, s)
        \/ Check \/ Walk \/ Store
        \/ \E c \in Cells : Write(c) \/ Delete(c)
Spec == Init /\ [][Next]_vars

-----------------------------------------------------------------------------
IsGet == pc = "idle" /\ last.op = "get"
Cached == RootCaching /\ IsGet

(* the walk, probe by probe, ends at the first probe that exists: the declarative requirement *)
WalkSkipsOnlyAbsent == pc = "walk" => \A j \in 1..(idx - 1) : Ver(Cell(PT(req.name, req.ns)[j])) = 0
WalkFindsFirst == /\ pc = "store" => ans = Ref(req)
                  /\ (pc = "idle" /\ last.op = "get" /\ last.how \in {"direct", "miss", "miss-evicted", "reload"}) => last.mech = last.ref
(* a non-caching composition (also one with an inert inner cache) always gives the requirement's answer *)
NonCachingExact == (IsGet /\ ~RootCaching) => last.mech = last.ref /\ last.adm = <<last.ref>>
(* with auto_reload the caching root answers like the non-caching composition, except in the two unspecified situations *)
ReloadTransparent == (Cached /\ AutoReload) => (last.mech = last.ref \/ last.how \in {"shadowed", "undetectable"})
(* ... and never serves file content that has since been modified or deleted *)
NeverServesModified == (Cached /\ AutoReload /\ last.mech.found /\ last.mech.det)
                          => Ver([store |-> last.mech.store, key |-> last.mech.key]) = last.mech.ver
(* unspecified means exactly: the cached source itself is unmodified (or cannot tell), yet the composition would answer otherwise *)
UnspecifiedIsNarrow == (IsGet /\ Len(last.adm) = 2) =>
                          /\ RootCaching /\ AutoReload /\ last.mech.found /\ last.mech # last.ref
                          /\ (last.mech.det => Ver([store |-> last.mech.store, key |-> last.mech.key]) = last.mech.ver)
(* whatever is answered exists, or existed, in a store the request may probe, under a key the request maps to (namespaces and       *)
(* extensions never leak between requests) -- for built-in (namespace oblivious) trees the cache key may alias two request forms   *)
(* only when they resolve through the same probes                                                                                  *)
AnswerIsAProbe == (IsGet /\ last.mech.found) =>
                     \E p \in Range(PT(last.name, SeenNs(last))) : p.store = last.mech.store /\ p.key = last.mech.key
(* a decoy (suffix-less file beside a default extension) is never served *)
NoDecoy == (IsGet /\ last.mech.found /\ last.mech.det /\ last.mech.store \in DecoyStores) => last.mech.key \notin Stems
Bounded == Len(cache) <= Cap /\ (~RootCaching => cache = <<>>)
GoneIsGone == \A k \in gone : ~Has(k)
NoDupKeys == \A i, j \in 1..Len(cache) : cache[i].key = cache[j].key => i = j
CacheHoldsLoaded == \A i \in 1..Len(cache) : cache[i].ans.found /\ cache[i].ans.ver >= 1
                                              /\ cache[i].ans.ver <= wr[[store |-> cache[i].ans.store, key |-> cache[i].ans.key]]
(* a NotFound answer is always current: absence is never cached *)
NotFoundIsCurrent == (IsGet /\ ~last.mech.found /\ last.how # "nocheck") => ~last.ref.found
(* with auto_reload = FALSE a cached key keeps its version: the answer is the entry's, untouched by the stores *)
NoCheckServesEntry == [][(pc = "idle" /\ pc' = "idle" /\ last'.op = "get" /\ RootCaching /\ ~AutoReload /\ Has(last'.ckey))
                            => (last'.how = "nocheck" /\ last'.mech = Entry(last'.ckey).ans /\ store' = store)]_vars
(* the stores are changed by Write / Delete only; a request never writes *)
GetsDoNotWrite == [][(pc # "idle" \/ pc' # "idle" \/ last'.op = "get") => (store' = store /\ wr' = wr)]_vars

View == <<cf, store, wr, cache, gone, pc, req, idx, ans, how, last>>
Emit == IsGet => PrintT(ToJson([comp |-> cf.comp, tree |-> Tree, auto |-> AutoReload, nskey |-> NSKey, cap |-> Cap, len |-> MaxLen, steps |-> hist]))
=============================================================================
