--------------------------- MODULE LRUCacheMT ---------------------------
(* ThreadSafeLRUCache under concurrent use (C24).  Every locked method is   *)
(* one atomic action (the lock makes it so; the trace spec checks the lock  *)
(* is really held).  Listings are NOT atomic in the code: the iterator is   *)
(* created under the lock (ListBegin) and consumed by the caller outside it *)
(* (ListNext.., ListEnd), so other threads' operations interleave.          *)
(* LiveIterators = FALSE : required behaviour, the listing is a snapshot    *)
(*                         taken under the lock.                            *)
(* LiveIterators = TRUE  : named deviation `ListingReadsLiveMap` (what the  *)
(*                         code did before the fix): the iterator walks the *)
(*                         live OrderedDict and raises RuntimeError when it *)
(*                         was mutated since the iterator was created.      *)
EXTENDS Naturals, Sequences, FiniteSets, TLC, Json

CONSTANTS Threads, Keys, Vals, Cap, MaxOps, LiveIterators

VARIABLES cache, stored, last,   \* the sequential cache (LRUCache.tla)
          ver,                   \* number of structural mutations so far
          it,                    \* per thread: listing in progress or None
          ops,                   \* per thread: operations started
          window,                \* per thread: cache contents seen since ListBegin (ghost)
          failed,                \* some call raised something other than KeyError
          hist                   \* the behaviour so far, for replay

C == INSTANCE LRUCache
mtvars == <<cache, stored, last, ver, it, ops, window, failed, hist>>

None == [what |-> "none", snap |-> <<>>, pos |-> 0, ver |-> 0]
Listing(what) == CASE what = "keys" -> C!KeysMRU(cache)
                   [] what = "values" -> C!ValsMRU(cache)
                   [] what = "items" -> C!Flat(C!ItemsMRU(cache))
Width(what) == IF what = "items" THEN 2 ELSE 1

Init == /\ C!Init
        /\ ver = 0
        /\ it = [t \in Threads |-> None]
        /\ ops = [t \in Threads |-> 0]
        /\ window = [t \in Threads |-> {}]
        /\ failed = FALSE
        /\ hist = <<>>

Log(t, act, k, v, ret) == hist' = Append(hist, [t |-> t, act |-> act, k |-> k, v |-> v, ret |-> ret])

(* a locked operation: atomic *)
Op(t) ==
  /\ it[t] = None /\ ops[t] < MaxOps /\ ~failed
  /\ \/ \E k \in Keys : C!Get(k) \/ C!Del(k)
     \/ \E k \in Keys, v \in Vals : C!Set(k, v)
  /\ ver' = IF cache' # cache THEN ver + 1 ELSE ver
  /\ ops' = [ops EXCEPT ![t] = @ + 1]
  /\ window' = [x \in Threads |-> IF it[x] # None THEN window[x] \cup {cache'} ELSE window[x]]
  /\ Log(t, last'.op, last'.k, last'.v, last'.ret)
  /\ UNCHANGED <<it, failed>>

ListBegin(t, what) ==
  /\ it[t] = None /\ ops[t] < MaxOps /\ ~failed
  /\ it' = [it EXCEPT ![t] = [what |-> what, snap |-> Listing(what), pos |-> 0, ver |-> ver]]
  /\ window' = [window EXCEPT ![t] = {cache}]
  /\ ops' = [ops EXCEPT ![t] = @ + 1]
  /\ Log(t, "begin", what, "", <<>>)
  /\ UNCHANGED <<cache, stored, last, ver, failed>>

(* one next() on the iterator, outside the lock *)
ListNext(t) ==
  /\ it[t] # None /\ ~failed
  /\ LET i == it[t]
         w == Width(i.what)
         src == i.snap   \* a live iterator either yields what the snapshot would or fails
     IN IF LiveIterators /\ i.pos < Len(i.snap) /\ ver # i.ver
        THEN /\ failed' = TRUE
             /\ Log(t, "next", i.what, "", <<"!RuntimeError">>)
             /\ UNCHANGED <<it, window>>
        ELSE IF i.pos < Len(src)
        THEN /\ it' = [it EXCEPT ![t].pos = @ + w]
             /\ Log(t, "next", i.what, "", SubSeq(src, i.pos + 1, i.pos + w))
             /\ UNCHANGED <<failed, window>>
        ELSE /\ it' = [it EXCEPT ![t] = None]          \* StopIteration: listing complete
             /\ Log(t, "next", i.what, "", <<"!Stop">>)
             /\ UNCHANGED <<failed, window>>
  /\ UNCHANGED <<cache, stored, last, ver, ops>>

Next == \E t \in Threads : Op(t) \/ ListNext(t) \/ \E w \in {"keys", "values", "items"} : ListBegin(t, w)

Spec == Init /\ [][Next]_mtvars

-----------------------------------------------------------------------------
NeverFails == ~failed
Bounded == C!Bounded
NoDup == C!NoDup
ReturnsLastStored == C!ReturnsLastStored
(* what a listing has produced so far is a prefix of the contents at some point since its call *)
Linearizable ==
  \A t \in Threads : it[t] # None =>
     \E c \in window[t] :
        LET full == CASE it[t].what = "keys" -> C!KeysMRU(c)
                      [] it[t].what = "values" -> C!ValsMRU(c)
                      [] it[t].what = "items" -> C!Flat(C!ItemsMRU(c))
        IN it[t].pos <= Len(full) /\ SubSeq(full, 1, it[t].pos) = SubSeq(it[t].snap, 1, it[t].pos)

Terminal == /\ \A t \in Threads : it[t] = None /\ ops[t] = MaxOps
Emit == (Terminal \/ failed) => PrintT(ToJson([cap |-> Cap, steps |-> hist, failed |-> failed]))
View == <<cache, stored, ver, it, ops, window, failed>>
=============================================================================
