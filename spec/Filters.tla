------------------------------ MODULE Filters ------------------------------
(* C25 — built-in filters honour their documented contracts.                 *)
(*                                                                           *)
(* A *cell* is an input value and a pipeline of one or two filter            *)
(* applications with their arguments:  v | f1: a.. [| f2: b..].  Init picks  *)
(* a cell from the bounded families at the end of the module; Step applies   *)
(* the next filter of the pipeline with the reference definition `Compute`;  *)
(* a finished cell emits what the property (or the project's filter          *)
(* reference under docs/) fixes about the result — `Expect`:                 *)
(*    [kind |-> "oneof", alts |-> S]     the result is one of the values S    *)
(*                                       (a singleton where it is fixed; all *)
(*                                       admissible orders for sort ties...) *)
(*    [kind |-> "endswith", suffix, maxlen]   only a contract is stated      *)
(*                                       (truncate below the ellipsis length)*)
(*    [kind |-> "U"]                     nothing is fixed (errors belong to  *)
(*                                       C02, open corners are listed in     *)
(*                                       notes/C25.md); the cell still runs  *)
(* `Compute(D, ..)` is parameterised by a set D of *named deviations*: with  *)
(* D = {} it is the reference; each deviation replaces one step by what the  *)
(* pinned library did before its fix.  The contract invariants are stated    *)
(* over Compute(Deviations, ..): the exhaustive configurations run with      *)
(* Deviations = {} and must hold; Filters_dev_*.cfg enable one deviation and *)
(* TLC refutes the named contract (the finding's counterexample).            *)
EXTENDS FilterValues, Json

CONSTANTS Alphabet,      \* characters of free text
          MaxStr,        \* longest text for case / whitespace / split / slice / size cells
          MaxTrunc,      \* longest text for truncate cells
          MaxWords,      \* longest text for truncatewords cells
          MaxList,       \* longest list
          Ints,          \* integer pool
          Decs,          \* decimal pool (centi-units)
          Elems,         \* items of mixed lists
          Families,      \* which families Init draws from
          Deviations     \* named deviations of the mechanism

(* ---- expectations ---------------------------------------------------------------------------- *)
One(v) == [kind |-> "oneof", alts |-> {v}]
OneOf(S) == [kind |-> "oneof", alts |-> S]
Unspec == [kind |-> "U"]
Bound(e, m) == [kind |-> "endswith", suffix |-> e, maxlen |-> m]
Satisfies(exp, v) == CASE exp.kind = "oneof" -> v \in exp.alts
                       [] exp.kind = "endswith" -> v.t = "str" /\ EndsWith(v.s, exp.suffix) /\ Len(v.s) <= exp.maxlen
                       [] OTHER -> TRUE
Fixed(exp) == exp.kind = "oneof" /\ Cardinality(exp.alts) = 1
The(exp) == CHOOSE x \in exp.alts : TRUE
Arg(a, i, d) == IF Len(a) >= i THEN a[i] ELSE d
Ellipsis == <<".", ".", ".">>
Sp == <<" ">>

(* ================================================================================================ *)
(* strings                                                                                          *)
(* ================================================================================================ *)
Capitalize(s) == IF s = <<>> THEN s ELSE <<Up(s[1])>> \o DownS(Tail(s))
CaseWs(f, s) == CASE f = "upcase" -> UpS(s) [] f = "downcase" -> DownS(s) [] f = "capitalize" -> Capitalize(s)
                  [] f = "strip" -> LStrip(RStrip(s)) [] f = "lstrip" -> LStrip(s) [] f = "rstrip" -> RStrip(s)
CaseWsFilters == {"upcase", "downcase", "capitalize", "strip", "lstrip", "rstrip"}

Size(v) == CASE v.t = "str" -> Len(v.s) [] v.t = "list" -> Len(v.xs) [] v.t = "dict" -> Len(v.kv) [] OTHER -> 0

(* -- split / join --------------------------------------------------------------------------------- *)
(* deviation SplitMimicsRuby: `val == sep -> []` and awk-style splitting for a single space *)
SplitText(D, s, sep) ==
  IF sep = <<>> THEN [i \in 1..Len(s) |-> <<s[i]>>]
  ELSE IF "SplitMimicsRuby" \in D /\ s = sep THEN <<>>
  ELSE IF "SplitMimicsRuby" \in D /\ sep = Sp THEN Words(s)
  ELSE SplitOn(s, sep)
SepText(x) == IF x.t = "str" THEN x.s ELSE <<>>               \* nil / undefined separator: split at every character
StrList(ss) == Lst([i \in 1..Len(ss) |-> Str(ss[i])])
CSplit(D, v, a) ==
  IF ~HasText(v) \/ Len(a) # 1 \/ a[1].t \notin {"str", "nil", "undef"} THEN Unspec
  ELSE IF TextOf(v) = <<>> THEN OneOf({Lst(<<>>), StrList(<< <<>> >>)})          \* nothing to restore: either reading of "" is admissible
  ELSE One(StrList(SplitText(D, TextOf(v), SepText(a[1]))))
Joinable(x) == x.t \in {"str", "int", "dec"}
CJoin(v, a) ==
  IF v.t # "list" \/ Len(a) > 1 \/ (Len(a) = 1 /\ a[1].t # "str") THEN Unspec
  ELSE LET xs == Flatten(v.xs) IN
       IF \E i \in 1..Len(xs) : ~Joinable(xs[i]) THEN Unspec
       ELSE One(Str(JoinWith([i \in 1..Len(xs) |-> TextOf(xs[i])], IF Len(a) = 1 THEN a[1].s ELSE Sp)))

(* -- truncate --------------------------------------------------------------------------------------- *)
(* reference (Shopify): unchanged when it fits, else the first max(n - |e|, 0) characters and the ellipsis *)
RefTruncate(s, n, e) == IF Len(s) <= n THEN s ELSE Prefix(s, n - Len(e)) \o e
(* deviation TruncateCodeSlicing: liquid/utils/text.py before the fix — `<` and a Python slice with a negative stop *)
PySliceTo(s, j) == IF j >= 0 THEN Prefix(s, j) ELSE Prefix(s, Len(s) + j)
CodeTruncate(s, n, e) == IF Len(s) < n THEN s ELSE PySliceTo(s, n - Len(e)) \o e
TruncArgsOk(v, a) == /\ HasText(v) /\ Len(a) <= 2
                     /\ (Len(a) >= 1 => a[1].t \in {"int", "big"})
                     /\ (Len(a) = 2 => a[2].t = "str")
CTruncate(D, v, a) ==
  IF ~TruncArgsOk(v, a) THEN Unspec
  ELSE LET s == TextOf(v)
           n == Arg(a, 1, IntV(50))
           e == Arg(a, 2, Str(Ellipsis)).s
       IN IF n.t = "big" THEN (IF n.m > 0 THEN One(Str(s)) ELSE One(Str(e)))
          ELSE One(Str(IF "TruncateCodeSlicing" \in D THEN CodeTruncate(s, n.n, e) ELSE RefTruncate(s, n.n, e)))
(* what the statement and the filter reference fix *)
ETruncate(v, a) ==
  IF ~TruncArgsOk(v, a) THEN Unspec
  ELSE LET s == TextOf(v)
           n == Arg(a, 1, IntV(50))
           e == Arg(a, 2, Str(Ellipsis)).s
       IN IF n.t = "big" THEN (IF n.m > 0 THEN One(Str(s)) ELSE Bound(e, Len(e)))
          ELSE IF Len(s) <= n.n THEN One(Str(s))                                  \* statement: unchanged when no longer than n
          ELSE IF n.n >= Len(e) THEN One(Str(Prefix(s, n.n - Len(e)) \o e))       \* docs: "truncated to length minus the length of the second argument, with the second argument appended"
          ELSE Bound(e, Mx(n.n, Len(e)))                                          \* statement only: ends in the ellipsis, no longer than max(n, |e|)

(* -- truncatewords ---------------------------------------------------------------------------------- *)
TwArgsOk(v, a) == /\ HasText(v) /\ Len(a) <= 2
                  /\ (Len(a) >= 1 => a[1].t \in {"int", "big"})
                  /\ (Len(a) = 2 => a[2].t = "str" /\ \A i \in 1..Len(a[2].s) : ~IsWs(a[2].s[i]))
CTruncWords(v, a) ==                                         \* reference (Shopify): the input itself when it has at most n words
  IF ~TwArgsOk(v, a) THEN Unspec
  ELSE LET s == TextOf(v)
           n == Arg(a, 1, IntV(15))
           e == Arg(a, 2, Str(Ellipsis)).s
           w == Words(s)
       IN IF n.t = "big" THEN (IF n.m > 0 THEN One(Str(s)) ELSE Unspec)
          ELSE IF n.n <= 0 THEN Unspec
          ELSE IF Len(w) <= n.n THEN One(Str(s))
          ELSE One(Str(JoinWith(SubSeq(w, 1, n.n), Sp) \o e))
ETruncWords(v, a) ==
  IF ~TwArgsOk(v, a) THEN Unspec
  ELSE LET s == TextOf(v)
           n == Arg(a, 1, IntV(15))
           e == Arg(a, 2, Str(Ellipsis)).s
           w == Words(s)
           j == JoinWith(w, Sp)
       IN IF n.t = "big" THEN (IF n.m > 0 THEN OneOf({Str(s), Str(j)}) ELSE Unspec)
          ELSE IF n.n <= 0 THEN Unspec                          \* the reference implementation forces a minimum of one word; the statement's bound is read for n >= 1
          ELSE IF Len(w) < n.n THEN OneOf({Str(s), Str(j)})       \* "returned unchanged" (docs) / whitespace-normalised (code): both keep every word
          ELSE IF Len(w) = n.n THEN OneOf({Str(s), Str(j), Str(j \o e)})
          ELSE One(Str(JoinWith(SubSeq(w, 1, n.n), Sp) \o e))   \* docs: truncated to n words with the second argument appended

(* -- slice / first / last ----------------------------------------------------------------------------- *)
SliceSel(xs, start, len) ==          \* 0-based start, negative counts from the end
  LET n == Len(xs)
      st == IF start < 0 THEN start + n ELSE start
  IN IF len <= 0 \/ st >= n THEN <<>> ELSE [i \in 1..(Mn(st + len, n) - st) |-> xs[st + i]]
CSlice(v, a) ==
  IF Len(a) \notin {1, 2} \/ v.t \notin {"str", "list", "int"} THEN Unspec
  ELSE IF a[1].t \notin {"int", "big"} \/ (Len(a) = 2 /\ a[2].t \notin {"int", "big"}) THEN Unspec
  ELSE LET xs == IF v.t = "list" THEN v.xs ELSE TextOf(v)
           mk(r) == IF v.t = "list" THEN Lst(r) ELSE Str(r)
           len == Arg(a, 2, IntV(1))
       IN IF a[1].t = "big" THEN (IF a[1].m > 0 THEN One(mk(<<>>)) ELSE Unspec)
          ELSE IF a[1].n < 0 - Len(xs) THEN Unspec            \* a start before the beginning: the docs only say "counted from the end"
          ELSE IF len.t = "big" THEN (IF len.m > 0 THEN One(mk(SliceSel(xs, a[1].n, Len(xs) + 1))) ELSE One(mk(<<>>)))
          ELSE One(mk(SliceSel(xs, a[1].n, len.n)))
CFirst(v) == CASE v.t = "list" -> One(IF v.xs = <<>> THEN Nil ELSE v.xs[1])
               [] v.t = "dict" -> One(IF v.kv = <<>> THEN Nil ELSE Lst(<<Str(<<v.kv[1][1]>>), v.kv[1][2]>>))
               [] v.t = "undef" -> OneOf({Nil, Undef})
               [] v.t \in {"str", "int", "dec", "nil", "bool"} -> One(Nil)
               [] OTHER -> Unspec
CLast(v) == CASE v.t = "list" -> One(IF v.xs = <<>> THEN Nil ELSE v.xs[Len(v.xs)])
              [] v.t = "undef" -> OneOf({Nil, Undef})
              [] v.t \in {"str", "int", "dec", "nil", "bool"} -> One(Nil)
              [] OTHER -> Unspec

(* ================================================================================================ *)
(* arrays                                                                                           *)
(* ================================================================================================ *)
Eq(D, a, b) == IF "PythonBoolIsInt" \in D THEN EqPy(a, b) ELSE EqL(a, b)
Reverse(xs) == [i \in 1..Len(xs) |-> xs[Len(xs) - i + 1]]
Keep(xs, P(_)) == SelectSeq(xs, P)
AllOrders(xs, Leq(_, _)) ==
  { ys \in { [i \in 1..Len(xs) |-> xs[p[i]]] : p \in Permutations(1..Len(xs)) } : \A i \in 1..(Len(xs) - 1) : Leq(ys[i], ys[i + 1]) }
AllNums(xs) == \A i \in 1..Len(xs) : IsNumV(xs[i])
AllStrs(xs) == \A i \in 1..Len(xs) : xs[i].t = "str"
AllDicts(xs) == \A i \in 1..Len(xs) : xs[i].t = "dict"
LeqV(a, b) == IF IsNumV(a) THEN Centi(a) <= Centi(b) ELSE StrLe(a.s, b.s)
NatKey(x) == IF x.t = "str" THEN DownS(x.s) ELSE IntStr(x.n)              \* "string representations, forced to lowercase"
Missing == [t |-> "missing"]
KeyOf(d, k) == IF HasKey(d, k) THEN Get(d, k) ELSE Missing
LeqKey(a, b) == b.t = "missing" \/ (a.t # "missing" /\ LeqV(a, b))        \* items without the key go to the end
LeqNatKey(a, b) == b.t = "missing" \/ (a.t # "missing" /\ StrLe(NatKey(a), NatKey(b)))
KeyArgOk(a) == Len(a) = 1 /\ a[1].t = "str" /\ Len(a[1].s) = 1
AsLists(S) == { Lst(ys) : ys \in S }

CSort(xs, a) ==
  IF Len(a) = 0 THEN (IF AllNums(xs) \/ AllStrs(xs) THEN OneOf(AsLists(AllOrders(xs, LeqV))) ELSE Unspec)
  ELSE IF ~KeyArgOk(a) \/ ~AllDicts(xs) THEN Unspec
  ELSE LET k == a[1].s[1]
           ks == [i \in 1..Len(xs) |-> KeyOf(xs[i], k)]
           present == SelectSeq(ks, LAMBDA x : x.t # "missing")
       IN IF AllStrs(present) \/ (AllNums(present) /\ Len(present) = Len(ks))
          THEN OneOf(AsLists(AllOrders(xs, LAMBDA x, y : LeqKey(KeyOf(x, k), KeyOf(y, k)))))
          ELSE Unspec
NatOk(xs) == \A i \in 1..Len(xs) : xs[i].t \in {"str", "int"}
CSortNatural(xs, a) ==
  IF Len(a) = 0 THEN (IF NatOk(xs) THEN OneOf(AsLists(AllOrders(xs, LAMBDA x, y : StrLe(NatKey(x), NatKey(y))))) ELSE Unspec)
  ELSE IF ~KeyArgOk(a) \/ ~AllDicts(xs) THEN Unspec
  ELSE LET k == a[1].s[1]
           present == SelectSeq([i \in 1..Len(xs) |-> KeyOf(xs[i], k)], LAMBDA x : x.t # "missing")
       IN IF NatOk(present) THEN OneOf(AsLists(AllOrders(xs, LAMBDA x, y : LeqNatKey(KeyOf(x, k), KeyOf(y, k))))) ELSE Unspec

RECURSIVE UniqIdx(_, _, _, _)
UniqIdx(D, ks, i, seen) ==       \* indices of the first occurrence of every key, in order
  IF i > Len(ks) THEN <<>>
  ELSE IF \E j \in 1..Len(seen) : (seen[j].t = "missing" /\ ks[i].t = "missing") \/ (seen[j].t # "missing" /\ ks[i].t # "missing" /\ Eq(D, seen[j], ks[i]))
  THEN UniqIdx(D, ks, i + 1, seen)
  ELSE <<i>> \o UniqIdx(D, ks, i + 1, Append(seen, ks[i]))
UniqOn(D, xs, ks) == LET idx == UniqIdx(D, ks, 1, <<>>) IN [j \in 1..Len(idx) |-> xs[idx[j]]]
CUniq(D, xs, a) ==
  IF Len(a) = 0 THEN One(Lst(UniqOn(D, xs, xs)))
  ELSE IF ~KeyArgOk(a) \/ ~AllDicts(xs) THEN Unspec
  ELSE One(Lst(UniqOn(D, xs, [i \in 1..Len(xs) |-> KeyOf(xs[i], a[1].s[1])])))
CCompact(xs, a) ==
  IF Len(a) = 0 THEN One(Lst(Keep(xs, LAMBDA x : x.t # "nil")))
  ELSE IF ~KeyArgOk(a) \/ ~AllDicts(xs) \/ (\E i \in 1..Len(xs) : ~HasKey(xs[i], a[1].s[1])) THEN Unspec      \* a missing property is an error case (C02)
  ELSE One(Lst(Keep(xs, LAMBDA x : Get(x, a[1].s[1]).t # "nil")))
CMap(xs, a) ==
  IF ~KeyArgOk(a) \/ ~AllDicts(xs) THEN Unspec
  ELSE One(Lst([i \in 1..Len(xs) |-> GetOrNil(xs[i], a[1].s[1])]))
(* Liquid truthiness: only nil and false are falsy.  Deviation WhereZeroIsFalsy: Python's `x not in (False, None)` also drops 0 and 0.0 *)
TruthyAttr(D, x) == /\ x.t \notin {"nil", "undef"}
                    /\ ~(x.t = "bool" /\ ~x.b)
                    /\ ~("WhereZeroIsFalsy" \in D /\ IsNumV(x) /\ Centi(x) = 0)
WhereArgsOk(xs, a) == /\ Len(a) \in {1, 2} /\ a[1].t = "str" /\ Len(a[1].s) = 1 /\ AllDicts(xs)
                      /\ (Len(a) = 2 => a[2].t \in {"int", "dec", "str", "bool", "nil", "undef"})
Selected(D, x, a) ==           \* does item x match `where: a`
  LET y == GetOrNil(x, a[1].s[1])
  IN IF Len(a) = 2 /\ a[2].t \notin {"nil", "undef"} THEN Eq(D, y, a[2]) ELSE TruthyAttr(D, y)
CWhere(D, xs, a) == IF ~WhereArgsOk(xs, a) THEN Unspec ELSE One(Lst(Keep(xs, LAMBDA x : Selected(D, x, a))))
CReject(D, xs, a) == IF ~WhereArgsOk(xs, a) THEN Unspec ELSE One(Lst(Keep(xs, LAMBDA x : ~Selected(D, x, a))))
CConcat(xs, a) == IF Len(a) # 1 \/ a[1].t # "list" THEN Unspec ELSE One(Lst(xs \o a[1].xs))        \* the argument is not flattened

ArrayFilters == {"reverse", "sort", "sort_natural", "uniq", "compact", "concat", "map", "where", "reject"}
CArray(D, f, v, a) ==
  IF v.t = "undef" /\ f = "concat" THEN CConcat(<<>>, a)                 \* an undefined input is an empty array
  ELSE IF v.t # "list" THEN Unspec                                       \* coercion of scalars / strings / hashes is left unclaimed
  ELSE LET xs == Flatten(v.xs) IN                                        \* sequence_filter: nested arrays are flattened first
       CASE f = "reverse" -> (IF Len(a) = 0 THEN One(Lst(Reverse(xs))) ELSE Unspec)
         [] f = "sort" -> CSort(xs, a)
         [] f = "sort_natural" -> CSortNatural(xs, a)
         [] f = "uniq" -> CUniq(D, xs, a)
         [] f = "compact" -> CCompact(xs, a)
         [] f = "concat" -> CConcat(xs, a)
         [] f = "map" -> CMap(xs, a)
         [] f = "where" -> CWhere(D, xs, a)
         [] f = "reject" -> CReject(D, xs, a)

(* ================================================================================================ *)
(* arithmetic                                                                                       *)
(* ================================================================================================ *)
BinOps == {"plus", "minus", "times", "divided_by", "modulo", "at_least", "at_most"}
UnOps == {"abs", "ceil", "floor", "round"}
ArithOperand(v) == v.t \in {"int", "dec", "str", "nil", "undef", "big"}
RoundTo(c, unit) ==          \* c rounded to a multiple of unit; a tie admits both neighbours (the rounding mode for ties is not documented)
  LET lo == FloorDiv(c, unit) * unit
      hi == lo + unit
  IN IF c = lo THEN {c} ELSE IF c - lo < hi - c THEN {lo} ELSE IF c - lo > hi - c THEN {hi} ELSE {lo, hi}
ModOf(D, x, y) == IF "ModuloTruncatesDecimals" \in D /\ (x.isdec \/ y.isdec) THEN TruncMod(x.c, y.c) ELSE FloorMod(x.c, y.c)
CBin(D, f, x, y) ==
  LET dec == x.isdec \/ y.isdec IN
  CASE f = "plus" -> One(MkNum(dec, x.c + y.c))
    [] f = "minus" -> One(MkNum(dec, x.c - y.c))
    [] f = "times" -> (IF Divides(100, x.c * y.c) THEN One(MkNum(dec, FloorDiv(x.c * y.c, 100))) ELSE Unspec)
    [] f = "divided_by" -> (IF y.c = 0 THEN Unspec                                                  \* an error case (C02)
                            ELSE IF ~dec THEN One(IntV(FloorDiv(x.c, y.c)))                            \* integer division rounds down
                            ELSE IF Divides(y.c, x.c * 100) THEN One(Dec(FloorDiv(x.c * 100, y.c)))   \* exact decimal quotient
                            ELSE Unspec)                                                              \* more than two decimal digits: not representable here
    [] f = "modulo" -> (IF y.c = 0 THEN Unspec ELSE One(MkNum(dec, ModOf(D, x, y))))
    [] f = "at_least" -> (IF x.c > y.c THEN One(MkNum(x.isdec, x.c)) ELSE IF y.c > x.c THEN One(MkNum(y.isdec, y.c))
                          ELSE OneOf({MkNum(x.isdec, x.c), MkNum(y.isdec, y.c)}))
    [] f = "at_most" -> (IF x.c < y.c THEN One(MkNum(x.isdec, x.c)) ELSE IF y.c < x.c THEN One(MkNum(y.isdec, y.c))
                         ELSE OneOf({MkNum(x.isdec, x.c), MkNum(y.isdec, y.c)}))
(* huge integers m*H + k: exact while the result stays of that form *)
Lin(v) == IF v.t = "big" THEN [m |-> v.m, k |-> v.k] ELSE [m |-> 0, k |-> v.n]
FromLin(m, k) == IF m = 0 THEN One(IntV(k)) ELSE IF m \in {1, 0 - 1} THEN One(Big(m, k)) ELSE Unspec
LinLt(p, q) == p.m < q.m \/ (p.m = q.m /\ p.k < q.k)
CBigBin(f, a, b) ==
  IF a.t \notin {"int", "big"} \/ b.t \notin {"int", "big"} THEN Unspec
  ELSE LET p == Lin(a) q == Lin(b) IN
  CASE f = "plus" -> FromLin(p.m + q.m, p.k + q.k)
    [] f = "minus" -> FromLin(p.m - q.m, p.k - q.k)
    [] f = "times" -> (IF q.m = 0 /\ q.k \in {0 - 1, 0, 1} THEN FromLin(p.m * q.k, p.k * q.k)
                       ELSE IF p.m = 0 /\ p.k \in {0 - 1, 0, 1} THEN FromLin(q.m * p.k, q.k * p.k) ELSE Unspec)
    [] f = "divided_by" -> (IF q.m = 0 /\ q.k \in {0 - 1, 1} THEN FromLin(p.m * q.k, p.k * q.k) ELSE IF p = q THEN One(IntV(1)) ELSE Unspec)
    [] f = "modulo" -> (IF q.m = 0 /\ q.k \in {0 - 1, 1} THEN One(IntV(0)) ELSE IF p = q THEN One(IntV(0)) ELSE Unspec)
    [] f = "at_least" -> (IF LinLt(p, q) THEN One(b) ELSE One(a))
    [] f = "at_most" -> (IF LinLt(q, p) THEN One(b) ELSE One(a))
RoundDigits(a) ==        \* number of decimal places asked for; -1 = negative (unspecified)
  IF Len(a) = 0 THEN 0
  ELSE LET d == a[1] IN
       CASE d.t = "int" -> (IF d.n < 0 THEN 0 - 1 ELSE d.n)
         [] d.t = "dec" -> (IF d.c < 0 THEN 0 - 1 ELSE d.c \div 100)
         [] d.t = "str" -> (LET p == ParseNum(d.s) IN IF ~p.ok THEN 0 ELSE IF p.c < 0 THEN 0 - 1 ELSE p.c \div 100)
         [] d.t \in {"nil", "undef"} -> 0
         [] OTHER -> 0 - 1
CUn(f, x, a) ==
  CASE f = "abs" -> One(MkNum(x.isdec, Abs(x.c)))
    [] f = "floor" -> One(IntV(FloorDiv(x.c, 100)))
    [] f = "ceil" -> One(IntV(0 - FloorDiv(0 - x.c, 100)))
    [] f = "round" -> (LET d == RoundDigits(a) IN
                       IF d < 0 THEN Unspec                                       \* "decimal places" < 0 is not documented
                       ELSE IF d = 0 THEN OneOf({ IntV(FloorDiv(r, 100)) : r \in RoundTo(x.c, 100) })
                       ELSE IF ~x.isdec THEN One(MkNum(FALSE, x.c))
                       ELSE IF d = 1 THEN OneOf({ Dec(r) : r \in RoundTo(x.c, 10) })
                       ELSE One(Dec(x.c)))
CArith(D, f, v, a) ==
  IF ~ArithOperand(v) \/ (\E i \in 1..Len(a) : a[i].t \notin {"int", "dec", "str", "nil", "undef", "big"}) THEN Unspec
  ELSE IF f \in BinOps THEN
         (IF Len(a) # 1 THEN Unspec
          ELSE IF v.t = "big" \/ a[1].t = "big" THEN CBigBin(f, v, a[1])
          ELSE CBin(D, f, NumOf(v), NumOf(a[1])))
  ELSE IF v.t = "big" THEN (IF f = "abs" THEN One(Big(1, v.m * v.k)) ELSE IF Len(a) = 0 THEN One(v) ELSE Unspec)
  ELSE IF f # "round" /\ Len(a) # 0 THEN Unspec
  ELSE IF Len(a) > 1 \/ (Len(a) = 1 /\ a[1].t = "big") THEN Unspec
  ELSE CUn(f, NumOf(v), a)

(* ================================================================================================ *)
(* default                                                                                          *)
(* ================================================================================================ *)
IsEmptyV(v) == (v.t = "str" /\ v.s = <<>>) \/ (v.t = "list" /\ v.xs = <<>>) \/ (v.t = "dict" /\ v.kv = <<>>)
TakesDefault(v) == v.t \in {"nil", "undef"} \/ (v.t = "bool" /\ ~v.b) \/ IsEmptyV(v)
CDefault(v, a) ==
  IF Len(a) > 2 \/ (Len(a) = 2 /\ ~(a[2].t = "kw" /\ a[2].name = "allow_false" /\ a[2].v.t = "bool")) \/ (Len(a) >= 1 /\ a[1].t = "kw") THEN Unspec
  ELSE IF v.t \in {"big", "opaque"} THEN Unspec
  ELSE IF Len(a) = 2 /\ a[2].v.b /\ v = Bool(FALSE) THEN One(v)
  ELSE IF TakesDefault(v) THEN One(Arg(a, 1, Str(<<>>)))
  ELSE One(v)

(* ================================================================================================ *)
(* one filter application                                                                           *)
(* ================================================================================================ *)
Compute(D, f, v, a) ==
  IF v.t = "opaque" THEN Unspec
  ELSE CASE f = "size" -> (IF Len(a) = 0 /\ v.t # "big" THEN One(IntV(Size(v))) ELSE Unspec)
    [] f \in CaseWsFilters -> (IF Len(a) = 0 /\ HasText(v) THEN One(Str(CaseWs(f, TextOf(v)))) ELSE Unspec)
    [] f = "split" -> CSplit(D, v, a)
    [] f = "join" -> CJoin(v, a)
    [] f = "truncate" -> CTruncate(D, v, a)
    [] f = "truncatewords" -> CTruncWords(v, a)
    [] f = "slice" -> CSlice(v, a)
    [] f = "first" -> (IF Len(a) = 0 THEN CFirst(v) ELSE Unspec)
    [] f = "last" -> (IF Len(a) = 0 THEN CLast(v) ELSE Unspec)
    [] f \in ArrayFilters -> CArray(D, f, v, a)
    [] f \in BinOps \cup UnOps -> CArith(D, f, v, a)
    [] f = "default" -> CDefault(v, a)
    [] OTHER -> Unspec
(* split on its own: the statement fixes only "split then join with the same separator restores the string"; the engine's two       *)
(* Ruby-compatible readings (`val == sep -> []`, runs of whitespace for a single-space separator) are admitted next to the plain one *)
(* unless the very next filter is that join (then only a result that join can restore is admissible)                               *)
ESplitLoose(v, a) ==
  LET ref == Compute({}, "split", v, a)
      ruby == Compute({"SplitMimicsRuby"}, "split", v, a)
  IN IF ref.kind = "oneof" /\ ruby.kind = "oneof" THEN [kind |-> "oneof", alts |-> ref.alts \cup ruby.alts] ELSE ref
Expect(f, v, a) == CASE f = "truncate" -> ETruncate(v, a)
                     [] f = "truncatewords" -> ETruncWords(v, a)
                     [] OTHER -> Compute({}, f, v, a)

(* ================================================================================================ *)
(* the machine                                                                                      *)
(* ================================================================================================ *)
VARIABLES cell,     \* [v |-> input value, fs |-> <<[f |-> filter, a |-> arguments], ...>>]
          k,        \* next filter of the pipeline
          cur,      \* value flowing through the pipeline (Opaque once it is not fixed)
          mech,     \* the same under the named deviations
          exp       \* what is claimed about the value after the last applied filter
vars == <<cell, k, cur, mech, exp>>

Step ==
  /\ k <= Len(cell.fs)
  /\ LET f == cell.fs[k].f
         a == cell.fs[k].a
         joinNext == k < Len(cell.fs) /\ cell.fs[k + 1].f = "join" /\ cell.fs[k + 1].a = a
         e == IF f = "split" /\ ~joinNext THEN ESplitLoose(cur, a) ELSE Expect(f, cur, a)
         m == Compute(Deviations, f, mech, a)
     IN /\ exp' = e
        /\ cur' = IF Fixed(e) THEN The(e) ELSE Opaque
        /\ mech' = IF Fixed(m) THEN The(m) ELSE Opaque
  /\ k' = k + 1
  /\ UNCHANGED cell
Done == k = Len(cell.fs) + 1
Next == Step

(* pools selected by the configurations (cfg files cannot hold negative numbers or records) *)
QuickInts == {0 - 3, 0 - 1, 0, 1, 2, 7, 12}
AllInts == (0 - 3)..12
QuickDecs == {0 - 150, 0 - 50, 0, 10, 30, 150, 250, 770}         \* 7.7: its remainders by small integers are not binary fractions
AllDecs == {0 - 250, 0 - 150, 0 - 70, 0 - 50, 0 - 10, 0, 10, 20, 30, 50, 70, 100, 150, 200, 250, 770, 990, 1010}
QuickElems == {IntV(1), IntV(2), Dec(100), Str(<<"a">>), Str(<<"B">>), Nil, Bool(TRUE), Lst(<<IntV(2), Nil>>)}
AllElems == QuickElems \cup {IntV(0 - 1), Dec(150), Str(<<"b">>), Bool(FALSE), IntV(0), Str(<<>>)}
(* ---- the bounded families ------------------------------------------------------------------------- *)
Cell1(f, v, a) == [v |-> v, fs |-> <<[f |-> f, a |-> a]>>]
Cell2(f, a, g, b, v) == [v |-> v, fs |-> <<[f |-> f, a |-> a], [f |-> g, a |-> b]>>]
Texts(n) == UNION { [1..m -> Alphabet] : m \in 0..n }
ListsOf(E, n) == { Lst(xs) : xs \in UNION { [1..m -> E] : m \in 0..n } }
T(n) == { Str(s) : s \in Texts(n) }
S1(c) == Str(<<c>>)
(* a few texts with the other whitespace characters (newline, tab), outside the free alphabet *)
WsTexts == { Str(<<"\n", "a", " ">>), Str(<<"a", "\t">>), Str(<<"\t", "\n">>), Str(<<" ", "a", "\n", "B", "\t", "a">>), Str(<<"a", "\n", "\n", "B">>) }
NumStrs == { <<"1", "2">>, <<"-", "3">>, <<"1", ".", "5">>, <<"-", "0", ".", "5">>, <<"0">>, <<"2", ".", "0">> }
NonNums == {S1("a"), Str(<<>>), Nil, Undef}
Bigs == {Big(1, 0), Big(1, 1), Big(0 - 1, 0 - 1)}
IntVals == { IntV(n) : n \in Ints }
NumPool == IntVals \cup { Dec(c) : c \in Decs } \cup { Str(s) : s \in NumStrs } \cup NonNums \cup Bigs
TwoDigit == { Str(<<"1", ".", "2", "5">>), Str(<<"0", ".", "3", "5">>), Str(<<"-", "0", ".", "4", "5">>) }
RoundArgs == { <<>>, <<IntV(0 - 1)>>, <<IntV(0)>>, <<IntV(1)>>, <<IntV(2)>>, <<Dec(100)>>, <<S1("1")>>, <<S1("a")>>, <<Nil>>, <<Undef>> }
SampleDict == Dct(<< <<"k", IntV(1)>>, <<"p", S1("a")>> >>)
Scalars == T(2) \cup IntVals \cup { Dec(c) : c \in Decs } \cup {Nil, Undef, Bool(TRUE), Bool(FALSE)}
Mixed == ListsOf(Elems, MaxList)
MixedSmall == ListsOf(Elems, Mn(MaxList, 2))
SomeLists == {Lst(<<>>), Lst(<<IntV(1)>>), Lst(<<S1("a"), Nil, IntV(2)>>), Lst(<<Lst(<<IntV(2), Nil>>), IntV(1)>>), Lst(<<Nil>>)}
SomeDicts == {Dct(<<>>), Dct(<< <<"k", IntV(1)>> >>), SampleDict}
Everything == Scalars \cup SomeLists \cup SomeDicts \cup { Str(s) : s \in NumStrs }

TruncNs == {IntV(n) : n \in (0 - 2)..(MaxTrunc + 2)} \cup {IntV(12), Big(1, 0), Big(0 - 1, 0 - 1)}
Ellipses == IF MaxTrunc <= 4 THEN { <<>>, <<"a", "B">>, Ellipsis } ELSE { <<>>, <<"a">>, <<"a", "B">>, Ellipsis, <<".", ".", ".", ".">> }
TruncArgs == { <<n>> : n \in TruncNs } \cup { <<n, Str(e)>> : n \in TruncNs, e \in Ellipses } \cup {<<>>}
WordNs == {IntV(n) : n \in (0 - 1)..4} \cup {Big(1, 0)}
WordArgs == { <<n>> : n \in WordNs } \cup { <<n, Str(e)>> : n \in WordNs, e \in {<<>>, <<"B">>} } \cup {<<>>}
Seps == T(2) \cup {S1("-")}
SliceStarts == { IntV(n) : n \in (0 - MaxStr - 1)..(MaxStr + 1) } \cup {Big(1, 0)}
SliceLens == { IntV(n) : n \in (0 - 1)..(MaxStr + 1) } \cup {Big(1, 0)}
SliceArgs == { <<s>> : s \in SliceStarts } \cup { <<s, l>> : s \in SliceStarts, l \in SliceLens }

(* lists of hashes: item i is {"k": x, "i": i}, or {"i": i} when the property is missing *)
DictVals == {IntV(0), IntV(1), Dec(100), Dec(0), Bool(TRUE), Bool(FALSE), Nil, S1("a"), Str(<<>>), S1("B"), Missing}
DictList(g) == Lst([i \in 1..Len(g) |-> IF g[i].t = "missing" THEN Dct(<< <<"i", IntV(i)>> >>) ELSE Dct(<< <<"k", g[i]>>, <<"i", IntV(i)>> >>)])
DictLists == { DictList(g) : g \in UNION { [1..m -> DictVals] : m \in 0..MaxList } }
DictListsSmall == { DictList(g) : g \in UNION { [1..m -> DictVals] : m \in 0..Mn(MaxList, 2) } }
WhereVals == {IntV(1), IntV(0), Dec(100), Bool(TRUE), Bool(FALSE), S1("a"), Str(<<>>), Nil, Undef}
KeyK == <<S1("k")>>
WhereArgs == {KeyK} \cup { <<S1("k"), w>> : w \in WhereVals }
SortNums == ListsOf({IntV(2), IntV(1), IntV(0 - 1), Dec(100), Dec(150)}, MaxList)
SortStrs == ListsOf({S1("a"), S1("B"), S1("b"), Str(<<"a", "B">>), Str(<<"A", "b">>), Str(<<" ", "a">>), IntV(12), IntV(2)}, MaxList)
SortDictVals == {S1("a"), S1("B"), S1("b"), Missing}
SortDictLists == { DictList(g) : g \in UNION { [1..m -> SortDictVals] : m \in 0..MaxList } }
              \cup { DictList(g) : g \in UNION { [1..m -> {IntV(2), IntV(1), Dec(100)}] : m \in 0..MaxList } }
ConcatArgs == { <<Lst(<<>>)>>, <<Lst(<<IntV(1), S1("a")>>)>>, <<Lst(<<Lst(<<IntV(2)>>), Nil>>)>> }
DefaultArgs == {S1("a"), Str(<<>>), IntV(0), IntV(7), Dec(150), Nil, Undef, Bool(TRUE), Bool(FALSE), Lst(<<>>), Lst(<<IntV(1), S1("a")>>), SampleDict}
DefaultForms == {<<>>} \cup { <<d>> : d \in DefaultArgs } \cup { <<d, Kw("allow_false", Bool(b))>> : d \in {S1("a"), IntV(7), Bool(TRUE)}, b \in BOOLEAN }

(* a family is only built when the configuration selects it (TLC evaluates constant definitions eagerly) *)
FamSize == IF "size" \notin Families THEN {} ELSE
  { Cell1("size", v, <<>>) : v \in Everything \cup T(MaxStr) \cup Mixed }
FamCase == IF "case" \notin Families THEN {} ELSE
  { Cell1(f, v, <<>>) : f \in CaseWsFilters, v \in T(MaxStr) \cup WsTexts \cup {IntV(12), IntV(0 - 3), Dec(150), Dec(0 - 50), Nil, Undef} }
FamSplit == IF "split" \notin Families THEN {} ELSE
  { Cell1("split", v, <<sep>>) : v \in T(MaxStr) \cup {IntV(12), Nil}, sep \in Seps \cup {Nil, Undef} }
FamSplitJoin == IF "split" \notin Families THEN {} ELSE
  { Cell2("split", <<sep>>, "join", <<sep>>, v) : v \in T(MaxStr), sep \in Seps }
FamJoin == IF "split" \notin Families THEN {} ELSE
  { Cell1("join", v, a) : v \in Mixed, a \in {<<>>, <<S1("-")>>, <<Str(<<>>)>>} }
FamTruncate == IF "truncate" \notin Families THEN {} ELSE
  { Cell1("truncate", v, a) : v \in T(MaxTrunc) \cup {IntV(12), Dec(150), Nil, Undef}, a \in TruncArgs }
FamTruncWords == IF "truncatewords" \notin Families THEN {} ELSE
  { Cell1("truncatewords", v, a) : v \in T(MaxWords) \cup WsTexts \cup {IntV(12), Nil}, a \in WordArgs }
FamSlice == IF "slice" \notin Families THEN {} ELSE
  { Cell1("slice", v, a) : v \in T(MaxStr) \cup {IntV(12)} \cup SomeLists \cup ListsOf({IntV(1), S1("a"), Nil}, MaxList), a \in SliceArgs }
FamFirstLast == IF "slice" \notin Families THEN {} ELSE
  { Cell1(f, v, <<>>) : f \in {"first", "last"}, v \in Everything \cup Mixed }
FamArray == IF "array" \notin Families THEN {} ELSE
  { Cell1(f, v, <<>>) : f \in {"reverse", "sort", "sort_natural", "uniq", "compact"}, v \in Mixed \cup SortNums \cup SortStrs }
              \cup { Cell1("concat", v, a) : v \in Mixed \cup {Undef}, a \in ConcatArgs }
FamDicts == IF "dicts" \notin Families THEN {} ELSE
  { Cell1(f, v, KeyK) : f \in {"map", "uniq", "compact"}, v \in DictLists }
              \cup { Cell1(f, v, a) : f \in {"where", "reject"}, v \in DictLists, a \in WhereArgs }
              \cup { Cell1(f, v, KeyK) : f \in {"sort", "sort_natural"}, v \in SortDictLists }
FamChains == IF "chains" \notin Families THEN {} ELSE         \* pipelines stay on lists of at most two items
  { Cell2("reverse", <<>>, "reverse", <<>>, v) : v \in MixedSmall }
               \cup { Cell2("uniq", <<>>, "uniq", <<>>, v) : v \in MixedSmall }
               \cup { Cell2("map", KeyK, "compact", <<>>, v) : v \in DictListsSmall }
               \cup { Cell2("concat", a, "size", <<>>, v) : v \in MixedSmall, a \in ConcatArgs }
               \cup { Cell2("where", a, "first", <<>>, v) : v \in DictListsSmall, a \in WhereArgs }
               \cup { Cell2("split", <<S1(" ")>>, g, <<>>, v) : g \in {"first", "last", "size", "reverse"}, v \in T(MaxStr) }
FamArith == IF "arith" \notin Families THEN {} ELSE
  { Cell1(f, x, <<y>>) : f \in BinOps, x \in NumPool, y \in NumPool }
              \cup { Cell1(f, x, <<>>) : f \in UnOps, x \in NumPool \cup TwoDigit }
              \cup { Cell1("round", x, a) : x \in NumPool \cup TwoDigit, a \in RoundArgs }
FamDefault == IF "default" \notin Families THEN {} ELSE
  { Cell1("default", v, a) : v \in Everything, a \in DefaultForms }

InFamily(c) ==
  \/ c \in FamSize \/ c \in FamCase
  \/ c \in FamSplit \/ c \in FamSplitJoin \/ c \in FamJoin
  \/ c \in FamTruncate \/ c \in FamTruncWords
  \/ c \in FamSlice \/ c \in FamFirstLast
  \/ c \in FamArray \/ c \in FamDicts \/ c \in FamChains
  \/ c \in FamArith \/ c \in FamDefault

Init == /\ InFamily(cell)
        /\ k = 1 /\ cur = cell.v /\ mech = cell.v /\ exp = Unspec
Spec == Init /\ [][Next]_vars

(* ================================================================================================ *)
(* the contracts of the statement, over the mechanism (Compute under Deviations)                     *)
(* ================================================================================================ *)
Single == Len(cell.fs) = 1
F == cell.fs[1].f
A == cell.fs[1].a
V == cell.v
M == Compute(Deviations, F, V, A)          \* what the mechanism answers for a single-filter cell
AtStart == k = 1 /\ Single                 \* evaluate single-filter contracts once per cell
EveryResult(P(_)) == M.kind = "oneof" => \A r \in M.alts : P(r)

(* size returns the length of sized values and 0 otherwise *)
SizeIsLength ==
  AtStart /\ F = "size" /\ V.t # "big" => EveryResult(LAMBDA r :
     r.t = "int" /\ CASE V.t = "str" -> r.n = Cardinality(DOMAIN V.s)
                       [] V.t = "list" -> r.n = Cardinality(DOMAIN V.xs)
                       [] V.t = "dict" -> r.n = Cardinality(DOMAIN V.kv)
                       [] OTHER -> r.n = 0)
(* case filters: same length, character-wise; idempotent; downcase and upcase absorb each other *)
CaseLikeStringOps ==
  AtStart /\ F \in {"upcase", "downcase", "capitalize"} /\ HasText(V) => EveryResult(LAMBDA r :
     LET s == TextOf(V) IN
     /\ Len(r.s) = Len(s)
     /\ \A i \in 1..Len(s) : DownS(<<r.s[i]>>) = DownS(<<s[i]>>)                 \* only the case changes
     /\ (F = "upcase" => \A i \in 1..Len(s) : r.s[i] = Up(s[i]))
     /\ (F = "downcase" => \A i \in 1..Len(s) : r.s[i] = Down(s[i]))
     /\ (F = "capitalize" => \A i \in 1..Len(s) : r.s[i] = IF i = 1 THEN Up(s[i]) ELSE Down(s[i]))
     /\ Compute(Deviations, F, r, <<>>) = One(r))
(* whitespace filters: the result is the input minus leading and/or trailing whitespace, and nothing else *)
WhitespaceLikeStringOps ==
  AtStart /\ F \in {"strip", "lstrip", "rstrip"} /\ HasText(V) => EveryResult(LAMBDA r :
     LET s == TextOf(V) IN
     \E i \in 0..Len(s) : \E j \in 0..(Len(s) - i) :
        /\ s = SubSeq(s, 1, i) \o r.s \o SubSeq(s, Len(s) - j + 1, Len(s))
        /\ \A p \in 1..i : IsWs(s[p])
        /\ \A p \in (Len(s) - j + 1)..Len(s) : IsWs(s[p])
        /\ (F \in {"strip", "lstrip"} => (r.s = <<>> \/ ~IsWs(r.s[1])))
        /\ (F \in {"strip", "rstrip"} => (r.s = <<>> \/ ~IsWs(r.s[Len(r.s)])))
        /\ (F = "lstrip" => j = 0) /\ (F = "rstrip" => i = 0))
(* split followed by join with the same separator restores a non-empty string *)
SplitJoinInverse ==
  (Done /\ Len(cell.fs) = 2 /\ cell.fs[1].f = "split" /\ cell.fs[2].f = "join" /\ cell.fs[1].a = cell.fs[2].a
        /\ cell.v.t = "str" /\ cell.v.s # <<>>) => mech = cell.v
(* truncate *)
TruncateUnchangedWhenShort ==
  AtStart /\ F = "truncate" /\ TruncArgsOk(V, A) /\ Arg(A, 1, IntV(50)).t = "int" /\ Len(TextOf(V)) <= Arg(A, 1, IntV(50)).n
     => M = One(Str(TextOf(V)))
TruncateBound ==
  AtStart /\ F = "truncate" /\ TruncArgsOk(V, A) /\ Arg(A, 1, IntV(50)).t = "int" /\ Len(TextOf(V)) > Arg(A, 1, IntV(50)).n
     => EveryResult(LAMBDA r : LET e == Arg(A, 2, Str(Ellipsis)).s IN
                                 EndsWith(r.s, e) /\ Len(r.s) <= Mx(Arg(A, 1, IntV(50)).n, Len(e)))
(* truncatewords keeps at most the requested number of words — and they are the first words of the input *)
TruncateWordsKeepsAtMost ==
  AtStart /\ F = "truncatewords" /\ TwArgsOk(V, A) /\ Arg(A, 1, IntV(15)).t = "int" /\ Arg(A, 1, IntV(15)).n >= 1 =>
     LET n == Arg(A, 1, IntV(15)).n
         e == Arg(A, 2, Str(Ellipsis)).s
         w == Words(TextOf(V))
         ex == ETruncWords(V, A)
     IN \A r \in ex.alts \cup M.alts :
           LET rw == Words(r.s) IN
           /\ Len(rw) <= n /\ Len(rw) <= Len(w)
           /\ \A i \in 1..(Len(rw) - 1) : rw[i] = w[i]
           /\ (rw # <<>> => rw[Len(rw)] \in {w[Len(rw)], w[Len(rw)] \o e})
           /\ (rw = <<>> => w = <<>>)
(* every claimed expectation admits what the mechanism computes (with Deviations = {} : the reference) *)
MechanismMeetsExpectation ==
  AtStart => LET ex == IF F = "split" THEN ESplitLoose(V, A) ELSE Expect(F, V, A) IN
             (M.kind = "oneof" /\ ex.kind # "U") => \A r \in M.alts : Satisfies(ex, r)
(* array filters return lists built from the (flattened) input's items *)
FlatIn == Flatten(V.xs)
ArrayCell(fs) == AtStart /\ F \in fs /\ V.t = "list"
NewList ==
  ArrayCell(ArrayFilters) => EveryResult(LAMBDA r : r.t = "list")
Permutation ==
  ArrayCell({"reverse", "sort", "sort_natural"}) => EveryResult(LAMBDA r : SamePerm(FlatIn, r.xs))
ReverseOrder ==
  ArrayCell({"reverse"}) => EveryResult(LAMBDA r : \A i \in 1..Len(r.xs) : r.xs[i] = FlatIn[Len(FlatIn) - i + 1])
SortedAscending ==
  ArrayCell({"sort"}) /\ A = <<>> => EveryResult(LAMBDA r : \A i \in 1..(Len(r.xs) - 1) : LeqV(r.xs[i], r.xs[i + 1]))
SortedNatural ==
  ArrayCell({"sort_natural"}) /\ A = <<>> => EveryResult(LAMBDA r : \A i \in 1..(Len(r.xs) - 1) : StrLe(NatKey(r.xs[i]), NatKey(r.xs[i + 1])))
SortedByKey ==
  ArrayCell({"sort"}) /\ A = KeyK => EveryResult(LAMBDA r :
     \A i \in 1..(Len(r.xs) - 1) : ~HasKey(r.xs[i], "k") => ~HasKey(r.xs[i + 1], "k"))       \* items without the key are at the end
UniqMembership ==
  ArrayCell({"uniq"}) /\ A = <<>> => EveryResult(LAMBDA r :
     /\ IsSubseq(r.xs, FlatIn)
     /\ \A i \in 1..Len(r.xs) : \A j \in 1..Len(r.xs) : i # j => ~EqL(r.xs[i], r.xs[j])     \* no duplicates (Liquid equality)
     /\ \A i \in 1..Len(FlatIn) : \E j \in 1..Len(r.xs) : EqL(FlatIn[i], r.xs[j]))          \* nothing but duplicates removed
CompactMembership ==
  ArrayCell({"compact"}) /\ A = <<>> => EveryResult(LAMBDA r :
     /\ IsSubseq(r.xs, FlatIn)
     /\ \A i \in 1..Len(r.xs) : r.xs[i].t # "nil"
     /\ Len(r.xs) = Cardinality({ i \in 1..Len(FlatIn) : FlatIn[i].t # "nil" }))
ConcatMembership ==
  ArrayCell({"concat"}) => EveryResult(LAMBDA r :
     /\ Len(r.xs) = Len(FlatIn) + Len(A[1].xs)
     /\ SubSeq(r.xs, 1, Len(FlatIn)) = FlatIn
     /\ SubSeq(r.xs, Len(FlatIn) + 1, Len(r.xs)) = A[1].xs)
MapMembership ==
  ArrayCell({"map"}) => EveryResult(LAMBDA r :
     /\ Len(r.xs) = Len(FlatIn)
     /\ \A i \in 1..Len(FlatIn) : (HasKey(FlatIn[i], "k") => r.xs[i] = Get(FlatIn[i], "k")) /\ (~HasKey(FlatIn[i], "k") => r.xs[i] = Nil))
(* where / reject: order-preserving selections that split the input between them; *)
(* with a value: exactly the items whose property equals it (Liquid equality); without: exactly the truthy ones *)
WhereRejectPartition ==
  ArrayCell({"where", "reject"}) /\ WhereArgsOk(FlatIn, A) =>
     LET w == Compute(Deviations, "where", V, A)
         j == Compute(Deviations, "reject", V, A)
     IN /\ Fixed(w) /\ Fixed(j)
        /\ IsSubseq(The(w).xs, FlatIn) /\ IsSubseq(The(j).xs, FlatIn)
        /\ Len(The(w).xs) + Len(The(j).xs) = Len(FlatIn)
        /\ \A i \in 1..Len(FlatIn) :
              LET y == GetOrNil(FlatIn[i], "k")
                  hit == IF Len(A) = 2 /\ A[2].t \notin {"nil", "undef"} THEN EqL(y, A[2])
                         ELSE ~(y.t \in {"nil", "undef"} \/ (y.t = "bool" /\ ~y.b))            \* only nil and false are falsy: 0, 0.0 and "" are truthy
              IN hit <=> \E p \in 1..Len(The(w).xs) : The(w).xs[p] = FlatIn[i]
(* slice, first, last select the documented items *)
SliceSelects ==
  AtStart /\ F = "slice" /\ M.kind = "oneof" /\ A[1].t = "int" /\ (Len(A) = 2 => A[2].t = "int") => EveryResult(LAMBDA r :
     LET xs == IF V.t = "list" THEN V.xs ELSE TextOf(V)
         ys == IF V.t = "list" THEN r.xs ELSE r.s
         st == IF A[1].n < 0 THEN A[1].n + Len(xs) ELSE A[1].n
         len == Arg(A, 2, IntV(1)).n
     IN /\ Len(ys) <= Mx(len, 0)
        /\ \A i \in 1..Len(ys) : ys[i] = xs[st + i]
        /\ Len(ys) = Cardinality({ p \in 0..(Len(xs) - 1) : st <= p /\ p < st + len }))
FirstLastSelect ==
  AtStart /\ F \in {"first", "last"} /\ V.t = "list" => EveryResult(LAMBDA r :
     IF V.xs = <<>> THEN r = Nil ELSE r = V.xs[IF F = "first" THEN 1 ELSE Len(V.xs)])
(* arithmetic agrees with exact integer / decimal arithmetic *)
Small(v) == v.t \in {"int", "dec", "str", "nil", "undef"}
ExactArithmetic ==
  AtStart /\ F \in BinOps /\ Small(V) /\ Len(A) = 1 /\ Small(A[1]) => EveryResult(LAMBDA r :
     LET x == NumOf(V) y == NumOf(A[1]) c == Centi(r) IN
     /\ (r.t = "dec") = (x.isdec \/ y.isdec) \/ F \in {"at_least", "at_most"}
     /\ (F = "plus" => c = x.c + y.c)
     /\ (F = "minus" => c = x.c - y.c)
     /\ (F = "times" => c * 100 = x.c * y.c)
     /\ (F = "divided_by" /\ r.t = "dec" => c * y.c = x.c * 100)
     /\ (F = "divided_by" /\ r.t = "int" => IF y.c > 0 THEN y.c * r.n <= x.c /\ x.c < y.c * (r.n + 1)
                                                       ELSE y.c * r.n >= x.c /\ x.c > y.c * (r.n + 1))
     /\ (F = "modulo" => /\ Divides(y.c, x.c - c)                                       \* x = q*y + r for an integer q
                         /\ (IF y.c > 0 THEN 0 <= c /\ c < y.c ELSE y.c < c /\ c <= 0))  \* with the sign of the divisor, as for integers
     /\ (F = "at_least" => c >= x.c /\ c >= y.c /\ c \in {x.c, y.c})
     /\ (F = "at_most" => c <= x.c /\ c <= y.c /\ c \in {x.c, y.c}))
(* the result depends on the numbers, not on how they are written: 3, 3.0 and "3" are the same number *)
SameNumber(v, w) == Small(v) /\ Small(w) /\ NumOf(v).c = NumOf(w).c
ArithmeticIgnoresRepresentation ==
  AtStart /\ F \in (BinOps \ {"divided_by"}) /\ Small(V) /\ Len(A) = 1 /\ Small(A[1]) /\ M.kind = "oneof" =>
     \A v2 \in {V, IntV(FloorDiv(NumOf(V).c, 100)), Dec(NumOf(V).c)} : \A w2 \in {A[1], IntV(FloorDiv(NumOf(A[1]).c, 100)), Dec(NumOf(A[1]).c)} :
        (SameNumber(V, v2) /\ SameNumber(A[1], w2)) =>
           LET m2 == Compute(Deviations, F, v2, <<w2>>)
           IN m2.kind = "oneof" /\ { Centi(r) : r \in m2.alts } = { Centi(r) : r \in M.alts }
ExactRounding ==
  AtStart /\ F \in UnOps /\ Small(V) /\ M.kind = "oneof" => EveryResult(LAMBDA r :
     LET x == NumOf(V) c == Centi(r) IN
     /\ (F = "abs" => c >= 0 /\ c \in {x.c, 0 - x.c} /\ (r.t = "dec") = x.isdec)
     /\ (F = "ceil" => r.t = "int" /\ c >= x.c /\ c - 100 < x.c)
     /\ (F = "floor" => r.t = "int" /\ c <= x.c /\ c + 100 > x.c)
     /\ (F = "round" /\ RoundDigits(A) = 0 => r.t = "int" /\ 2 * Abs(c - x.c) <= 100)
     /\ (F = "round" /\ RoundDigits(A) = 1 => 2 * Abs(c - x.c) <= 10 /\ Divides(10, c))
     /\ (F = "round" /\ RoundDigits(A) >= 2 => c = x.c))
(* default returns its argument exactly for nil, false, undefined and empty values — and the input otherwise *)
DefaultExactlyForNilFalseEmpty ==
  AtStart /\ F = "default" /\ M.kind = "oneof" /\ Len(A) <= 1 =>
     LET d == Arg(A, 1, Str(<<>>)) IN
     /\ (V.t \in {"nil", "undef"} \/ V = Bool(FALSE) \/ V = Str(<<>>) \/ V = Lst(<<>>) \/ V = Dct(<<>>)) => M = One(d)
     /\ ~(V.t \in {"nil", "undef"} \/ V = Bool(FALSE) \/ V = Str(<<>>) \/ V = Lst(<<>>) \/ V = Dct(<<>>)) => M = One(V)
(* pipelines: reverse is an involution on flat lists, uniq is idempotent *)
ChainLaws ==
  (Done /\ Len(cell.fs) = 2 /\ cell.v.t = "list") =>
     /\ (cell.fs[1].f = "reverse" /\ cell.fs[2].f = "reverse" => mech = Lst(Flatten(cell.v.xs)))
     /\ (cell.fs[1].f = "uniq" /\ cell.fs[2].f = "uniq" => mech = The(Compute(Deviations, "uniq", cell.v, <<>>)))

Emit == Done => PrintT(ToJson([v |-> cell.v, fs |-> cell.fs, exp |-> exp]))
=============================================================================
