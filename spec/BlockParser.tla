---------------------------- MODULE BlockParser ----------------------------
(* The block structure of Liquid templates as a pushdown automaton over tag  *)
(* tokens (liquid/parser.py parse/parse_block + the parse methods of the     *)
(* block tags), and the reference tag audit (liquid/analyze_tags.py).        *)
(* Serves C21 (audit is total / no false alarms), C03 (modes), C09 (parsing  *)
(* terminates: every step consumes a token) and C02 (exit automaton).        *)
(*                                                                           *)
(* One step of `Consume` is one iteration of a parser loop head: it looks at *)
(* the current token and the innermost open block and either accepts the     *)
(* token, opens/closes/switches a block, or fails.                           *)
EXTENDS Naturals, Sequences, FiniteSets, TLC, Json

CONSTANTS Alphabet,      \* token kinds of this configuration
          MaxLen,        \* sequences of length 0..MaxLen
          NestLimit      \* block_nesting_limit

Openers == {"if", "ifbad", "unless", "case", "for", "tablerow", "capture", "block", "macro", "with", "translate"}
KindOf(t) == IF t = "ifbad" THEN "if" ELSE t
EndOf(k) == "end" \o k
BlockKinds == {"if", "unless", "case", "for", "tablerow", "capture", "block", "macro", "with", "translate"}
Ends == { EndOf(k) : k \in BlockKinds }
Inner == {"elsif", "elsifbad", "else", "when", "plural"}
Plain == {"T", "A", "break", "continue", "O"}        \* text, well-formed inline tag, interrupts, output statement
Bad == {"Abad", "foo", "endfoo", "ifbad", "elsifbad"}     \* malformed expression / unknown tag
Loops == {"for", "tablerow"}

VARIABLES seq, pos, stack, status,
          skipped       \* ghost: a tag was thrown away unparsed by the if/unless tags' own lax recovery
vars == <<seq, pos, stack, status, skipped>>

Seqs == UNION { [1..n -> Alphabet] : n \in 0..MaxLen }
Init == seq \in Seqs /\ pos = 1 /\ stack = <<>> /\ status = "running" /\ skipped = FALSE

Top == stack[Len(stack)]
Push(k, ph) == Append(stack, [k |-> k, ph |-> ph])
Pop == SubSeq(stack, 1, Len(stack) - 1)
SetPhase(ph) == [stack EXCEPT ![Len(stack)].ph = ph]
Fail(why) == status' = why /\ UNCHANGED stack

(* what the innermost open block makes of an inner or end tag *)
InnerOrEnd(t) ==
  IF stack = <<>> THEN Fail("syntax")
  ELSE LET f == Top IN
    CASE f.k \in {"if", "unless"} /\ f.ph = "then" /\ t = "elsif" -> UNCHANGED <<stack, status>>
      [] f.k \in {"if", "unless"} /\ f.ph = "then" /\ t = "else" -> stack' = SetPhase("else") /\ UNCHANGED status
      [] f.k \in {"if", "unless"} /\ t = EndOf(f.k) -> stack' = Pop /\ UNCHANGED status
      \* "Extraneous `else` and `elsif` blocks are ignored" (IfTag.mode is LAX whatever the environment's tolerance):
      \* everything up to the next end tag of this kind is thrown away unparsed
      [] f.k \in {"if", "unless"} /\ f.ph = "else" /\ t \in {"else", "elsif", "elsifbad"} -> stack' = SetPhase("skip") /\ UNCHANGED status
      [] f.k = "for" /\ f.ph = "body" /\ t = "else" -> stack' = SetPhase("else") /\ UNCHANGED status
      [] f.k \in {"for", "tablerow", "capture", "block", "macro", "with", "translate"} /\ t = EndOf(f.k) -> stack' = Pop /\ UNCHANGED status
      [] f.k = "translate" /\ f.ph = "singular" /\ t = "plural" -> stack' = SetPhase("plural") /\ UNCHANGED status
      \* `case` itself parses no block; each when/else arm does, and that is where the nesting limit is checked
      [] f.k = "case" /\ t \in {"when", "else"} -> IF Len(stack) > NestLimit THEN Fail("nesting")
                                                     ELSE stack' = SetPhase("arm") /\ UNCHANGED status
      [] f.k = "case" /\ t = "endcase" -> stack' = Pop /\ UNCHANGED status
      [] OTHER -> Fail("syntax")

Regular(t) ==      \* the token is looked at by the parser loop of the innermost open block
  IF stack # <<>> /\ Top.k = "case" /\ Top.ph = "pre" /\ t \notin {"T", "O", "when", "else", "endcase"}
  THEN Fail("syntax")                       \* only text may separate `case` from its first when/else
  ELSE IF stack # <<>> /\ Top.k = "translate" /\ t \notin {"T", "O", "plural", "endtranslate"}
  THEN Fail("syntax")                       \* a message block holds text and plain variables only
  ELSE CASE t \in {"Abad", "foo", "endfoo", "ifbad", "elsifbad"} -> Fail("syntax")
         [] t \in Plain -> UNCHANGED <<stack, status>>
         [] t \in Openers ->
              IF Len(stack) >= NestLimit /\ t # "case" THEN Fail("nesting")
              ELSE /\ stack' = Push(t, CASE t \in {"if", "unless"} -> "then" [] t = "for" -> "body"
                                           [] t = "case" -> "pre" [] t = "translate" -> "singular" [] OTHER -> "body")
                   /\ UNCHANGED status
         [] OTHER -> InnerOrEnd(t)

Consume ==
  /\ status = "running" /\ pos <= Len(seq)
  /\ LET t == seq[pos] IN
       IF stack # <<>> /\ Top.ph = "skip"
       THEN IF t = EndOf(Top.k)
            THEN stack' = Pop /\ UNCHANGED <<status, skipped>>
            ELSE skipped' = (skipped \/ t # "T") /\ UNCHANGED <<stack, status>>
       ELSE Regular(t) /\ UNCHANGED skipped
  /\ pos' = pos + 1
  /\ UNCHANGED seq

Finish ==
  /\ status = "running" /\ pos = Len(seq) + 1
  /\ status' = IF stack = <<>> THEN "ok" ELSE "syntax"      \* unclosed block at end of input
  /\ UNCHANGED <<seq, pos, stack, skipped>>

Next == Consume \/ Finish
Spec == Init /\ [][Next]_vars /\ WF_vars(Next)

-----------------------------------------------------------------------------
(* C09: parsing terminates; every loop head consumes a token *)
Terminates == <>(status # "running")
Progress == [][pos' > pos \/ status' # "running"]_vars
Depth == Cardinality({i \in 1..Len(stack) : ~(stack[i].k = "case" /\ stack[i].ph = "pre")})
DepthBounded == Depth <= NestLimit

(* ---- reference tag audit (C21) ------------------------------------------------------------ *)
Count(t) == Cardinality({i \in 1..Len(seq) : seq[i] = t})
OpenCount(k) == Count(k) + (IF k = "if" THEN Count("ifbad") ELSE 0)
(* block tags with fewer end tags than openers are always reported as unclosed *)
MustUnclosed == { k \in BlockKinds : OpenCount(k) > Count(EndOf(k)) }
(* unknown tag names are always reported *)
MustUnknown == (IF Count("foo") > 0 THEN {"foo"} ELSE {})
               \cup (IF Count("endfoo") > 0 /\ Count("foo") = 0 THEN {"endfoo"} ELSE {})
(* break / continue outside every for / tablerow: parses, fails when rendered; a report there is a true alarm *)
RECURSIVE StrayInterrupt(_, _)
StrayInterrupt(i, depth) ==
  IF i > Len(seq) THEN FALSE
  ELSE LET t == seq[i] IN
       IF t \in {"break", "continue"} /\ depth = 0 THEN TRUE
       ELSE StrayInterrupt(i + 1, IF t \in Loops THEN depth + 1
                                  ELSE IF t \in {"endfor", "endtablerow"} /\ depth > 0 THEN depth - 1 ELSE depth)

Done == status # "running"
(* a source that parses in strict mode gives the audit nothing to report *)
NoFalseAlarmWhenStrictParses == (Done /\ status = "ok" /\ ~skipped) => (MustUnclosed = {} /\ MustUnknown = {})
UnknownNeverParses == (Done /\ MustUnknown # {} /\ ~skipped) => status # "ok"
UnclosedNeverParses == (Done /\ MustUnclosed # {} /\ ~skipped) => status # "ok"

Emit == Done => PrintT(ToJson([seq |-> seq, strict |-> status, unclosed |-> MustUnclosed, unknown |-> MustUnknown,
                               clean |-> (status = "ok" /\ ~StrayInterrupt(1, 0) /\ ~skipped), skipped |-> skipped, limit |-> NestLimit]))
=============================================================================
