----------------------------- MODULE TaintChars -----------------------------
(* C05 -- the character predicates of the autoescape property.               *)
(*                                                                           *)
(* A text is judged as a sequence of one-character strings.  These are the   *)
(* only definitions of "HTML-special", "escape sequence" and "clean" in the  *)
(* whole check: Taint.tla uses them on the model's texts, TaintTrace.tla on  *)
(* the strings observed in the real engine.                                  *)
EXTENDS Naturals, Sequences

Specials == {"<", ">", "&", "\"", "'"}
Lower == {"a","b","c","d","e","f","g","h","i","j","k","l","m","n","o","p","q","r","s","t","u","v","w","x","y","z"}
Upper == {"A","B","C","D","E","F","G","H","I","J","K","L","M","N","O","P","Q","R","S","T","U","V","W","X","Y","Z"}
Digit == {"0","1","2","3","4","5","6","7","8","9"}
Letter == Lower \cup Upper
AlNum == Letter \cup Digit
Hex == Digit \cup {"a","b","c","d","e","f","A","B","C","D","E","F"}

\* cs[a..b] is the body of an escape sequence:  #[0-9]+  or  #x[0-9a-fA-F]+  or  a letter followed by letters and digits
EscapeBody(cs, a, b) ==
  /\ a <= b
  /\ \/ (cs[a] \in Letter /\ \A k \in a..b : cs[k] \in AlNum)
     \/ (cs[a] = "#" /\ b > a /\ \A k \in (a + 1)..b : cs[k] \in Digit)
     \/ (cs[a] = "#" /\ b > a + 1 /\ cs[a + 1] = "x" /\ \A k \in (a + 2)..b : cs[k] \in Hex)

\* the "&" at position i begins an escape sequence:  "&", such a body, ";"
BeginsEscape(cs, i) ==
  /\ cs[i] = "&"
  /\ \E j \in (i + 2)..Len(cs) : cs[j] = ";" /\ EscapeBody(cs, i + 1, j - 1)

(* the statement's predicate: no raw < > " ' and every & begins an escape sequence *)
Clean(cs) ==
  \A i \in 1..Len(cs) :
     /\ cs[i] \notin {"<", ">", "\"", "'"}
     /\ (cs[i] = "&" => BeginsEscape(cs, i))

(* no HTML-special character at all *)
NoSpecial(cs) == \A i \in 1..Len(cs) : cs[i] \notin Specials
=============================================================================
