----------------------------- MODULE Recursion -----------------------------
(* C09 — rendering terminates: families of templates that include, render,  *)
(* extend or call each other, with the call placed inside `depth` nested    *)
(* blocks.  Every template has at most one outgoing edge, so a render from  *)
(* t1 follows a lasso.  The mechanism (liquid/context.py) bounds recursion: *)
(*   include : each level extends the scope chain twice (arguments + partial*)
(*             namespace); `extend` refuses once scope.size() > limit       *)
(*   render / call / inherited block : `copy` counts levels in _copy_depth  *)
(*             and refuses once it exceeds the limit                        *)
(*   extends : the chain of parents is walked with a `seen` set             *)
(* and every level costs Python stack frames in proportion to the block     *)
(* depth it is called from; if the interpreter's stack runs out first, the  *)
(* render must still end with ContextDepthError (StackExhausted).           *)
EXTENDS Naturals, Sequences, FiniteSets, TLC, Json

CONSTANTS Templates,      \* e.g. {"t1","t2","t3"}
          Depths,         \* block depths at which the edge is placed
          Limit,          \* context_depth_limit
          StackLimit,     \* abstract interpreter stack budget
          FramePerLevel, FramePerBlock

Kinds == {"none", "include", "render", "extends", "extblock", "call"}
(* extblock: `{% extends 'base' %}{% block body %}...{% include target %}...{% endblock %}` *)
Edge == [k : Kinds, to : Templates, d : Depths]
T0 == CHOOSE t \in Templates : TRUE
D0 == CHOOSE x \in Depths : TRUE
WF(e) == /\ (e.k = "none" => (e.to = T0 /\ e.d = D0))     \* one representative for the unused fields
         /\ (e.k = "extends" => e.d = D0)
         /\ (e.k = "call" => e.to = T0)
Graphs == { g \in [Templates -> Edge] : \A t \in Templates : WF(g[t]) }

VARIABLES g, cur, level, scopeSize, copyDepth, disabled, seenExt, stack, status, cut
vars == <<g, cur, level, scopeSize, copyDepth, disabled, seenExt, stack, status, cut>>

Fresh == 4     \* a new RenderContext's scope chain: locals, globals, builtin, counters
(* the top-level render extends the fresh scope once (render_with_context pushes the template namespace) *)
Init == /\ g \in Graphs
        /\ cur = "t1" /\ level = 0 /\ scopeSize = Fresh + 1 /\ copyDepth = 0 /\ disabled = FALSE
        /\ seenExt = {} /\ stack = 0 /\ status = "running" /\ cut = "none"

Cost(e) == FramePerLevel + FramePerBlock * e.d
Stop(s, why) == status' = s /\ cut' = why /\ UNCHANGED <<g, cur, level, scopeSize, copyDepth, disabled, seenExt, stack>>
(* refused by the second push of an include: the partial's render_with_context had already been entered *)
StopInside(s, why) == status' = s /\ cut' = why /\ level' = level + 1 /\ UNCHANGED <<g, cur, scopeSize, copyDepth, disabled, seenExt, stack>>

(* `extend` refuses when the chain is already longer than the limit; an include extends twice       *)
(* (arguments, then the partial's namespace in render_with_context), so it is refused when either   *)
(* of the two pushes would start from a chain longer than the limit.                                *)
IncludeRefused(sz) == sz > Limit
IncludeRefusedInside(sz) == sz + 1 > Limit

Follow ==
  /\ status = "running"
  /\ LET e == g[cur] IN
     CASE e.k = "none" -> Stop("ok", "none")
       [] e.k = "call" -> Stop("ok", "none")          \* a macro is not defined inside its own (copied) context: the inner call renders nothing
       [] e.k = "extends" ->
            IF e.to \in seenExt \cup {cur} THEN Stop("TemplateInheritanceError", "seen")   \* circular extends
            ELSE IF scopeSize > Limit THEN Stop("ContextDepthError", "scope")          \* the parent is rendered through render_with_context: one push
            ELSE /\ seenExt' = seenExt \cup {cur} /\ cur' = e.to /\ scopeSize' = scopeSize + 1
                 /\ UNCHANGED <<g, level, copyDepth, disabled, stack, status, cut>>
       [] e.k = "include" /\ disabled -> Stop("DisabledTagError", "disabled")  \* include inside a rendered partial
       [] stack + Cost(e) > StackLimit -> Stop("ContextDepthError", "stack")          \* StackExhausted: converted, never RecursionError
       [] e.k = "include" ->
            IF IncludeRefused(scopeSize) THEN Stop("ContextDepthError", "scope")
            ELSE IF IncludeRefusedInside(scopeSize) THEN StopInside("ContextDepthError", "scope")
            ELSE /\ scopeSize' = scopeSize + 2 /\ cur' = e.to /\ level' = level + 1 /\ stack' = stack + Cost(e)
                 /\ seenExt' = {}                              \* a partial starts its own inheritance chain
                 /\ UNCHANGED <<g, copyDepth, disabled, status, cut>>
       [] e.k = "render" ->
            IF copyDepth > Limit THEN Stop("ContextDepthError", "copy")
            ELSE /\ copyDepth' = copyDepth + 1 /\ scopeSize' = Fresh + 1 /\ disabled' = TRUE /\ cur' = e.to
                 /\ level' = level + 1 /\ stack' = stack + Cost(e)
                 /\ seenExt' = {}
                 /\ UNCHANGED <<g, status, cut>>
       [] e.k = "extblock" ->
            (* `base` is rendered through render_with_context (one push, not a partial level); its block body runs in a  *)
            (* block-scoped copy, which starts from a FRESH scope chain, and includes the target from there             *)
            IF scopeSize > Limit THEN Stop("ContextDepthError", "scope")
            ELSE IF copyDepth > Limit THEN Stop("ContextDepthError", "copy")
            ELSE IF IncludeRefused(Fresh) THEN Stop("ContextDepthError", "scope")
            ELSE IF IncludeRefusedInside(Fresh) THEN StopInside("ContextDepthError", "scope")
            ELSE /\ copyDepth' = copyDepth + 1 /\ scopeSize' = Fresh + 2 /\ cur' = e.to
                 /\ level' = level + 1 /\ stack' = stack + Cost(e)
                 /\ seenExt' = {}
                 /\ disabled' = FALSE          \* the block-scoped copy starts with no disabled tags (as the code has it)
                 /\ UNCHANGED <<g, status, cut>>

Next == Follow
Spec == Init /\ [][Next]_vars /\ WF_vars(Next)

-----------------------------------------------------------------------------
Terminates == <>(status # "running")
CutOff == status \in {"running", "ok", "ContextDepthError", "TemplateInheritanceError", "DisabledTagError"}
(* two independent counters bound the recursion: the scope chain of one context and the copy depth.  A copy starts a  *)
(* fresh scope chain, so between two copies at most Limit \div 2 + 1 includes fit: a cycle of k templates with one     *)
(* copying edge reaches about k * (Limit + 1) levels (2 * Limit + 4 holds for k <= 2 only)                             *)
LevelsBounded == level <= (copyDepth + 1) * (Limit \div 2 + 2) /\ copyDepth <= Limit + 1 /\ scopeSize <= Limit + 2
(* every level strictly consumes budget: the variant that makes the recursion finite *)
Progress == [][status' # "running" \/ level' > level
                 \/ (level' = level /\ Cardinality(seenExt') > Cardinality(seenExt))]_vars
Emit == status # "running" => PrintT(ToJson([g |-> g, status |-> status, level |-> level, cut |-> cut]))
=============================================================================
