----------------------------- MODULE LimitSweep -----------------------------
(* C08 — resource limits only abort a render, never alter its output.        *)
(* Observer machine over ONE template+data rendered under a sweep of values   *)
(* of one limit (loop iterations, output bytes, local namespace size, context *)
(* depth, block nesting).  The monitor reads the sweep value by value (one    *)
(* action per value, in increasing order), remembering the first success.    *)
(*   EachIsUnlimitedOrResourceError   every outcome is the unlimited result   *)
(*                                    or a ResourceLimitError                 *)
(*   Monotone                         after a success every larger value      *)
(*                                    succeeds with the same output           *)
(* Observations are recorded from the real engine; one initial state per      *)
(* observation (batched).                                                     *)
EXTENDS Naturals, Sequences, FiniteSets, TLC, Json, IOUtils

Obs == IF "TRACE_FILE" \in DOMAIN IOEnv THEN JsonDeserialize(IOEnv.TRACE_FILE) ELSE <<>>
(* observation: [kind, unl : [st, out], sweep : Seq([v, st, out, res])]   st = "ok" or an error class; res = error derives from ResourceLimitError *)

VARIABLES tid, i, firstOk, verdict
vars == <<tid, i, firstOk, verdict>>

Init == tid \in 1..Len(Obs) /\ i = 1 /\ firstOk = 0 /\ verdict = "running"

Same(a, b) == a.st = b.st /\ (a.st = "ok" => a.out = b.out)

Read ==
  /\ verdict = "running" /\ i <= Len(Obs[tid].sweep)
  /\ LET o == Obs[tid]
         e == o.sweep[i]
     IN /\ verdict' = IF ~(Same(e, o.unl) \/ (e.st # "ok" /\ e.res)) THEN "EachIsUnlimitedOrResourceError"
                      ELSE IF firstOk # 0 /\ ~(e.st = "ok" /\ e.out = o.sweep[firstOk].out) THEN "Monotone"
                      ELSE IF i > 1 /\ ~(o.sweep[i - 1].v < e.v) THEN "SweepNotIncreasing"
                      ELSE "running"
        /\ firstOk' = IF firstOk = 0 /\ e.st = "ok" THEN i ELSE firstOk
  /\ i' = i + 1 /\ UNCHANGED tid

Finish == /\ verdict = "running" /\ i = Len(Obs[tid].sweep) + 1
          /\ verdict' = "accepted" /\ UNCHANGED <<tid, i, firstOk>>

Next == Read \/ Finish
Spec == Init /\ [][Next]_vars

Judge == /\ (verdict = "accepted" => PrintT(<<"ACCEPT", tid>>))
         /\ (verdict \notin {"running", "accepted"} => PrintT(<<"REJECT", tid, verdict, i - 1>>))
=============================================================================
