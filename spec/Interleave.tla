----------------------------- MODULE Interleave ------------------------------
(* Beyond the listed properties (C17 read over SCHEDULES instead of          *)
(* histories) — concurrent renders of ONE shared template are isolated.      *)
(*                                                                           *)
(* NTasks renders of the same BoundTemplate (same Environment, same loader)  *)
(* run concurrently: asyncio tasks, or threads.  A render gives up control   *)
(* only at its AWAIT POINTS: the start of the render, an asynchronous drop   *)
(* lookup `{{ g.me }}` ("Y") and an asynchronous template load ("W").        *)
(* Between two await points a task runs atomically (asyncio) — so a schedule *)
(* is the sequence of task ids in which the await points are passed, and the *)
(* action Run(t) is "task t passes the gate it is waiting at and executes    *)
(* up to its next gate".  TLC enumerates EVERY schedule of every program of  *)
(* the family.                                                               *)
(*                                                                           *)
(* Everything a render remembers while it runs (counters, cycle positions,   *)
(* the ifchanged memo, its namespace, loop state, buffers, macros) belongs   *)
(* to that render: `Isolated` says a task's output is what it prints when    *)
(* it runs alone, under every schedule.  The constant Shared names the       *)
(* deviations "this piece of state lives on the shared template / the        *)
(* environment instead of the render context"; TLC refutes Isolated for each *)
(* of them (run by the check as a sensitivity demonstration).                *)
EXTENDS Integers, Sequences, FiniteSets, TLC, Json

CONSTANTS NTasks, MaxSteps, Kinds, Shared       \* Shared \in {"none", "counter", "cycle", "ifchanged", "namespace"}

Tasks == 1..NTasks
AllKinds == {"y", "inc", "cyc", "ifc", "asg", "cap", "for", "incl", "ren", "mac"}
ASSUME Kinds \subseteq AllKinds

(* a step of the template as micro-operations; "S" "Y" "W" are gates (await points) *)
Micro(k) == CASE k = "y"    -> <<"Y">>                      \* {{ g.me }}
              [] k = "inc"  -> <<"I">>                      \* {% increment c %}
              [] k = "cyc"  -> <<"C">>                      \* {% cycle 'a', 'b', 'c' %}
              [] k = "ifc"  -> <<"F">>                      \* {% ifchanged %}{{ me }}{% endifchanged %}
              [] k = "asg"  -> <<"A">>                      \* {% assign v = v | plus: 1 %}{{ v }}
              [] k = "cap"  -> <<"Y">>                      \* {% capture x %}{{ g.me }}{% endcapture %}{{ x }} : the await is inside a sub-buffer
              [] k = "for"  -> <<"Y", "L1", "Y", "L2">>     \* {% for i in (1..2) %}{{ g.me }}{{ forloop.index }}{% endfor %}
              [] k = "incl" -> <<"W", "Y", "I">>            \* {% include 'p' %}   p = {{ g.me }}{% increment c %}   (shares the caller's state)
              [] k = "ren"  -> <<"W", "Y", "R">>            \* {% render 'q', g: g %}   q = {{ g.me }}{% increment c %}{% cycle 'a', 'b', 'c' %}   (fresh state)
              [] OTHER      -> <<"Y", "M">>                 \* {% call m 'm' %}   m prints {{ g.me }} and its argument
IsGate(op) == op \in {"S", "Y", "W"}

RECURSIVE Flat(_)
Flat(p) == IF p = <<>> THEN <<>> ELSE Micro(Head(p)) \o Flat(Tail(p))
Ops(p) == <<"S">> \o Flat(p)                                \* the render itself starts behind a gate

CycleItems == <<"a", "b", "c">>
Me(t) == "t" \o ToString(t)

VARIABLES prog, ts, sh, sched
vars == <<prog, ts, sh, sched>>

Fresh == [pos |-> 1, cnt |-> 0, cyc |-> 0, last |-> "", acc |-> 0, out |-> <<>>, sz |-> 0, pk |-> 0]
FreshShared == [cnt |-> 0, cyc |-> 0, last |-> "", acc |-> 0]

(* bytes: a task identity is two characters, every other atom one.  sz is what the render's output buffer holds, pk the *)
(* high-water mark of what was ever charged to the render's output budget (an ifchanged block renders into a sub-buffer  *)
(* first, so its text is charged even when it is then dropped)                                                           *)
W(a) == IF \E u \in Tasks : a = Me(u) THEN 2 ELSE 1
Hi(a, b) == IF a >= b THEN a ELSE b
Put(s, a) == [s EXCEPT !.out = Append(@, a), !.sz = @ + W(a), !.pk = Hi(@, s.sz + W(a))]
Charge(s, a) == [s EXCEPT !.pk = Hi(@, s.sz + W(a))]
(* one micro-operation of task t on its own state s and the (deviation-only) shared state h : [s, h] *)
Apply(op, s, h, t) ==
  CASE op = "Y" -> [s |-> Put(s, Me(t)), h |-> h]
    [] op = "I" -> IF Shared = "counter"
                   THEN [s |-> Put(s, ToString(h.cnt)), h |-> [h EXCEPT !.cnt = @ + 1]]
                   ELSE [s |-> [Put(s, ToString(s.cnt)) EXCEPT !.cnt = @ + 1], h |-> h]
    [] op = "C" -> IF Shared = "cycle"
                   THEN [s |-> Put(s, CycleItems[h.cyc + 1]), h |-> [h EXCEPT !.cyc = (@ + 1) % 3]]
                   ELSE [s |-> [Put(s, CycleItems[s.cyc + 1]) EXCEPT !.cyc = (@ + 1) % 3], h |-> h]
    [] op = "F" -> IF Shared = "ifchanged"
                   THEN [s |-> IF h.last = Me(t) THEN Charge(s, Me(t)) ELSE Put(s, Me(t)), h |-> [h EXCEPT !.last = Me(t)]]
                   ELSE [s |-> [(IF s.last = Me(t) THEN Charge(s, Me(t)) ELSE Put(s, Me(t))) EXCEPT !.last = Me(t)], h |-> h]
    [] op = "A" -> IF Shared = "namespace"
                   THEN [s |-> Put(s, ToString(h.acc + 1)), h |-> [h EXCEPT !.acc = @ + 1]]
                   ELSE [s |-> [Put(s, ToString(s.acc + 1)) EXCEPT !.acc = @ + 1], h |-> h]
    [] op = "L1" -> [s |-> Put(s, "1"), h |-> h]
    [] op = "L2" -> [s |-> Put(s, "2"), h |-> h]
    [] op = "R" -> [s |-> Put(Put(s, "0"), "a"), h |-> h]          \* a rendered partial: fresh counter, fresh cycle
    [] op = "M" -> [s |-> Put(s, "m"), h |-> h]
    [] OTHER -> [s |-> s, h |-> h]                                                 \* "S", "W": nothing is printed

(* run task t from position i: the gate at i is passed (first), then on to the next gate or the end *)
RECURSIVE Go(_, _, _, _, _)
Go(ops, x, i, first, t) ==
  IF i > Len(ops) \/ (IsGate(ops[i]) /\ ~first) THEN [s |-> [x.s EXCEPT !.pos = i], h |-> x.h]
  ELSE Go(ops, Apply(ops[i], x.s, x.h, t), i + 1, FALSE, t)

Progs == UNION { [1..n -> Kinds] : n \in 1..MaxSteps }
Init == /\ prog \in Progs
        /\ ts = [t \in Tasks |-> Fresh]
        /\ sh = FreshShared
        /\ sched = <<>>

Finished(t) == ts[t].pos > Len(Ops(prog))
Run(t) == /\ ~Finished(t)
          /\ LET r == Go(Ops(prog), [s |-> ts[t], h |-> sh], ts[t].pos, TRUE, t)
             IN ts' = [ts EXCEPT ![t] = r.s] /\ sh' = r.h
          /\ sched' = Append(sched, t)
          /\ UNCHANGED prog
Next == \E t \in Tasks : Run(t)
Spec == Init /\ [][Next]_vars

Done == \A t \in Tasks : Finished(t)

(* what task t prints when it is the only render: all its operations in one go, on fresh state *)
RECURSIVE SoloFrom(_, _, _, _)
SoloFrom(ops, x, i, t) == IF i > Len(ops) THEN x.s.out ELSE SoloFrom(ops, Apply(ops[i], x.s, x.h, t), i + 1, t)
Solo(t) == SoloFrom(Ops(prog), [s |-> Fresh, h |-> FreshShared], 1, t)

Isolated == \A t \in Tasks : Finished(t) => ts[t].out = Solo(t)
(* a running task only ever extends what it has printed, and never prints another task's identity *)
OwnIdentityOnly == \A t \in Tasks : \A j \in 1..Len(ts[t].out) : \A u \in Tasks \ {t} : ts[t].out[j] # Me(u)
PrefixOfSolo == \A t \in Tasks : Len(ts[t].out) <= Len(Solo(t)) /\ (Shared = "none" => ts[t].out = SubSeq(Solo(t), 1, Len(ts[t].out)))

(* what the per-render limits have to allow for one task: loop iterations counted, gates passed *)
Count(p, k) == Cardinality({ i \in DOMAIN p : p[i] = k })
Iters == 2 * Count(prog, "for")
Gates == Cardinality({ i \in DOMAIN Ops(prog) : IsGate(Ops(prog)[i]) })

Emit == Done => PrintT(ToJson([prog |-> prog, sched |-> sched, out |-> [t \in Tasks |-> ts[t].out], peak |-> [t \in Tasks |-> ts[t].pk], iters |-> Iters, gates |-> Gates]))
=============================================================================
