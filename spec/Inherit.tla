------------------------------- MODULE Inherit -------------------------------
(* C18 — template inheritance (`extends` / `block` / `block.super`).            *)
(*                                                                             *)
(* Two descriptions of the same thing, related by invariants:                  *)
(*                                                                             *)
(* REQUIREMENT (operators Req*, a function of the chain alone).  The output of *)
(*   a chain  t1 extends t2 extends .. tn  is the root tn with every block     *)
(*   replaced by its most-derived definition (the definition in the template   *)
(*   closest to the leaf t1 that defines a block of that name, wherever in     *)
(*   that template it is written); inside a definition `block.super` renders   *)
(*   the next definition of the same name further up the chain; blocks met     *)
(*   while rendering a definition (or a super definition) are resolved again   *)
(*   in the same way; nothing a child writes outside blocks is rendered.       *)
(*   A required most-derived definition raises RequiredBlockError when it is   *)
(*   reached; circular extends, two blocks of one name in one template and an  *)
(*   endblock naming another block are TemplateInheritanceErrors.              *)
(*                                                                             *)
(* MECHANISM (actions, one per step of liquid/extra/tags/extends_tag.py).      *)
(*   _build_block_stacks walks the chain from the leaf: StackTemplate pushes   *)
(*   every block of the template on the stack of its name, links the previous  *)
(*   item's `parent` to the new item, copies `required`; FollowExtends checks  *)
(*   the `seen` set and loads the parent (parse => endblock names checked);    *)
(*   then the base template is rendered: RenderBlock takes stack[0], Super     *)
(*   the BlockDrop's parent item, a template without `extends` is rendered     *)
(*   directly with empty stacks.                                               *)
(*                                                                             *)
(* The family of chains is built token by token by the Build actions (so that  *)
(* `tlc -simulate` can also draw long random chains); a template is the flat   *)
(* token sequence of its source after the extends tag:                         *)
(*   T text marker | V variable output | S {{ block.super }} | Bo(name,req)    *)
(*   .. Bc(endname) block | Fo .. Fc  for-loop over two items | Io .. Ic  a    *)
(*   transparent wrapper rendered once (if/unless/case/with/...).              *)
(* Every template and every block body starts with a text marker (so a child   *)
(* always has text after its extends tag and every definition shows in the     *)
(* output); the family is bounded by budgets for the whole chain (blocks,      *)
(* extras, required flags, anomalies and their sum) rather than per template,  *)
(* so that small chains carry every combination and long chains stay few.      *)
(* Ghosts: chk (facts of the finished chain, computed once), sel (last block / *)
(* super selection), nstacked, acts (names of the actions taken; emitted).     *)
EXTENDS Naturals, Sequences, FiniteSets, TLC, Json

CONSTANTS MaxChain,      \* chain length 1..MaxChain
          NNames,        \* block names NameSeq[1..NNames]
          MaxDepth,      \* block-in-block nesting depth
          MaxItems,      \* items per body (not counting the text every body starts with)
          BlockBudget,   \* block definitions in the whole chain
          MinBlocks,     \* (simulation) chains must use at least that many
          ExtraBudget,   \* extra texts / variables / loops / wrappers in the whole chain
          ReqBudget,     \* `required` flags in the whole chain
          ErrBudget,     \* anomalies in the whole chain: duplicate name, mismatched endblock, cycle
          FeatBudget,    \* extras + required flags + anomalies together
          SizeBudget,    \* block definitions + extras + required flags + anomalies together
          Extras,        \* subset of {"T","V","F","I"}
          Deviations,    \* named deviations of the mechanism (empty = the mechanism as it should be)
          RunMechanism   \* FALSE: build only (used for emitting the family with its expected results)

NameSeq == <<"a", "b", "c">>
Names == {NameSeq[i] : i \in 1..NNames}

Tok(k, n, r) == [k |-> k, n |-> n, r |-> r]
Tx == Tok("T", "", FALSE)
Vr == Tok("V", "", FALSE)
Su == Tok("S", "", FALSE)
IsOpen(x) == x.k \in {"Bo", "Fo", "Io"}
IsClose(x) == x.k \in {"Bc", "Fc", "Ic"}

VARIABLES tpls,     \* the chain: tpls[1] is the leaf, tpls[i] extends tpls[i+1]
          ext,      \* what the last template extends: 0 nothing (it is the root), j: template j (a cycle)
          open,     \* Build: stack of open constructs of the template being written
          bud,      \* Build: remaining budgets
          phase,    \* "build" "load" "stack" "follow" "render" "done"
          cur,      \* mechanism: template being stacked
          seen,     \* mechanism: names of parents already followed
          stacks,   \* mechanism: block name -> sequence of item ids, index 1 = leaf-most ("stack[0]")
          items,    \* mechanism: _BlockStackItem objects (t, pos, required, parent link)
          work,     \* mechanism: the interpreter's call stack while rendering
          out,      \* mechanism: markers written so far
          result,   \* "" running | "ok" | "TIE" | "REQ" | "DEPTH" | "skip"
          sel,      \* the most recent block / super selection (for the selection invariants)
          nstacked, \* ghost: number of StackTemplate steps
          chk,      \* facts about the finished chain, computed once by Finish: [clean, bound]
          acts      \* ghost: names of the actions taken so far (emitted, so that vacuity is visible per chain)
vars == <<tpls, ext, open, bud, phase, cur, seen, stacks, items, work, out, result, sel, nstacked, chk, acts>>
mech == <<cur, seen, stacks, items, work, out, sel, nstacked>>

-----------------------------------------------------------------------------
(* Structure of a (complete) token sequence                                  *)
RECURSIVE MatchFrom(_, _, _)
MatchFrom(t, j, d) ==
  IF IsOpen(t[j]) THEN MatchFrom(t, j + 1, d + 1)
  ELSE IF IsClose(t[j]) THEN (IF d = 1 THEN j ELSE MatchFrom(t, j + 1, d - 1))
  ELSE MatchFrom(t, j + 1, d)
Match(t, i) == MatchFrom(t, i + 1, 1)                 \* index of the token closing the opener at i

BlockPos(t) == {i \in 1..Len(t) : t[i].k = "Bo"}
DefPos(t, n) == {i \in BlockPos(t) : t[i].n = n}
HasDup(t) == \E n \in Names : Cardinality(DefPos(t, n)) > 1
HasMismatch(t) == \E i \in BlockPos(t) : t[Match(t, i)].n \notin {"", t[i].n}
InsideBlock(t, p) == \E i \in BlockPos(t) : i < p /\ p < Match(t, i)
SetMin(S) == CHOOSE x \in S : \A y \in S : x <= y

-----------------------------------------------------------------------------
(* REQUIREMENT                                                               *)
Cyclic == ext # 0
Structural == Cyclic \/ (\E i \in 1..Len(tpls) : HasDup(tpls[i]) \/ HasMismatch(tpls[i]))
Clean == chk.clean              \* = ~Structural, once the chain is finished
Root == Len(tpls)

Definers(n) == {i \in 1..Len(tpls) : DefPos(tpls[i], n) # {}}
MostDerivedTpl(n) == SetMin(Definers(n))
NextUpTpl(n, i) == LET S == {j \in Definers(n) : j > i} IN IF S = {} THEN 0 ELSE SetMin(S)
DefOf(n, i) == CHOOSE p \in DefPos(tpls[i], n) : TRUE

REQ == 1       \* pseudo markers in a required sequence (real markers are >= 100)
DIV == 2
Marker(t, p) == t * 100 + p
NoBlock == [n |-> "", t |-> 0]

(* what rendering tokens lo..hi of template t produces; blk = the definition whose body this is    *)
(* (for block.super); active = definitions on the call stack (a second visit never terminates)    *)
RECURSIVE ReqRender(_, _, _, _, _)
ReqDef(n, i, active) ==
  LET p == DefOf(n, i)
      d == <<i, p>>
  IN IF d \in active THEN <<DIV>>
     ELSE ReqRender(i, p + 1, Match(tpls[i], p) - 1, [n |-> n, t |-> i], active \cup {d})
ReqRender(t, lo, hi, blk, active) ==
  IF lo > hi THEN <<>>
  ELSE LET tok == tpls[t][lo] IN
    CASE tok.k \in {"T", "V"} -> <<Marker(t, lo)>> \o ReqRender(t, lo + 1, hi, blk, active)
      [] tok.k = "S" ->
           (LET nt == NextUpTpl(blk.n, blk.t)
            IN IF nt = 0 THEN <<>>                    \* no definition above: `block.super` is undefined, prints nothing
               ELSE ReqDef(blk.n, nt, active))
           \o ReqRender(t, lo + 1, hi, blk, active)
      [] tok.k = "Bo" ->
           (LET mt == MostDerivedTpl(tok.n)
            IN IF tpls[mt][DefOf(tok.n, mt)].r THEN <<REQ>> ELSE ReqDef(tok.n, mt, active))
           \o ReqRender(t, Match(tpls[t], lo) + 1, hi, blk, active)
      [] tok.k = "Fo" ->
           LET m == Match(tpls[t], lo)
               body == ReqRender(t, lo + 1, m - 1, blk, active)
           IN body \o body \o ReqRender(t, m + 1, hi, blk, active)
      [] tok.k = "Io" ->
           LET m == Match(tpls[t], lo)
           IN ReqRender(t, lo + 1, m - 1, blk, active) \o ReqRender(t, m + 1, hi, blk, active)
      [] OTHER -> <<>>

ReqSeq == ReqRender(Root, 1, Len(tpls[Root]), NoBlock, {})
InSeq(x, s) == \E i \in 1..Len(s) : s[i] = x
AnyRequired == \E i \in 1..Len(tpls) : \E p \in BlockPos(tpls[i]) : tpls[i][p].r
(* a most-derived definition that is required but never reached: the statement can be read either way *)
UnreachedRequired(s) == ~InSeq(REQ, s) /\ \E n \in Names : Definers(n) # {} /\ tpls[MostDerivedTpl(n)][DefOf(n, MostDerivedTpl(n))].r

Expected ==
  IF Structural
  THEN [kind |-> "err", seq |-> <<>>,
        classes |-> {"TemplateInheritanceError"} \cup (IF AnyRequired THEN {"RequiredBlockError"} ELSE {})]
  ELSE LET s == ReqSeq IN
       IF InSeq(DIV, s) THEN [kind |-> "open", seq |-> <<>>, classes |-> {}]          \* ill-founded chain: unclaimed
       ELSE IF InSeq(REQ, s) THEN [kind |-> "err", seq |-> <<>>, classes |-> {"RequiredBlockError"}]
       ELSE [kind |-> "out", seq |-> s,
             classes |-> IF UnreachedRequired(s) THEN {"RequiredBlockError"} ELSE {}]

-----------------------------------------------------------------------------
(* BUILD: the family of chains                                                *)
Did(a) == acts' = acts \cup {a}
TopFrame == [k |-> "top", n |-> "", items |-> 0, sup |-> FALSE]
C == Len(tpls)
TopOpen == open[Len(open)]
BDepth == Cardinality({i \in 1..Len(open) : open[i].k = "B"})
InWrap == \E i \in 1..Len(open) : open[i].k \in {"F", "I"}
Put(toks) == [tpls EXCEPT ![C] = @ \o toks]
Bump == [open EXCEPT ![Len(open)].items = @ + 1]
UsedNames == UNION {{tpls[i][p].n : p \in BlockPos(tpls[i])} : i \in 1..Len(tpls)}
(* names are introduced in the order a, b, c (the engine treats names symmetrically) *)
AllowedNames == {NameSeq[i] : i \in {k \in 1..NNames : \A j \in 1..(k - 1) : NameSeq[j] \in UsedNames}}
DefinedHere(n) == DefPos(tpls[C], n) # {}
LastKind == tpls[C][Len(tpls[C])].k
BlocksUsed == BlockBudget - bud.blocks
Room(cost) == BlocksUsed + (FeatBudget - bud.feat) + cost <= SizeBudget

OpenerCount == Cardinality(UNION {{<<i, p>> : p \in {q \in 1..Len(tpls[i]) : IsOpen(tpls[i][q])}} : i \in 1..Len(tpls)})

Init == /\ tpls = << <<Tx>> >> /\ ext = 0 /\ open = <<TopFrame>>
        /\ bud = [blocks |-> BlockBudget, extras |-> ExtraBudget, req |-> ReqBudget, err |-> ErrBudget, feat |-> FeatBudget]
        /\ phase = "build" /\ cur = 0 /\ seen = {} /\ stacks = [n \in Names |-> <<>>] /\ items = <<>>
        /\ work = <<>> /\ out = <<>> /\ result = ""
        /\ sel = [kind |-> "none", n |-> "", t |-> 0, pos |-> 0, from |-> 0, inside |-> FALSE]
        /\ nstacked = 0 /\ chk = [clean |-> FALSE, bound |-> 0] /\ acts = {}

AddBlock(n, r) ==
  /\ Did("AddBlock")
  /\ phase = "build" /\ BDepth < MaxDepth /\ TopOpen.items < MaxItems /\ bud.blocks > 0
  /\ n \in AllowedNames /\ (r => bud.req > 0) /\ (DefinedHere(n) => bud.err > 0)
  /\ bud.feat >= (IF r THEN 1 ELSE 0) + (IF DefinedHere(n) THEN 1 ELSE 0)
  /\ Room(1 + (IF r THEN 1 ELSE 0) + (IF DefinedHere(n) THEN 1 ELSE 0))
  /\ tpls' = Put(<<Tok("Bo", n, r), Tx>>)
  /\ open' = Append(Bump, [k |-> "B", n |-> n, items |-> 0, sup |-> FALSE])
  /\ bud' = [bud EXCEPT !.blocks = @ - 1, !.req = IF r THEN @ - 1 ELSE @, !.err = IF DefinedHere(n) THEN @ - 1 ELSE @,
                      !.feat = @ - ((IF r THEN 1 ELSE 0) + (IF DefinedHere(n) THEN 1 ELSE 0))]
  /\ UNCHANGED <<ext, phase, result, chk>> /\ UNCHANGED mech

AddSuper ==
  /\ Did("AddSuper")
  /\ phase = "build" /\ BDepth > 0 /\ ~TopOpen.sup /\ TopOpen.items < MaxItems
  /\ tpls' = Put(<<Su>>)
  /\ open' = [open EXCEPT ![Len(open)].items = @ + 1, ![Len(open)].sup = TRUE]
  /\ UNCHANGED <<ext, bud, phase, result, chk>> /\ UNCHANGED mech

AddExtra(k) ==
  /\ Did("AddExtra")
  /\ phase = "build" /\ k \in Extras \cap {"T", "V"} /\ TopOpen.items < MaxItems /\ bud.extras > 0 /\ bud.feat > 0 /\ Room(1)
  /\ (k = "T" => LastKind # "T")
  /\ tpls' = Put(<<IF k = "T" THEN Tx ELSE Vr>>)
  /\ open' = Bump
  /\ bud' = [bud EXCEPT !.extras = @ - 1, !.feat = @ - 1]
  /\ UNCHANGED <<ext, phase, result, chk>> /\ UNCHANGED mech

OpenWrap(k) ==
  /\ Did("OpenWrap")
  /\ phase = "build" /\ k \in Extras \cap {"F", "I"} /\ ~InWrap /\ TopOpen.items < MaxItems /\ bud.extras > 0 /\ bud.feat > 0 /\ Room(1)
  /\ tpls' = Put(<<Tok(IF k = "F" THEN "Fo" ELSE "Io", "", FALSE)>>)
  /\ open' = Append(Bump, [k |-> k, n |-> "", items |-> 0, sup |-> FALSE])
  /\ bud' = [bud EXCEPT !.extras = @ - 1, !.feat = @ - 1]
  /\ UNCHANGED <<ext, phase, result, chk>> /\ UNCHANGED mech

(* endblock carries the block's name or nothing (both forms are legal): alternate by position *)
Close ==
  /\ Did("Close")
  /\ phase = "build" /\ Len(open) > 1 /\ (TopOpen.k \in {"F", "I"} => TopOpen.items > 0)
  /\ tpls' = Put(<<CASE TopOpen.k = "B" -> Tok("Bc", IF Len(tpls[C]) % 2 = 0 THEN "" ELSE TopOpen.n, FALSE)
                     [] TopOpen.k = "F" -> Tok("Fc", "", FALSE)
                     [] OTHER -> Tok("Ic", "", FALSE)>>)
  /\ open' = SubSeq(open, 1, Len(open) - 1)
  /\ UNCHANGED <<ext, bud, phase, result, chk>> /\ UNCHANGED mech

CloseMismatch ==
  /\ Did("CloseMismatch")
  /\ phase = "build" /\ Len(open) > 1 /\ TopOpen.k = "B" /\ bud.err > 0 /\ bud.feat > 0 /\ Room(1) /\ NNames > 1
  /\ tpls' = Put(<<Tok("Bc", CHOOSE x \in Names : x # TopOpen.n, FALSE)>>)
  /\ open' = SubSeq(open, 1, Len(open) - 1)
  /\ bud' = [bud EXCEPT !.err = @ - 1, !.feat = @ - 1]
  /\ UNCHANGED <<ext, phase, result, chk>> /\ UNCHANGED mech

NextTemplate ==
  /\ Did("NextTemplate")
  /\ phase = "build" /\ Len(open) = 1 /\ C < MaxChain
  /\ tpls' = Append(tpls, <<Tx>>)
  /\ open' = <<TopFrame>>
  /\ UNCHANGED <<ext, bud, phase, result, chk>> /\ UNCHANGED mech

Finish(j) ==
  /\ Did("Finish")
  /\ phase = "build" /\ Len(open) = 1 /\ BlocksUsed >= MinBlocks
  /\ j \in 0..C /\ (j # 0 => bud.err > 0 /\ bud.feat > 0 /\ Room(1))
  /\ ext' = j
  /\ chk' = [clean |-> (j = 0 /\ \A i \in 1..C : ~HasDup(tpls[i]) /\ ~HasMismatch(tpls[i])), bound |-> OpenerCount + 2]
  /\ phase' = IF RunMechanism THEN "load" ELSE "done"
  /\ result' = IF RunMechanism THEN "" ELSE "skip"
  /\ UNCHANGED <<tpls, open, bud>> /\ UNCHANGED mech

Build == \/ \E n \in Names, r \in BOOLEAN : AddBlock(n, r)
         \/ AddSuper
         \/ \E k \in Extras : AddExtra(k) \/ OpenWrap(k)
         \/ Close \/ CloseMismatch \/ NextTemplate
         \/ \E j \in 0..MaxChain : Finish(j)

-----------------------------------------------------------------------------
(* MECHANISM                                                                  *)
HasExtends(i) == i < Len(tpls) \/ ext # 0
Parent(i) == IF i < Len(tpls) THEN i + 1 ELSE ext
BodyFrame(t, p, sup) == [t |-> t, pc |-> p + 1, hi |-> Match(tpls[t], p) - 1, lo |-> p + 1, reps |-> 1,
                         sup |-> sup, d |-> [n |-> tpls[t][p].n, t |-> t]]
BaseFrame(t) == [t |-> t, pc |-> 1, hi |-> Len(tpls[t]), lo |-> 1, reps |-> 1, sup |-> 0, d |-> NoBlock]
Fail(cls) == /\ result' = cls /\ phase' = "done"
(* deeper than any well-founded render can get: stands for context_depth_limit *)
DepthBound == chk.bound

(* env.get_template(leaf): parsing checks endblock names *)
EndblockMismatchLeaf ==
  /\ Did("EndblockMismatchLeaf")
  /\ phase = "load" /\ HasMismatch(tpls[1])
  /\ Fail("TIE") /\ UNCHANGED <<tpls, ext, open, bud, chk>> /\ UNCHANGED mech
(* a leaf with an extends tag starts _build_block_stacks; a template without is rendered directly *)
LoadLeaf ==
  /\ Did("LoadLeaf")
  /\ phase = "load" /\ ~HasMismatch(tpls[1])
  /\ cur' = 1
  /\ IF HasExtends(1) THEN phase' = "stack" /\ work' = work
                      ELSE phase' = "render" /\ work' = <<BaseFrame(1)>>
  /\ UNCHANGED <<tpls, ext, open, bud, seen, stacks, items, out, result, sel, nstacked, chk>>

(* _stack_blocks: duplicate names in one template *)
Duplicate ==
  /\ Did("Duplicate")
  /\ phase = "stack" /\ HasDup(tpls[cur])
  /\ Fail("TIE") /\ UNCHANGED <<tpls, ext, open, bud, chk>> /\ UNCHANGED mech

(* _store_blocks: every block (document order) goes on its name's stack; the previous item's parent is the new one *)
RECURSIVE Store(_, _, _, _)
Store(ti, ps, st, its) ==
  IF ps = <<>> THEN [st |-> st, its |-> its]
  ELSE LET p == Head(ps)
           tok == tpls[ti][p]
           id == Len(its) + 1
           stack == st[tok.n]
           req == IF Len(stack) > 0 /\ ~tok.r THEN FALSE ELSE tok.r
           its1 == Append(its, [t |-> ti, pos |-> p, required |-> req, parent |-> 0])
           its2 == IF Len(stack) > 0 THEN [its1 EXCEPT ![stack[Len(stack)]].parent = id] ELSE its1
       IN Store(ti, Tail(ps), [st EXCEPT ![tok.n] = Append(stack, id)], its2)
PosSeq(t) == SelectSeq([i \in 1..Len(t) |-> i], LAMBDA i : t[i].k = "Bo")
StackTemplate ==
  /\ Did("StackTemplate")
  /\ phase = "stack" /\ ~HasDup(tpls[cur])
  /\ LET r == Store(cur, PosSeq(tpls[cur]), stacks, items)
     IN stacks' = r.st /\ items' = r.its
  /\ nstacked' = nstacked + 1
  /\ phase' = "follow"
  /\ UNCHANGED <<tpls, ext, open, bud, cur, seen, work, out, result, sel, chk>>

(* no extends tag: this is the base template; render it *)
ReachBase ==
  /\ Did("ReachBase")
  /\ phase = "follow" /\ ~HasExtends(cur)
  /\ phase' = "render" /\ work' = <<BaseFrame(cur)>>
  /\ UNCHANGED <<tpls, ext, open, bud, cur, seen, stacks, items, out, result, sel, nstacked, chk>>
Circular ==
  /\ Did("Circular")
  /\ phase = "follow" /\ HasExtends(cur) /\ Parent(cur) \in seen
  /\ Fail("TIE") /\ UNCHANGED <<tpls, ext, open, bud, chk>> /\ UNCHANGED mech
EndblockMismatch ==
  /\ Did("EndblockMismatch")
  /\ phase = "follow" /\ HasExtends(cur) /\ Parent(cur) \notin seen /\ HasMismatch(tpls[Parent(cur)])
  /\ Fail("TIE") /\ UNCHANGED <<tpls, ext, open, bud, chk>> /\ UNCHANGED mech
FollowExtends ==
  /\ Did("FollowExtends")
  /\ phase = "follow" /\ HasExtends(cur) /\ Parent(cur) \notin seen /\ ~HasMismatch(tpls[Parent(cur)])
  /\ seen' = seen \cup {Parent(cur)}
  /\ cur' = Parent(cur)
  /\ phase' = "stack"
  /\ UNCHANGED <<tpls, ext, open, bud, stacks, items, work, out, result, sel, nstacked, chk>>

(* rendering: the top frame executes its next token *)
F == work[Len(work)]
AtTok == phase = "render" /\ work # <<>> /\ Len(work) <= DepthBound /\ F.pc <= F.hi
CurTok == tpls[F.t][F.pc]
Step(n) == [work EXCEPT ![Len(work)].pc = n]
Quiet == UNCHANGED <<tpls, ext, open, bud, cur, seen, stacks, items, nstacked, chk>>

RenderText ==
  /\ Did("RenderText")
  /\ AtTok /\ CurTok.k \in {"T", "V"}
  /\ out' = Append(out, Marker(F.t, F.pc))
  /\ work' = Step(F.pc + 1)
  /\ Quiet /\ UNCHANGED <<phase, result, sel>>

Direct(n) == stacks[n] = <<>>            \* "this base template is being rendered directly"
TopItem(n) == items[stacks[n][1]]
DupWhenDirect == Direct(CurTok.n) /\ HasDup(tpls[F.t]) /\ "NoDupCheckWhenDirect" \notin Deviations
MustOverride == IF Direct(CurTok.n) THEN CurTok.r ELSE TopItem(CurTok.n).required

DuplicateDirect ==
  /\ Did("DuplicateDirect")
  /\ AtTok /\ CurTok.k = "Bo" /\ DupWhenDirect
  /\ Fail("TIE") /\ UNCHANGED <<tpls, ext, open, bud, chk>> /\ UNCHANGED mech
RequiredError ==
  /\ Did("RequiredError")
  /\ AtTok /\ CurTok.k = "Bo" /\ ~DupWhenDirect /\ MustOverride
  /\ Fail("REQ") /\ UNCHANGED <<tpls, ext, open, bud, chk>> /\ UNCHANGED mech
DepthLimit ==
  /\ Did("DepthLimit")
  /\ phase = "render" /\ Len(work) > DepthBound
  /\ Fail("DEPTH") /\ UNCHANGED <<tpls, ext, open, bud, chk>> /\ UNCHANGED mech
RenderBlock ==
  /\ Did("RenderBlock")
  /\ AtTok /\ CurTok.k = "Bo" /\ ~DupWhenDirect /\ ~MustOverride
  /\ LET n == CurTok.n
         back == Step(Match(tpls[F.t], F.pc) + 1)
         it == IF Direct(n) THEN [t |-> F.t, pos |-> F.pc, required |-> FALSE, parent |-> 0] ELSE TopItem(n)
     IN /\ work' = Append(back, BodyFrame(it.t, it.pos, it.parent))
        /\ sel' = [kind |-> "block", n |-> n, t |-> it.t, pos |-> it.pos, from |-> 0, inside |-> (F.d.t # 0)]
  /\ Quiet /\ UNCHANGED <<phase, out, result>>
(* BlockDrop["super"]: the parent item, whose own block drop gets parent.parent *)
Super ==
  /\ Did("Super")
  /\ AtTok /\ CurTok.k = "S"
  /\ IF F.sup = 0
     THEN /\ work' = Step(F.pc + 1)
          /\ sel' = [kind |-> "super", n |-> F.d.n, t |-> 0, pos |-> 0, from |-> F.d.t, inside |-> TRUE]
     ELSE LET it == items[F.sup]
          IN /\ work' = Append(Step(F.pc + 1), BodyFrame(it.t, it.pos, it.parent))
             /\ sel' = [kind |-> "super", n |-> F.d.n, t |-> it.t, pos |-> it.pos, from |-> F.d.t, inside |-> TRUE]
  /\ Quiet /\ UNCHANGED <<phase, out, result>>
EnterWrap ==
  /\ Did("EnterWrap")
  /\ AtTok /\ CurTok.k \in {"Fo", "Io"}
  /\ LET m == Match(tpls[F.t], F.pc)
     IN work' = Append(Step(m + 1), [t |-> F.t, pc |-> F.pc + 1, hi |-> m - 1, lo |-> F.pc + 1,
                                     reps |-> IF CurTok.k = "Fo" THEN 2 ELSE 1, sup |-> F.sup, d |-> F.d])
  /\ Quiet /\ UNCHANGED <<phase, out, result, sel>>
EndFrame ==
  /\ Did("EndFrame")
  /\ phase = "render" /\ work # <<>> /\ Len(work) <= DepthBound /\ F.pc > F.hi
  /\ work' = IF F.reps > 1 THEN [work EXCEPT ![Len(work)].reps = @ - 1, ![Len(work)].pc = F.lo]
             ELSE SubSeq(work, 1, Len(work) - 1)
  /\ Quiet /\ UNCHANGED <<phase, out, result, sel>>
FinishRender ==
  /\ Did("FinishRender")
  /\ phase = "render" /\ work = <<>>
  /\ Fail("ok") /\ UNCHANGED <<tpls, ext, open, bud, chk>> /\ UNCHANGED mech

Mechanism == \/ EndblockMismatchLeaf \/ LoadLeaf \/ Duplicate \/ StackTemplate \/ ReachBase \/ Circular
             \/ EndblockMismatch \/ FollowExtends \/ RenderText \/ DuplicateDirect \/ RequiredError \/ DepthLimit
             \/ RenderBlock \/ Super \/ EnterWrap \/ EndFrame \/ FinishRender

Next == Build \/ Mechanism
Spec == Init /\ [][Next]_vars /\ WF_vars(Mechanism)

-----------------------------------------------------------------------------
(* INVARIANTS                                                                 *)
Done == phase = "done"
Ran == Done /\ result # "skip"
Rendering == phase \in {"render", "done"} /\ result \in {"", "ok", "REQ", "DEPTH"} /\ Clean

(* a block tag always renders the definition closest to the leaf *)
MostDerived ==
  (Rendering /\ sel.kind = "block") =>
     /\ sel.t = MostDerivedTpl(sel.n)
     /\ sel.pos = DefOf(sel.n, sel.t)
(* block.super renders the next definition of the same name up the chain, or nothing when there is none *)
SuperIsNextUp ==
  (Rendering /\ sel.kind = "super") =>
     LET nt == NextUpTpl(sel.n, sel.from)
     IN IF nt = 0 THEN sel.t = 0 ELSE sel.t = nt /\ sel.pos = DefOf(sel.n, nt)
(* ... also for block tags met while a definition (or a super definition) is being rendered *)
NestedBlocksResolvedAgain ==
  (Rendering /\ sel.kind = "block" /\ sel.inside) => sel.t = SetMin(Definers(sel.n))
(* whatever reaches the output was written in the root or inside some block *)
NothingAfterExtendsOutsideBlocks ==
  (phase \in {"render", "done"} /\ Clean) =>
     \A i \in 1..Len(out) : (out[i] \div 100) = Root \/ InsideBlock(tpls[out[i] \div 100], out[i] % 100)
(* RequiredBlockError exactly when rendering reaches a block whose most-derived definition is required *)
RequiredUnlessOverridden ==
  (Ran /\ Clean) => LET s == ReqSeq IN ~InSeq(DIV, s) => (result = "REQ" <=> InSeq(REQ, s))
CircularDetected ==
  /\ (phase = "render" => ext = 0)
  /\ (Ran /\ Cyclic) => result = "TIE"
DuplicateRejected == (Ran /\ \E i \in 1..Len(tpls) : HasDup(tpls[i])) => result = "TIE"
EndblockMismatchRejected == (Ran /\ \E i \in 1..Len(tpls) : HasMismatch(tpls[i])) => result = "TIE"
(* the mechanism's observable result is the required one *)
MechanismMeetsRequirement ==
  Ran => LET e == Expected IN
         CASE e.kind = "err" -> \/ (result = "TIE" /\ "TemplateInheritanceError" \in e.classes)
                                \/ (result = "REQ" /\ "RequiredBlockError" \in e.classes)
           [] e.kind = "out" -> result = "ok" /\ out = e.seq
           [] OTHER -> result \in {"DEPTH", "REQ"}
DepthLimitOnlyWhenIllFounded == (Ran /\ result = "DEPTH") => (Clean /\ InSeq(DIV, ReqSeq))
(* every stack lists the definitions of its name leaf-first, linked by parent *)
StacksFollowChain ==
  (phase = "render" /\ HasExtends(1)) =>
     \A n \in Names :
        /\ {items[stacks[n][k]].t : k \in 1..Len(stacks[n])} = Definers(n)
        /\ \A k \in 1..Len(stacks[n]) :
             /\ (k < Len(stacks[n]) => items[stacks[n][k]].t < items[stacks[n][k + 1]].t
                                       /\ items[stacks[n][k]].parent = stacks[n][k + 1])
             /\ (k = Len(stacks[n]) => items[stacks[n][k]].parent = 0)
(* with an extends tag in the leaf every block met while rendering has a stack (the direct path is for lone templates) *)
DirectOnlyWithoutExtends ==
  (AtTok /\ CurTok.k = "Bo" /\ HasExtends(1)) => ~Direct(CurTok.n)
(* `required` of a stack item is the flag of its own block tag, whatever lies below or above it *)
RequiredIsOwnFlag == \A i \in 1..Len(items) : items[i].required = tpls[items[i].t][items[i].pos].r
(* the walk up the chain is bounded: every template is stacked at most once more than the chain is long *)
WalkBounded == nstacked <= Len(tpls) + 1 /\ Cardinality(seen) <= Len(tpls) /\ Len(work) <= DepthBound + 1
ChkIsStructural == Done => (chk.clean <=> ~Structural)
Terminates == (phase = "load") ~> (phase = "done")

Emit == Done => PrintT(ToJson([tpls |-> tpls, ext |-> ext, exp |-> Expected, acts |-> acts]))
=============================================================================
