----------------------------- MODULE Translate -----------------------------
(* C26 - null translations leave message text intact.                        *)
(*                                                                           *)
(* With no message catalogue the `translate` tag and the filters t, gettext, *)
(* ngettext, pgettext, npgettext must output the message the template author *)
(* wrote, except that %(name)s placeholders are replaced by the named        *)
(* variables (the tag may also collapse whitespace runs), whatever percent   *)
(* signs the text contains; singular or plural is chosen from the count the  *)
(* way gettext.NullTranslations.ngettext does: n = 1 -> singular, any other  *)
(* number (0 included) -> plural.                                            *)
(*                                                                           *)
(* The module has two layers that are related by invariants:                 *)
(*  REQUIREMENT  declarative: Pieces-wise definition of the required output  *)
(*               (ReqFilter / ReqTag), required form (ReqForm).              *)
(*  MECHANISM    what a correct implementation does, step by step: build the *)
(*               msgid (the tag writes variables as %(name)s, doubles the    *)
(*               literal percent signs and trims whitespace - the msgid is   *)
(*               what a catalogue is keyed by), select the form through      *)
(*               NullTranslations, then scan the msgid left to right         *)
(*               (ScanEscape / ScanPlaceholder / ScanLiteral).               *)
(* Known wrong mechanisms are named deviations, enabled only through the     *)
(* Deviations constant (cfg/Translate_dev_*.cfg demonstrate that each one    *)
(* breaks an invariant); every other configuration runs with Deviations={}.  *)
(*                                                                           *)
(* A message is a sequence of ATOMS (the bounded family); its meaning is     *)
(* defined on the CHARACTERS the atoms flatten to, so that accidental        *)
(* constructions ("%" followed by "(ab)" ...) are specified too.             *)
EXTENDS Naturals, Integers, Sequences, FiniteSets, TLC, Json

CONSTANTS MaxS,        \* format family: message under test in singular position, 0..MaxS atoms
          DeepRoutes,  \*   ... on these routes; 0..MaxS-1 atoms on the others
          MaxP,        \* format family: message under test in plural position, 0..MaxP atoms
          MaxC,        \* plural family: singular messages of 0..MaxC atoms, all counts / contexts
          MaxB,        \* binding family: messages of 1..MaxB atoms containing %(y)s, all bindings / values
          Alphabet,    \* "full", "lit" (full + the LIT atom in tag blocks) or "pct" (percent-related atoms only:
                       \* deeper messages in the thorough tier)
          OnlyRoute,   \* "all" or one route (the thorough tier runs one TLC per route)
          Deviations   \* subset of {"TruthyCount", "PercentCollapse", "LookbehindInTag"}

-----------------------------------------------------------------------------
(* Routes and what each accepts                                              *)
Routes       == {"tag", "t", "gettext", "ngettext", "pgettext", "npgettext"}
PluralRoutes == {"tag", "t", "ngettext", "npgettext"}     \* can be given a plural form
MustPlural   == {"ngettext", "npgettext"}                 \* plural form and count are mandatory
CtxAlways    == {"pgettext", "npgettext"}                 \* message context is mandatory
CtxOptional  == {"tag", "t"}
RoutesUT     == IF OnlyRoute = "all" THEN Routes ELSE {OnlyRoute}
CtxFor(r)    == IF r \in CtxAlways THEN {TRUE} ELSE IF r \in CtxOptional THEN BOOLEAN ELSE {FALSE}

-----------------------------------------------------------------------------
(* Atoms, characters, items                                                  *)
(* PH / PC : a placeholder for variable y / count, written %(y)s in a filter *)
(*           message and {{ y }} in the tag's block                          *)
(* LIT     : the five characters %(y)s as literal text of a tag block        *)
FullAtoms == {"ab", "%", "%%", "%s", "PH", "PC", "(", ")", " ", "\n", "<"}
PctAtoms  == {"ab", "%", "%%", "%s", "PH", "("}
Atoms    == IF Alphabet = "pct" THEN PctAtoms ELSE FullAtoms
TagAtoms == IF Alphabet = "lit" THEN Atoms \cup {"LIT"} ELSE Atoms
AtomsOf(r) == IF r = "tag" THEN TagAtoms ELSE Atoms

NameY == <<"y">>
NameC == <<"c", "o", "u", "n", "t">>
PhChars(name) == <<"%", "(">> \o name \o <<")", "s">>

IsVar(it)  == it \in {"$y", "$count"}            \* a tag block item that is a variable, not a character
NameOf(it) == IF it = "$y" THEN NameY ELSE NameC
IsWord(ch) == ch \in {"a", "b", "s", "y", "c", "o", "u", "n", "t"}     \* \w among the characters used
IsWs(ch)   == ch \in {" ", "\n"}

FilterChars(a) ==
  CASE a = "ab" -> <<"a", "b">>
    [] a = "%%" -> <<"%", "%">>
    [] a = "%s" -> <<"%", "s">>
    [] a = "PH" -> PhChars(NameY)
    [] a = "PC" -> PhChars(NameC)
    [] a = "LIT" -> PhChars(NameY)
    [] OTHER -> <<a>>
TagItems(a) ==
  CASE a = "PH" -> <<"$y">>
    [] a = "PC" -> <<"$count">>
    [] OTHER -> FilterChars(a)

RECURSIVE Cat(_)
Cat(ss) == IF ss = <<>> THEN <<>> ELSE Head(ss) \o Cat(Tail(ss))

(* what the template author writes for message m on route r *)
Written(r, m) == Cat([i \in 1..Len(m) |-> IF r = "tag" THEN TagItems(m[i]) ELSE FilterChars(m[i])])

(* If a %(name)s placeholder starts at position i of t: the position of its  *)
(* closing "s"; otherwise 0.  name = one or more word characters.            *)
PhEnd(t, i) ==
  IF i + 4 <= Len(t) /\ t[i] = "%" /\ t[i + 1] = "("
  THEN LET J == { j \in (i + 3)..(Len(t) - 1) :
                    /\ t[j] = ")" /\ t[j + 1] = "s"
                    /\ \A k \in (i + 2)..(j - 1) : IsWord(t[k]) }
       IN IF J = {} THEN 0 ELSE (CHOOSE j \in J : TRUE) + 1
  ELSE 0
PhName(t, i) == SubSeq(t, i + 2, PhEnd(t, i) - 2)

-----------------------------------------------------------------------------
(* Counts, values, variable bindings                                         *)
NoCount == [kind |-> "none", n |-> 0]
IntC(n) == [kind |-> "int", n |-> n]            \* count given as a number
StrC(n) == [kind |-> "str", n |-> n]            \* count given as a numeric string

Vals == {"name", "pct", "ph", "num", "zero", "false"}
ValChars(v) ==
  CASE v = "name" -> <<"S", "u", "e">>
    [] v = "pct" -> <<"5", "%">>                 \* a value with a percent sign
    [] v = "ph" -> <<"%", "(", "y", ")", "s">>   \* a value that looks like its own placeholder
    [] v = "num" -> <<"7">>                      \* a number
    [] v = "zero" -> <<"0">>                     \* the number 0 and the boolean false: bound, printable, and falsy in the host language
    [] v = "false" -> <<"f", "a", "l", "s", "e">>
OtherVal == <<"Z">>                              \* render-data value shadowed by a keyword argument
Binds == {"none", "kw", "data", "both"}          \* how y is bound: not / keyword argument / render data / both

DigitStr == <<"0", "1", "2", "3", "4", "5", "6", "7", "8", "9">>
CountChars(cnt) == IF cnt.n < 0 THEN <<"-", DigitStr[1 - cnt.n]>> ELSE <<DigitStr[cnt.n + 1]>>

(* the value a placeholder named `name` must be replaced by; an unbound      *)
(* variable is the default Undefined, which renders as nothing               *)
Lookup(c, name) ==
  IF name = NameY THEN (IF c.bind = "none" THEN <<>> ELSE ValChars(c.val))
  ELSE IF name = NameC /\ c.count.kind # "none" /\ c.route \in {"tag", "t"} THEN CountChars(c.count)
  ELSE <<>>

-----------------------------------------------------------------------------
(* The bounded family of cases (inputs)                                      *)
Seqs(S, lo, hi) == UNION { [1..n -> S] : n \in lo..hi }
HasAtom(m, a) == \E i \in 1..Len(m) : m[i] = a
Other == <<"<", "ab", ")">>                      \* the form that is not under test in the format family

Case(r, s, hp, p, cnt, cx, b, v) ==
  [route |-> r, sing |-> s, hasPlur |-> hp, plur |-> p, count |-> cnt, ctx |-> cx, bind |-> b, val |-> v]

DefaultBind(m) == IF HasAtom(m, "PH") THEN "kw" ELSE "none"

FormatS(cc) ==
  \E r \in RoutesUT : \E m \in Seqs(AtomsOf(r), 0, IF r \in DeepRoutes THEN MaxS ELSE MaxS - 1) :
     cc = Case(r, m, r \in MustPlural, IF r \in MustPlural THEN Other ELSE <<>>,
               IF r \in MustPlural THEN IntC(1) ELSE NoCount, r \in CtxAlways, DefaultBind(m), "name")
FormatP(cc) ==
  \E r \in RoutesUT \cap PluralRoutes : \E m \in Seqs(AtomsOf(r), 0, MaxP) :
     cc = Case(r, Other, TRUE, m, IntC(2), r \in CtxAlways, DefaultBind(m), "name")

CountsFor(r) == (IF r \in MustPlural THEN {} ELSE {NoCount})
                \cup {IntC(0), IntC(1), IntC(2), IntC(3), IntC(0 - 1), StrC(0), StrC(2)}
PlurChoices == { <<"ab", "ab">>, <<"PC", " ", "%">> }
PluralFamily(cc) ==
  \E r \in RoutesUT \cap PluralRoutes : \E s \in Seqs(Atoms, 0, MaxC) :
  \E hp \in (IF r \in MustPlural THEN {TRUE} ELSE BOOLEAN) :
  \E p \in (IF hp THEN PlurChoices ELSE {<<>>}) : \E cnt \in CountsFor(r) : \E cx \in CtxFor(r) :
     cc = Case(r, s, hp, p, cnt, cx, IF HasAtom(s, "PH") THEN "data" ELSE "none", "num")

BindFamily(cc) ==
  \E r \in RoutesUT : \E m \in { x \in Seqs(Atoms, 1, MaxB) : HasAtom(x, "PH") } :
  \E b \in Binds : \E v \in (IF b = "none" THEN {"name"} ELSE Vals) :
     cc = Case(r, m, r \in MustPlural, IF r \in MustPlural THEN Other ELSE <<>>,
               IF r \in MustPlural THEN IntC(1) ELSE NoCount, r \in CtxAlways, b, v)

IsCase(cc) == FormatS(cc) \/ FormatP(cc) \/ PluralFamily(cc) \/ BindFamily(cc)

-----------------------------------------------------------------------------
(* REQUIREMENT                                                               *)

(* gettext's null translations: "n == 1 -> singular, else plural"; applied   *)
(* whenever a plural form and a count are given; otherwise the one message   *)
ReqForm(c) == IF c.hasPlur /\ c.count.kind # "none" /\ c.count.n # 1 THEN "plural" ELSE "singular"
ReqChosen(c) == IF ReqForm(c) = "plural" THEN c.plur ELSE c.sing
Unchosen(c)  == IF ReqForm(c) = "plural" THEN c.sing ELSE c.plur

(* filter message t (characters): every character is output as it is, except *)
(* that each %(name)s occurrence is replaced as a whole by the variable      *)
InsidePh(t, i) == \E s \in 1..(i - 1) : PhEnd(t, s) # 0 /\ i <= PhEnd(t, s)
ReqFilter(t, c) ==
  Cat([i \in 1..Len(t) |->
        IF PhEnd(t, i) # 0 THEN Lookup(c, PhName(t, i))
        ELSE IF InsidePh(t, i) THEN <<>>
        ELSE <<t[i]>>])
(* tag block (items): characters as they are, variables replaced             *)
ReqTag(items, c) ==
  Cat([i \in 1..Len(items) |-> IF IsVar(items[i]) THEN Lookup(c, NameOf(items[i])) ELSE <<items[i]>>])

(* whitespace-run collapsing the tag is allowed: every run becomes one space,*)
(* leading and trailing runs disappear (outputs are compared modulo Norm)    *)
Norm(t) ==
  Cat([i \in 1..Len(t) |->
        IF ~IsWs(t[i]) THEN <<t[i]>>
        ELSE IF i > 1 /\ ~IsWs(t[i - 1]) /\ (\E j \in (i + 1)..Len(t) : ~IsWs(t[j])) THEN <<" ">>
        ELSE <<>>])

ExpectedFor(c, m) == IF c.route = "tag" THEN Norm(ReqTag(Written("tag", m), c))
                     ELSE ReqFilter(Written(c.route, m), c)
Expected(c) == ExpectedFor(c, ReqChosen(c))

(* the literal percent signs of a message: all of them but those that open a placeholder *)
NumPct(t) == Cardinality({ i \in 1..Len(t) : t[i] = "%" })
NumPh(t) == Cardinality({ i \in 1..Len(t) : PhEnd(t, i) # 0 })
LiteralPct(r, m) == IF r = "tag" THEN NumPct(Written(r, m)) ELSE NumPct(Written(r, m)) - NumPh(Written(r, m))

(* Cells the statement does not fix (any outcome admissible):                *)
(*  - a filter message in which a placeholder directly follows a percent     *)
(*    sign ("%%(y)s": escaped percent + text, or percent + placeholder?)     *)
(*  - %(count)s in a message of the t filter (the docs reserve count/plural) *)
(* (the literal characters %(y)s written as TEXT inside a tag block are claimed: a tag block's variables are written   *)
(*  {{ y }}; everything else in the block is message text and is output unchanged, percent signs included)             *)
AmbiguousPh(t) == \E i \in 2..Len(t) : PhEnd(t, i) # 0 /\ t[i - 1] = "%"
Claimed(c) ==
  LET m == ReqChosen(c) IN
  /\ (c.route # "tag" => ~AmbiguousPh(Written(c.route, m)))
  /\ ~(c.route = "t" /\ HasAtom(m, "PC") /\ c.count.kind # "none")

(* everything the requirement layer says about one case *)
Requirement(cs) ==
  [form |-> ReqForm(cs), exp |-> Expected(cs), claimed |-> Claimed(cs),
   pct |-> LiteralPct(cs.route, ReqChosen(cs)),
   expWrongForm |-> IF cs.hasPlur THEN ExpectedFor(cs, Unchosen(cs)) ELSE <<"-">>]

NoReq == [form |-> "none", exp |-> <<>>, claimed |-> FALSE, pct |-> 0, expWrongForm |-> <<>>]

-----------------------------------------------------------------------------
(* MECHANISM                                                                 *)
VARIABLES c,        \* the case (input), fixed
          req,      \* what the REQUIREMENT layer demands for c (a function of c; kept so it is evaluated once)
          phase,    \* "build" -> "select" -> "scan" -> "done"
          sid, plid,\* msgids of the singular / plural message
          form,     \* "none" until selected, then "singular" / "plural"
          text,     \* the msgid the null translations returned
          pos, out, \* scanner position in text, characters written so far
          steps     \* the scanner actions taken so far (history; the behaviour of a case is deterministic)
vars == <<c, req, phase, sid, plid, form, text, pos, out, steps>>

SetMin(S) == CHOOSE x \in S : \A y \in S : x <= y
SetMax(S) == CHOOSE x \in S : \A y \in S : x >= y

(* the tag's msgid: variables as %(name)s, literal percent signs doubled,    *)
(* then trimmed: ends stripped, whitespace runs that contain a newline -> " "*)
Doubled(items) ==
  Cat([i \in 1..Len(items) |->
        IF IsVar(items[i]) THEN PhChars(NameOf(items[i]))
        ELSE IF items[i] = "%" THEN <<"%", "%">> ELSE <<items[i]>>])
Strip(t) == LET nz == { i \in 1..Len(t) : ~IsWs(t[i]) }
            IN IF nz = {} THEN <<>> ELSE SubSeq(t, SetMin(nz), SetMax(nz))
SameRun(t, i, j) == \A k \in (IF i < j THEN i ELSE j)..(IF i < j THEN j ELSE i) : IsWs(t[k])
RunHasNL(t, i) == \E j \in 1..Len(t) : t[j] = "\n" /\ SameRun(t, i, j)
CollapseNL(t) ==
  Cat([i \in 1..Len(t) |->
        IF ~IsWs(t[i]) \/ ~RunHasNL(t, i) THEN <<t[i]>>
        ELSE IF i = 1 \/ ~IsWs(t[i - 1]) THEN <<" ">> ELSE <<>>])
Msgid(r, m) == IF r = "tag" THEN CollapseNL(Strip(Doubled(Written("tag", m)))) ELSE Written(r, m)

BuildMsgid ==
  /\ phase = "build"
  /\ sid' = Msgid(c.route, c.sing)
  /\ plid' = IF c.hasPlur THEN Msgid(c.route, c.plur) ELSE <<>>
  /\ req' = Requirement(c)
  /\ phase' = "select"
  /\ UNCHANGED <<c, form, text, pos, out, steps>>

(* gettext.NullTranslations.ngettext / npgettext *)
NullNgettext(n) == IF n = 1 THEN "singular" ELSE "plural"

(* the number each route hands to the translations object, or "absent":      *)
(* the tag defaults the count to 1; t uses ngettext only when both plural    *)
(* and count are given; ngettext/npgettext always have both                  *)
SelectedForm ==
  LET given == c.count.kind # "none"
      n == IF given THEN c.count.n ELSE 1
      truthy == "TruthyCount" \in Deviations /\ c.route \in {"tag", "t"} /\ c.count.kind = "int" /\ n = 0
  IN CASE c.route = "tag" -> IF c.hasPlur /\ ~truthy THEN NullNgettext(n) ELSE "singular"
       [] c.route = "t" -> IF c.hasPlur /\ given /\ ~truthy THEN NullNgettext(n) ELSE "singular"
       [] c.route \in MustPlural -> NullNgettext(n)
       [] OTHER -> "singular"

Select ==
  /\ phase = "select"
  /\ form' = SelectedForm
  /\ text' = IF SelectedForm = "plural" THEN plid ELSE sid
  /\ phase' = "scan" /\ pos' = 1 /\ out' = <<>>
  /\ UNCHANGED <<c, req, sid, plid, steps>>

(* Scanner.  The tag's msgid has its literal percent signs doubled, so the   *)
(* tag consumes "%%" pairs first (-> one "%"); a filter message is the       *)
(* author's own text: nothing is an escape there, and a placeholder is       *)
(* recognised only when it does not directly follow a percent sign.          *)
Escapes == c.route = "tag" \/ "PercentCollapse" \in Deviations
AtEscape == Escapes /\ pos < Len(text) /\ text[pos] = "%" /\ text[pos + 1] = "%"
AtPlaceholder ==
  /\ ~AtEscape /\ PhEnd(text, pos) # 0
  /\ IF pos = 1 THEN TRUE
     ELSE IF c.route = "tag" THEN ~("LookbehindInTag" \in Deviations /\ text[pos - 1] = "%")
     ELSE text[pos - 1] # "%"
Scanning == phase = "scan" /\ pos <= Len(text)

ScanEscape ==
  /\ Scanning /\ AtEscape
  /\ out' = Append(out, "%") /\ pos' = pos + 2 /\ steps' = Append(steps, "esc")
  /\ UNCHANGED <<c, req, phase, sid, plid, form, text>>
ScanPlaceholder ==
  /\ Scanning /\ AtPlaceholder
  /\ out' = out \o Lookup(c, PhName(text, pos)) /\ pos' = PhEnd(text, pos) + 1 /\ steps' = Append(steps, "var")
  /\ UNCHANGED <<c, req, phase, sid, plid, form, text>>
(* text that is neither: copied up to the next percent sign (a lone percent sign is text) *)
NextPct == LET Q == { q \in (pos + 1)..Len(text) : text[q] = "%" } IN IF Q = {} THEN Len(text) + 1 ELSE SetMin(Q)
ScanLiteral ==
  /\ Scanning /\ ~AtEscape /\ ~AtPlaceholder
  /\ out' = out \o SubSeq(text, pos, NextPct - 1) /\ pos' = NextPct /\ steps' = Append(steps, "lit")
  /\ UNCHANGED <<c, req, phase, sid, plid, form, text>>
Finish ==
  /\ phase = "scan" /\ pos > Len(text)
  /\ phase' = "done"
  /\ UNCHANGED <<c, req, sid, plid, form, text, pos, out, steps>>

Init == /\ IsCase(c)
        /\ req = NoReq
        /\ phase = "build" /\ sid = <<>> /\ plid = <<>> /\ form = "none" /\ text = <<>> /\ pos = 1 /\ out = <<>> /\ steps = <<>>
Next == BuildMsgid \/ Select \/ ScanEscape \/ ScanPlaceholder \/ ScanLiteral \/ Finish
Spec == Init /\ [][Next]_vars

-----------------------------------------------------------------------------
(* INVARIANTS                                                                *)
Done == phase = "done"

TypeOK == /\ phase \in {"build", "select", "scan", "done"}
          /\ form \in {"none", "singular", "plural"}
          /\ pos \in 1..(Len(text) + 1)

(* the form handed on is the one gettext's null translations choose *)
PluralByCount == phase \in {"scan", "done"} => form = req.form

(* the output is the message with only its placeholders replaced *)
Observed == IF c.route = "tag" THEN Norm(out) ELSE out
FormatReplacesOnlyPlaceholders == (Done /\ req.claimed) => Observed = req.exp

(* every literal percent sign of the message reaches the output, none is added *)
ValueHasPct == c.bind # "none" /\ c.val \in {"pct", "ph"}
PercentSignsSurvive ==
  (Done /\ req.claimed /\ ~ValueHasPct) => NumPct(out) = req.pct

(* the tag's msgid is a well-formed python-format string: scanning it left   *)
(* to right every percent sign is half of a "%%" pair or opens a placeholder;*)
(* it is trimmed and holds no newline                                        *)
RECURSIVE PFWellFormed(_, _)
PFWellFormed(t, i) ==
  IF i > Len(t) THEN TRUE
  ELSE IF t[i] # "%" THEN PFWellFormed(t, i + 1)
  ELSE IF i < Len(t) /\ t[i + 1] = "%" THEN PFWellFormed(t, i + 2)
  ELSE PhEnd(t, i) # 0 /\ PFWellFormed(t, PhEnd(t, i) + 1)
Trimmed(t) == /\ (t # <<>> => ~IsWs(t[1]) /\ ~IsWs(t[Len(t)]))
              /\ \A i \in 1..Len(t) : t[i] # "\n"
TagMsgidWellFormed ==
  (c.route = "tag" /\ phase = "select") =>
     /\ PFWellFormed(sid, 1) /\ PFWellFormed(plid, 1)
     /\ Trimmed(sid) /\ Trimmed(plid)
(* a filter's msgid is the author's text, untouched *)
FilterMsgidIsText == (c.route # "tag" /\ phase = "select") =>
                        sid = Written(c.route, c.sing) /\ plid = Written(c.route, c.plur)

-----------------------------------------------------------------------------
(* One record per case: the input, what the author writes, what must come out *)
Emit ==
  Done => PrintT(ToJson(
    [route |-> c.route, sing |-> Written(c.route, c.sing), hasPlur |-> c.hasPlur,
     plur |-> Written(c.route, c.plur), count |-> c.count, ctx |-> c.ctx,
     bind |-> c.bind, val |-> c.val, valChars |-> ValChars(c.val), otherVal |-> OtherVal,
     form |-> req.form, exp |-> req.exp, expWrongForm |-> req.expWrongForm,
     claimed |-> req.claimed, norm |-> (c.route = "tag"), msgid |-> text, steps |-> steps,
     atoms |-> [s |-> c.sing, p |-> c.plur]]))
=============================================================================
