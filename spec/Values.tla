------------------------------ MODULE Values ------------------------------
(* The Liquid value lattice and the documented comparison rules (C12).      *)
(* A value is a tagged record; strings are sequences of one-character       *)
(* strings so that substring / blank tests can be written out.  Decimals    *)
(* are integers scaled by 10 (TLC has no reals).                            *)
(* `Unspec` marks cells that neither the property statement nor the         *)
(* project's documentation fixes: they are enumerated and run (C01/C02      *)
(* cover them) but every outcome is admissible for C12.                     *)
EXTENDS Naturals, Integers, Sequences, FiniteSets, TLC

I(id, n) == [id |-> id, t |-> "int", n |-> n * 10]
D(id, n10) == [id |-> id, t |-> "dec", n |-> n10]
B(id, b) == [id |-> id, t |-> "bool", b |-> b]
NilV == [id |-> "nil", t |-> "nil"]
UndefV == [id |-> "undef", t |-> "undef"]
S(id, s) == [id |-> id, t |-> "str", s |-> s]
L(id, xs) == [id |-> id, t |-> "list", xs |-> xs]
H(id, ks) == [id |-> id, t |-> "dict", ks |-> ks]          \* only the keys matter for the operators
R(id, a, b) == [id |-> id, t |-> "range", a |-> a, b |-> b]
EmptyV == [id |-> "empty", t |-> "empty"]
BlankV == [id |-> "blank", t |-> "blank"]

IsNum(v) == v.t \in {"int", "dec"}
Falsy(v) == v.t \in {"nil", "undef"} \/ (v.t = "bool" /\ ~v.b)
Truthy(v) == ~Falsy(v)

Ord(c) == CASE c = " " -> 32 [] c = "1" -> 49 [] c = "2" -> 50 [] c = "a" -> 97 [] c = "b" -> 98 [] OTHER -> 120
RECURSIVE StrLt(_, _)
StrLt(x, y) == IF y = <<>> THEN FALSE
               ELSE IF x = <<>> THEN TRUE
               ELSE IF Ord(Head(x)) # Ord(Head(y)) THEN Ord(Head(x)) < Ord(Head(y))
               ELSE StrLt(Tail(x), Tail(y))
IsBlankStr(s) == \A i \in 1..Len(s) : s[i] = " "
SubstrAt(hay, needle, i) == i + Len(needle) - 1 <= Len(hay) /\ SubSeq(hay, i, i + Len(needle) - 1) = needle
Substr(hay, needle) == needle = <<>> \/ \E i \in 1..Len(hay) : SubstrAt(hay, needle, i)

(* ---- equality: "T", "F" or "U" (unspecified) ------------------------------------------- *)
RECURSIVE EqV(_, _)
EqList(xs, ys) == IF Len(xs) # Len(ys) THEN "F"
                  ELSE IF \E i \in 1..Len(xs) : EqV(xs[i], ys[i]) = "U" THEN "U"
                  ELSE IF \A i \in 1..Len(xs) : EqV(xs[i], ys[i]) = "T" THEN "T" ELSE "F"
Tf(b) == IF b THEN "T" ELSE "F"
EqV(a, b) ==
  CASE a.t = "empty" /\ b.t = "empty" -> "T"
    [] a.t = "blank" /\ b.t = "blank" -> "T"
    [] {a.t, b.t} = {"empty", "blank"} -> "U"
    [] a.t \in {"empty", "blank"} /\ b.t \in {"nil", "undef", "bool"} -> "U"   \* open TODOs against the reference implementation
    [] b.t \in {"empty", "blank"} /\ a.t \in {"nil", "undef", "bool"} -> "U"
    [] a.t = "empty" /\ b.t = "str" -> Tf(b.s = <<>>)
    [] a.t = "empty" /\ b.t = "list" -> Tf(b.xs = <<>>)
    [] a.t = "empty" /\ b.t = "dict" -> Tf(b.ks = <<>>)
    [] a.t = "blank" /\ b.t = "str" -> Tf(IsBlankStr(b.s))
    [] a.t = "blank" /\ b.t = "list" -> Tf(b.xs = <<>>)
    [] a.t = "blank" /\ b.t = "dict" -> Tf(b.ks = <<>>)
    [] a.t \in {"empty", "blank"} -> "F"
    [] b.t \in {"empty", "blank"} -> EqV(b, a)
    [] a.t = "bool" /\ b.t = "bool" -> Tf(a.b = b.b)
    [] a.t = "bool" \/ b.t = "bool" -> "F"                   \* true is not 1
    [] a.t \in {"nil", "undef"} /\ b.t \in {"nil", "undef"} -> "T"
    [] a.t \in {"nil", "undef"} \/ b.t \in {"nil", "undef"} -> "F"
    [] IsNum(a) /\ IsNum(b) -> Tf(a.n = b.n)
    [] a.t = "str" /\ b.t = "str" -> Tf(a.s = b.s)
    [] a.t = "list" /\ b.t = "list" -> EqList(a.xs, b.xs)
    [] a.t = "dict" /\ b.t = "dict" -> IF a.ks = b.ks THEN "U" ELSE "F"   \* values are abstracted away
    [] a.t = "range" /\ b.t = "range" -> Tf(a.a = b.a /\ a.b = b.b)
    [] {a.t, b.t} = {"range", "list"} -> "U"
    [] OTHER -> "F"

Neg(r) == CASE r = "T" -> "F" [] r = "F" -> "T" [] OTHER -> r

(* ---- ordering: "T", "F", "E" (Liquid type error) or "U" ---------------------------------- *)
LtV(a, b) ==
  CASE IsNum(a) /\ IsNum(b) -> Tf(a.n < b.n)
    [] a.t = "str" /\ b.t = "str" -> Tf(StrLt(a.s, b.s))
    [] a.t = "bool" \/ b.t = "bool" -> "U"                   \* the code answers false; the statement's "incompatible types" is read as non-boolean mixes
    [] OTHER -> "E"
LeV(a, b) ==
  CASE IsNum(a) /\ IsNum(b) -> Tf(a.n <= b.n)
    [] a.t = "str" /\ b.t = "str" -> Tf(a.s = b.s \/ StrLt(a.s, b.s))
    [] a.t = "bool" \/ b.t = "bool" -> "U"
    [] EqV(a, b) \in {"T", "U"} -> "U"                        \* equal but unorderable (nil <= nil): not fixed
    [] OTHER -> "E"

(* ---- membership --------------------------------------------------------------------------- *)
ContainsV(a, b) ==
  CASE Falsy(a) \/ Falsy(b) -> "F"
    [] a.t = "str" /\ b.t = "str" -> Tf(Substr(a.s, b.s))
    [] a.t = "str" -> "U"
    [] a.t = "list" -> IF \E i \in 1..Len(a.xs) : EqV(a.xs[i], b) = "T" THEN "T"
                       ELSE IF \E i \in 1..Len(a.xs) : EqV(a.xs[i], b) = "U" THEN "U" ELSE "F"
    [] a.t = "dict" /\ b.t = "str" -> Tf(\E i \in 1..Len(a.ks) : a.ks[i] = b.s)
    [] a.t = "dict" -> "U"
    [] a.t = "range" /\ b.t = "int" -> Tf(a.a * 10 <= b.n /\ b.n <= a.b * 10)
    [] a.t = "range" -> "U"
    [] a.t \in {"empty", "blank"} -> "U"
    [] OTHER -> "E"

Ops == {"==", "!=", "<>", "<", ">", "<=", ">=", "contains"}
Apply(op, a, b) ==
  CASE op = "==" -> EqV(a, b)
    [] op \in {"!=", "<>"} -> Neg(EqV(a, b))
    [] op = "<" -> LtV(a, b)
    [] op = ">" -> LtV(b, a)
    [] op = "<=" -> LeV(a, b)
    [] op = ">=" -> LeV(b, a)
    [] op = "contains" -> ContainsV(a, b)

(* ---- the value pool of the exhaustive configuration --------------------------------------- *)
Pool == {
  I("i0", 0), I("i1", 1), I("i2", 2), I("in1", 0 - 1), D("d10", 10), D("d15", 15), D("d00", 0),
  B("true", TRUE), B("false", FALSE), NilV, UndefV,
  S("s_empty", <<>>), S("s_space", <<" ">>), S("s_a", <<"a">>), S("s_1", <<"1">>), S("s_ab", <<"a", "b">>), S("s_b", <<"b">>),
  L("l_empty", <<>>), L("l_1", <<I("i1", 1)>>), L("l_1a", <<I("i1", 1), S("s_a", <<"a">>)>>), L("l_true", <<B("true", TRUE)>>),
  L("l_0", <<I("i0", 0)>>), L("l_nil", <<NilV>>),
  H("h_empty", <<>>), H("h_a", << <<"a">> >>),
  R("r12", 1, 2), R("r02", 0, 2),
  EmptyV, BlankV }
=============================================================================
