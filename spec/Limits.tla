------------------------------- MODULE Limits -------------------------------
(* C07 / C08 — the output stream limit and the local namespace limit.        *)
(*                                                                           *)
(* MECHANISM (liquid/output.py, liquid/context.py, liquid/template.py):       *)
(*   output     the render writes into a LimitedStringIO(limit = L); capture  *)
(*              and ifchanged render their block into a sub-buffer created by *)
(*              get_buffer(parent): limit = L - parent.size; write(n bytes)   *)
(*              adds n to size and raises OutputStreamLimitError when         *)
(*              size > limit; ifchanged copies its sub-buffer to the parent   *)
(*              when the text differs from the last one; capture assigns it.  *)
(*   namespace  assign(k, v) stores v and raises LocalNamespaceLimitError     *)
(*              when  sum of sizes of this context's locals + carry > M;      *)
(*              copy (render tag, macro call) gives the child the parent's    *)
(*              measured total as its carry and an empty namespace.           *)
(* GHOST truth, independent of the mechanism:                                *)
(*   bytesOut   UTF-8 bytes that reached the render's result                  *)
(*   held       sizes of all template-local variables alive in the chain of   *)
(*              contexts (this one and every suspended caller)                *)
(* REQUIREMENT: OutputBounded, OverLimitRaises, NamespaceBounded,             *)
(*              LimitsOnlyAbort (a limit changes nothing but the status).     *)
(* The environment is the template: it issues writes / blocks / assigns in    *)
(* any well-nested order (every straight-line template of <= MaxOps steps).   *)
EXTENDS Integers, Sequences, FiniteSets, TLC, Json

CONSTANTS Family,      \* "output" | "namespace"
          MaxOps, MaxDepth,
          LSet,        \* output limits explored (Unl = no limit)
          MSet,        \* namespace limits explored
          StrBase      \* measured size of an empty string (sys.getsizeof("")); a string of n ASCII characters measures StrBase + n

Unl == 0 - 1
Atoms == {1, 2, 3, 4}            \* a text atom of 1..4 UTF-8 bytes (one code point each)
NsNames == {"x", "y"}
Sizes == {1, 3}                  \* characters of an assigned ASCII string

VARIABLES L, M,
          bufs,        \* stack of buffers, innermost LAST: [size, limit, kind, text (sequence of atoms)]
          lastIfc,     \* last text rendered by an ifchanged block ("" initially), as a sequence of atoms
          lastCap,     \* text of the most recently completed capture block
          ctxs,        \* stack of contexts, innermost LAST: [locals : NsNames -> size or 0 (absent), carry]
          frames, prog, status,
          bytesOut, outText,   \* ghost: bytes / atoms in the top-level buffer
          peakHeld             \* ghost: largest total size ever held after a completed assign
vars == <<L, M, bufs, lastIfc, lastCap, ctxs, frames, prog, status, bytesOut, outText, peakHeld>>

Sum(f) == LET RECURSIVE S(_)
              S(D) == IF D = {} THEN 0 ELSE LET d == CHOOSE d \in D : TRUE IN f[d] + S(D \ {d})
          IN S(DOMAIN f)
SeqSum(s) == LET RECURSIVE S(_)
                 S(i) == IF i = 0 THEN 0 ELSE s[i] + S(i - 1)
             IN S(Len(s))
Measure(c) == Sum(c.locals) + c.carry              \* get_size_of_locals()
Held == LET RECURSIVE H(_)
            H(i) == IF i = 0 THEN 0 ELSE Sum(ctxs[i].locals) + H(i - 1)
        IN H(Len(ctxs))                              \* ghost: everything alive in the chain, recomputed from scratch

Top == bufs[Len(bufs)]
Cur == ctxs[Len(ctxs)]
Step(rec) == prog' = Append(prog, rec)
CanStep == status = "ok" /\ Len(prog) < MaxOps
CanOpen == CanStep /\ Len(frames) < MaxDepth

Init == /\ L \in (IF Family = "output" THEN LSet ELSE {Unl})
        /\ M \in (IF Family = "namespace" THEN MSet ELSE {Unl})
        /\ bufs = <<[size |-> 0, limit |-> L, kind |-> "top", text |-> <<>>]>>
        /\ lastIfc = <<>> /\ lastCap = <<>>
        /\ ctxs = <<[locals |-> [n \in NsNames |-> 0], carry |-> 0]>>
        /\ frames = <<>> /\ prog = <<>> /\ status = "ok"
        /\ bytesOut = 0 /\ outText = <<>> /\ peakHeld = 0

(* ---- output ---- *)
(* write `atoms` (a sequence of byte lengths) into the innermost buffer *)
WriteTo(bs, atoms) ==
  LET n == SeqSum(atoms)
      b == bs[Len(bs)]
      b2 == [b EXCEPT !.size = @ + n, !.text = @ \o atoms]
  IN [bufs |-> [bs EXCEPT ![Len(bs)] = b2],
      over |-> (L # Unl /\ n > 0 /\ b2.size > b.limit)]

Write(a) ==
  /\ CanStep /\ Family = "output"
  /\ LET w == WriteTo(bufs, <<a>>)
     IN /\ bufs' = w.bufs
        /\ status' = IF w.over THEN "OutputStreamLimitError" ELSE "ok"
        /\ IF Len(bufs) = 1 /\ ~w.over THEN bytesOut' = bytesOut + a /\ outText' = Append(outText, a)
           ELSE UNCHANGED <<bytesOut, outText>>
  /\ Step([op |-> "text", n |-> a])
  /\ UNCHANGED <<L, M, lastIfc, lastCap, ctxs, frames, peakHeld>>

OpenBuffer(kind) ==
  /\ CanOpen /\ Family = "output" /\ kind \in {"capture", "ifchanged"}
  /\ bufs' = Append(bufs, [size |-> 0, limit |-> IF L = Unl THEN Unl ELSE L - Top.size, kind |-> kind, text |-> <<>>])
  /\ frames' = Append(frames, kind)
  /\ Step([op |-> kind, n |-> 0])
  /\ UNCHANGED <<L, M, lastIfc, lastCap, ctxs, status, bytesOut, outText, peakHeld>>

(* endcapture: the text is assigned (not output). endifchanged: copied to the parent buffer iff it differs from the last one *)
CloseBuffer ==
  /\ status = "ok" /\ frames # <<>> /\ frames[Len(frames)] \in {"capture", "ifchanged"}
  /\ LET b == Top
         rest == SubSeq(bufs, 1, Len(bufs) - 1)
         emit == b.kind = "ifchanged" /\ b.text # lastIfc
         w == IF emit THEN WriteTo(rest, b.text) ELSE [bufs |-> rest, over |-> FALSE]
     IN /\ bufs' = w.bufs
        /\ status' = IF w.over THEN "OutputStreamLimitError" ELSE "ok"
        /\ lastIfc' = IF b.kind = "ifchanged" THEN b.text ELSE lastIfc
        /\ lastCap' = IF b.kind = "capture" THEN b.text ELSE lastCap
        /\ IF emit /\ Len(rest) = 1 /\ ~w.over THEN bytesOut' = bytesOut + b.size /\ outText' = outText \o b.text
           ELSE UNCHANGED <<bytesOut, outText>>
  /\ frames' = SubSeq(frames, 1, Len(frames) - 1)
  /\ Step([op |-> "close", n |-> 0])
  /\ UNCHANGED <<L, M, ctxs, peakHeld>>

(* output the variable bound by the most recently completed capture block: one write of the whole captured text *)
OutCap ==
  /\ CanStep /\ Family = "output" /\ lastCap # <<>>
  /\ LET w == WriteTo(bufs, lastCap)
     IN /\ bufs' = w.bufs
        /\ status' = IF w.over THEN "OutputStreamLimitError" ELSE "ok"
        /\ IF Len(bufs) = 1 /\ ~w.over THEN bytesOut' = bytesOut + SeqSum(lastCap) /\ outText' = outText \o lastCap
           ELSE UNCHANGED <<bytesOut, outText>>
  /\ Step([op |-> "outcap", n |-> 0])
  /\ UNCHANGED <<L, M, lastIfc, lastCap, ctxs, frames, peakHeld>>

(* ---- namespace ---- *)
Assign(n, s) ==
  /\ CanStep /\ Family = "namespace"
  /\ LET c2 == [Cur EXCEPT !.locals[n] = StrBase + s]
         over == M # Unl /\ Measure(c2) > M
     IN /\ ctxs' = [ctxs EXCEPT ![Len(ctxs)] = c2]        \* the value is stored before the limit is tested
        /\ status' = IF over THEN "LocalNamespaceLimitError" ELSE "ok"
        /\ peakHeld' = IF over THEN peakHeld
                       ELSE LET h == Sum(c2.locals) + (Held - Sum(Cur.locals)) IN IF h > peakHeld THEN h ELSE peakHeld
  /\ Step([op |-> "assign", n |-> n, s |-> s])
  /\ UNCHANGED <<L, M, bufs, lastIfc, lastCap, frames, bytesOut, outText>>

OpenCopy(kind) ==
  /\ CanOpen /\ Family = "namespace" /\ kind \in {"render", "call"}
  /\ ctxs' = Append(ctxs, [locals |-> [n \in NsNames |-> 0], carry |-> Measure(Cur)])
  /\ frames' = Append(frames, kind)
  /\ Step([op |-> kind, n |-> 0])
  /\ UNCHANGED <<L, M, bufs, lastIfc, lastCap, status, bytesOut, outText, peakHeld>>

OpenShared(kind) ==      \* include / for / with: same context, same namespace
  /\ CanOpen /\ kind \in {"include", "for"}
  /\ (kind = "for" => Family = "namespace")    \* a control-flow block without output of its own is rendered into a null buffer (suppress_blank_control_flow_blocks): its sub-buffers start from 0 — outside this family
  /\ (kind = "include" => \A i \in 1..Len(frames) : frames[i] \notin {"render", "call"})     \* include is disabled inside render / macros
  /\ frames' = Append(frames, kind)
  /\ Step([op |-> kind, n |-> 0])
  /\ UNCHANGED <<L, M, bufs, lastIfc, lastCap, ctxs, status, bytesOut, outText, peakHeld>>

CloseFrame ==
  /\ status = "ok" /\ frames # <<>> /\ frames[Len(frames)] \notin {"capture", "ifchanged"}
  /\ ctxs' = IF frames[Len(frames)] \in {"render", "call"} THEN SubSeq(ctxs, 1, Len(ctxs) - 1) ELSE ctxs
  /\ frames' = SubSeq(frames, 1, Len(frames) - 1)
  /\ Step([op |-> "close", n |-> 0])
  /\ UNCHANGED <<L, M, bufs, lastIfc, lastCap, status, bytesOut, outText, peakHeld>>

Next == \/ \E a \in Atoms : Write(a)
        \/ \E k \in {"capture", "ifchanged"} : OpenBuffer(k)
        \/ CloseBuffer \/ OutCap
        \/ \E n \in NsNames, s \in Sizes : Assign(n, s)
        \/ \E k \in {"render", "call"} : OpenCopy(k)
        \/ \E k \in {"include", "for"} : OpenShared(k)
        \/ CloseFrame

Spec == Init /\ [][Next]_vars

-----------------------------------------------------------------------------
(* REQUIREMENT *)
(* a completed render never returns more than L bytes *)
OutputBounded == (status = "ok" /\ L # Unl) => bytesOut <= L
(* the mechanism's top-level buffer is the ghost *)
TopIsGhost == status = "ok" => bufs[1].size = bytesOut
(* a write that takes the result beyond L raises (so a render whose unlimited output exceeds L cannot complete) *)
OverLimitRaises == [][(L # Unl /\ status = "ok" /\ bufs'[1].size > L) => status' = "OutputStreamLimitError"]_vars
(* a sub-buffer can never hold more than what is left of the budget of its parent at creation *)
SubBufferBounded == status = "ok" => \A i \in 1..Len(bufs) : (L # Unl => bufs[i].size <= bufs[i].limit)
(* what a context measures is exactly what the chain holds: the carry is the callers' total *)
CarryIsCallersTotal == Measure(Cur) = Held
NamespaceBounded == (M # Unl /\ status = "ok") => peakHeld <= M
(* limits only abort: the only effect of crossing a limit is the status *)
LimitsOnlyAbort == [][status' # "ok" => (bytesOut' = bytesOut /\ outText' = outText)]_vars

(* limit sets for the configs *)
LAll == {Unl} \cup 0..9
LNone == {Unl}
MNone == {Unl}
LSmall == {Unl, 0, 2, 4, 5, 7}
MAll == {Unl} \cup { b * StrBase + j : b \in 0..3, j \in {0, 1, 3, 4, 6} }
MSmall == {Unl, 0, StrBase, StrBase + 1, StrBase + 3, 2 * StrBase + 2, 2 * StrBase + 4, 3 * StrBase + 5}

Emit == (status # "ok" \/ (frames = <<>> /\ prog # <<>>))
          => PrintT(ToJson([family |-> Family, L |-> L, M |-> M, prog |-> prog, status |-> status, bytes |-> bytesOut, out |-> outText]))
=============================================================================
