----------------------------- MODULE ExitCells ------------------------------
(* C02 — emits the input space of Exits.tla (one cell per state; the exit    *)
(* automaton itself is checked in Exits.tla).  Stride / Offset select every   *)
(* Stride-th cell of a canonical order for the quick tier.                    *)
EXTENDS Naturals, Sequences, FiniteSets, TLC, Json
CONSTANTS Part, MaxLen, Stride, Offset
VARIABLES cell, mode, status, n
E == INSTANCE Exits
VARIABLE done
Init == cell \in E!Family /\ done = FALSE /\ mode = "strict" /\ status = "running" /\ n = 0
Next == ~done /\ done' = TRUE /\ UNCHANGED <<cell, mode, status, n>>
Spec == Init /\ [][Next]_<<cell, mode, status, n, done>>
Emit == done => PrintT(ToJson(cell))
=============================================================================
