------------------------------ MODULE TagState ------------------------------
(* Beyond the listed properties — the per-render state of the stateful tags: *)
(* cycle (keyed by group name, or by its argument list), ifchanged (one       *)
(* remembered text per render context), increment / decrement (a counter      *)
(* namespace of its own) and case/when (every matching `when` renders, once   *)
(* per matching value; an `else` renders iff no `when` before it matched).    *)
(* The state lives in RenderContext.tag_namespace / counters: shared with     *)
(* included partials, FRESH in rendered partials (copy does not carry it).    *)
(*                                                                           *)
(* A program is the body (<= MaxOps tags) of a loop that runs Iter times;     *)
(* each tag may stand directly in the body, in an included partial or in a    *)
(* rendered partial.  The machine executes the body tag by tag, iteration by  *)
(* iteration, and emits what each step must print.                            *)
EXTENDS Integers, Sequences, FiniteSets, TLC, Json

CONSTANTS MaxOps, Iter

CycleKinds == {"u2", "u3", "g2", "g3"}      \* unnamed with 2 / 3 items; group "g" with 2 / 3 items (sharing one index)
Items(k) == CASE k = "u2" -> <<"a", "b">> [] k = "u3" -> <<"a", "b", "c">> [] k = "g2" -> <<"x", "y">> [] k = "g3" -> <<"p", "q", "r">>
KeyOf(k) == IF k \in {"g2", "g3"} THEN "g" ELSE k
IfcKinds == {"const", "idx", "half"}
CaseKinds == {"w1", "w11", "w23e", "ew1", "w1ew2e"}
Base == { [op |-> "cycle", a |-> k] : k \in CycleKinds } \cup { [op |-> "ifchanged", a |-> k] : k \in IfcKinds }
        \cup { [op |-> o, a |-> "n"] : o \in {"incr", "decr"} } \cup { [op |-> "case", a |-> k] : k \in CaseKinds }
Ops == { [via |-> v, op |-> b.op, a |-> b.a] : v \in {"direct", "include", "render"}, b \in Base }

VARIABLES prog, it, k, cycles, last, counter, out
vars == <<prog, it, k, cycles, last, counter, out>>

Fresh == [cycles |-> [key \in {"u2", "u3", "g"} |-> 0], last |-> "", counter |-> 0]
Init == /\ prog \in UNION { [1..n -> Ops] : n \in 1..MaxOps }
        /\ it = 1 /\ k = 1
        /\ cycles = Fresh.cycles /\ last = Fresh.last /\ counter = Fresh.counter
        /\ out = <<>>

(* one tag executed in state s at iteration i: [text printed, state after] *)
Exec(o, s, i) ==
  CASE o.op = "cycle" ->
         LET key == KeyOf(o.a)  n == Len(Items(o.a))  idx == s.cycles[key]
         IN [text |-> IF idx >= n THEN "" ELSE Items(o.a)[idx + 1],
             s |-> [s EXCEPT !.cycles[key] = (idx + 1) % n]]
    [] o.op = "ifchanged" ->
         LET val == CASE o.a = "const" -> "K" [] o.a = "idx" -> ToString(i) [] OTHER -> ToString(i \div 2)
         IN [text |-> IF val # s.last THEN val ELSE "", s |-> [s EXCEPT !.last = val]]
    [] o.op = "incr" -> [text |-> ToString(s.counter), s |-> [s EXCEPT !.counter = @ + 1]]
    [] o.op = "decr" -> [text |-> ToString(s.counter - 1), s |-> [s EXCEPT !.counter = @ - 1]]
    [] OTHER ->
         [text |-> CASE o.a = "w1" -> (IF i = 1 THEN "W1" ELSE "")
                     [] o.a = "w11" -> (IF i = 1 THEN "W1W1" ELSE "")                 \* `when 1, 1`: once per matching value
                     [] o.a = "w23e" -> (IF i \in {2, 3} THEN "W23" ELSE "E")
                     [] o.a = "ew1" -> (IF i = 1 THEN "EW1" ELSE "E")                 \* an else before the when: nothing matched yet
                     [] OTHER -> (IF i = 1 THEN "W1" ELSE IF i = 2 THEN "E1W2" ELSE "E1E2"),
          s |-> s]

Step ==
  /\ it <= Iter
  /\ LET o == prog[k]
         cur == [cycles |-> cycles, last |-> last, counter |-> counter]
         r == Exec(o, IF o.via = "render" THEN Fresh ELSE cur, it)        \* a rendered partial starts from fresh tag state ...
         nxt == IF o.via = "render" THEN cur ELSE r.s                       \* ... and leaves the caller's untouched
     IN /\ out' = Append(out, r.text)
        /\ cycles' = nxt.cycles /\ last' = nxt.last /\ counter' = nxt.counter
  /\ IF k = Len(prog) THEN k' = 1 /\ it' = it + 1 ELSE k' = k + 1 /\ it' = it
  /\ UNCHANGED prog
Next == Step
Spec == Init /\ [][Next]_vars

Done == it = Iter + 1
(* counters and cycle indexes only move by the tags that own them *)
CyclesInRange == \A key \in DOMAIN cycles : cycles[key] \in 0..2
RenderLeavesCallerState ==
  [][(it <= Iter /\ prog[k].via = "render") => (cycles' = cycles /\ last' = last /\ counter' = counter)]_vars
Emit == Done => PrintT(ToJson([prog |-> prog, out |-> out]))
=============================================================================
