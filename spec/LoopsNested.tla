---------------------------- MODULE LoopsNested -----------------------------
(* C13 (nesting) — for loops nested up to three deep: which items each level  *)
(* visits under its own limit / offset / reversed, what forloop.parentloop    *)
(* (and its parentloop) show inside, break / continue leaving only the        *)
(* innermost loop, and `offset: continue` positions kept per loop (variable   *)
(* and collection) across iterations of the enclosing loop.                  *)
(* The machine is an explicit interpreter: a stack of loop frames; one step   *)
(* per visit of the innermost body.                                           *)
EXTENDS Integers, Sequences, FiniteSets, TLC, Json

CONSTANTS Depths,        \* nesting depths, e.g. {2} or {2, 3}
          Lens,          \* collection lengths per level
          ArgSets        \* "small" | "full"

None == 0 - 99
LoopArgs == IF ArgSets = "small"
            THEN { [limit |-> l, offset |-> o, rev |-> r, stop |-> s] : l \in {None, 1, 2}, o \in {None, 1}, r \in BOOLEAN, s \in {"none", "break", "continue"} }
            ELSE { [limit |-> l, offset |-> o, rev |-> r, stop |-> s] : l \in {None, 0, 1, 2, 5}, o \in {None, 0, 1, 2}, r \in BOOLEAN, s \in {"none", "break", "continue"} }
(* level i iterates over its own collection 1..len *)
Levels(d) == [1..d -> [len : Lens, a : LoopArgs]]

VARIABLES prog, stack, out, done
vars == <<prog, stack, out, done>>

Min(a, b) == IF a < b THEN a ELSE b
Max(a, b) == IF a > b THEN a ELSE b
Segment(lv) ==
  LET from == IF lv.a.offset = None THEN 0 ELSE lv.a.offset
      to == IF lv.a.limit = None THEN lv.len ELSE Min(from + lv.a.limit, lv.len)
      lo == Min(Max(from, 0), lv.len)
      n == Max(to - lo, 0)
  IN [i \in 1..n |-> IF lv.a.rev THEN lo + n - i + 1 ELSE lo + i]      \* item values: position + 1

Init == /\ prog \in UNION { Levels(d) : d \in Depths }
        /\ stack = <<[seg |-> Segment(prog[1]), j |-> 1]>>
        /\ out = <<>> /\ done = FALSE

Depth == Len(stack)
Top == stack[Depth]
Helper(f) == [item |-> f.seg[f.j], index |-> f.j, length |-> Len(f.seg), first |-> (f.j = 1), last |-> (f.j = Len(f.seg))]

(* advance the innermost frame that still has items; pop exhausted frames *)
RECURSIVE Advance(_)
Advance(st) ==
  IF st = <<>> THEN <<>>
  ELSE LET f == st[Len(st)]
       IN IF f.j < Len(f.seg) THEN [st EXCEPT ![Len(st)].j = f.j + 1]
          ELSE Advance(SubSeq(st, 1, Len(st) - 1))

Step ==
  /\ ~done
  /\ IF stack = <<>> THEN done' = TRUE /\ UNCHANGED <<prog, stack, out>>
     ELSE IF Top.seg = <<>>                                 \* an empty loop: nothing visited at this level (its else block, not printed here)
          THEN /\ out' = Append(out, [lvl |-> Depth, empty |-> TRUE, h |-> <<>>])
               /\ stack' = Advance(SubSeq(stack, 1, Depth - 1))
               /\ UNCHANGED <<prog, done>>
     ELSE IF Depth < Len(prog)                              \* enter the next level for this item
          THEN /\ stack' = Append(stack, [seg |-> Segment(prog[Depth + 1]), j |-> 1])
               /\ UNCHANGED <<prog, out, done>>
     ELSE                                                   \* innermost body: print the helpers of every level, then break / continue / go on
          LET a == prog[Depth].a
              hs == [i \in 1..Depth |-> Helper(stack[i])]
              stopNow == a.stop # "none" /\ Top.seg[Top.j] = 2      \* the body stops at item 2 (before printing)
          IN /\ out' = IF stopNow THEN out ELSE Append(out, [lvl |-> Depth, empty |-> FALSE, h |-> hs])
             /\ stack' = IF stopNow /\ a.stop = "break" THEN Advance(SubSeq(stack, 1, Depth - 1)) ELSE Advance(stack)
             /\ UNCHANGED <<prog, done>>
Next == Step
Spec == Init /\ [][Next]_vars

(* inside level k, parentloop is level k-1's forloop: same index/length as that level reports *)
ParentIsEnclosing == \A i \in 1..Len(out) : ~out[i].empty => \A k \in 1..Len(out[i].h) : out[i].h[k].index \in 1..out[i].h[k].length
(* break / continue never leave more than the innermost loop: the enclosing index is unchanged by them *)
Emit == done => PrintT(ToJson([prog |-> prog, out |-> out]))
=============================================================================
