--------------------------- MODULE LRUCache ---------------------------
(* liquid/utils/lru_cache.py : LRUCache, one action per public method.     *)
(* `cache` is the OrderedDict, least recently used first (as in the code). *)
(* `stored` is ghost truth, independent of the mechanism: the value most   *)
(* recently stored under each key since it was last absent (C24).          *)
EXTENDS Naturals, Sequences, FiniteSets, TLC, SequencesExt, Json

CONSTANTS Keys, Vals, Cap

VARIABLES cache, stored, last
vars == <<cache, stored, last>>

Absent == "!absent"
Has(c, k) == \E i \in 1..Len(c) : c[i][1] = k
ValOf(c, k) == LET i == CHOOSE i \in 1..Len(c) : c[i][1] = k IN c[i][2]
Without(c, k) == SelectSeq(c, LAMBDA e : e[1] # k)
KeysMRU(c) == [i \in 1..Len(c) |-> c[Len(c) + 1 - i][1]]
ValsMRU(c) == [i \in 1..Len(c) |-> c[Len(c) + 1 - i][2]]
ItemsMRU(c) == [i \in 1..Len(c) |-> c[Len(c) + 1 - i]]
Flat(c) == [i \in 1..(2 * Len(c)) |-> c[(i + 1) \div 2][IF i % 2 = 1 THEN 1 ELSE 2]]

Rec(op, k, v, ret) == [op |-> op, k |-> k, v |-> v, ret |-> ret, pre |-> Flat(cache)]

Init == /\ cache = <<>>
        /\ stored = [k \in Keys |-> Absent]
        /\ last = [op |-> "init", k |-> "", v |-> "", ret |-> <<>>, pre |-> <<>>]

(* __getitem__ : KeyError leaves everything alone; a hit moves k to the MRU end *)
Get(k) ==
  IF Has(cache, k)
  THEN /\ cache' = Append(Without(cache, k), <<k, ValOf(cache, k)>>)
       /\ last' = Rec("get", k, "", <<ValOf(cache, k)>>)
       /\ UNCHANGED stored
  ELSE /\ last' = Rec("get", k, "", <<"!KeyError">>)
       /\ UNCHANGED <<cache, stored>>

(* .get(k) : same as Get but None instead of KeyError *)
GetDefault(k) ==
  IF Has(cache, k)
  THEN /\ cache' = Append(Without(cache, k), <<k, ValOf(cache, k)>>)
       /\ last' = Rec("getd", k, "", <<ValOf(cache, k)>>)
       /\ UNCHANGED stored
  ELSE /\ last' = Rec("getd", k, "", <<"!None">>)
       /\ UNCHANGED <<cache, stored>>

(* __setitem__ : a present key is refreshed; a new key at capacity evicts Head *)
SetC(cap, k, v) ==
  LET base == IF Has(cache, k) THEN Without(cache, k)
              ELSE IF Len(cache) >= cap THEN Tail(cache) ELSE cache
      evicted == IF ~Has(cache, k) /\ Len(cache) >= cap THEN {cache[1][1]} ELSE {}
  IN /\ cache' = Append(base, <<k, v>>)
     /\ stored' = [x \in Keys |-> IF x = k THEN v ELSE IF x \in evicted THEN Absent ELSE stored[x]]
     /\ last' = Rec("set", k, v, <<"!None">>)

Set(k, v) == SetC(Cap, k, v)

Del(k) ==
  IF Has(cache, k)
  THEN /\ cache' = Without(cache, k)
       /\ stored' = [stored EXCEPT ![k] = Absent]
       /\ last' = Rec("del", k, "", <<"!None">>)
  ELSE /\ last' = Rec("del", k, "", <<"!KeyError">>)
       /\ UNCHANGED <<cache, stored>>

Member(k) ==
  /\ last' = Rec("contains", k, "", <<IF Has(cache, k) THEN "!True" ELSE "!False">>)
  /\ UNCHANGED <<cache, stored>>

Length ==
  /\ last' = Rec("len", "", "", <<ToString(Len(cache))>>)
  /\ UNCHANGED <<cache, stored>>

List(what) ==
  /\ last' = Rec(what, "", "", CASE what = "keys" -> KeysMRU(cache)
                                 [] what = "iter" -> KeysMRU(cache)
                                 [] what = "values" -> ValsMRU(cache)
                                 [] what = "items" -> Flat(ItemsMRU(cache)))
  /\ UNCHANGED <<cache, stored>>

Next == \/ \E k \in Keys : Get(k) \/ GetDefault(k) \/ Del(k) \/ Member(k)
        \/ \E k \in Keys, v \in Vals : Set(k, v)
        \/ Length
        \/ \E w \in {"keys", "iter", "values", "items"} : List(w)

Spec == Init /\ [][Next]_vars

-----------------------------------------------------------------------------
(* State invariants *)
Bounded == Len(cache) <= Cap
NoDup == \A i, j \in 1..Len(cache) : cache[i][1] = cache[j][1] => i = j
(* the mechanism agrees with ghost truth: present <=> stored, with the last stored value *)
ReturnsLastStored ==
  /\ \A k \in Keys : Has(cache, k) <=> stored[k] # Absent
  /\ \A k \in Keys : Has(cache, k) => ValOf(cache, k) = stored[k]
HitReturnsStored ==
  (last.op \in {"get", "getd"} /\ last.ret # <<"!KeyError">> /\ last.ret # <<"!None">>)
     => last.ret = <<stored[last.k]>>

(* Action properties *)
EvictsLRU ==
  [][\A k \in Keys :
        (Has(cache, k) /\ ~Has(cache', k)) =>
            \/ last'.op = "del" /\ last'.k = k
            \/ (last'.op = "set" /\ Len(cache) = Cap /\ ~Has(cache, last'.k) /\ cache[1][1] = k)]_vars
OnlyGetSetTouchRecency ==
  [][last'.op \in {"contains", "len", "keys", "iter", "values", "items"} => cache' = cache]_vars
TouchMovesToMRU ==
  [][(last'.op \in {"get", "getd", "set"} /\ Has(cache', last'.k)) =>
        /\ cache'[Len(cache')][1] = last'.k
        /\ Without(cache', last'.k) = Without(IF Len(cache') < Len(cache) + (IF Has(cache, last'.k) THEN 0 ELSE 1)
                                                THEN Tail(cache) ELSE cache, last'.k)]_vars
ListsMostRecentFirst ==
  (last.op \in {"keys", "iter"} /\ Len(cache) > 0) => last.ret[1] = cache[Len(cache)][1]

(* every distinct state is one transition (pre, op, args, ret, post): emitted for replay *)
Emit == last.op # "init" =>
          PrintT(ToJson([op |-> last.op, k |-> last.k, v |-> last.v, ret |-> last.ret,
                         pre |-> last.pre, post |-> Flat(cache), cap |-> Cap]))
=============================================================================
