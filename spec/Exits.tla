------------------------------- MODULE Exits --------------------------------
(* C02 — only Liquid errors escape parsing and rendering.                    *)
(*                                                                           *)
(* The exit automaton of one parse+render in a tolerance mode:               *)
(*   running --Parse--> parsed | LiquidError                                 *)
(*   parsed  --Node---> parsed            (a node renders, or its Liquid     *)
(*                                         error is suppressed: WARN / LAX)  *)
(*           --Node---> LiquidError       (STRICT, or an error that no mode  *)
(*                                         suppresses)                       *)
(*           --Done---> ok                                                   *)
(* There is deliberately NO action that leaves the automaton with any other  *)
(* exception type: an observed TypeError, ValueError, AssertionError,        *)
(* OverflowError, IndexError, KeyError, decimal.InvalidOperation,            *)
(* UnicodeDecodeError, RecursionError ... has no behaviour here.             *)
(*                                                                           *)
(* The INPUT SPACE is enumerated here (Part selects the family):             *)
(*   "filter0/1/2"  every registered filter x kind of left value x kinds of  *)
(*                  0, 1 or 2 arguments over the value lattice               *)
(*   "tagarg"       tag / expression carriers x kinds of one or two operands *)
(*   "deep"         deeply nested / very long expressions and blocks          *)
(*   "source"       every source string of <= MaxLen characters over a small *)
(*                  alphabet of markup characters                            *)
EXTENDS Naturals, Sequences, FiniteSets, TLC, Json

CONSTANTS Part, MaxLen, Stride, Offset      \* Stride/Offset: every Stride-th cell starting at Offset (stratified sampling for the quick tier)

Modes == {"strict", "warn", "lax"}

Filters == {"abs", "append", "at_least", "at_most", "base64_decode", "base64_encode", "base64_url_safe_decode", "base64_url_safe_encode",
            "capitalize", "ceil", "compact", "concat", "currency", "date", "datetime", "decimal", "default", "divided_by", "downcase",
            "escape", "escape_once", "escapejs", "find", "find_index", "first", "floor", "gettext", "has", "index", "join", "json", "last",
            "lstrip", "map", "minus", "modulo", "money", "money_with_currency", "money_without_currency", "money_without_trailing_zeros",
            "newline_to_br", "ngettext", "npgettext", "pgettext", "plus", "prepend", "reject", "remove", "remove_first", "remove_last",
            "replace", "replace_first", "replace_last", "reverse", "round", "rstrip", "safe", "script_tag", "size", "slice", "sort",
            "sort_natural", "sort_numeric", "split", "squish", "strip", "strip_html", "strip_newlines", "stylesheet_tag", "sum", "t", "times",
            "truncate", "truncatewords", "uniq", "unit", "upcase", "url_decode", "url_encode", "where", "nosuchfilter"}

(* kinds of value (concretised by the harness): the lattice of the property's quantifier *)
Vals == {"nil", "true", "false", "zero", "neg", "huge", "float", "inf", "nan", "empty", "abc", "digits", "exp", "nanstr", "percent",
         "badb64", "b64bin", "nonascii", "manydigits", "list", "nested", "dict", "dicts", "strs", "mixed", "range", "undefined", "date",
         "fmt", "neghuge", "tuple", "deep", "ts", "tsstr"}
ArgVals == {"nil", "zero", "neg", "huge", "float", "nan", "empty", "abc", "digits", "percent", "list", "dict", "undefined", "true", "neghuge"}

Carriers == {"for", "forlimit", "foroffset", "forboth", "tablerow", "tablerowcols", "tablerowlimit", "range", "rangeboth", "cycle", "cyclegroup",
             "case", "when", "lt", "le", "eq", "contains", "containsr", "and", "index", "indexr", "dot", "size", "first", "include", "includefor",
             "render", "renderfor", "with", "increment", "assign", "capture", "echo", "ternary", "unless", "ifchanged", "translate",
             "translatecount", "macrodefault", "callarg", "liquid", "extends", "block", "ifblank", "ifempty", "translatecontext"}

(* how many positional arguments a filter can take (one filter without parameters is kept in every family: argument-count errors) *)
Arity0 == {"abs", "base64_decode", "base64_encode", "base64_url_safe_decode", "base64_url_safe_encode", "capitalize", "ceil", "downcase",
           "escape", "escape_once", "escapejs", "first", "floor", "last", "lstrip", "newline_to_br", "reverse", "rstrip", "safe", "script_tag",
           "size", "squish", "strip", "strip_html", "strip_newlines", "stylesheet_tag", "url_decode", "url_encode"}
Arity2 == {"default", "find", "find_index", "has", "reject", "where", "replace", "replace_first", "replace_last", "slice", "truncate",
           "truncatewords", "ngettext", "npgettext", "pgettext", "t", "unit"}
FiltersWith(n) == IF n = 0 THEN Filters ELSE IF n = 1 THEN (Filters \ Arity0) \cup {"upcase"} ELSE Arity2 \cup {"upcase", "append"}
FilterCells(n) == { [part |-> "filter", f |-> f, left |-> l, args |-> a] : f \in FiltersWith(n), l \in Vals, a \in [1..n -> ArgVals] }
TagCells == { [part |-> "tagarg", c |-> c, x |-> x, y |-> y] : c \in Carriers, x \in Vals, y \in ArgVals }
Alphabet == {"{", "%", "}", "-", "#", " ", "a", "|"}
(* deeply nested / very long expressions and blocks: the parser and the evaluator recurse on them *)
DeepKinds == {"index", "and", "or", "not", "paren", "filterchain", "dots", "ternary", "ifnest", "fornest", "rangenest", "concat", "whenlist", "args"}
DeepCells == { [part |-> "deep", kind |-> k, depth |-> d] : k \in DeepKinds, d \in {50, 400, 3000} }
SourceCells == UNION { { [part |-> "source", s |-> s] : s \in [1..n -> Alphabet] } : n \in 0..MaxLen }

VARIABLES cell, mode, status, n
vars == <<cell, mode, status, n>>

Family == CASE Part = "filter0" -> FilterCells(0) [] Part = "filter1" -> FilterCells(1) [] Part = "filter2" -> FilterCells(2)
            [] Part = "tagarg" -> TagCells [] Part = "deep" -> DeepCells [] OTHER -> SourceCells

Init == cell \in Family /\ mode \in Modes /\ status = "running" /\ n = 0
Parse == /\ status = "running" /\ \/ status' = "parsed" \/ status' = "LiquidError"
         /\ UNCHANGED <<cell, mode, n>>
Node == /\ status = "parsed" /\ n < 2
        /\ \/ status' = "parsed"
           \/ (status' = "LiquidError")          \* raised in STRICT; in WARN / LAX only errors no mode suppresses
        /\ n' = n + 1 /\ UNCHANGED <<cell, mode>>
Finish == status = "parsed" /\ status' = "ok" /\ UNCHANGED <<cell, mode, n>>
Next == Parse \/ Node \/ Finish
Spec == Init /\ [][Next]_vars
OnlyLiquidExits == status \in {"running", "parsed", "ok", "LiquidError"}
=============================================================================
