------------------------------- MODULE Paths --------------------------------
(* C14 (second half) — dotted, bracketed, quoted, negative-index and nested-  *)
(* variable paths with size / first / last over nested data; anything missing *)
(* resolves to the undefined value.                                           *)
(* The data tree is fixed (a table of nodes); a path is the root `d` followed *)
(* by up to MaxSegs segments.  One action per segment, as RenderContext.get   *)
(* walks them (liquid/context.py get / get_item).                             *)
EXTENDS Integers, Sequences, FiniteSets, TLC, Json

CONSTANTS MaxSegs

(* ---- the data:  d = { x: {y: "dxy", "z z": "dxzz", l: ["dxl0","dxl1"]},            *)
(*                       l: ["dl0", ["dl10","dl11"], {x: "dl2x"}], s: "str", e: [] } *)
(*  helper variables:  kx = "x", i1 = 1, q = {r: "l"}, um is not defined               *)
Kind == [D |-> "dict", DX |-> "dict", DXL |-> "list", DL |-> "list", DL1 |-> "list", DL2 |-> "dict", DS |-> "str", DE |-> "list"]
(* every value is a record whose field set tells its type apart (TLC cannot compare a string with a record) *)
Node(id) == [t |-> "node", id |-> id]
Leaf(v) == [t |-> "leaf", s |-> v]
IntV(n) == [t |-> "int", n |-> n]
Undef == [t |-> "undef"]
DictItems == [D   |-> <<<<"x", Node("DX")>>, <<"l", Node("DL")>>, <<"s", Node("DS")>>, <<"e", Node("DE")>>>>,
              DX  |-> <<<<"y", Leaf("dxy")>>, <<"z z", Leaf("dxzz")>>, <<"l", Node("DXL")>>>>,
              DL2 |-> <<<<"x", Leaf("dl2x")>>>>]
ListItems == [DXL |-> <<Leaf("dxl0"), Leaf("dxl1")>>,
              DL  |-> <<Leaf("dl0"), Node("DL1"), Node("DL2")>>,
              DL1 |-> <<Leaf("dl10"), Leaf("dl11")>>,
              DE  |-> <<>>]
StrLen == [DS |-> 3]
LeafLen == [dxy |-> 3, dxzz |-> 4, dxl0 |-> 4, dxl1 |-> 4, dl0 |-> 3, dl10 |-> 4, dl11 |-> 4, dl2x |-> 4]
IsNode(x) == x.t = "node"
IsLeaf(x) == x.t = "leaf"
IsInt(x) == x.t = "int"
KindOf(x) == Kind[x.id]

Keys == {"x", "y", "z z", "l", "s", "e", "nope"}
Idxs == {0, 1, 2, 0 - 1, 0 - 3, 7}
Specials == {"size", "first", "last"}
VarVal == [kx |-> [t |-> "key", k |-> "x"], i1 |-> [t |-> "idx", i |-> 1], qr |-> [t |-> "key", k |-> "l"]]   \* `um` is undefined
Segs == { [t |-> "key", k |-> k] : k \in Keys } \cup { [t |-> "idx", i |-> i] : i \in Idxs }
        \cup { [t |-> "special", k |-> k] : k \in Specials } \cup { [t |-> "var", name |-> v] : v \in {"kx", "i1", "qr", "um"} }
Paths == UNION { [1..n -> Segs] : n \in 0..MaxSegs }

VARIABLES path, i, cur, unspec
vars == <<path, i, cur, unspec>>

Init == path \in Paths /\ i = 1 /\ cur = Node("D") /\ unspec = FALSE

HasKey(id, k) == \E j \in 1..Len(DictItems[id]) : DictItems[id][j][1] = k
ChildOf(id, k) == DictItems[id][CHOOSE j \in 1..Len(DictItems[id]) : DictItems[id][j][1] = k][2]

GetKey(x, k) == IF IsNode(x) /\ KindOf(x) = "dict" /\ HasKey(x.id, k) THEN ChildOf(x.id, k) ELSE Undef
GetIdx(x, n) ==
  IF IsNode(x) /\ KindOf(x) = "list"
  THEN LET len == Len(ListItems[x.id])
           pos == IF n < 0 THEN len + n + 1 ELSE n + 1         \* negative indexes count from the end
       IN IF pos >= 1 /\ pos <= len THEN ListItems[x.id][pos] ELSE Undef
  ELSE Undef
SizeOf(x) == IF IsNode(x) THEN (IF KindOf(x) = "dict" THEN IntV(Len(DictItems[x.id]))
                                ELSE IF KindOf(x) = "list" THEN IntV(Len(ListItems[x.id]))
                                ELSE IntV(StrLen[x.id]))
             ELSE IF IsLeaf(x) THEN IntV(LeafLen[x.s])
             ELSE Undef
GetSpecial(x, k) ==
  IF k = "size" THEN SizeOf(x)
  ELSE IF IsNode(x) /\ KindOf(x) = "list"
       THEN (IF ListItems[x.id] = <<>> THEN Undef ELSE IF k = "first" THEN ListItems[x.id][1] ELSE ListItems[x.id][Len(ListItems[x.id])])
  ELSE Undef

(* cells the documentation does not fix: first/last of a hash or a string, an index into a string, size of a number *)
Unspecified(x, seg) ==
  \/ (seg.t = "special" /\ seg.k \in {"first", "last"} /\ (IsLeaf(x) \/ (IsNode(x) /\ KindOf(x) \in {"dict", "str"})))
  \/ (seg.t = "idx" /\ (IsLeaf(x) \/ (IsNode(x) /\ KindOf(x) = "str")))
  \/ (seg.t = "special" /\ seg.k = "size" /\ IsInt(x))

Apply(x, seg) ==
  IF x = Undef THEN Undef                                   \* anything below something missing is missing
  ELSE IF seg.t = "key" THEN GetKey(x, seg.k)
  ELSE IF seg.t = "idx" THEN GetIdx(x, seg.i)
  ELSE IF seg.t = "special" THEN GetSpecial(x, seg.k)
  ELSE IF seg.name = "um" THEN Undef                          \* a bracketed variable that is itself undefined
  ELSE LET s == VarVal[seg.name] IN IF s.t = "key" THEN GetKey(x, s.k) ELSE GetIdx(x, s.i)

Step == /\ i <= Len(path)
        /\ cur' = Apply(cur, path[i])
        /\ unspec' = (unspec \/ (cur # Undef /\ Unspecified(cur, IF path[i].t = "var" /\ path[i].name # "um" THEN VarVal[path[i].name] ELSE path[i])))
        /\ i' = i + 1
        /\ UNCHANGED path
Next == Step
Spec == Init /\ [][Next]_vars

-----------------------------------------------------------------------------
Done == i = Len(path) + 1
UndefinedIsSticky == [][cur = Undef => cur' = Undef]_vars
SizeIsLength == [][(i <= Len(path) /\ path[i] = [t |-> "special", k |-> "size"] /\ IsNode(cur) /\ KindOf(cur) = "list")
                     => cur' = IntV(Len(ListItems[cur.id]))]_vars
NegativeIndexFromEnd ==
  [][(i <= Len(path) /\ path[i].t = "idx" /\ IsNode(cur) /\ KindOf(cur) = "list") =>
        LET n == path[i].i  len == Len(ListItems[cur.id]) IN
        (n < 0 /\ 0 - n <= len) => cur' = ListItems[cur.id][len + n + 1]]_vars
FirstLastAreEnds ==
  [][(i <= Len(path) /\ path[i].t = "special" /\ IsNode(cur) /\ KindOf(cur) = "list" /\ ListItems[cur.id] # <<>>) =>
        /\ (path[i].k = "first" => cur' = GetIdx(cur, 0))
        /\ (path[i].k = "last" => cur' = GetIdx(cur, 0 - 1))]_vars

Result == IF cur = Undef THEN [kind |-> "undef", v |-> ""]
          ELSE IF IsNode(cur) THEN [kind |-> "node", v |-> cur.id]
          ELSE IF IsLeaf(cur) THEN [kind |-> "str", v |-> cur.s]
          ELSE [kind |-> "int", v |-> ToString(cur.n)]
Emit == Done => PrintT(ToJson([path |-> path, result |-> Result, unspec |-> unspec]))
=============================================================================
