---------------------------- MODULE PathHistory ----------------------------
(* C22 over HISTORIES: the file system changes between requests to one      *)
(* (possibly caching) loader.  Every answer must be admissible for the file *)
(* system AS IT IS when the request is made: a loader may not keep trusting *)
(* a path it resolved earlier (a file replaced by a link out of the search  *)
(* path, a directory replaced by a link, ...).                              *)
EXTENDS PathDefs

CONSTANT MaxOps

VARIABLES fs, hist, answer
hvars == <<fs, hist, answer>>

ReqNames == { <<"a.txt">>, <<"sub", "b.txt">>, <<"link_in.txt">> }
Mutations == {"file_to_outlink", "outlink_to_file", "dir_to_outlink", "touch", "delete"}

KindOf(p) == IF p \in DOMAIN fs THEN fs[p].t ELSE "absent"

HInit == fs = FS0 /\ hist = <<>> /\ answer = "none"

Req(cs, reject) ==
  /\ answer' = OutcomeIn(fs, "rel", cs, "none", reject)
  /\ hist' = Append(hist, [op |-> "req", cs |-> cs, expect |-> answer'])
  /\ UNCHANGED fs

Mutate(m) ==
  /\ CASE m = "file_to_outlink" ->     \* root/a.txt becomes a symlink to outside/secret.txt
            /\ KindOf(<<"root", "a.txt">>) = "file"
            /\ fs' = [fs EXCEPT ![<<"root", "a.txt">>] = Lnk(<<"outside", "secret.txt">>)]
       [] m = "outlink_to_file" ->     \* and back to a regular file with new content
            /\ KindOf(<<"root", "a.txt">>) = "link"
            /\ fs' = [fs EXCEPT ![<<"root", "a.txt">>] = F("in:a.txt#2")]
       [] m = "dir_to_outlink" ->      \* root/sub becomes a symlink to outside (outside/b.txt appears)
            /\ KindOf(<<"root", "sub">>) = "dir"
            /\ fs' = [p \in (DOMAIN fs \cup {<<"outside", "b.txt">>}) |->
                        IF p = <<"root", "sub">> THEN Lnk(<<"outside">>)
                        ELSE IF p = <<"outside", "b.txt">> THEN F("OUT:b.txt")
                        ELSE fs[p]]
       [] m = "touch" ->               \* same place, new content
            /\ KindOf(<<"root", "a.txt">>) = "file"
            /\ fs' = [fs EXCEPT ![<<"root", "a.txt">>] = F("in:a.txt#2")]
       [] m = "delete" ->
            /\ KindOf(<<"root", "a.txt">>) = "file"
            /\ fs' = [p \in DOMAIN fs \ {<<"root", "a.txt">>} |-> fs[p]]
  /\ hist' = Append(hist, [op |-> "mutate", m |-> m])
  /\ UNCHANGED answer

HNext == /\ Len(hist) < MaxOps
         /\ \/ \E cs \in ReqNames : Req(cs, TRUE)
            \/ \E m \in Mutations : Mutate(m)
HSpec == HInit /\ [][HNext]_hvars

HInside == { fs[p].c : p \in { q \in DOMAIN fs : fs[q].t = "file" /\ q[1] = "root" } }
(* symlink rejection is on for every request of this family: nothing from outside, ever *)
NeverOutside == answer \in HInside \cup {"none", NotFound} \cup {"in:a.txt", "in:a.txt#2", "in:sub/b.txt"}
AnswerIsCurrent == (hist # <<>> /\ hist[Len(hist)].op = "req") => answer = OutcomeIn(fs, "rel", hist[Len(hist)].cs, "none", TRUE)
HEmit == (hist # <<>> /\ hist[Len(hist)].op = "req" /\ \E i \in 1..Len(hist) : hist[i].op = "mutate")
            => PrintT(ToJson([steps |-> hist]))
=============================================================================
