------------------------------- MODULE Scope -------------------------------
(* C14 / C15 — name resolution in a render context.                          *)
(*                                                                           *)
(* MECHANISM (liquid/context.py, liquid/template.py): a RenderContext owns a  *)
(* chain of namespaces  pushed* |> locals |> globals-chain |> builtin |>      *)
(* counters.  `extend` pushes/pops a namespace on the front (for, tablerow,   *)
(* with, include arguments, the partial namespace); `assign` writes `locals`; *)
(* `copy` (render tag, macro call) makes a NEW context whose locals, counters *)
(* and loop stack are empty and whose globals-chain is  arguments |> the      *)
(* PARENT'S globals-chain (never the parent's scope); the top-level globals-  *)
(* chain is render arguments |> front matter |> template globals |>           *)
(* environment globals.  include renders the partial in the caller's context. *)
(* break / continue unwind every namespace pushed since the innermost loop.   *)
(*                                                                           *)
(* The environment of this module is the *template*: it may issue the        *)
(* binding constructs in any well-nested order (every template over these     *)
(* constructs up to MaxOps steps), and after every step every name is read,   *)
(* together with forloop and forloop.parentloop.                              *)
(* The history `prog` carries, per step, what each read must print; closed    *)
(* programs are emitted and replayed into the real engine.                    *)
(*                                                                           *)
(* REQUIREMENT (the property statements) as invariants / action properties:   *)
(*   InnermostBinding, AssignWritesTopLevel, BlockScopeVanishes (C14)         *)
(*   Isolation, CallerUnaffected, IncludeDisabledInsideRender (C15)           *)
EXTENDS Integers, Sequences, FiniteSets, TLC, Json

CONSTANTS Names,         \* the family's variable names, e.g. {"a"} or {"a","b"}
          MaxOps,        \* steps per template
          MaxDepth,      \* nesting of open constructs
          GlobalSets,    \* which global layers bind every name: a set of subsets of LayerSet
          NilVals,       \* BOOLEAN: binders may also bind nil (a binding to nil still ends the lookup)
          Interrupts,    \* BOOLEAN: break / continue inside loops
          Leaves,        \* BOOLEAN: one shared partial `leaf` (it only reads every name) may be included / rendered any number of times
          OnlyOps        \* restriction of the family to these step kinds ({} = no restriction): deeper programs of a narrow shape

LayerSet == {"rargs", "matter", "tglobals", "eglobals"}
LayerOrder == <<"rargs", "matter", "tglobals", "eglobals">>
Absent == "-"
Nil == "nil"

PushOps == {"for", "tablerow", "with", "include"}      \* push a namespace binding n on the current context
CopyOps == {"render", "call", "render0", "callnoarg"}  \* run the body in a copied (isolated) context
LoopOps == {"for", "tablerow"}

VARIABLES glob,      \* SUBSET LayerSet : global layers that bind the names (value = layer \o ":" \o name)
          ctxs,      \* stack of contexts, innermost LAST
          frames,    \* stack of open constructs, innermost LAST
          prog,      \* history: one record per step
          status
vars == <<glob, ctxs, frames, prog, status>>

NoLocals == [n \in Names |-> Absent]
NoCounters == [n \in Names |-> 0]
NewCtx(kind, gargs) == [kind |-> kind, pushed |-> <<>>, locals |-> NoLocals, gargs |-> gargs,
                        counters |-> NoCounters, counted |-> {}, disabled |-> (kind # "top")]
Cur == ctxs[Len(ctxs)]

-----------------------------------------------------------------------------
(* MECHANISM: lookup through the chain of one context (d = its depth in ctxs) *)
Bound(seq, n) == \E i \in 1..Len(seq) : seq[i].n = n
First(seq, n) == seq[CHOOSE i \in 1..Len(seq) : seq[i].n = n /\ \A j \in 1..(i - 1) : seq[j].n # n]

GlobalLayer ==      \* first global layer binding the names, or Absent
  IF \E i \in 1..4 : LayerOrder[i] \in glob
  THEN LayerOrder[CHOOSE i \in 1..4 : LayerOrder[i] \in glob /\ \A j \in 1..(i - 1) : LayerOrder[j] \notin glob]
  ELSE Absent

Lookup(c, d, n) ==
  IF Bound(c.pushed, n) THEN [v |-> First(c.pushed, n).v, layer |-> "pushed", org |-> First(c.pushed, n).org]
  ELSE IF c.locals[n] # Absent THEN [v |-> c.locals[n], layer |-> "locals", org |-> d]
  ELSE IF Bound(c.gargs, n) THEN [v |-> First(c.gargs, n).v,
                                  layer |-> IF First(c.gargs, n).own THEN "args" ELSE "outerargs", org |-> First(c.gargs, n).org]
  ELSE IF GlobalLayer # Absent THEN [v |-> GlobalLayer \o ":" \o n, layer |-> GlobalLayer, org |-> 0]
  ELSE IF n \in c.counted THEN [v |-> ToString(c.counters[n]), layer |-> "counters", org |-> d]
  ELSE [v |-> "", layer |-> "none", org |-> 0]

(* for-loops open in the current context: frames above the innermost copy boundary *)
LastCopy(fs) == IF \E j \in 1..Len(fs) : fs[j].op \in CopyOps
                THEN CHOOSE j \in 1..Len(fs) : fs[j].op \in CopyOps /\ \A k \in (j + 1)..Len(fs) : fs[k].op \notin CopyOps
                ELSE 0
ForDepth(fs) == Cardinality({j \in (LastCopy(fs) + 1)..Len(fs) : fs[j].op = "for"})

(* what a step observes afterwards: every name, whether `forloop` is visible and whether it has a parentloop *)
Obs(c, d, fs) == [fs |-> fs, reads |-> [n \in Names |-> Lookup(c, d, n)],
                  fl |-> IF ForDepth(fs) >= 1 THEN "1" ELSE "",
                  pl |-> IF ForDepth(fs) >= 2 THEN "1" ELSE ""]
(* C19: a read of n is EXEMPT from "must be reported as a global" when it is inside a construct binding n (any open frame, *)
(* also across partial boundaries - the conservative reading) or preceded in source order by an assignment to n        *)
AssignOps == {"assign", "capture", "incr", "decr"}
Exempt(fs, op, m) == {n \in Names : (\E j \in 1..Len(fs) : fs[j].n = n /\ fs[j].op \in PushOps \cup {"render", "call", "callnoarg"})
                                     \/ (\E i \in 1..Len(prog) : prog[i].op \in AssignOps /\ prog[i].n = n)
                                     \/ (op \in AssignOps /\ m = n)}
Rec(op, n, v, o) == [op |-> op, n |-> n, v |-> v, reads |-> o.reads, fl |-> o.fl, pl |-> o.pl, ex |-> Exempt(o.fs, op, n)]
OpsNoFilter == {}
OpsLeafLoops == {"for", "tablerow", "with", "incleaf", "close"}        \* the shared partial reached from inside and after binding blocks
Step(rec) == (OnlyOps = {} \/ rec.op \in OnlyOps) /\ prog' = Append(prog, rec)
K == Len(prog) + 1                       \* index of the step being taken: makes every bound value unique
Val(tag) == tag \o ToString(K)
Vals(tag) == IF NilVals THEN {Val(tag), Nil} ELSE {Val(tag)}
Saved == [n \in Names |-> Lookup(Cur, Len(ctxs), n)]

-----------------------------------------------------------------------------
(* ACTIONS — one per binding construct of the engine *)
CanStep == status = "ok" /\ Len(prog) < MaxOps
CanOpen == CanStep /\ Len(frames) < MaxDepth

SetCur(c) == ctxs' = [ctxs EXCEPT ![Len(ctxs)] = c]
Frame(op, n, v) == [op |-> op, n |-> n, v |-> v, saved |-> Saved, assigned |-> {}]

(* for / tablerow / with / include-with-argument: `extend` pushes a namespace on the CURRENT context *)
OpenPush(op, n) ==
  /\ CanOpen /\ op \in PushOps
  /\ ~(op = "include" /\ Cur.disabled)
  /\ \E v \in Vals(op) :
       LET c2 == [Cur EXCEPT !.pushed = <<[n |-> n, v |-> v, org |-> Len(ctxs)]>> \o @]
           nf == Append(frames, Frame(op, n, v))
       IN /\ SetCur(c2) /\ frames' = nf
          /\ Step(Rec(op, n, v, Obs(c2, Len(ctxs), nf)))
  /\ UNCHANGED <<glob, status>>

OpenInclude0 ==
  /\ CanOpen /\ ~Cur.disabled
  /\ LET nf == Append(frames, Frame("include0", Absent, Val("p")))
     IN /\ frames' = nf /\ Step(Rec("include0", Absent, Val("p"), Obs(Cur, Len(ctxs), nf)))
  /\ UNCHANGED <<glob, ctxs, status>>

(* the include tag is disabled inside a rendered partial and inside a macro *)
IncludeRefused ==
  /\ CanOpen /\ Cur.disabled
  /\ status' = "DisabledTagError"
  /\ Step(Rec("include0", Absent, Val("p"), Obs(Cur, Len(ctxs), frames)))
  /\ UNCHANGED <<glob, ctxs, frames>>

(* render tag / macro call: `copy` — a new context; arguments go in FRONT of the parent's globals chain. *)
(* callnoarg: the macro declares parameter n without a default and the call omits it: n is bound to the  *)
(* undefined value inside the macro, whatever the caller or the globals bind n to.                      *)
OpenCopy(op, n) ==
  /\ CanOpen /\ op \in CopyOps
  /\ \E v \in (IF op \in {"render", "call"} THEN Vals(op) ELSE {Val(op)}) :
       LET mine == IF op = "render0" THEN <<>>
                   ELSE <<[n |-> n, v |-> IF op = "callnoarg" THEN "" ELSE v, own |-> TRUE, org |-> Len(ctxs) + 1]>>
           inherited == [i \in 1..Len(Cur.gargs) |-> [Cur.gargs[i] EXCEPT !.own = FALSE]]
           c2 == NewCtx(IF op \in {"call", "callnoarg"} THEN "call" ELSE "render", mine \o inherited)
           nf == Append(frames, Frame(op, n, v))
       IN /\ ctxs' = Append(ctxs, c2) /\ frames' = nf
          /\ Step(Rec(op, n, v, Obs(c2, Len(ctxs) + 1, nf)))
  /\ UNCHANGED <<glob, status>>

NoteAssigned(fs, n) == [i \in 1..Len(fs) |-> [fs[i] EXCEPT !.assigned = @ \cup {<<n, Len(ctxs)>>}]]

(* assign / capture always write the locals of the current context, whatever is pushed *)
Assign(op, n) ==
  /\ CanStep /\ op \in {"assign", "capture"}
  /\ \E v \in (IF op = "assign" THEN Vals(op) ELSE {Val(op)}) :
       LET c2 == [Cur EXCEPT !.locals[n] = v]
       IN /\ SetCur(c2) /\ Step(Rec(op, n, v, Obs(c2, Len(ctxs), frames)))
  /\ frames' = NoteAssigned(frames, n)
  /\ UNCHANGED <<glob, status>>

(* increment prints the counter then adds one; decrement subtracts one then prints *)
Count(op, n) ==
  /\ CanStep /\ op \in {"incr", "decr"}
  /\ LET new == IF op = "incr" THEN Cur.counters[n] + 1 ELSE Cur.counters[n] - 1
         shown == IF op = "incr" THEN Cur.counters[n] ELSE new
         c2 == [Cur EXCEPT !.counters[n] = new, !.counted = @ \cup {n}]
     IN /\ SetCur(c2) /\ Step(Rec(op, n, ToString(shown), Obs(c2, Len(ctxs), frames)))
  /\ frames' = NoteAssigned(frames, n)
  /\ UNCHANGED <<glob, status>>

Close ==
  /\ status = "ok" /\ frames # <<>>
  /\ LET f == frames[Len(frames)]
         cs == IF f.op \in CopyOps THEN SubSeq(ctxs, 1, Len(ctxs) - 1)
               ELSE IF f.op = "include0" THEN ctxs
               ELSE [ctxs EXCEPT ![Len(ctxs)].pushed = Tail(@)]
         nf == SubSeq(frames, 1, Len(frames) - 1)
     IN /\ ctxs' = cs /\ frames' = nf
        /\ Step(Rec("close", f.op, "", Obs(cs[Len(cs)], Len(cs), nf)))
  /\ UNCHANGED <<glob, status>>

(* the shared partial `leaf` (body: the reads) included in the current context, or rendered in a copy of it *)
IncludeLeaf ==
  /\ Leaves /\ CanStep /\ ~Cur.disabled
  /\ Step(Rec("incleaf", Absent, "", Obs(Cur, Len(ctxs), frames)))
  /\ UNCHANGED <<glob, ctxs, frames, status>>
RenderLeaf ==
  /\ Leaves /\ CanStep
  /\ LET inherited == [i \in 1..Len(Cur.gargs) |-> [Cur.gargs[i] EXCEPT !.own = FALSE]]
         c2 == NewCtx("render", inherited)
     IN Step(Rec("renderleaf", Absent, "", Obs(c2, Len(ctxs) + 1, Append(frames, Frame("render0", Absent, "")))))
  /\ UNCHANGED <<glob, ctxs, frames, status>>

(* break / continue (the loops of this family have one item, so both end the loop): every construct opened *)
(* since the innermost loop of the current context is abandoned and its pushed namespace must be popped    *)
InnermostLoop == CHOOSE j \in (LastCopy(frames) + 1)..Len(frames) :
                     frames[j].op \in LoopOps /\ \A k \in (j + 1)..Len(frames) : frames[k].op \notin LoopOps
Interrupt ==
  /\ Interrupts /\ CanStep
  /\ \E j \in (LastCopy(frames) + 1)..Len(frames) : frames[j].op \in LoopOps
  /\ LET j == InnermostLoop
         npush == Cardinality({k \in j..Len(frames) : frames[k].op \in PushOps})
         c2 == [Cur EXCEPT !.pushed = SubSeq(@, npush + 1, Len(@))]
         nf == SubSeq(frames, 1, j - 1)
     IN /\ SetCur(c2) /\ frames' = nf
        /\ Step(Rec("break", ToString(Len(frames) - j + 1), "", Obs(c2, Len(ctxs), nf)))
  /\ UNCHANGED <<glob, status>>

Next == \/ \E op \in PushOps, n \in Names : OpenPush(op, n)
        \/ OpenInclude0 \/ IncludeRefused
        \/ \E op \in {"render", "call", "callnoarg"}, n \in Names : OpenCopy(op, n)
        \/ OpenCopy("render0", CHOOSE m \in Names : TRUE)
        \/ \E op \in {"assign", "capture"}, n \in Names : Assign(op, n)
        \/ \E op \in {"incr", "decr"}, n \in Names : Count(op, n)
        \/ Close
        \/ Interrupt
        \/ IncludeLeaf \/ RenderLeaf

Init == /\ glob \in GlobalSets
        /\ ctxs = <<NewCtx("top", <<>>)>>
        /\ frames = <<>> /\ prog = <<>> /\ status = "ok"

Spec == Init /\ [][Next]_vars

-----------------------------------------------------------------------------
(* REQUIREMENT *)

(* C14: "loop and block variables, then assigned or captured variables, then render arguments, then front matter *)
(* and template globals, then environment globals, [...] then increment/decrement counters" — stated over the    *)
(* constructs still open (frames), independently of the chain-of-maps mechanism.                                 *)
OpenBinder(n) ==    \* innermost open push-style construct of the current context that binds n, or 0
  LET js == {j \in (LastCopy(frames) + 1)..Len(frames) : frames[j].op \in PushOps /\ frames[j].n = n}
  IN IF js = {} THEN 0 ELSE CHOOSE j \in js : \A k \in js : k <= j

InnermostBinding ==
  \A n \in Names :
    LET ob == OpenBinder(n)  r == Lookup(Cur, Len(ctxs), n) IN
    /\ (ob # 0 => (r.layer = "pushed" /\ r.v = frames[ob].v))
    /\ (ob = 0 /\ Cur.locals[n] # Absent => r.layer = "locals")
    /\ (r.layer \in LayerSet => \A i \in 1..4 : LayerOrder[i] \in glob => \E j \in 1..i : LayerOrder[j] = r.layer)
    /\ (r.layer = "counters" => glob = {})

(* assign/capture write the top-level scope of the current template context, even under pushed namespaces *)
AssignWritesTopLevel ==
  [][\A n \in Names : (prog' # prog /\ prog'[Len(prog')].op \in {"assign", "capture"} /\ prog'[Len(prog')].n = n) =>
        /\ ctxs'[Len(ctxs')].locals[n] = prog'[Len(prog')].v
        /\ ctxs'[Len(ctxs')].pushed = ctxs[Len(ctxs)].pushed]_vars

(* after a block closes (normally, or abandoned by break/continue) every name reads as it did before the block *)
(* opened, unless assigned/counted meanwhile in a context that survives the block                               *)
Restored(f) == \A n \in Names : (~\E d \in 1..Len(ctxs') : <<n, d>> \in f.assigned)
                                  => Lookup(ctxs'[Len(ctxs')], Len(ctxs'), n) = f.saved[n]
BlockScopeVanishes ==
  [][/\ (prog' # prog /\ prog'[Len(prog')].op = "close") => Restored(frames[Len(frames)])
     /\ (prog' # prog /\ prog'[Len(prog')].op = "break") => Restored(frames[Len(frames')  + 1])]_vars

(* C15: inside a rendered partial or a macro no read is answered by a binding made in an enclosing context's      *)
(* locals or pushed namespaces (forloop / parentloop: Obs counts only loops above the copy boundary)              *)
Isolation ==
  Cur.kind \in {"render", "call"} =>
     \A n \in Names : LET r == Lookup(Cur, Len(ctxs), n) IN r.layer \in {"pushed", "locals", "counters"} => r.org = Len(ctxs)

(* ... and nothing the partial / macro assigns or counts is visible to the caller afterwards *)
CallerUnaffected ==
  [][(prog' # prog /\ prog'[Len(prog')].op = "close" /\ frames[Len(frames)].op \in CopyOps) =>
        /\ \A n \in Names : Lookup(ctxs'[Len(ctxs')], Len(ctxs'), n) = frames[Len(frames)].saved[n]
        /\ ctxs'[Len(ctxs')] = ctxs[Len(ctxs) - 1]]_vars

IncludeDisabledInsideRender == status = "DisabledTagError" => Cur.kind \in {"render", "call"}

Balanced == /\ Len(ctxs) = 1 + Cardinality({i \in 1..Len(frames) : frames[i].op \in CopyOps})
            /\ Len(Cur.pushed) = Cardinality({j \in (LastCopy(frames) + 1)..Len(frames) : frames[j].op \in PushOps})

(* the global-layer configurations used by the configs: adjacent layers are told apart by one of them *)
GlobalsQuick == {{}, {"eglobals"}, {"tglobals", "eglobals"}, {"matter", "tglobals", "eglobals"}, LayerSet}
GlobalsAll == SUBSET LayerSet
GlobalsNone == {{}}
GlobalsEnv == {{"eglobals"}}
GlobalsArgs == {{"rargs"}}

(* C19: root names a render reads from the render arguments / globals at a non-exempt reference: static analysis must report them as globals *)
MustGlobals == {n \in Names : \E i \in 1..Len(prog) : prog[i].reads[n].layer \in LayerSet /\ n \notin prog[i].ex}
(* the same when only the shared partial `leaf` contains references (the main template and the other partials read nothing) *)
MustGlobalsLeaf == {n \in Names : \E i \in 1..Len(prog) : prog[i].op \in {"incleaf", "renderleaf"}
                                                            /\ prog[i].reads[n].layer \in LayerSet /\ n \notin prog[i].ex}
-----------------------------------------------------------------------------
(* every closed program (and every program stopped by an error) is emitted; each step carries what every name must read *)
Emit == (status # "ok" \/ (frames = <<>> /\ prog # <<>>))
          => PrintT(ToJson([glob |-> glob, prog |-> prog, status |-> status, mustGlobals |-> MustGlobals, mustGlobalsLeaf |-> MustGlobalsLeaf]))
=============================================================================
