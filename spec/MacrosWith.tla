----------------------------- MODULE MacrosWith -----------------------------
(* C27 (second half) — the `with` tag: "extends the template namespace with  *)
(* block scoped variables. These variables have the potential to shadow      *)
(* global variables or variables assigned with assign and capture"           *)
(* (docs/optional_tags.md).  Property: its keyword arguments are visible     *)
(* only inside its block, where they shadow outer names.                     *)
(*                                                                           *)
(* Mechanism (what the code has): a stack of read-only frames in front of    *)
(* the assigned variables (locals) and the globals; `with` evaluates its     *)
(* arguments in the current scope and pushes one frame (Extend), `endwith`   *)
(* pops it (Pop), `assign` writes to the locals underneath.                  *)
(* Requirement (what the property says), stated *lexically over the program  *)
(* text*: a name means the argument of the innermost enclosing `with` that   *)
(* binds it, otherwise the last assignment executed, otherwise the base      *)
(* binding (global / assigned before / macro parameter / nothing).           *)
(* The invariants relate the two after every instruction.                    *)
(*                                                                           *)
(* A behaviour *is* a program: the machine chooses the next instruction      *)
(* (with ... / endwith / assign) nondeterministically and records it, so the *)
(* reachable terminal states are exactly the well-nested programs within the *)
(* bounds; after every instruction the visible value of every name is        *)
(* recorded (the concrete program prints a probe there).                     *)
(* The program runs at top level or as the body of a macro (the base binding *)
(* of a name can then be a macro parameter: "with inside macro").            *)
(* Values are tokens [k, i, n]; a visible value is a *set* of admissible     *)
(* tokens (`{% with x: 1, y: x %}`: y reads the OUTER x - the keyword         *)
(* arguments are visible only inside the block)                              *)
EXTENDS Naturals, Sequences, FiniteSets, TLC, Json

CONSTANTS MaxWith,       \* with tags per program
          MaxDepth,      \* nesting depth
          MaxAssign,     \* assign tags per program
          AssignNames,   \* names an assign tag may target
          SourcesX,      \* how a with tag may bind x: subset of {"absent","lit","x","y"}
          SourcesY,
          BaseCombos     \* indexes into Bases (below)

Names == {"x", "y"}
Tok(k, i, n) == [k |-> k, i |-> i, n |-> n]
U(n) == Tok("U", 0, n)

(* base binding of x and y, and whether the program is a macro body *)
Bases == << [x |-> "unset",    y |-> "unset",    inMacro |-> FALSE],
            [x |-> "global",   y |-> "global",   inMacro |-> FALSE],
            [x |-> "assigned", y |-> "global",   inMacro |-> FALSE],
            [x |-> "param",    y |-> "global",   inMacro |-> TRUE],
            [x |-> "assigned", y |-> "assigned", inMacro |-> FALSE],
            [x |-> "global",   y |-> "unset",    inMacro |-> TRUE],
            [x |-> "param",    y |-> "param",    inMacro |-> TRUE],
            [x |-> "assigned", y |-> "param",    inMacro |-> TRUE] >>

BaseValue(b, n) == CASE b[n] = "unset" -> U(n)
                     [] b[n] = "global" -> Tok("G", 0, n)
                     [] b[n] = "assigned" -> Tok("L", 0, n)
                     [] b[n] = "param" -> Tok("P", 0, n)

Binds == { [x |-> sx, y |-> sy] : sx \in SourcesX, sy \in SourcesY } \ { [x |-> "absent", y |-> "absent"] }

WithI(b) == [op |-> "with", binds |-> b, name |-> ""]
EndI == [op |-> "endwith", binds |-> [x |-> "absent", y |-> "absent"], name |-> ""]
AssignI(n) == [op |-> "assign", binds |-> [x |-> "absent", y |-> "absent"], name |-> n]

VARIABLES base, prog, stack, locals, nW, nA, probes, finished
vars == <<base, prog, stack, locals, nW, nA, probes, finished>>

MaxOf(S) == CHOOSE x \in S : \A y \in S : y <= x

-----------------------------------------------------------------------------
(* Mechanism *)
VisibleIn(st, lc, n) ==
  LET hits == {d \in 1..Len(st) : n \in DOMAIN st[d]}
  IN IF hits # {} THEN st[MaxOf(hits)][n]
     ELSE IF n \in DOMAIN lc THEN lc[n]
     ELSE {BaseValue(base, n)}
Visible(n) == VisibleIn(stack, locals, n)

(* the value a with tag gives name n: arguments are evaluated in the scope *before* the tag *)
New1(b, m, k) == CASE b[m] = "lit" -> {Tok("W", k, m)}
                   [] b[m] = "absent" -> {}
                   [] OTHER -> Visible(b[m])
ArgValue(b, n, k) ==
  IF b[n] = "lit" THEN {Tok("W", k, n)}
  ELSE Visible(b[n])      \* "visible only inside its block": the argument list is not inside the block, so it reads the enclosing scope

Probe(st, lc) == [n \in Names |-> VisibleIn(st, lc, n)]

Init == /\ base \in {Bases[c] : c \in BaseCombos}
        /\ prog = <<>> /\ stack = <<>> /\ locals = [n \in {} |-> {}]
        /\ nW = 0 /\ nA = 0 /\ probes = <<>> /\ finished = FALSE

Extend(b) ==
  /\ ~finished /\ nW < MaxWith /\ Len(stack) < MaxDepth
  /\ LET fr == [n \in {m \in Names : b[m] # "absent"} |-> ArgValue(b, n, nW + 1)]
     IN /\ stack' = Append(stack, fr)
        /\ probes' = Append(probes, Probe(Append(stack, fr), locals))
  /\ nW' = nW + 1
  /\ prog' = Append(prog, WithI(b))
  /\ UNCHANGED <<base, locals, nA, finished>>

Pop ==
  /\ ~finished /\ Len(stack) > 0
  /\ stack' = SubSeq(stack, 1, Len(stack) - 1)
  /\ probes' = Append(probes, Probe(SubSeq(stack, 1, Len(stack) - 1), locals))
  /\ prog' = Append(prog, EndI)
  /\ UNCHANGED <<base, locals, nW, nA, finished>>

AssignStep(n) ==
  /\ ~finished /\ nA < MaxAssign /\ nW >= 1
  /\ locals' = [m \in DOMAIN locals \cup {n} |-> IF m = n THEN {Tok("A", nA + 1, n)} ELSE locals[m]]
  /\ probes' = Append(probes, Probe(stack, locals'))
  /\ nA' = nA + 1
  /\ prog' = Append(prog, AssignI(n))
  /\ UNCHANGED <<base, stack, nW, finished>>

Finish ==
  /\ ~finished /\ Len(stack) = 0 /\ nW >= 1
  /\ finished' = TRUE
  /\ UNCHANGED <<base, prog, stack, locals, nW, nA, probes>>

Next == (\E b \in Binds : Extend(b)) \/ Pop \/ (\E n \in AssignNames : AssignStep(n)) \/ Finish
Spec == Init /\ [][Next]_vars

-----------------------------------------------------------------------------
(* Requirement, over the program text *)
RECURSIVE OpenWiths(_), WithNumber(_, _), LexVisible(_, _), LastAssign(_, _, _)

(* positions of the with instructions of p that are still open, innermost last *)
OpenWiths(p) ==
  IF p = <<>> THEN <<>>
  ELSE LET r == OpenWiths(SubSeq(p, 1, Len(p) - 1))
           l == p[Len(p)]
       IN CASE l.op = "with" -> Append(r, Len(p))
            [] l.op = "endwith" -> SubSeq(r, 1, Len(r) - 1)
            [] OTHER -> r

(* the instruction at position pos is the k-th with tag of p *)
WithNumber(p, pos) == Cardinality({q \in 1..pos : p[q].op = "with"})

(* the j-th assign of p targeting n that was executed last, as a token; else the base binding *)
LastAssign(p, n, b) ==
  LET at == {q \in 1..Len(p) : p[q].op = "assign" /\ p[q].name = n}
  IN IF at = {} THEN BaseValue(b, n)
     ELSE Tok("A", Cardinality({q \in 1..MaxOf(at) : p[q].op = "assign"}), n)

LexVisible(p, n) ==
  LET open == OpenWiths(p)
      binders == {d \in 1..Len(open) : p[open[d]].binds[n] # "absent"}
  IN IF binders = {} THEN {LastAssign(p, n, base)}
     ELSE LET pos == open[MaxOf(binders)]
              b == p[pos].binds
              k == WithNumber(p, pos)
              before == SubSeq(p, 1, pos - 1)
          IN IF b[n] = "lit" THEN {Tok("W", k, n)}
             ELSE LexVisible(before, b[n])        \* an argument expression means what it meant before the tag

OpenNumbers == {WithNumber(prog, OpenWiths(prog)[d]) : d \in 1..Len(OpenWiths(prog))}
BoundByOpenWith(n) == \E d \in 1..Len(OpenWiths(prog)) : prog[OpenWiths(prog)[d]].binds[n] # "absent"

(* the frames on the stack are exactly the open with tags of the text *)
StackMatchesText == Len(stack) = Len(OpenWiths(prog))

(* a name means its innermost enclosing with binding; nested with blocks shadow outer ones *)
WithShadows == \A n \in Names : Visible(n) = LexVisible(prog, n)

(* a literal bound by the innermost with that binds n is what is seen, whatever was assigned meanwhile *)
InnermostLiteralWins ==
  \A n \in Names :
     LET open == OpenWiths(prog)
         binders == {d \in 1..Len(open) : prog[open[d]].binds[n] # "absent"}
     IN (binders # {} /\ prog[open[MaxOf(binders)]].binds[n] = "lit")
          => Visible(n) = {Tok("W", WithNumber(prog, open[MaxOf(binders)]), n)}

(* nothing a with tag introduced is visible once its endwith has been passed *)
WithVisibleOnlyInside ==
  \A n \in Names : \A t \in Visible(n) : t.k = "W" => t.i \in OpenNumbers

(* a name no open with binds means what it would mean had the with tags never been there: *)
(* with never overwrites an assigned variable or a global of the same name                *)
WithNeverOverwrites ==
  \A n \in Names : ~BoundByOpenWith(n) => Visible(n) = {LastAssign(prog, n, base)}

ProbesComplete == Len(probes) = Len(prog)

Emit == finished => PrintT(ToJson([base |-> base, prog |-> prog, probes |-> probes]))
=============================================================================
