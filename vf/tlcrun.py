"""Run TLC / simulate on a module of /verif/spec and parse what it printed.

Everything a check needs from a TLC run comes back in one TLCResult:
state counts, the invariant/property that failed (if any), per-action coverage
and every JSON record the specification emitted with PrintT(ToJson(..)).
"""
from __future__ import annotations

import json
import os
import re
import shutil
import subprocess
import tempfile
import time
from dataclasses import dataclass, field

ROOT = os.path.dirname(os.path.dirname(os.path.abspath(__file__)))
SPEC = os.path.join(ROOT, "spec")
SCRATCH = os.path.join(ROOT, ".scratch")
JAR = "/opt/veriftools/tla/tla2tools.jar:/opt/veriftools/tla/CommunityModules-deps.jar"


class MachineryError(Exception):
    """TLC crashed, spec does not parse, ... : exit 2, never a violation."""


@dataclass
class TLCResult:
    ok: bool
    generated: int = 0
    distinct: int = 0
    depth: int = 0
    violated: str = ""          # name of invariant/property violated
    emitted: list = field(default_factory=list)
    coverage: dict = field(default_factory=dict)   # action -> (distinct, total)
    wall: float = 0.0
    out: str = ""
    cmd: str = ""


_STATS = re.compile(r"(\d+) states generated, (\d+) distinct states found")
_DEPTH = re.compile(r"depth of the complete state graph search is (\d+)")
_INV = re.compile(r"Invariant (\S+) is violated")
_PROP = re.compile(r"(?:Temporal properties were violated|Action property (\S+) is violated|property (\S+) is violated)")
_COV = re.compile(r"^<(\w+) line \d+, col \d+ to line \d+, col \d+ of module (\w+)(?: \([\d ]+\))?>: (\d+):(\d+)", re.M)


def scratch_dir(prefix: str = "tlc") -> str:
    os.makedirs(SCRATCH, exist_ok=True)
    return tempfile.mkdtemp(prefix=prefix + "-", dir=SCRATCH)


def run_tlc(module: str, cfg: str, *, workers: int = 16, timeout: int = 600,
            env: dict | None = None, simulate: str | None = None, depth: int | None = None,
            coverage: bool = False, seed: int | None = None, deadlock: bool = False,
            java_opts: list | None = None, extra: list | None = None,
            expect_violation: bool = False) -> TLCResult:
    """module: 'LRUCache' (file spec/LRUCache.tla); cfg: 'cfg/LRUCache_exh.cfg' relative to spec/."""
    meta = scratch_dir(module)
    cmd = ["java", "-XX:+UseParallelGC", "-Xmx8g"] + (["-XX:ParallelGCThreads=2"] if workers <= 2 else [])
    cmd += java_opts or []
    cmd += ["-cp", JAR, "tlc2.TLC", "-metadir", meta, "-noGenerateSpecTE",
            "-workers", str(workers), "-config", cfg]
    if not deadlock:
        cmd += ["-deadlock"]
    if coverage:
        cmd += ["-coverage", "1"]
    if simulate is not None:
        cmd += ["-simulate", simulate]
    if depth is not None:
        cmd += ["-depth", str(depth)]
    if seed is not None:
        cmd += ["-seed", str(seed)]
    cmd += extra or []
    cmd += [module + ".tla"]
    e = dict(os.environ)
    e.update(env or {})
    t0 = time.time()
    try:
        p = subprocess.run(cmd, cwd=SPEC, env=e, capture_output=True, text=True, timeout=timeout)
    except subprocess.TimeoutExpired as ex:
        shutil.rmtree(meta, ignore_errors=True)
        raise MachineryError(f"TLC timeout after {timeout}s on {module} {cfg}") from ex
    finally:
        shutil.rmtree(meta, ignore_errors=True)
    out = p.stdout + p.stderr
    r = TLCResult(ok=False, wall=time.time() - t0, out=out, cmd=" ".join(cmd))
    for m in _STATS.finditer(out):
        r.generated, r.distinct = int(m.group(1)), int(m.group(2))
    m = _DEPTH.search(out)
    if m:
        r.depth = int(m.group(1))
    m = _INV.search(out)
    if m:
        r.violated = m.group(1)
    else:
        m = _PROP.search(out)
        if m:
            r.violated = m.group(1) or m.group(2) or "temporal"
    for line in out.splitlines():
        if line.startswith('"{') or line.startswith('"['):
            try:
                r.emitted.append(json.loads(json.loads(line)))
            except Exception:
                # TLC string escapes are JSON compatible; anything else is a machinery problem
                raise MachineryError("cannot parse emitted line: " + line[:200])
    for m in _COV.finditer(out):
        a = m.group(1)
        d, t = int(m.group(3)), int(m.group(4))
        od, ot = r.coverage.get(a, (0, 0))
        r.coverage[a] = (od + d, ot + t)
    finished = ("Model checking completed" in out) or ("Finished in" in out and simulate is not None) \
        or ("The number of states generated" in out)
    if r.violated or "Error: Deadlock reached" in out:
        if "Deadlock reached" in out and not r.violated:
            r.violated = "Deadlock"
        r.ok = False
        return r
    if "Error:" in out or "error" in out.lower() and "No error has been found" not in out and not finished:
        if not expect_violation:
            raise MachineryError(f"TLC failed on {module} {cfg}:\n" + out[-3000:])
    if not finished and simulate is None:
        raise MachineryError(f"TLC did not finish on {module} {cfg}:\n" + out[-3000:])
    r.ok = True
    return r


def require_covered(r: TLCResult, actions: list) -> None:
    """Vacuity guard: every listed action must have been taken at least once."""
    missing = [a for a in actions if r.coverage.get(a, (0, 0))[1] == 0]
    if missing:
        raise MachineryError("actions never taken in bounded model (vacuous): " + ", ".join(missing))


def gen_cfg(template: str, subst: dict, tag: str) -> str:
    """Instantiate spec/cfg/<template> with literal constants; returns the cfg path relative to spec/."""
    txt = open(os.path.join(SPEC, template)).read()
    for k, v in subst.items():
        txt = txt.replace("@" + k + "@", str(v))
        txt = re.sub("@" + re.escape(k) + "=[^@]*@", lambda m: str(v), txt)
    txt = re.sub(r"@\w+=([^@]*)@", r"\1", txt)          # @Param=default@: parameters a caller may leave out
    if "@" in txt:
        raise MachineryError("unsubstituted parameter in " + template)
    rel = os.path.join(os.path.dirname(template), f".gen_{os.getpid()}_{tag}.cfg")
    with open(os.path.join(SPEC, rel), "w") as f:
        f.write(txt)
    return rel


def run_many(jobs: list, parallel: int = 8) -> list:
    """jobs: list of (module, cfg, kwargs). Runs them concurrently (each its own JVM)."""
    from concurrent.futures import ThreadPoolExecutor
    with ThreadPoolExecutor(max_workers=parallel) as ex:
        futs = [ex.submit(run_tlc, m, c, **kw) for m, c, kw in jobs]
        return [f.result() for f in futs]


def cleanup_gen() -> None:
    import glob
    for p in glob.glob(os.path.join(SPEC, "cfg", f".gen_{os.getpid()}_*")):
        os.unlink(p)
