"""Single source for MANIFEST.json: one entry per claimed property."""
CLAIMED = {
    "C24": dict(
        technique="TLA+ spec (LRUCache.tla, LRUCacheMT.tla) model-checked with TLC; every transition and every 2-thread interleaving replayed into the real classes; recorded real-thread traces validated by LRUCacheTrace.tla",
        text="TLC checks Bounded/NoDup/EvictsLRU/ReturnsLastStored/ListsMostRecentFirst/NeverFails/Linearizable exhaustively for Keys=3, Vals=2, Cap 1..4 and 2 threads x 2 ops; each transition of the state graph and each interleaving is replayed into LRUCache/ThreadSafeLRUCache; events logged under the lock from 2..16 real threads are accepted by the trace spec",
        design_ref="§4 C24, §3.1",
        note="bounded model (3 keys, 2 values, capacity <= 4, 2 threads x 2 ops); real-thread schedules are sampled, not enumerated; wrappers on the base-class methods are trusted to log at the linearization point",
    ),
}
NOT_APPLICABLE = {}
