"""Single source for MANIFEST.json: one entry per claimed property."""
CLAIMED = {
    "C24": dict(
        technique="TLA+ spec (LRUCache.tla, LRUCacheMT.tla) model-checked with TLC; every transition and every 2-thread interleaving replayed into the real classes; recorded real-thread traces validated by LRUCacheTrace.tla",
        text="TLC checks Bounded/NoDup/EvictsLRU/ReturnsLastStored/ListsMostRecentFirst/NeverFails/Linearizable exhaustively for Keys=3, Vals=2, Cap 1..4 and 2 threads x 2 ops; each transition of the state graph and each interleaving is replayed into LRUCache/ThreadSafeLRUCache; events logged under the lock from 2..16 real threads are accepted by the trace spec",
        design_ref="§4 C24, §3.1",
        note="bounded model (3 keys, 2 values, capacity <= 4, 2 threads x 2 ops); real-thread schedules are sampled, not enumerated; wrappers on the base-class methods are trusted to log at the linearization point",
    ),
    "C06": dict(
        technique="TLA+ spec LoopNest.tla (ghost nest vs context mechanism) model-checked with TLC; every enumerated nest x boundary limit replayed into real sync and async renders",
        text="TLC checks MechanismTracksNest/LoopLimit/OverLimitRaises/RaisesOnlyOverLimit on every chain of depth<=3 (thorough 4) over 7 construct kinds with lengths 0..3 and every limit adjacent to a prefix product; each terminal state is concretised (partials in a DictLoader) and rendered sync+async; status and number of innermost block executions must equal the specification's",
        design_ref="§4 C06, §3.6",
        note="bounds: depth<=4, lengths 0..3 exhaustive (sampled to 12 / limits to 200 in thorough); linear nests only (one construct per level)",
    ),
    "C23": dict(
        technique="TLA+ spec LoaderCache.tla (store, LRU cache, reference loader) model-checked with TLC; one shortest history per reachable (store, cache, last-op) state replayed against real caching dict/choice/file-system loaders and the matching non-caching loader",
        text="TLC checks Transparent/NoCrossNamespace/GlobalsApply/Bounded/ModeIndependent over all request/edit histories (length<=3 quick, 4 thorough, simulation to 12) x capacity x auto_reload x detectable x namespace-aware; emitted histories are replayed into CachingDictLoader, CachingChoiceLoader, CachingFileSystemLoader (and namespace-aware subclasses) with sync/async requests, namespace by kwarg/context/both, globals; each answer must equal the specification's (source, version, globals) and the non-caching loader's template name",
        design_ref="§4 C23, §3.2",
        note="requests are atomic in the model (overlapping async requests are not interleaved); staleness is permitted for dict-backed sources; namespace-aware sources are harness subclasses following the documented pattern",
    ),
    "C12": dict(
        technique="TLA+ transcription of the documented value/operator rules (Values.tla) and of the and/or/not parser + printer (Expr.tla) checked with TLC; every cell/tree replayed into real if/unless/elsif/case/ternary renders; operator consistency judged by Relations.tla",
        text="TLC checks ShowParseInverse, RightAssociativeEqualPrecedence, OnlyFalseAndNilAreFalsy, NeIsNotEq, EqSymmetric on all 8 operators x 29x29 operand pairs, truthiness of every value in 5 carriers, and all and/or/not trees of depth<=2 (thorough 3) x valuations; each case is rendered sync+async through the real engine (literal and variable operand forms, float and Decimal) and must select the branch the specification computes; Relations.tla!OrderingConsistent relates the observed answers of <,>,<=,>=,==,!= for every pair",
        design_ref="§4 C12, §3.5",
        note="cells the documentation does not fix are marked Unspec and only judged by the consistency relation; pool of 29 values; decimals one digit",
    ),
    "C13": dict(
        technique="TLA+ reference semantics of for/tablerow slicing, continue bookkeeping and loop helpers (Loops.tla) checked with TLC; every enumerated loop program replayed into real renders",
        text="TLC checks ElseIffEmpty/HelpersConsistent/ZeroOrNegativeLimitVisitsNothing/ContinuePartitions/TableShape over collections of length 0..2 (thorough 0..4), limit/offset in {absent,-2..n+1,huge,continue}, reversed, break, cols, and chains of up to three loops sharing an offset:continue key; each program is rendered sync+async over array/hash/range/tuple collections with literal/variable/string arguments; visited items, else, every forloop/tablerowloop helper and the HTML row/column structure must equal the specification's",
        design_ref="§4 C13",
        note="offset:continue after a negative offset unclaimed; tablerow cols<=0 outside the family; nesting depth 1 (parentloop not covered here)",
    ),
    "C10": dict(
        technique="TLA+ spec Lexer.tla (requirement as a function of the source vs the tokenizer's lstrip/rstrip mechanism) model-checked with TLC; every enumerated source rendered through the real engine",
        text="TLC checks MechanismMeetsRequirement/Verbatim/RawVerbatim/CommentSilent on every source text-markup-text[-markup-text] with all hyphen combinations on every delimiter of output, assign, inline comment, liquid, shorthand comment, if, raw, comment and doc; each is rendered sync+async (with and without template_comments) and the output must equal Required(src); markup-like fragments are substituted for the opaque text atom",
        design_ref="§4 C10, §3.3",
        note="at most two markup constructs per source; hyphens inside raw's own delimiters are specified not to touch the body; quick samples 36k of the enumerated sources",
    ),
    "C22": dict(
        technique="TLA+ model of name resolution over a sandbox tree with symlinks (PathDefs/PathResolve.tla) and of file-system mutation histories under a living loader (PathHistory.tla), model-checked with TLC; every request/history replayed on a real directory tree",
        text="TLC checks Contained/RealInsideWhenRejectingSymlinks/OnlyNotFound/UpwardsNeverResolves on every name of <=2 (thorough 3) components over 19 component kinds x 4 prefix kinds x ext x reject_symlinks, and NeverOutside/AnswerIsCurrent on all histories of <=4 requests/mutations (file->outlink, dir->outlink, touch, delete); replayed against FileSystemLoader (1 and 2 search paths), CachingFileSystemLoader and PackageLoader, sync and async; the answer must be the specification's (TemplateNotFoundError or the unique content of the inside file)",
        design_ref="§4 C22, §3.11",
        note="the real file system is driven, not modelled beyond component walking and link following; PackageLoader only without reject_symlinks (it has no such option)",
    ),
    "C21": dict(
        technique="TLA+ pushdown automaton of the block parser plus a reference tag audit (BlockParser.tla) model-checked with TLC (safety + liveness); every enumerated token sequence run through the real strict parser and analyze_tags_from_string",
        text="TLC checks DepthBounded, NoFalseAlarmWhenStrictParses, UnknownNeverParses, UnclosedNeverParses, Progress and (under WF) Terminates on every token sequence of length<=5 (thorough 6) over five alphabets of block/inner/end/unknown/malformed tags; for each sequence the real audit must not raise, must report nothing when the engine's strict parse succeeds (outside the two excluded corners), and must report every unknown tag and every block kind with more openers than end tags; the automaton's accept/reject/nesting verdict is compared with the real strict parser (0 disagreements on the unchanged tree)",
        design_ref="§4 C21, §3.4",
        note="break/continue outside loops and regions thrown away by the if/unless tags' own lax recovery are outside the no-false-alarm clause; must-report sets are the conservative ones; quick replays all accepted sequences and a 9k sample of rejected ones per alphabet",
    ),
    "C03": dict(
        technique="TLA+ exit automaton of a render under STRICT/WARN/LAX (ErrorModes.tla) and the block-parser automaton (BlockParser.tla) model-checked with TLC; every enumerated template rendered in the three modes; the mode relation judged by TLC on the recorded triples (Relations.tla!Modes)",
        text="TLC checks LaxNeverRaises/WarnCountsSuppressed/OnlyWarnWarns/StrictRaisesFirstError/OnlyLiquidExits on every template of <=2 (thorough 3) top-level nodes over 4 node shapes x 7 render-time error kinds x 3 modes; the real status, output and warning count (sync+async) must equal the automaton's; every BlockParser token sequence (malformed expressions, unknown tags, orphaned inner tags, unbalanced/over-nested blocks) is parsed and rendered in the three modes and Relations.tla!Modes must accept the triple",
        design_ref="§4 C03",
        note="render-time error kinds are the seven listed in ErrorModes.tla; parse-time family bounded by length 4 (thorough 5); resource-limit errors are covered under C07/C08",
    ),
    "C14": dict(
        technique="TLA+ spec Scope.tla (chain-of-namespaces mechanism of RenderContext vs the innermost-binding requirement, the template as a free environment) and Paths.tla (segment-by-segment path resolution over a nested data tree) model-checked with TLC; every emitted program / path rendered in the real engine with every read compared",
        text="TLC checks InnermostBinding/AssignWritesTopLevel/BlockScopeVanishes/Isolation/CallerUnaffected/Balanced on every well-nested sequence of <=4 (thorough 5) binding steps (for, tablerow, with, include with/without argument, render with/without argument, macro call with/without its argument, assign, capture, increment, decrement, break/continue, nil-valued bindings) over 1-2 names x which of render arguments / front matter / template globals / environment globals bind the names; after every step every name, forloop and forloop.parentloop are read; each closed program is concretised (keyword / `with..as` / `for..as` argument forms, `{{ }}` / echo reads; partials in a DictLoader) and rendered sync+async, every read compared with the specification's. Paths.tla: UndefinedIsSticky/SizeIsLength/NegativeIndexFromEnd/FirstLastAreEnds on every path of <=2 (thorough 3) segments over 20 segment kinds (keys, quoted keys, indexes incl. negative and out of range, size/first/last, bracketed variables incl. nested and undefined ones); each rendered in dotted/bracketed/quoted syntax, directly and through assign, under Undefined and StrictUndefined",
        design_ref="§4 C14, §3.6",
        note="arguments of an ENCLOSING render read from a nested render are unspecified; first/last of hashes and strings, indexes into strings, size of numbers are unspecified; quick replays a 24k sample of the enumerated programs; builtin now/today and reserved names are not in the family",
    ),
    "C15": dict(
        technique="TLA+ spec Scope.tla (copy of a render context for render tags and macro calls vs the isolation requirement) model-checked with TLC; every emitted program containing a render or call rendered in the real engine with every read inside and after it compared",
        text="TLC checks Isolation (inside a rendered partial or macro no read is answered by the caller's locals or pushed namespaces; the caller's loops are not visible as forloop/parentloop), CallerUnaffected (after the construct every name reads as before and the callee's context is gone), IncludeDisabledInsideRender on the same family as C14; programs with at least one render / call (keyword, `with..as`, omitted-argument forms), with the caller binding the SAME names around it through for, tablerow, with, include, assign, capture, increment, decrement, are rendered sync+async; reads inside the construct and at its close must equal the specification's; include inside render/macro must raise DisabledTagError",
        design_ref="§4 C15, §3.6",
        note="same bounds as C14; a name bound only as the argument of an enclosing render is unspecified; macros are defined immediately before their call",
    ),
    "C16": dict(
        technique="TLA+ spec Undef.tla (uses of present/missing references walked once per undefined type, per-type verdict must-succeed / must-raise / either) model-checked with TLC; every emitted template rendered under the four undefined types; the four outcomes judged by the TLA+ monitor UndefMonitor.tla (RefinesDefault, StrictRaises, DefaultNeverRaises) in a batched TLC run",
        text="TLC checks DefaultNeverRaisesSpec/StrictRaisesSpec/NothingMissingAllOk on every template of <=2 uses over 21 use kinds (output, echo, captured output, for, tablerow, if, unless, ==1/nil/false/empty, contains, upcase, size, default, join, assign, ternary, case, index, filter argument) x 5 reference kinds (present, missing root, missing sub-path, below a missing root, out-of-range index); each is rendered sync+async under Undefined, StrictUndefined, FalsyStrictUndefined, StrictDefaultUndefined; UndefMonitor.tla must accept the four outcomes (strict ok => same output as default; StrictUndefined raises UndefinedError on output/iterate/compare/filter of something missing; the default type never raises; only UndefinedError appears); the default type's text is compared where documented; plus path templates over the C14 data tree with every subset of <=2 sub-paths removed",
        design_ref="§4 C16",
        note="where FalsyStrictUndefined / StrictDefaultUndefined raise is not fixed by the statement; truthiness, ternary condition, assignment without use and use as index / filter argument are not among the uses StrictUndefined must reject",
    ),
    "C07": dict(
        technique="TLA+ spec Limits.tla (buffer stack with carried sizes and context chain with carried namespace size = mechanism; bytes in the result and sizes alive in the chain = ghost truth; the template as a free environment) model-checked with TLC; every emitted behaviour rendered in the real engine under the same limit",
        text="TLC checks OutputBounded/TopIsGhost/SubBufferBounded/OverLimitRaises/CarryIsCallersTotal/NamespaceBounded/LimitsOnlyAbort on every straight-line template of <=4 (thorough 5) steps: text atoms of 1/2/3/4 UTF-8 bytes, capture, ifchanged, output of a captured variable, include under output limits {none,0,2,4,5,7} (thorough none,0..9); assign of 1/3-character strings to two names, render, macro call, include, for under namespace limits around multiples of the measured size of a string incl. 0 and none; each behaviour is rendered sync+async: status (ok / OutputStreamLimitError / LocalNamespaceLimitError), output text and UTF-8 length must equal the specification's",
        design_ref="§4 C07, §3.6",
        note="sub-buffers of control-flow blocks without output of their own (rendered into a null buffer) are outside the family; namespace sizes are those of ASCII strings (sys.getsizeof measured at run time); loops execute once",
    ),
    "C08": dict(
        technique="TLA+ observer machine LimitSweep.tla reading a sweep of limit values in increasing order (EachIsUnlimitedOrResourceError, Monotone), run by TLC over observations recorded from the real engine for programs generated by the TLA+ families LoopNest, Limits, Recursion and BlockParser",
        text="for every program of LoopNest.tla (loop iteration limit 0..product+2), Limits.tla output family (output limit 0..2*bytes+2), Limits.tla namespace family (40 namespace limits around multiples of the measured string size), Recursion.tla graphs entered by include and by render (context depth 0..15, 29..31) and accepted BlockParser.tla sequences (block nesting 0..6): the program is rendered sync+async without the limit and under every value; LimitSweep.tla must accept each sweep: every outcome is the unlimited result or a ResourceLimitError subclass, and after the first success every larger value succeeds with the same output",
        design_ref="§4 C08",
        note="quick samples 1500 programs per limit kind; 'unlimited' is the engine default (None; 30 for depth and nesting)",
    ),
    "C09": dict(
        technique="TLA+ spec Recursion.tla (scope-chain and copy-depth counters of recursive include/render/extends/block/call lassos; liveness under WF) and BlockParser.tla (Progress, Terminates) model-checked with TLC; every enumerated family rendered and every token sequence parsed in the real engine under a CPU-time alarm, with the observed recursion level compared with the model's",
        text="TLC checks CutOff/LevelsBounded/Progress and Terminates (WF) on every assignment of one edge (none/include/render/extends/extends+block+include/call) per template over 2 (thorough 3) templates with the edge at block depths {0,12,29} (thorough +5); each family is rendered sync+async: the outcome class must be the model's (ok / ContextDepthError / TemplateInheritanceError / DisabledTagError, never RecursionError or a hang) and, where no stack cut-off is involved, the observed partial-nesting level at the cut-off must equal the model's level exactly (bounded by 2*limit+4 otherwise); every BlockParser token sequence of length<=4 (thorough 6) is parsed and rendered under STRICT/WARN/LAX under a 5 s CPU-time alarm",
        design_ref="§4 C09",
        note="'promptly' is a CPU-time alarm (5 s, confirmed at 20 s) per source; the interpreter stack budget is abstract in the model (only the outcome class is compared when the stack cuts first); families have one outgoing edge per template",
    ),
}
NOT_APPLICABLE = {}
