"""Verdict discipline shared by every check.

exit 0  everything explored held (KNOWN-FINDING lines allowed)
exit 1  at least one `VIOLATION property=<id> replay=<path>` line
exit 2  machinery failure (never reported as a violation)
"""
from __future__ import annotations

import json
import os
import sys
import time

ROOT = os.path.dirname(os.path.dirname(os.path.abspath(__file__)))
EVID = os.path.join(ROOT, "evidence")
REPLAY = os.path.join(ROOT, "replay")
KNOWN = os.path.join(ROOT, "known_findings.json")
# development runs against a scratch worktree (VERIF_REPO=<dir>, seeded / benign changes) never touch the committed evidence
_alt = os.environ.get("VERIF_REPO")
if _alt and os.path.realpath(_alt) != os.path.realpath("/repo"):
    EVID = "/tmp/verif_alt/evidence"
    REPLAY = "/tmp/verif_alt/replay"
if os.environ.get("VERIF_OUT"):          # development only: a trial run that must not rewrite the committed evidence
    EVID = os.path.join(os.environ["VERIF_OUT"], "evidence")
    REPLAY = os.path.join(os.environ["VERIF_OUT"], "replay")


def seed() -> int:
    try:
        return int(os.environ.get("VERIF_SEED", "0"))
    except ValueError:
        return 0


class Check:
    """Collects the outcome of one run of one property's check."""

    def __init__(self, pid: str, tier: str):
        self.pid = pid
        self.tier = tier
        self.t0 = time.time()
        self.violations: list = []      # (key, detail-dict)
        self.known_hit: dict = {}       # finding id -> count
        self.cov: dict = {"evaluations": 0, "distinct_nontrivial": 0, "states": 0, "transitions": 0,
                          "traces_validated_against_impl": 0, "samples": [], "rule": "", "tlc_runs": []}
        self.assumptions: list = []
        self._distinct: set = set()
        import glob
        for old in glob.glob(os.path.join(REPLAY, pid, tier + "-*.json")):
            os.unlink(old)
        with open(KNOWN) as f:
            k = json.load(f)
        self.known = [x for x in k.get("findings", []) if x["property"] == pid]

    # -- bookkeeping ---------------------------------------------------------
    def tlc(self, name: str, r) -> None:
        self.cov["states"] += r.distinct
        self.cov["transitions"] += r.generated
        self.cov["tlc_runs"].append({"run": name, "distinct_states": r.distinct, "states_generated": r.generated,
                                     "depth": r.depth, "wall_s": round(r.wall, 2),
                                     "coverage": {a: v[1] for a, v in sorted(r.coverage.items())} or None})

    def case(self, key, nontrivial: bool = True, sample=None) -> None:
        self.cov["evaluations"] += 1
        if nontrivial:
            h = hash(key if isinstance(key, (str, int, tuple)) else json.dumps(key, sort_keys=True, default=str))
            if h not in self._distinct:
                self._distinct.add(h)
        if sample is not None and len(self.cov["samples"]) < 6:
            self.cov["samples"].append(sample)

    def validated(self, n: int = 1) -> None:
        self.cov["traces_validated_against_impl"] += n

    def sample(self, s) -> None:
        if len(self.cov["samples"]) < 8:
            self.cov["samples"].append(s)

    # -- verdicts -----------------------------------------------------------
    def fail(self, what: str, detail: dict, sig: str | None = None) -> None:
        """A behaviour the specification forbids. `sig` is the finding signature
        (specific input / call site); if it is listed in known_findings.json the
        failure is a KNOWN-FINDING, otherwise a VIOLATION."""
        for k in self.known:
            if sig is not None and sig in k.get("signatures", []):
                self.known_hit.setdefault(k["id"], [k, 0])[1] += 1
                return
        self.violations.append((what, sig, detail))

    def finish(self, level: str = "model_checking") -> int:
        os.makedirs(EVID, exist_ok=True)
        self.cov["distinct_nontrivial"] = len(self._distinct)
        for kid, (k, n) in sorted(self.known_hit.items()):
            print(f"KNOWN-FINDING: property={self.pid} {k['what']} [{kid}; {n} case(s)]")
        rc = 0
        if self.violations:
            rc = 1
            d = os.path.join(REPLAY, self.pid)
            os.makedirs(d, exist_ok=True)
            seen = set()
            n = 0
            for what, sig, detail in self.violations:
                key = sig or what
                if key in seen and n >= 3:
                    continue
                seen.add(key)
                if n >= 25:
                    break
                path = os.path.join(d, f"{self.tier}-{n}.json")
                with open(path, "w") as f:
                    json.dump({"property": self.pid, "what": what, "signature": sig, "detail": detail}, f,
                              indent=1, default=str)
                print(f"VIOLATION property={self.pid} replay={path}  # {what}" + (f" sig={sig}" if sig else ""))
                n += 1
            print(f"# {len(self.violations)} violating case(s) in total")
            import collections
            cls = collections.Counter((sig or what).rsplit(":", 1)[0] if (sig or what).count(":") > 2 else (sig or what)
                                      for what, sig, _ in self.violations)
            self.cov["violation_classes"] = dict(cls.most_common(60))
        ev = {
            "property_id": self.pid, "tier": self.tier, "seed": seed(), "level": level,
            "coverage": self.cov, "assumptions": self.assumptions,
            "wall_s": round(time.time() - self.t0, 2), "violations": len(self.violations),
            "known_findings_hit": {k: v[1] for k, v in self.known_hit.items()},
        }
        with open(os.path.join(EVID, self.pid + ".json"), "w") as f:
            json.dump(ev, f, indent=1, default=str)
        print(f"{self.pid} {self.tier}: {self.cov['evaluations']} cases, {self.cov['states']} TLC states, "
              f"{self.cov['traces_validated_against_impl']} impl traces, {len(self.violations)} violation(s), "
              f"{ev['wall_s']}s")
        return rc


def fresh_repo_imports() -> None:
    """Import liquid from /repo's working tree, never from a stale bytecode cache."""
    sys.dont_write_bytecode = True
    repo = os.environ.get("VERIF_REPO", "/repo")
    if repo not in sys.path:
        sys.path.insert(0, repo)
    import liquid  # noqa: F401
    assert os.path.abspath(liquid.__file__).startswith(os.path.abspath(repo)), liquid.__file__
