"""Spread replays over the cores. Workers import liquid from /repo's working tree themselves."""
from __future__ import annotations

import multiprocessing as mp
import os


def _init():
    from .core import fresh_repo_imports
    fresh_repo_imports()


def pmap(fn, items, procs: int = 0, chunk: int = 64):
    items = list(items)
    procs = procs or min(16, os.cpu_count() or 4)
    if len(items) < 200 or procs <= 1:
        _init()
        return [fn(x) for x in items]
    ctx = mp.get_context("fork")
    with ctx.Pool(procs, initializer=_init) as pool:
        return pool.map(fn, items, chunksize=chunk)
