"""C23 — caching loaders are transparent (spec/LoaderCache.tla).

TLC enumerates request/edit histories; each distinct (store, cache, last-op) state is
emitted with a shortest history reaching it and replayed against real caching
loaders (dict, choice, file system; namespace-aware and namespace-oblivious sources),
comparing every answer with the specification and with the matching non-caching loader."""
from __future__ import annotations

import asyncio
import json
import os
import random
import shutil
import tempfile

from ..core import Check, fresh_repo_imports, seed
from ..tlcrun import run_many, gen_cfg, cleanup_gen, MachineryError, run_tlc
from .. import par

PID = "C23"
ALLSRC = ["a", "b", "n1/a", "n1/b", "n2/a", "n2/b"]
MISSING = {"n2/b"}


def _text(src, ver):
    return f"{src}@{ver}:{{{{ g }}}}"


def _ns_of(context, kwargs):
    if "ns" in kwargs:
        return kwargs["ns"]
    if context is not None and "ns" in context.globals:
        return context.globals["ns"]
    return None


def _mk_classes():
    from liquid import DictLoader, ChoiceLoader, FileSystemLoader, CachingFileSystemLoader
    from liquid import CachingDictLoader, CachingChoiceLoader
    from liquid.builtin.loaders.mixins import CachingLoaderMixin

    class NSDict(DictLoader):
        def get_source(self, env, template_name, *, context=None, **kwargs):
            ns = _ns_of(context, kwargs)
            return super().get_source(env, f"{ns}/{template_name}" if ns else template_name)

    class CachingNSDict(CachingLoaderMixin, NSDict):
        def __init__(self, templates, **kw):
            CachingLoaderMixin.__init__(self, **kw)
            NSDict.__init__(self, templates)

    class NSFS(FileSystemLoader):
        def get_source(self, env, template_name, *, context=None, **kwargs):
            ns = _ns_of(context, kwargs)
            return super().get_source(env, f"{ns}/{template_name}" if ns else template_name)

        async def get_source_async(self, env, template_name, *, context=None, **kwargs):
            ns = _ns_of(context, kwargs)
            return await super().get_source_async(env, f"{ns}/{template_name}" if ns else template_name)

    class CachingNSFS(CachingFileSystemLoader):
        get_source = NSFS.get_source

        async def get_source_async(self, env, template_name, *, context=None, **kwargs):
            ns = _ns_of(context, kwargs)
            return await FileSystemLoader.get_source_async(self, env, f"{ns}/{template_name}" if ns else template_name)

    # `super()` inside NSFS.get_source needs NSFS in the MRO: define the caching one properly
    class CachingNSFS2(CachingLoaderMixin, NSFS):
        def __init__(self, path, **kw):
            CachingLoaderMixin.__init__(self, **kw)
            NSFS.__init__(self, path)

    return dict(NSDict=NSDict, CachingNSDict=CachingNSDict, NSFS=NSFS, CachingNSFS=CachingNSFS2,
                DictLoader=DictLoader, CachingDictLoader=CachingDictLoader, ChoiceLoader=ChoiceLoader,
                CachingChoiceLoader=CachingChoiceLoader, FileSystemLoader=FileSystemLoader,
                CachingFileSystemLoader=CachingFileSystemLoader)


class World:
    """A store + a caching loader + the matching non-caching loader over the same store."""

    def __init__(self, kind, cap, auto_reload, nsaware, K):
        from liquid import Environment
        self.kind, self.nsaware = kind, nsaware
        self.ver = {k: (0 if k in MISSING else 1) for k in ALLSRC}
        self.dir = None
        kw = dict(auto_reload=auto_reload, namespace_key="ns", capacity=cap)
        if kind in ("dict", "choice"):
            self.d1 = {k: _text(k, 1) for k in ALLSRC if k not in MISSING and not k.endswith("b")}
            self.d2 = {k: _text(k, 1) for k in ALLSRC if k not in MISSING and k.endswith("b")}
            if kind == "dict":
                self.d1.update(self.d2)
                self.d2 = self.d1
                base = K["NSDict"] if nsaware else K["DictLoader"]
                cach = K["CachingNSDict"] if nsaware else K["CachingDictLoader"]
                self.ref, self.cached = base(self.d1), cach(self.d1, **kw)
            else:
                base = K["NSDict"] if nsaware else K["DictLoader"]
                self.ref = K["ChoiceLoader"]([base(self.d1), base(self.d2)])
                self.cached = K["CachingChoiceLoader"]([base(self.d1), base(self.d2)], **kw)
        else:
            self.dir = tempfile.mkdtemp(prefix="c23-", dir=os.environ.get("VERIF_SCRATCH", "/verif/.scratch"))
            for k in ALLSRC:
                if k not in MISSING:
                    self._write(k, 1)
            if kind == "fs":
                base = K["NSFS"] if nsaware else K["FileSystemLoader"]
                cach = K["CachingNSFS"] if nsaware else K["CachingFileSystemLoader"]
                self.ref, self.cached = base(self.dir), cach(self.dir, **kw)
            else:  # choice of file-system loaders
                base = K["NSFS"] if nsaware else K["FileSystemLoader"]
                self.ref = K["ChoiceLoader"]([base(os.path.join(self.dir, "nowhere")), base(self.dir)])
                self.cached = K["CachingChoiceLoader"]([base(os.path.join(self.dir, "nowhere")), base(self.dir)], **kw)
        self.env_c = Environment(loader=self.cached)
        self.env_r = Environment(loader=self.ref)

    def _write(self, k, ver):
        p = os.path.join(self.dir, k)
        os.makedirs(os.path.dirname(p), exist_ok=True)
        with open(p, "w") as f:
            f.write(_text(k, ver))
        os.utime(p, (1000000 + ver * 1000, 1000000 + ver * 1000))

    def edit(self, k, ver):
        self.ver[k] = ver
        if self.dir:
            self._write(k, ver)
        else:
            (self.d1 if k in self.d1 else self.d2)[k] = _text(k, ver)

    def close(self):
        if self.dir:
            shutil.rmtree(self.dir, ignore_errors=True)

    def request(self, env, s):
        from liquid import RenderContext
        from liquid.exceptions import TemplateNotFoundError
        kwargs = {}
        context = None
        other = {"n1": "n2", "n2": "n1"}[s["ns"]]
        if s["via"] in ("kwarg", "both"):
            kwargs["ns"] = s["ns"]
        if s["via"] in ("context", "both"):
            nsval = other if s["via"] == "both" else s["ns"]
            if getattr(self, "reuse_ctx", False):
                # the SAME RenderContext object for every request of this history that names this namespace through its context (as the
                # include / render tags of one render do): what a caching loader answers must not depend on who asked before
                context = self.__dict__.setdefault("_ctxs", {}).get((id(env), nsval))
                if context is None:
                    context = self._ctxs[(id(env), nsval)] = RenderContext(env.from_string(""), globals={"ns": nsval})
            else:
                context = RenderContext(env.from_string(""), globals={"ns": nsval})
        elif getattr(self, "reuse_ctx", False):
            # no namespace through the context: still the same (namespace-free) RenderContext object for every such request
            context = self.__dict__.setdefault("_ctxs", {}).get((id(env), None))
            if context is None:
                context = self._ctxs[(id(env), None)] = RenderContext(env.from_string(""))
        g = None if s["g"] == "none" else {"g": s["g"]}
        try:
            if s["mode"] == "sync":
                t = env.get_template(s["name"], globals=g, context=context, **kwargs)
            else:
                t = asyncio.run(env.get_template_async(s["name"], globals=g, context=context, **kwargs))
        except TemplateNotFoundError:
            return {"found": False}
        except Exception as e:
            return {"found": False, "exc": type(e).__name__}
        out = t.render()
        head, _, glob = out.partition(":")
        src, _, ver = head.partition("@")
        return {"found": True, "tname": t.name, "src": src, "ver": int(ver), "glob": glob or "none"}


_K = None


def replay_one(job):
    global _K
    if _K is None:
        _K = _mk_classes()
    kind, b = job
    w = World(kind, b["cap"], b["autoReload"], b["nsaware"], _K)
    w.reuse_ctx = bool(b.get("_reuse"))
    try:
        for i, s in enumerate(b["steps"]):
            if s["op"] == "edit":
                w.edit(s["src"], s["ver"])
                continue
            got = w.request(w.env_c, s)
            ref = w.request(w.env_r, s)
            exp = s["res"]
            why = None
            if got.get("exc"):
                why = f"exception {got['exc']} escaped the caching loader"
            elif got["found"] != exp["found"]:
                why = "found/not-found differs from LoaderCache.tla"
            elif got["found"]:
                if got["src"] != exp["src"]:
                    why = "template from another source/namespace"
                elif got["ver"] != exp["ver"]:
                    why = "version differs from LoaderCache.tla (stale or spurious reload)"
                elif got["glob"] != exp["glob"]:
                    why = "globals of the request do not apply"
                elif ref["found"] and got["tname"] != ref["tname"]:
                    why = "template name differs from the non-caching loader's"
            if why:
                return {"step": i, "why": why, "got": got, "ref": ref, "exp": exp}
        return None
    finally:
        w.close()


def _stratified(beh, rnd, per_class):
    """Keep up to `per_class` histories per shape (operation kinds, modes, vias and cache outcomes of the last three steps)."""
    groups = {}
    for b in beh:
        key = (len(b["steps"]),) + tuple((s["op"], s.get("mode"), s.get("via"), s.get("how")) for s in b["steps"][-2:])
        groups.setdefault(key, []).append(b)
    out = []
    for key in sorted(groups, key=str):
        g = groups[key]
        out.extend(g if len(g) <= per_class else rnd.sample(g, per_class))
    return out


def _sig(kind, b, bad):
    s = b["steps"][bad["step"]]
    return f"{bad['why'].split(' (')[0]}|{s['mode']}|via={s['via']}|how={s.get('how')}"


# ---- overlapping asynchronous requests (spec/LoaderOverlap.tla) -----------------------------------------------------------------
def replay_overlap(case):
    """Drive real get_template_async tasks through the schedule the specification emitted: the source loader awaits a gate per task."""
    import re as _re
    from liquid import Environment
    from liquid.loader import BaseLoader, TemplateSource
    from liquid.builtin.loaders.mixins import CachingLoaderMixin

    class GateLoader(BaseLoader):
        def __init__(self):
            self.version = 1
            self.gates = {}

        def _src(self, name):
            v = self.version
            return TemplateSource(f"v{v}:{{{{ g }}}}", name, lambda: self.version == v)

        def get_source(self, env, template_name, *, context=None, **kwargs):
            return self._src(template_name)

        async def get_source_async(self, env, template_name, *, context=None, **kwargs):
            me = asyncio.current_task().get_name()
            await self.gates.setdefault(me, asyncio.Event()).wait()
            return self._src(template_name)

    class CachingGate(CachingLoaderMixin, GateLoader):
        def __init__(self, **kw):
            CachingLoaderMixin.__init__(self, **kw)
            GateLoader.__init__(self)

    async def drive():
        loader = CachingGate(auto_reload=case["auto"], capacity=4)
        env = Environment(loader=loader)
        if case["cached"]:
            loader.gates["MainThread-pre"] = asyncio.Event()
            pre = asyncio.create_task(env.get_template_async("k", globals={"g": "g0"}), name="pre")
            loader.gates.setdefault("pre", asyncio.Event()).set()
            await pre
        tasks = {}
        for ev in case["sched"]:
            t = ev["t"]
            if ev["e"] == "begin":
                g = 1 if t == 3 else t
                tasks[t] = asyncio.create_task(env.get_template_async("k", globals={"g": f"g{g}"}), name=f"t{t}")
            elif ev["e"] == "source":
                loader.gates.setdefault(f"t{t}", asyncio.Event()).set()
            elif ev["e"] == "edit":
                loader.version += 1
            for _ in range(6):          # let every runnable task reach its next await (or finish)
                await asyncio.sleep(0)
        for ev in loader.gates.values():
            ev.set()                    # nothing may stay blocked (an implementation that shares loads never awaits some gates)
        out = {}
        for t, task in tasks.items():
            try:
                tmpl = await asyncio.wait_for(task, 5)
                out[t] = tmpl.render()
            except Exception as e:      # noqa: BLE001
                out[t] = "!" + type(e).__name__
        return out

    got = asyncio.run(drive())
    bad = []
    for t, text in sorted(got.items()):
        want = case["answers"][str(t)] if isinstance(case["answers"], dict) else case["answers"][t - 1]
        m = _re.fullmatch(r"v(\d+):g(\d+)", text)
        if not m or int(m.group(1)) != want["v"] or int(m.group(2)) != want["g"]:
            bad.append((t, text, f"v{want['v']}:g{want['g']}"))
    return got, bad


def overlap(ck, tier):
    from ..tlcrun import gen_cfg, cleanup_gen, run_many
    try:
        jobs = [("LoaderOverlap", gen_cfg("cfg/LoaderOverlap.tmpl", dict(Tasks="{1,2}" if tier == "quick" else "{1,2,3}", Auto=a, Cached=c), f"ov{a}{c}"),
                 dict(workers=1, timeout=1800)) for a in ("TRUE", "FALSE") for c in ("TRUE", "FALSE")]
        rs = run_many(jobs, parallel=4)
    finally:
        cleanup_gen()
    n = 0
    for (m, cfg, kw), r in zip(jobs, rs):
        ck.tlc("LoaderOverlap " + cfg.split("_")[-1], r)
        if r.violated:
            ck.fail(f"LoaderOverlap.tla {r.violated} violated", {"tlc": r.out[-3000:]})
            continue
        for case in r.emitted:
            got, bad = replay_overlap(case)
            ck.case(("overlap", json.dumps(case["sched"]), case["auto"], case["cached"]), nontrivial=any(not e["hit"] for e in case["sched"] if e["e"] == "begin"))
            ck.validated()
            n += 1
            for t, text, want in bad:
                ck.fail(f"overlapping async requests: task {t} answered {text!r}, LoaderOverlap.tla requires {want!r} (OwnGlobals / VersionInWindow)",
                        {"schedule": case["sched"], "auto_reload": case["auto"], "start_cached": case["cached"], "answers": got},
                        sig=f"overlap:auto={case['auto']}:cached={case['cached']}:{'/'.join(e['e'][0] + str(e['t']) for e in case['sched'])}")
                break
    ck.cov["overlap_schedules"] = n


def run(tier: str) -> int:
    fresh_repo_imports()
    ck = Check(PID, tier)
    rnd = random.Random(seed())
    os.makedirs("/verif/.scratch", exist_ok=True)
    ck.cov["rule"] = ("LoaderCache.tla: every distinct (store, cache, last operation) state reachable within MaxLen operations over names {a,b}, "
                      "namespaces {n1,n2} given by kwarg/context/both/absent, globals {none,g1,g2}, sync/async, edits; one shortest history per state, "
                      "replayed against caching dict / choice / file-system loaders (namespace-aware and oblivious). distinct = (loader kind, history)")
    L = 3 if tier == "quick" else 4
    configs = []
    for cap in ((2,) if tier == "quick" else (1, 2, 3)):
        for ar in ("TRUE", "FALSE"):
            for det in ("TRUE", "FALSE"):
                for nsa in ("TRUE", "FALSE"):
                    configs.append(dict(Cap=cap, AutoReload=ar, Detectable=det, NSAware=nsa, MaxEdits=1,
                                        MaxLen=3))      # thorough: capacities 1-3 and two edits (length 4 did not finish in an hour)
    if tier == "quick":   # capacity 1: every second key evicts
        configs.append(dict(Cap=1, AutoReload="TRUE", Detectable="TRUE", NSAware="TRUE", MaxEdits=1, MaxLen=3))
    jobs = []
    try:
        for i, c in enumerate(configs):
            jobs.append(("LoaderCache", gen_cfg("cfg/LoaderCache.tmpl", c, f"lc{i}"), dict(workers=1, timeout=3000)))
        results = run_many(jobs, parallel=12)
    finally:
        cleanup_gen()
    work = []
    for c, r in zip(configs, results):
        ck.tlc("LoaderCache " + str(c), r)
        if r.violated:
            ck.fail(f"LoaderCache.tla {r.violated} violated in the model", {"cfg": c, "tlc": r.out[-3000:]})
            continue
        beh = _stratified(r.emitted, rnd, 2 if tier == "quick" else 8)
        kinds = (["fs", "choicefs"] if c["Detectable"] == "TRUE" else ["dict", "choice"])
        for bi, b in enumerate(beh):
            for k in kinds:
                work.append((k, b))
                if sum(1 for s_ in b["steps"] if s_["op"] != "edit") >= 2:
                    work.append((k, dict(b, _reuse=1)))      # again, with the requests sharing their RenderContext objects
    res = par.pmap(replay_one, work, chunk=32)
    for (kind, b), bad in zip(work, res):
        ck.case((kind, str(b)), nontrivial=len(b["steps"]) >= 2)
        ck.validated()
        if bad:
            ck.fail(f"{kind}: {bad['why']}", {"loader": kind, "behaviour": b, **bad}, sig=_sig(kind, b, bad))
    if work:
        ck.sample({"loader": work[len(work) // 2][0], "behaviour": work[len(work) // 2][1]})
    # thorough: long random histories (length 12) by simulation
    if tier == "thorough":
        try:
            cfg = gen_cfg("cfg/LoaderCache.tmpl", dict(Cap=2, AutoReload="TRUE", Detectable="TRUE", NSAware="TRUE", MaxEdits=3, MaxLen=12), "sim")
            open(os.path.join("/verif/spec", cfg), "a").write("")
            r = run_tlc("LoaderCache", cfg, workers=1, timeout=900, simulate=f"num=300", depth=13, seed=seed() or 1)
        finally:
            cleanup_gen()
        ck.tlc("LoaderCache simulate depth 12", r)
        long = [b for b in r.emitted if len(b["steps"]) >= 10][:3000]
        work2 = [("fs", dict(b, _reuse=1) if i % 2 else b) for i, b in enumerate(long)]
        for (kind, b), bad in zip(work2, par.pmap(replay_one, work2, chunk=16)):
            ck.case((kind, str(b)))
            ck.validated()
            if bad:
                ck.fail(f"{kind}: {bad['why']}", {"loader": kind, "behaviour": b, **bad}, sig=_sig(kind, b, bad))
    ck.assumptions += ["dict-backed sources provide no uptodate callable: a stale cached version is permitted there (Detectable=FALSE)",
                       "namespace-aware sources are test subclasses following the documented pattern (DictLoader/FileSystemLoader reading '<ns>/<name>')"]
    overlap(ck, tier)
    return ck.finish()


def replay(path):
    import json
    fresh_repo_imports()
    d = json.load(open(path))["detail"]
    print(replay_one((d["loader"], d["behaviour"])))
    return 0
