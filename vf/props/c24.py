"""C24 — LRU caches behave as bounded least-recently-used maps.

spec/LRUCache.tla      sequential cache, one action per method; TLC checks the invariants
                       and every distinct state is one transition, emitted and replayed
spec/LRUCacheMT.tla    threads; listings split into begin/next steps; every interleaving
                       emitted and replayed deterministically by one Python thread
spec/LRUCacheTrace.tla events recorded under the lock from real threads / long random
                       sequential runs are validated against LRUCache's actions
"""
from __future__ import annotations

import random
import sys
import threading

from ..core import Check, fresh_repo_imports, seed
from ..tlcrun import run_tlc, require_covered, MachineryError
from .. import instrument, tracecheck

PID = "C24"


def _pairs(flat):
    return [(flat[i], flat[i + 1]) for i in range(0, len(flat), 2)]


def _apply(c, op, k, v):
    """Run one public operation, return the abstract return value (list of strings)."""
    try:
        if op == "get":
            return [c[k]]
        if op == "getd":
            r = c.get(k)
            return ["!None"] if r is None else [r]
        if op == "set":
            c[k] = v
            return ["!None"]
        if op == "del":
            del c[k]
            return ["!None"]
        if op == "contains":
            return ["!True" if k in c else "!False"]
        if op == "len":
            return [str(len(c))]
        if op == "keys":
            return list(c.keys())
        if op == "iter":
            return list(iter(c))
        if op == "values":
            return list(c.values())
        if op == "items":
            return [x for kv in c.items() for x in kv]
    except KeyError:
        return ["!KeyError"]
    except Exception as e:  # anything else is an observation with no action
        return ["!" + type(e).__name__]
    raise MachineryError("unknown op " + op)


def _contents(c):
    """Abstract state through the public API only: least recent first, flat."""
    items = list(c.items())
    items.reverse()
    return [x for kv in items for x in kv]


VALUATIONS = [{"v1": "v1", "v2": "v2"}, {"v1": None, "v2": 0}, {"v1": "", "v2": False}]


def replay_transition(cls, t, val=None):
    """`val` concretises the model's values (falsy / None values are legitimate cache contents)."""
    val = val or VALUATIONS[0]
    cv = lambda seq: [val.get(x, x) if isinstance(x, str) else x for x in seq]
    c = cls(t["cap"])
    for k, v in _pairs(t["pre"]):
        c[k] = val.get(v, v)
    if _contents(c) != cv(t["pre"]):
        return "cannot establish pre-state", _contents(c)
    ret = _apply(c, t["op"], t["k"], val.get(t["v"], t["v"]))
    want = cv(t["ret"])
    if t["op"] == "getd":
        # .get() answers None both for a miss and for a stored None
        ret = [None if x == "!None" else x for x in ret]
        want = [None if x == "!None" else x for x in want]
    if ret != want:
        return "return value", ret
    post = _contents(c)
    if post != cv(t["post"]):
        return "post-state order/contents", post
    if len(c) > t["cap"]:
        return "capacity exceeded", len(c)
    return None, None


def replay_interleaving(cls, b):
    c = cls(b["cap"])
    its = {}
    for i, s in enumerate(b["steps"]):
        t, act = s["t"], s["act"]
        if act == "begin":
            try:
                its[t] = getattr(c, s["k"])()
                ret = []
            except Exception as e:
                ret = ["!" + type(e).__name__]
        elif act == "next":
            try:
                x = next(its[t])
                ret = list(x) if isinstance(x, tuple) else [x]
            except StopIteration:
                ret = ["!Stop"]
            except Exception as e:
                ret = ["!" + type(e).__name__]
        else:
            ret = _apply(c, act, s["k"], s["v"])
        if ret != s["ret"]:
            return i, ret
    return None, None


def _threaded_workload(cls, cap, nthreads, nops, rnd, rec, keys, vals):
    c = cls(cap)
    start = threading.Barrier(nthreads)
    errs = []

    def worker(r):
        start.wait()
        for _ in range(nops):
            op = r.choice(["get", "set", "set", "del", "contains", "getd", "keys", "values", "items", "len", "iter"])
            k, v = r.choice(keys), r.choice(vals)
            try:
                if op in ("keys", "values", "items", "iter"):
                    it = iter(c) if op == "iter" else getattr(c, op)()
                    e = rec.tls.last
                    try:
                        got = list(it)
                        e["ret"] = [x for kv in got for x in kv] if op == "items" else got
                    except Exception as ex:
                        e["ret"] = ["!" + type(ex).__name__]
                else:
                    _apply(c, op, k, v)
            except Exception as ex:  # pragma: no cover
                errs.append(repr(ex))

    rec.threaded = nthreads > 1
    ths = [threading.Thread(target=worker, args=(random.Random(rnd.random()),)) for _ in range(nthreads)]
    for t in ths:
        t.start()
    for t in ths:
        t.join()
    evs = rec.events.pop(id(c))
    for e in evs:
        e.pop("thread", None)
        if e["ret"] is None:
            e["ret"] = ["!unconsumed"]
    from liquid.utils.lru_cache import ThreadSafeLRUCache as _TS
    return {"cap": cap, "threadsafe": isinstance(c, _TS), "ev": evs}, errs


def _blackbox_workload(cls, cap, nthreads, nops, rnd, keys, vals):
    """No instrumentation at all: many threads hammer one cache; collect every exception."""
    c = cls(cap)
    start = threading.Barrier(nthreads)
    errs = []

    def worker(r):
        start.wait()
        for _ in range(nops):
            op = r.choice(["get", "set", "set", "del", "contains", "getd", "keys", "values", "items", "len", "iter"])
            k, v = r.choice(keys), r.choice(vals)
            try:
                if op in ("keys", "values", "items", "iter"):
                    list(iter(c) if op == "iter" else getattr(c, op)())
                else:
                    res = _apply(c, op, k, v)
                    # a lookup / deletion of an absent key may raise KeyError; get-with-default never raises; nothing raises anything else
                    if res and res[0].startswith("!") and res[0] not in ("!None", "!True", "!False") and not (res[0] == "!KeyError" and op in ("get", "del")):
                        errs.append(f"{op}({k!r}) raised {res[0][1:]}")
            except Exception as ex:  # noqa: BLE001
                errs.append(repr(ex))

    ths = [threading.Thread(target=worker, args=(random.Random(rnd.random()),)) for _ in range(nthreads)]
    for t in ths:
        t.start()
    for t in ths:
        t.join()
    return errs, c


def _hammer(cls, cap, nthreads, seconds, rnd):
    """Constant eviction under a tiny switch interval: half the threads look keys up WITH a default (must never raise), the others insert
    and delete, for a fixed time.  Finds operations that take the lock twice (test then act)."""
    import time
    c = cls(cap)
    keys = ["k%d" % i for i in range(cap + 2)]
    stop = time.monotonic() + seconds
    errs, counts = [], [0]

    def reader(r):
        n = 0
        while time.monotonic() < stop and not errs:
            k = r.choice(keys)
            try:
                c.get(k, "dflt")
                c.get(k)
                k in c
                len(c)
            except Exception as ex:  # noqa: BLE001
                errs.append(f"reader: {type(ex).__name__}({ex})")
            n += 1
        counts[0] += n

    def writer(r):
        while time.monotonic() < stop and not errs:
            k = r.choice(keys)
            try:
                c[k] = "v"
                if r.random() < 0.3:
                    try:
                        del c[r.choice(keys)]
                    except KeyError:
                        pass
            except Exception as ex:  # noqa: BLE001
                errs.append(f"writer: {type(ex).__name__}({ex})")

    ths = [threading.Thread(target=reader if i % 2 == 0 else writer, args=(random.Random(rnd.random()),)) for i in range(nthreads)]
    for t in ths:
        t.start()
    for t in ths:
        t.join()
    return errs, counts[0], c


def _recorder_selftest(LRUCache, ThreadSafeLRUCache):
    """The wrappers log at the base-class methods; that is the linearization point only if the public operations go through them.
    A scripted single-thread run on both classes must give one event per operation and be accepted by LRUCacheTrace.tla."""
    script = [("set", "k0", "x"), ("set", "k1", "y"), ("get", "k0", ""), ("getd", "k2", ""), ("getd", "k1", ""), ("contains", "k1", ""),
              ("set", "k2", "z"), ("del", "k0", ""), ("len", "", ""), ("set", "k0", "x"), ("get", "k1", "")]
    rec = instrument.LRURecorder()
    try:
        instrument.install_lru(rec)
    except MachineryError as e:
        instrument.unwrap_all()
        return False, str(e)
    traces = []
    try:
        for cls in (LRUCache, ThreadSafeLRUCache):
            c = cls(2)
            for op, k, v in script:
                try:
                    _apply(c, op, k, v)
                except KeyError:
                    pass
            listing = c.keys()
            e = getattr(rec.tls, "last", None)
            got = list(listing)
            evs = rec.events.pop(id(c), [])
            if len(evs) != len(script) + 1:
                return False, f"{cls.__name__}: {len(evs)} events for {len(script) + 1} operations"
            evs[-1]["ret"] = got
            for ev in evs:
                ev.pop("thread", None)
                if ev["ret"] is None:
                    ev["ret"] = ["!unconsumed"]
            traces.append({"cap": 2, "threadsafe": cls is ThreadSafeLRUCache, "ev": evs})
    except Exception as e:   # noqa: BLE001
        return False, "recording failed: " + repr(e)[:120]
    finally:
        instrument.unwrap_all()
    try:
        acc, diags, r = tracecheck.validate("LRUCacheTrace", "cfg/LRUCacheTrace.cfg", traces, diag_cfg="cfg/LRUCacheTrace_diag.cfg",
                                            consts={"Keys": tracecheck.tla_set(["k0", "k1", "k2", ""]), "Vals": tracecheck.tla_set(["x", "y", "z", ""])})
    except MachineryError as e:
        return False, "trace spec could not read the self-test: " + str(e)[:120]
    if len(acc) != len(traces):
        return False, "the scripted sequential run is not accepted: " + str(list(diags.values())[:1])[:160]
    return True, ""


def run(tier: str) -> int:
    fresh_repo_imports()
    from liquid.utils.lru_cache import LRUCache, ThreadSafeLRUCache
    ck = Check(PID, tier)
    rnd = random.Random(seed())
    ck.cov["rule"] = ("A: every transition (pre-state, op, args) of LRUCache.tla's exhaustive state graph, Keys 3, Vals 2, "
                      "Cap 1..N, replayed on LRUCache and ThreadSafeLRUCache (distinct = distinct transition x class); "
                      "B: every interleaving of 2 threads x 2 operations with listings split in begin/next (LRUCacheMT.tla); "
                      "C: events recorded under the lock from real threads and long random sequential runs, validated by LRUCacheTrace.tla")
    # ---- A: sequential, one replay per transition ---------------------------------------
    caps = [1, 2, 3] if tier == "quick" else [1, 2, 3, 4]
    for cap in caps:
        r = run_tlc("LRUCache", "cfg/LRUCache_exh.cfg", workers=1, coverage=True,
                    extra=[], env={}, timeout=600, java_opts=[f"-DCap={cap}"]) if False else \
            _run_exh(cap)
        ck.tlc(f"LRUCache_exh cap={cap}", r)
        if r.violated:
            ck.fail(f"LRUCache.tla invariant {r.violated} violated in the model", {"tlc": r.out[-3000:]})
            continue
        require_covered(r, ["Get", "GetDefault", "SetC", "Del", "Member", "Length", "List"])
        for t in r.emitted:
            for cls, val in [(c_, v_) for c_ in (LRUCache, ThreadSafeLRUCache) for v_ in VALUATIONS]:
                why, got = replay_transition(cls, t, val)
                ck.case((cls.__name__, str(val), t["cap"], t["op"], t["k"], t["v"], tuple(t["pre"])),
                        sample={"class": cls.__name__, **t} if t["op"] == "set" and len(t["pre"]) == 2 * cap else None)
                ck.validated()
                if why:
                    ck.fail(f"{cls.__name__}: {why} differs from LRUCache.tla",
                            {"class": cls.__name__, "transition": t, "valuation": val, "observed": got},
                            sig=f"seq:{cls.__name__}:{t['op']}:{why}")
    # ---- B: interleavings ---------------------------------------------------------------
    for cap in (1, 2):
        r = run_tlc("LRUCacheMT", f"cfg/LRUCacheMT_cap{cap}_emit.cfg", workers=1, timeout=900,
                    extra=["-view"] if False else None)
        ck.tlc(f"LRUCacheMT cap={cap}", r)
        if r.violated:
            ck.fail(f"LRUCacheMT.tla invariant {r.violated} violated in the model", {"tlc": r.out[-3000:]})
            continue
        beh = r.emitted
        if tier == "quick" and len(beh) > 40000:
            beh = rnd.sample(beh, 40000)
        for b in beh:
            i, got = replay_interleaving(ThreadSafeLRUCache, b)
            ck.case(("mt", cap, str(b["steps"])), nontrivial=any(s["act"] == "begin" for s in b["steps"]))
            ck.validated()
            if i is not None:
                s = b["steps"][i]
                ck.fail("ThreadSafeLRUCache: step result differs from LRUCacheMT.tla (listing interleaved with a mutation)",
                        {"cap": cap, "steps": b["steps"], "failing_step": i, "observed": got},
                        sig=f"mt:{s['act']}:{s['k'] if s['act'] in ('begin', 'next') else ''}:{got[0] if got else ''}")
        if beh:
            ck.sample({"interleaving": beh[len(beh) // 2]})
    # deviation run: demonstrates the counterexample for the live-iterator variant (spec sanity, not a verdict)
    rdev = run_tlc("LRUCacheMT", "cfg/LRUCacheMT_deviation.cfg", workers=8, timeout=300, expect_violation=True)
    if not rdev.violated:
        raise MachineryError("deviation config LiveIterators=TRUE no longer violates anything: MT model is vacuous")
    ck.cov["deviation_demo"] = f"LiveIterators=TRUE violates {rdev.violated}"
    # ---- C0: real threads, black box: whatever the implementation looks like inside, no operation may fail and the bound holds ----
    old = sys.getswitchinterval()
    sys.setswitchinterval(1e-6)
    keys = ["k%d" % i for i in range(6)]
    vals = ["x", "y", "z"]
    try:
        for nth, nops in [(2, 60), (4, 40), (8, 30), (16, 20)] * (2 if tier == "quick" else 10):
            cap = rnd.randint(1, 4)
            errs, c = _blackbox_workload(ThreadSafeLRUCache, cap, nth, nops, rnd, keys, vals)
            ck.case(("threads-blackbox", nth, nops, cap))
            ck.validated()
            if errs:
                ck.fail("exception escaped a cache operation under threads", {"errors": errs[:5]}, sig="threads:escape")
            listing = list(c.keys())
            if len(c) > cap or len(listing) != len(set(listing)) or len(listing) != len(c):
                ck.fail("after a threaded workload the cache exceeds its capacity or lists a key twice", {"cap": cap, "len": len(c), "keys": listing}, sig="threads:bound")
        for cap, nth in ((1, 4), (2, 4)):
            errs, n, c = _hammer(ThreadSafeLRUCache, cap, nth, 1.5 if tier == "quick" else 10.0, rnd)
            ck.case(("threads-hammer", cap, nth))
            ck.validated()
            ck.cov["hammer_lookups"] = ck.cov.get("hammer_lookups", 0) + n
            if errs:
                ck.fail("a thread-safe cache operation failed under concurrent eviction", {"errors": errs[:5], "capacity": cap, "threads": nth}, sig="threads:escape")
            if len(c) > cap:
                ck.fail("after the hammer the cache exceeds its capacity", {"cap": cap, "len": len(c)}, sig="threads:bound")
    finally:
        sys.setswitchinterval(old)
    # ---- C: recorded traces (only if the recorder fits this implementation: self-test on a scripted sequential run) ----------------
    fits, why = _recorder_selftest(LRUCache, ThreadSafeLRUCache)
    if not fits:
        ck.cov["thread_traces"] = "not recorded: " + why
        print("# NOTE C24: event traces are not validated on this tree (the recorder's wrappers do not fit the implementation: %s); "
              "transition replay, interleaving replay and the black-box thread workloads still ran" % why)
        ck.assumptions += ["real-thread event traces were NOT validated: " + why]
        return ck.finish()
    rec = instrument.LRURecorder()
    instrument.install_lru(rec)
    traces = []
    old = sys.getswitchinterval()
    sys.setswitchinterval(1e-6)
    try:
        plan = [(2, 40), (3, 40), (4, 30), (8, 20), (16, 12)] * (2 if tier == "quick" else 12)
        for nth, nops in plan:
            tr, errs = _threaded_workload(ThreadSafeLRUCache, rnd.randint(1, 4), nth, nops, rnd, rec, keys, vals)
            if errs:
                ck.fail("exception escaped a cache operation under threads", {"errors": errs[:5]}, sig="threads:escape")
            traces.append(tr)
        # long random sequential sequences on both classes
        for i in range(60 if tier == "quick" else 600):
            cls = (LRUCache, ThreadSafeLRUCache)[i % 2]
            tr, errs = _threaded_workload(cls, rnd.randint(1, 4), 1, rnd.randint(20, 120), rnd, rec, keys, vals)
            traces.append(tr)
    finally:
        sys.setswitchinterval(old)
        instrument.unwrap_all()
    acc, diags, r = tracecheck.validate("LRUCacheTrace", "cfg/LRUCacheTrace.cfg", traces,
                                        diag_cfg="cfg/LRUCacheTrace_diag.cfg",
                                        consts={"Keys": tracecheck.tla_set(keys + [""]), "Vals": tracecheck.tla_set(vals + [""])})
    ck.tlc("LRUCacheTrace", r)
    for i, tr in enumerate(traces):
        ck.case(("trace", i), nontrivial=True)
        ck.validated()
        if i not in acc:
            d = diags.get(i, [])
            first = d[0] if d else (0, "unknown", "")
            ev = tr["ev"][first[0] - 1] if first[0] else {}
            ck.fail(f"recorded trace rejected by LRUCacheTrace.tla: clause {first[1]} at event {first[0]}",
                    {"cap": tr["cap"], "threadsafe": tr["threadsafe"], "mismatches": d[:10],
                     "prefix": tr["ev"][max(0, first[0] - 6):first[0]]},
                    sig=f"trace:{first[1]}:{ev.get('op', '')}:{(ev.get('ret') or [''])[0] if str((ev.get('ret') or [''])[0]).startswith('!') else ''}")
    ck.sample({"recorded_trace_head": traces[0]["ev"][:4], "cap": traces[0]["cap"]})
    ck.assumptions += ["real-thread schedules are sampled (forced 1e-6 switch interval); exhaustive only for the modelled interleavings of 2 threads x 2 operations",
                       "keys and values are strings; bounds Keys=3, Vals=2, Cap<=%d for the exhaustive graph" % caps[-1]]
    return ck.finish()


def _run_exh(cap):
    import os, tempfile
    from ..tlcrun import SPEC
    # the capacity is a literal in a generated cfg (cfg files cannot take parameters)
    base = open(os.path.join(SPEC, "cfg/LRUCache_exh.cfg")).read()
    path = os.path.join(SPEC, "cfg", f".gen_LRUCache_cap{cap}.cfg")
    with open(path, "w") as f:
        f.write(base.replace("Cap = 2", f"Cap = {cap}") + "INVARIANT Emit\n")
    try:
        return run_tlc("LRUCache", f"cfg/.gen_LRUCache_cap{cap}.cfg", workers=1, coverage=True, timeout=600)
    finally:
        os.unlink(path)


def replay(path):
    import json
    fresh_repo_imports()
    from liquid.utils.lru_cache import LRUCache, ThreadSafeLRUCache
    d = json.load(open(path))["detail"]
    if "transition" in d:
        cls = {"LRUCache": LRUCache, "ThreadSafeLRUCache": ThreadSafeLRUCache}[d["class"]]
        print(replay_transition(cls, d["transition"], d.get("valuation")))
    elif "steps" in d:
        print(replay_interleaving(ThreadSafeLRUCache, d))
    else:
        print(json.dumps(d, indent=1))
    return 0
