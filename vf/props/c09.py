"""C09 — parsing and rendering always terminate within the stack.

spec/BlockParser.tla  Progress / Terminates for the parser automaton; the same token sequences are parsed under
                      STRICT, WARN and LAX with a wall-clock alarm (a hang has no action in the automaton)
spec/Recursion.tla    lassos of templates that include/render/extend/call each other at block depths 0..29
"""
from __future__ import annotations

import random
import signal

from ..core import Check, fresh_repo_imports, seed
from ..tlcrun import run_many, gen_cfg, cleanup_gen
from .. import harness, par
from . import c21

PID = "C09"
ALARM = 5


class Hang(BaseException):      # BaseException: the library's `except Exception` handlers must not swallow the alarm
    pass


_armed = False
_hangs = 0          # confirmed hangs seen by this worker process
MAX_HANGS = 3       # after that many, the remaining cases of this worker are skipped (the violation is already established)


def _alarm(signum, frame):
    if _armed:
        raise Hang()


def _once(fn, budget):
    """Run fn under a CPU-time alarm of this process (ITIMER_VIRTUAL): a spinning loop burns CPU and trips it,
    a descheduled worker on a busy machine does not (wall-clock alarms raised false alarms under load)."""
    global _armed
    signal.signal(signal.SIGVTALRM, _alarm)
    signal.setitimer(signal.ITIMER_VIRTUAL, budget, 0.5)   # repeating: a firing swallowed inside a GC callback is followed by another
    try:
        try:
            _armed = True
            r = fn()
            _armed = False
        except Hang:
            _armed = False
            r = {"err": "HANG", "liquid": False}
    except Hang:                                           # a second firing in the window before the flag was cleared
        _armed = False
        r = {"err": "HANG", "liquid": False}
    finally:
        _armed = False
        signal.setitimer(signal.ITIMER_VIRTUAL, 0)
    return r


def timed(fn, budget=ALARM):
    global _hangs
    if _hangs >= MAX_HANGS:
        return {"err": "SKIPPED", "liquid": True}
    r = _once(fn, budget)
    if isinstance(r, dict) and r.get("err") == "HANG":
        # a real non-terminating loop hangs every time; a collector pause or a busy machine does not: confirm alone, generously
        import gc
        gc.collect()
        r = _once(fn, 4 * budget)
        if isinstance(r, dict) and r.get("err") == "HANG":
            _hangs += 1
    return r


def nest(d, inner):
    return "{% if true %}" * d + inner + "{% endif %}" * d


def concretize(g, prefix="", filt=False):
    """graph -> DictLoader templates; t1 is the entry point. prefix: templates live under a directory-like name ('layouts/t1'):
    the engine names a loaded template after the LAST component, so a guard that mixes the two namings never fires"""
    tmpl = {prefix + "base": "B{% block body %}b{% endblock %}"}
    F = "{{ 'x' | upcase | append: 'y' }}{% assign z = 'q' | downcase %}" if filt else ""     # filter calls at every level (stack window family)
    for name0, e in g.items():
        name = prefix + name0
        k, to, d = e["k"], prefix + e["to"], e["d"]
        if k == "none":
            tmpl[name] = "leaf"
        elif k == "include":
            tmpl[name] = "x" + F + nest(d, F + f"{{% include '{to}' %}}")
        elif k == "render":
            tmpl[name] = "x" + F + nest(d, F + f"{{% render '{to}' %}}")
        elif k == "extends":
            tmpl[name] = f"{{% extends '{to}' %}}"
        elif k == "extblock":
            tmpl[name] = "{% extends '" + prefix + "base' %}{% block body %}" + nest(d, F + f"{{% include '{to}' %}}") + "{% endblock %}"
        elif k == "call":
            tmpl[name] = "{% macro m %}" + nest(d, "y" + F + "{% call m %}") + "{% endmacro %}{% call m %}"
    return tmpl


_lv = {"d": 0, "m": 0}
LIMIT = 30          # context_depth_limit (Recursion.tmpl: Limit)


def _install_level_probe():
    """Observed counterpart of Recursion.tla's `level`: nesting of partial renders (render_with_context(partial=True))."""
    from liquid.template import BoundTemplate
    from .. import instrument

    def mk(orig):
        def f(self, context, buffer, *a, partial=False, block_scope=False, **k):
            if partial:
                _lv["d"] += 1
                _lv["m"] = max(_lv["m"], _lv["d"])
            try:
                return orig(self, context, buffer, *a, partial=partial, block_scope=block_scope, **k)
            finally:
                if partial:
                    _lv["d"] -= 1
        return f

    def mka(orig):
        async def f(self, context, buffer, *a, partial=False, block_scope=False, **k):
            if partial:
                _lv["d"] += 1
                _lv["m"] = max(_lv["m"], _lv["d"])
            try:
                return await orig(self, context, buffer, *a, partial=partial, block_scope=block_scope, **k)
            finally:
                if partial:
                    _lv["d"] -= 1
        return f
    instrument.wrap(BoundTemplate, "render_with_context", mk)
    instrument.wrap(BoundTemplate, "render_with_context_async", mka)


def replay_graph(case):
    import time
    t0 = time.process_time()
    _install_level_probe()
    prefix = case.get("prefix", "")
    tmpl = concretize(case["g"], prefix)
    env = harness.make_env(templates=tmpl)
    res = []
    for how in ("sync", "async"):
        def go():
            try:
                t = env.get_template(prefix + "t1")
            except Exception as e:
                return harness.classify(e)
            return harness.render(t, {}, how)
        _lv["d"] = _lv["m"] = 0
        o = timed(go)
        got = "ok" if "out" in o else o["err"]
        if got == "ContextDepthError":
            # Recursion.tla!LevelsBounded: the counters, not the interpreter's stack, end the recursion: at most (limit+2)*(limit//2+2) partial levels
            # (a copy starts a fresh scope chain; 2*limit+4 only holds for cycles of <= 2 templates).
            # (Where no stack cut-off is involved the model also predicts the exact level; a different but equally bounded accounting
            # of the scope chain is not a violation of the property, so the exact comparison is kept as a note only.)
            if _lv["m"] > (LIMIT + 2) * (LIMIT // 2 + 2):
                got = "ContextDepthError-after-%d-levels" % _lv["m"]
            elif case.get("cut") in ("scope", "copy") and all(e["d"] == 0 for e in case["g"].values()) and _lv["m"] != case["level"]:
                o["detail"] = "level %d, model %d" % (_lv["m"], case["level"])
        res.append((how, got, o.get("detail", "")))
    res.append(("cpu", time.process_time() - t0, ""))
    return tmpl, res


def _at_depth(k, fn):
    return fn() if k <= 0 else _at_depth(k - 1, fn)


WINDOW = 130        # caller depths swept: more than the frames one recursion level costs, so every alignment of the exhaustion point occurs


def replay_window(case):
    """Stack exhaustion is the cut-off Recursion.tla predicts for this graph.  Where exactly the interpreter's stack runs out depends on how
    deep the caller already is: sweep the caller's depth over a full period, with filter calls at every level, and require the statement's
    outcome every time (a cut-off raised INSIDE a filter, a lookup or an expression must still surface as ContextDepthError)."""
    tmpl = concretize(case["g"], filt=True)
    env = harness.make_env(templates=tmpl)
    bad = []
    for how in ("sync", "async"):
        for k in range(0, WINDOW, 1 if how == "sync" else 3):
            def go():
                try:
                    t = env.get_template("t1")
                except Exception as e:
                    return harness.classify(e)
                return harness.render(t, {}, how)
            o = timed(lambda: _at_depth(k, go))
            got = "ok" if "out" in o else o["err"]
            if got not in ("ok", "ContextDepthError", "TemplateInheritanceError", "DisabledTagError", "SKIPPED"):
                bad.append((how, k, got, str(o.get("msg", ""))[:160]))
                break
    return tmpl, bad


def replay_seq(job):
    case, extra = job
    src = c21.concretize(case["seq"])
    out = []
    for mode in ("strict", "warn", "lax"):
        env = harness.make_env(mode=mode, extra=extra, nesting_limit=case["limit"])
        o = timed(lambda: harness.run(env, src, {"v": "V"}, "sync"))
        if o.get("err") in ("HANG", "RecursionError"):
            out.append((mode, o["err"]))
    return src, out


def run(tier: str) -> int:
    fresh_repo_imports()
    ck = Check(PID, tier)
    rnd = random.Random(seed())
    ck.cov["rule"] = ("A: Recursion.tla — every assignment of one edge (none/include/render/extends/extends+block+include/call) per template "
                      "over 2 (thorough 3) templates with the edge at block depth 0/12/29 (thorough +5,20); expected status from the model; rendered "
                      "sync+async under a %ds CPU-time alarm. B: BlockParser.tla token sequences parsed+rendered under strict/warn/lax under the same alarm" % ALARM)
    L = 4
    jobs_tlc, names = [], []
    try:
        rec = gen_cfg("cfg/Recursion.tmpl", dict(Templates='{"t1","t2"}',
                                                 Depths="{0, 12, 29}" if tier == "quick" else "{0, 5, 12, 29}", Extra="INVARIANT Emit"), "rec")
        live = gen_cfg("cfg/Recursion.tmpl", dict(Templates='{"t1","t2"}', Depths="{0, 12}", Extra="PROPERTY Terminates"), "reclive")
        jobs_tlc = [("Recursion", rec, dict(workers=1, timeout=3000)), ("Recursion", live, dict(workers=4, timeout=900))]
        for nm, (alpha, extra) in c21.ALPHABETS.items():
            jobs_tlc.append(("BlockParser", gen_cfg("cfg/BlockParser.tmpl", dict(Alphabet=alpha, MaxLen=L, NestLimit=c21.NEST if nm != "extra" else 8,
                                                                                  Extra="INVARIANT Emit"), "t" + nm), dict(workers=1, timeout=3000, extra=["-maxSetSize", "4000000"])))
            names.append(nm)
        results = run_many(jobs_tlc, parallel=7)
    finally:
        cleanup_gen()
    rrec, rlive = results[0], results[1]
    ck.tlc("Recursion", rrec)
    ck.tlc("Recursion liveness (Terminates under WF)", rlive)
    for r in (rrec, rlive):
        if r.violated:
            ck.fail(f"Recursion.tla {r.violated} violated", {"tlc": r.out[-3000:]})
    graphs = rrec.emitted
    # the same families with directory-like template names (only those with an extends / block edge are worth a second run)
    graphs = graphs + [dict(c, prefix="layouts/") for c in graphs if any(e["k"] in ("extends", "extblock") for e in c["g"].values())]
    if tier == "thorough" and len(graphs) > 8000:
        graphs = rnd.sample(graphs, 8000)
    for case, (tmpl, res) in zip(graphs, par.pmap(replay_graph, graphs, chunk=8)):
        ck.case(("A", case.get("prefix", ""), str(case["g"])), nontrivial=case["status"] != "ok")
        ck.validated()
        cpu = res.pop()[1]
        if cpu > ck.cov.get("max_cpu_s_per_family", 0):
            ck.cov["max_cpu_s_per_family"] = round(cpu, 3)
            ck.cov["slowest_family"] = case["g"]
        for how, got, detail in res:
            if detail.startswith("level "):
                ck.cov["level_differs_from_model_note"] = ck.cov.get("level_differs_from_model_note", 0) + 1
            if got == "SKIPPED":
                ck.cov["skipped_after_hangs"] = ck.cov.get("skipped_after_hangs", 0) + 1
                continue
            if got != case["status"]:
                e1 = case["g"]["t1"]
                ck.fail(f"render ends with {got}, Recursion.tla requires {case['status']}",
                        {"graph": case["g"], "templates": tmpl, "mode": how, "observed": got, "detail": detail},
                        sig=f"A:{'/'.join(case['g'][t]['k'] for t in sorted(case['g']))}:d={e1['d']}:{got}")
                break
    # stack window: graphs whose cut-off is the interpreter's stack, replayed from every caller depth of a period
    win = [c for c in rrec.emitted if c.get("cut") == "stack"]
    capw = 24 if tier == "quick" else 40
    if len(win) > capw:
        win = rnd.sample(win, capw)
    for case, (tmpl, bad) in zip(win, par.pmap(replay_window, win, chunk=2)):
        ck.case(("W", str(case["g"])), nontrivial=True)
        ck.validated(WINDOW + (WINDOW + 2) // 3)
        for how, k, got, msg in bad:
            e1 = case["g"]["t1"]
            ck.fail(f"stack exhaustion surfaces as {got} when render is called {k} frames deep (must be ContextDepthError): {msg}",
                    {"graph": case["g"], "templates": tmpl, "mode": how, "caller_depth": k, "observed": got},
                    sig=f"W:{'/'.join(case['g'][t]['k'] for t in sorted(case['g']))}:d={e1['d']}:{got}")
            break
    ck.cov["stack_window_graphs"] = len(win)
    if graphs:
        ck.sample({"graph": graphs[len(graphs) // 2]["g"], "templates": concretize(graphs[len(graphs) // 2]["g"]),
                   "expected": graphs[len(graphs) // 2]["status"]})
    jobs = []
    for nm, rr in zip(names, results[2:]):
        ck.tlc("BlockParser " + nm, rr)
        if rr.violated:
            ck.fail(f"BlockParser.tla {rr.violated} violated", {"tlc": rr.out[-2000:]})
        cs = rr.emitted
        cap = 8000 if tier == "quick" else 40000
        if len(cs) > cap:
            # unterminated sources (rejected for an unclosed block) are where recovery loops can spin: keep them all if possible
            open_ = [c for c in cs if c["unclosed"]]
            rest = [c for c in cs if not c["unclosed"]]
            keep = open_ if len(open_) <= cap else rnd.sample(open_, cap)
            cs = keep + rnd.sample(rest, min(len(rest), max(0, cap - len(keep))))
        jobs += [(c, c21.ALPHABETS[nm][1]) for c in cs]
    for (case, extra), (src, bad) in zip(jobs, par.pmap(replay_seq, jobs, chunk=64)):
        ck.case(("B", src, extra), nontrivial=bool(case["unclosed"]) or case["strict"] != "ok")
        ck.validated()
        for mode, what in bad:
            ck.fail(f"parse/render in {mode} mode: {what} (no action of BlockParser.tla: every step consumes a token)",
                    {"source": src, "seq": case["seq"], "mode": mode}, sig=f"B:{mode}:{what}:{case['seq'][0]}")
            break
    ck.assumptions += ["'promptly' is %d s of CPU time per source of <= 6 tags" % ALARM,
                       "the interpreter-stack budget is abstract in Recursion.tla (StackLimit/FramePer*): only the outcome class is compared"]
    return ck.finish()


def replay(path):
    import json
    fresh_repo_imports()
    d = json.load(open(path))["detail"]
    if "graph" in d:
        print(replay_graph({"g": d["graph"], "status": "?"})[1])
    else:
        print(replay_seq(({"seq": d["seq"], "limit": 3}, True)))
    return 0
