"""C26 — null translations leave message text intact (spec/Translate.tla).

TLC enumerates message x route x plural/count x context x variable-binding cells and, from the
requirement layer of the specification, emits for every cell what the template author writes and the
text that must come out.  This file only (a) writes the cell down as Liquid source + render data in
several concrete spellings, (b) renders it sync and async with no message catalogue configured and
(c) compares the rendered text with the specification's (the tag's modulo whitespace-run collapsing).
"""
from __future__ import annotations

import json
import re

from ..core import Check, fresh_repo_imports, seed
from ..tlcrun import MachineryError, cleanup_gen, gen_cfg, run_many
from .. import harness, par

PID = "C26"
ROUTES = ["tag", "t", "gettext", "ngettext", "pgettext", "npgettext"]
DEVIATIONS = {  # named wrong mechanisms of the specification and the invariant each must break
    "cfg/Translate_dev_truthy.cfg": "PluralByCount",
    "cfg/Translate_dev_collapse.cfg": "FormatReplacesOnlyPlaceholders",
    "cfg/Translate_dev_lookbehind.cfg": "FormatReplacesOnlyPlaceholders",
}
_WS = re.compile(r"\s+")
_envs: dict = {}


def _env(autoescape: bool):
    if autoescape not in _envs:
        _envs[autoescape] = harness.make_env(autoescape=autoescape)
    return _envs[autoescape]


# ---------------------------------------------------------------------------- concretisation
def _chars(seq):
    return "".join(seq)


def _block(items, tight):
    """The body of a translate block: characters as they are, variables as output statements."""
    var = "{{%s}}" if tight else "{{ %s }}"
    return "".join(var % it[1:] if it.startswith("$") else it for it in items)


def _lit(text, q):
    return q + text + q


def concretize(case, variant):
    """-> (source, render data, autoescape). Variant bits choose between equivalent spellings."""
    via_var, autoescape, args_var, dq = (bool(variant & 1), bool(variant & 2), bool(variant & 4), bool(variant & 8))
    q = '"' if dq else "'"
    route = case["route"]
    if route != "tag" and (via_var or args_var) and "<" in case["sing"] + case["plur"]:
        # a message that arrives through a render variable is untrusted text: escaping it is autoescape's business
        # (property C05), so markup characters in such a message are only run with autoescape off
        autoescape = False
    data: dict = {}

    def arg(name, literal, value):
        """an argument written as a literal or handed over through a render variable"""
        if args_var:
            data[name] = value
            return name
        return literal

    value = _chars(case["valChars"])
    pyval = int(value) if case["val"] in ("num", "zero") else False if case["val"] == "false" else value
    kw = []
    if case["bind"] in ("kw", "both"):
        kw.append("y: " + arg("yv", value if case["val"] in ("num", "zero", "false") else _lit(value, q), pyval))
    if case["bind"] == "data":
        data["y"] = pyval
    elif case["bind"] == "both":
        data["y"] = _chars(case["otherVal"])

    cnt = case["count"]
    count = None
    if cnt["kind"] == "int":
        count = arg("n", str(cnt["n"]), cnt["n"])
    elif cnt["kind"] == "str":
        count = arg("n", _lit(str(cnt["n"]), q), str(cnt["n"]))
    ctx = arg("cx", _lit("greeting", q), "greeting") if case["ctx"] else None

    if route == "tag":
        args = ([f"context: {ctx}"] if ctx else []) + ([f"count: {count}"] if count is not None else []) + kw
        src = "{% translate" + (" " + ", ".join(args) if args else "") + " %}" + _block(case["sing"], via_var)
        if case["hasPlur"]:
            src += "{% plural %}" + _block(case["plur"], via_var)
        return src + "{% endtranslate %}", data, autoescape

    if via_var:
        data["m"] = _chars(case["sing"])
        left = "m"
    else:
        left = _lit(_chars(case["sing"]), q)
    plural = arg("pl", _lit(_chars(case["plur"]), q), _chars(case["plur"])) if case["hasPlur"] else None
    if route == "t":
        args = ([ctx] if ctx else []) + ([f"plural: {plural}"] if plural is not None else []) \
            + ([f"count: {count}"] if count is not None else []) + kw
    elif route == "gettext":
        args = kw
    elif route == "ngettext":
        args = [plural, count] + kw
    elif route == "pgettext":
        args = [ctx] + kw
    else:
        args = [ctx, plural, count] + kw
    return "{{ " + left + " | " + route + (": " + ", ".join(args) if args else "") + " }}", data, autoescape


def project(text, case):
    """The abstract observation: the tag's output is observed modulo whitespace-run collapsing."""
    return _WS.sub(" ", text).strip() if case["norm"] else text


def _sig(case, why):
    marks = "+".join(sorted(set(case["atoms"]["s"] + case["atoms"]["p"]) & {"%", "%%", "%s", "PH", "PC", "LIT"}))
    if why == "wrong plural form":
        return f"{case['route']}:form:count={case['count']['kind']}{case['count']['n']}"
    return f"{case['route']}:{why}:{marks}"


def replay_one(job):
    case, variant = job
    src, data, autoescape = concretize(case, variant)
    env = _env(autoescape)
    want = _chars(case["exp"])
    wrong = _chars(case["expWrongForm"]) if case["hasPlur"] else None
    res = []
    for how in ("sync", "async"):
        o = harness.run(env, src, data, how)
        if "out" not in o:
            res.append((how, "raised " + o["err"], o.get("msg") or o.get("detail") or ""))
            continue
        got = project(o["out"], case)
        if got == want:
            res.append((how, None, got))
        elif wrong is not None and got == wrong:
            res.append((how, "wrong plural form", got))
        else:
            res.append((how, "text altered", got))
    return src, data, autoescape, res


# ---------------------------------------------------------------------------- the check
def _tlc_jobs(tier):
    if tier == "quick":
        return [("Translate_quick", "Translate", "cfg/Translate_quick.cfg", {"workers": 4, "timeout": 600}),
                ("Translate_quick_lit_tag", "Translate", gen_cfg("cfg/Translate_thorough.tmpl", dict(Route="tag", MaxS=3, MaxP=1, MaxC=0, MaxB=0, Alphabet="lit"), "qlit"),
                 {"workers": 2, "timeout": 600})]
    jobs = []

    def add(tag, r, **consts):
        cfg = gen_cfg("cfg/Translate_thorough.tmpl", dict(consts, Route=r), f"{tag}_{r}")
        jobs.append((f"Translate_thorough_{tag}_{r}", "Translate", cfg, {"workers": 2, "timeout": 1500}))

    for r in ("tag", "t", "gettext"):
        add("full", r, MaxS=4, MaxP=3, MaxC=2, MaxB=3 if r != "t" else 2, Alphabet="full")
    for r in ("ngettext", "pgettext", "npgettext"):      # same formatter as gettext/t, other argument plumbing
        add("full", r, MaxS=3, MaxP=3, MaxC=2, MaxB=2, Alphabet="full")
    for r in ("tag", "gettext", "t"):                    # deeper messages over the percent-related atoms
        add("pct", r, MaxS=5, MaxP=4, MaxC=0, MaxB=1, Alphabet="pct")
    add("lit", "tag", MaxS=3, MaxP=1, MaxC=0, MaxB=0, Alphabet="lit")   # + literal %(y)s text in a block
    return jobs


def run(tier: str) -> int:
    fresh_repo_imports()
    ck = Check(PID, tier)
    ck.cov["rule"] = (
        "Translate.tla: messages = sequences of atoms over {text,%,%%,%s,%(y)s,%(count)s,(,),space,newline,<} (+ the literal "
        "characters %(y)s inside a tag block), meaning defined on their characters; routes translate tag, t, gettext, ngettext, "
        "pgettext, npgettext. Format family: every message of <= MaxS atoms as the singular (count absent or 1) and of <= MaxP atoms "
        "as the plural (count 2); plural family: messages of <= MaxC atoms x plural present/absent x count in "
        "{absent,0,1,2,3,-1,'0','2'} x context; binding family: messages of <= MaxB atoms with %(y)s x y bound by keyword argument / "
        "render data / both / not at all x values {Sue, 5%, %(y)s, 7}. "
        + ("quick: MaxS=3 (tag, gettext) / 2 (other routes), MaxP=1, MaxC=1, MaxB=2. " if tier == "quick" else
           "thorough (one TLC per route): MaxS=4 (tag, t, gettext) / 3 (ngettext, pgettext, npgettext), MaxP=3, MaxC=2, MaxB=3 (tag, "
           "gettext) / 2; + messages of <= 5 atoms (<= 4 as the plural) over the percent-related atoms {text,%,%%,%s,%(y)s,(} for "
           "tag, gettext, t; + tag blocks of <= 3 atoms that may contain the literal text %(y)s. ")
        + "TLC checks PluralByCount, FormatReplacesOnlyPlaceholders, PercentSignsSurvive, TagMsgidWellFormed, FilterMsgidIsText on "
          "the step-wise mechanism (msgid construction, NullTranslations selection, left-to-right scan) against the declarative "
          "requirement, and emits per cell the written message(s) and the required output; every cell is rendered sync+async, "
          "message/arguments as literals or render variables, autoescape off/on, both quote styles"
        + ("; the three named deviations (TruthyCount, PercentCollapse, LookbehindInTag) are model-checked to refute their "
           "invariant." if tier == "thorough" else "."))
    try:
        jobs = _tlc_jobs(tier)
        # the named deviations are refuted in the thorough tier only (three more JVMs; the quick tier keeps to one)
        devs = [(cfg.split("/")[-1][:-4], "Translate", cfg, {"workers": 1, "timeout": 600})
                for cfg in (DEVIATIONS if tier == "thorough" else ())]
        results = run_many([j[1:] for j in jobs + devs], parallel=4 if tier == "quick" else 6)
    finally:
        cleanup_gen()
    cases, seen = [], set()
    for (name, mod, cfg, _), r in zip(jobs, results[:len(jobs)]):
        ck.tlc(name, r)
        if r.violated:
            ck.fail(f"Translate.tla {r.violated} violated", {"cfg": cfg, "tlc": r.out[-3000:]})
            return ck.finish()
        for c in r.emitted:
            k = json.dumps(c, sort_keys=True)
            if k not in seen:
                seen.add(k)
                cases.append(c)
    for (name, mod, cfg, _), r in zip(devs, results[len(jobs):]):
        ck.tlc(name, r)
        if r.violated != DEVIATIONS[cfg]:
            raise MachineryError(f"{cfg}: the deviation should refute {DEVIATIONS[cfg]}, TLC says {r.violated!r} (vacuous invariant?)")
    if not cases:
        raise MachineryError("Translate.tla emitted no case")
    # vacuity: every scanner action, every route, both forms, claimed and unclaimed cells must occur
    used = {s for c in cases for s in c["steps"]}
    if used != {"esc", "var", "lit"} or {c["route"] for c in cases} != set(ROUTES) \
            or {c["form"] for c in cases if c["hasPlur"]} != {"singular", "plural"}:
        raise MachineryError(f"bounded family is vacuous: scanner actions {sorted(used)}")

    claimed = [c for c in cases if c["claimed"]]
    ck.cov["cells"] = len(cases)
    ck.cov["unclaimed_cells"] = len(cases) - len(claimed)
    nvar = 2 if tier == "quick" else 1
    jobs2 = [(c, (i * 7 + 5 * v + (seed() % 16)) % 16) for i, c in enumerate(cases) for v in range(nvar)]
    res = par.pmap(replay_one, jobs2, chunk=128)
    unclaimed_outcomes: dict = {}
    for (case, variant), (src, data, autoescape, rr) in zip(jobs2, res):
        if not case["claimed"]:
            for how, why, got in rr:
                k = why or "some output"
                unclaimed_outcomes[k] = unclaimed_outcomes.get(k, 0) + 1
            continue
        ck.case((src, json.dumps(data, sort_keys=True), autoescape),
                nontrivial="%" in src or case["hasPlur"] or case["bind"] != "none")
        ck.validated()
        for how, why, got in rr:
            if why:
                kind = why.split(" ")[0] + ":" + why.split(" ")[1] if why.startswith("raised") else why
                ck.fail(f"{case['route']}: {why}",
                        {"source": src, "data": data, "autoescape": autoescape, "mode": how,
                         "observed" + (" (whitespace runs collapsed)" if case["norm"] else ""): got,
                         "expected": _chars(case["exp"]), "required_form": case["form"],
                         "abstract_case": {k: case[k] for k in ("route", "atoms", "hasPlur", "count", "ctx", "bind", "val")},
                         "msgid": _chars(case["msgid"]), "spec_steps": case["steps"]},
                        sig=_sig(case, kind))
                break
    ck.cov["unclaimed_outcomes"] = unclaimed_outcomes
    picks = [c for c in claimed if "%" in _chars(c["exp"]) and c["bind"] != "none"]
    for c in (picks[:: max(1, len(picks) // 3)] + [x for x in claimed if x["hasPlur"] and x["count"]["n"] == 0])[:4]:
        s, d, a = concretize(c, 0)
        ck.sample({"source": s, "data": d, "expected": _chars(c["exp"]), "form": c["form"], "msgid": _chars(c["msgid"])})
    ck.assumptions += [
        "tag output is compared modulo collapsing of whitespace runs; a leading/trailing run may disappear altogether (the "
        "documentation's own example strips the block)",
        "an unbound message variable is the default Undefined and renders as nothing; a keyword argument shadows render data "
        "(docs/babel.md 'Message variables')",
        "a plural form without a count selects the singular message (nothing to choose by)",
        "unclaimed (run, any outcome admissible): a filter message whose placeholder directly follows a percent sign ('%%(y)s'); "
        "%(count)s in a message of the t filter; the literal characters %(y)s written as text inside a tag block; counts that are "
        "not integers or integer strings (nil, floats, the string '1') are outside the family",
        "variable values contain no whitespace and no markup characters (autoescape on/off then fixes the same output)",
    ]
    return ck.finish()


def replay(path):
    fresh_repo_imports()
    d = json.load(open(path))["detail"]
    env = harness.make_env(autoescape=d["autoescape"])
    rc = 0
    for how in ("sync", "async"):
        o = harness.run(env, d["source"], d["data"], how)
        print(how, "->", o, "| expected:", repr(d["expected"]))
        key = [k for k in d if k.startswith("observed")][0]
        got = o.get("out")
        if got is not None and "collapsed" in key:
            got = _WS.sub(" ", got).strip()
        if got != d["expected"]:
            rc = 1
    return rc
