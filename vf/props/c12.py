"""C12 — conditions follow Liquid truthiness and operator rules (spec/Values.tla, spec/Expr.tla)."""
from __future__ import annotations

import random
from decimal import Decimal

from ..core import Check, fresh_repo_imports, seed
from ..tlcrun import run_tlc
from .. import harness, par

PID = "C12"
FLAGS = ("logical_not_operator", "logical_parentheses", "ternary_expressions")

# pool id -> (literal or None, python value or MISSING)
MISSING = object()
POOL = {
    "i0": ("0", 0), "i1": ("1", 1), "i2": ("2", 2), "in1": ("-1", -1),
    "d10": ("1.0", 1.0), "d15": ("1.5", 1.5), "d00": ("0.0", 0.0),
    "true": ("true", True), "false": ("false", False), "nil": ("nil", None), "undef": (None, MISSING),
    "s_empty": ("''", ""), "s_space": ("' '", " "), "s_a": ("'a'", "a"), "s_1": ("'1'", "1"), "s_ab": ("'ab'", "ab"), "s_b": ("'b'", "b"),
    "l_empty": (None, []), "l_1": (None, [1]), "l_1a": (None, [1, "a"]), "l_true": (None, [True]), "l_0": (None, [0]), "l_nil": (None, [None]),
    "h_empty": (None, {}), "h_a": (None, {"a": 1}),
    "r12": ("(1..2)", range(1, 3)), "r02": ("(0..2)", range(0, 3)),
    "empty": ("empty", MISSING), "blank": ("blank", MISSING),
}
DEC_ALT = {"d10": Decimal("1.0"), "d15": Decimal("1.5"), "d00": Decimal("0.0")}


def operand(vid, form, slot, data, alt=False):
    lit, val = POOL[vid]
    if vid in ("empty", "blank"):
        return lit
    if form == "lit" and lit is not None:
        return lit
    name = f"{slot}_{vid}"
    if val is not MISSING:
        data[name] = DEC_ALT.get(vid, val) if alt else val
    return name


def wrap(cond, carrier):
    if carrier == "if":
        return f"{{% if {cond} %}}T{{% else %}}F{{% endif %}}"
    if carrier == "unless":
        return f"{{% unless {cond} %}}F{{% else %}}T{{% endunless %}}"
    if carrier == "elsif":
        return f"{{% if false %}}X{{% elsif {cond} %}}T{{% else %}}F{{% endif %}}"
    if carrier == "ternary":
        return f"{{{{ 'T' if {cond} else 'F' }}}}"
    if carrier == "when":   # truthiness as the operand of a logical operator
        return f"{{% if {cond} and true %}}T{{% else %}}F{{% endif %}}"
    raise ValueError(carrier)


TRUE_REPS = [("true", True), ("zero", 0), ("estr", ""), ("elist", []), ("dec", 1.5)]
FALSE_REPS = [("false", False), ("nil", None), ("missing", MISSING)]


def concretize(case, variant):
    data = {}
    if case["kind"] == "cell":
        form = ("lit", "var")[variant % 2]
        a = operand(case["a"], form, "x", data, alt=variant >= 2)
        b = operand(case["b"], form, "y", data, alt=variant >= 2)
        carrier = ["if", "unless", "elsif", "ternary"][variant % 4] if variant >= 2 else "if"
        if case["op"] == "==" and variant == 1:
            return f"{{% case {a} %}}{{% when {b} %}}T{{% else %}}F{{% endcase %}}", data
        return wrap(f"{a} {case['op']} {b}", carrier), data
    if case["kind"] == "truth":
        form = ("lit", "var")[variant % 2]
        return wrap(operand(case["v"], form, "x", data), case["carrier"]), data
    if case["kind"] == "group":
        form = ("lit", "var")[variant % 2]
        a, b, c = (operand(case[k], form, k, data) for k in ("a", "b", "c"))
        grp = f"({a} {case['lop']} {b})"
        cond = f"{grp} {case['op']} {c}" if case["side"] == "l" else f"{c} {case['op']} {grp}"
        return wrap(cond, ["if", "ternary", "unless", "elsif"][(variant // 2) % 4]), data
    toks = []
    for t in case["tokens"]:
        if t in ("a", "b", "c"):
            truth = case["env"][t]
            reps = TRUE_REPS if truth else FALSE_REPS
            name, val = reps[(variant + ord(t)) % len(reps)]
            vname = f"{t}_{name}"
            if val is not MISSING:
                data[vname] = val
            toks.append(vname)
        else:
            toks.append(t)
    cond = " ".join(toks).replace("( ", "(").replace(" )", ")")
    return wrap(cond, ["if", "unless", "ternary", "elsif"][variant % 4]), data


def replay_one(job):
    case, variant = job
    src, data = concretize(case, variant)
    env = harness.make_env(flags=FLAGS)
    out = []
    for how in ("sync", "async"):
        o = harness.run(env, src, data, how)
        if "out" in o:
            obs = o["out"] if o["out"] in ("T", "F") else "?" + o["out"]
        elif o["err"] == "LiquidTypeError":
            obs = "E"
        else:
            obs = "!" + o["err"]
        out.append(obs)
    return src, out


def run(tier: str) -> int:
    fresh_repo_imports()
    ck = Check(PID, tier)
    rnd = random.Random(seed())
    ck.cov["rule"] = ("Expr.tla: every operator x ordered pair over a 29-value pool (ints, decimals, bools, nil, undefined, strings, lists, "
                      "dicts, ranges, empty, blank), truthiness of every value in every carrier, and every and/or/not tree of depth<=%d "
                      "over 3 atoms x all valuations, printed minimally and fully parenthesised; non-trivial = the rules fix the outcome (not Unspec)"
                      % 2)
    r = run_tlc("Expr", f"cfg/Expr_{tier}.cfg", workers=1, timeout=3000)
    ck.tlc("Expr_" + tier, r)
    if r.violated:
        ck.fail(f"Expr.tla {r.violated} violated", {"tlc": r.out[-3000:]})
        return ck.finish()
    cases = r.emitted
    trees = [c for c in cases if c["kind"] == "tree"]
    others = [c for c in cases if c["kind"] != "tree"]
    if tier == "quick" and len(trees) > 12000:
        trees = rnd.sample(trees, 12000)
    if tier == "thorough" and len(trees) > 300000:
        trees = rnd.sample(trees, 300000)
    jobs = []
    nvar = 2 if tier == "quick" else 4
    groups = [c for c in others if c["kind"] == "group"]
    others = [c for c in others if c["kind"] != "group"]
    for i, c in enumerate(groups):
        jobs.append((c, i % 8))
    for c in others:
        for v in range(nvar):
            jobs.append((c, v))
        if nvar < 4 and c["kind"] == "cell" and (c["a"] in DEC_ALT or c["b"] in DEC_ALT):
            jobs.append((c, 3))        # the decimal operands as decimal.Decimal render data (variable form), in every tier
    for i, c in enumerate(trees):
        jobs.append((c, i % 20))
    res = par.pmap(replay_one, jobs, chunk=256)
    for (case, variant), (src, obs) in zip(jobs, res):
        exp = case["expect"]
        ck.case((str(case), variant), nontrivial=exp != "U")
        ck.validated()
        if exp == "U":
            continue
        for how, o in zip(("sync", "async"), obs):
            if o != exp:
                if case["kind"] == "cell":
                    sig = f"cell:{case['op']}:{case['a']}:{case['b']}"
                elif case["kind"] == "truth":
                    sig = f"truth:{case['v']}:{case['carrier']}"
                elif case["kind"] == "group":
                    sig = f"group:{case['lop']}:{case['a']}:{case['b']}:{case['op']}:{case['c']}:{case['side']}"
                else:
                    sig = "tree:" + " ".join(case["tokens"])
                ck.fail(f"condition selects {o}, Values/Expr.tla require {exp}",
                        {"case": case, "variant": variant, "source": src, "mode": how, "observed": o, "expected": exp}, sig=sig)
                break
    # relational clause, evaluated by TLC (Relations.tla!OrderingConsistent): "<=" is "< or ==", a<b <=> b>a, ...
    table = {}
    for (case, variant), (src, obs) in zip(jobs, res):
        if case["kind"] == "cell" and obs[0] == obs[1] and not (case["op"] == "==" and variant == 1):
            table[(case["a"], case["b"], variant, case["op"])] = obs[0] if obs[0] in ("T", "F", "E") else "X"
    recs, keys = [], []
    for (a, b, variant, op) in list(table):
        if op != "<":
            continue
        g = lambda o, x=a, y=b: table.get((x, y, variant, o), "X")
        recs.append({"rel": "OrderingConsistent", "lt": g("<"), "gt": g(">"), "le": g("<="), "ge": g(">="), "eq": g("=="),
                     "ne": g("!="), "gtrev": table.get((b, a, variant, ">"), "X")})
        keys.append((a, b, variant))
    from .. import tracecheck
    rej, rr = tracecheck.relate(recs)
    ck.tlc("Relations!OrderingConsistent", rr)
    for i in rej:
        a, b, variant = keys[i]
        ck.fail("ordering operators are mutually inconsistent (Relations.tla!OrderingConsistent)",
                {"a": a, "b": b, "variant": variant, "observed": recs[i]}, sig=f"ordering:{a}:{b}")
    ck.cov["relational_tuples"] = len(recs)
    for c in (others[0], others[len(others) // 2], trees[0], trees[-1]):
        s, d = concretize(c, 0)
        ck.sample({"case": c, "source": s, "data": {k: repr(v) for k, v in d.items()}})
    ck.assumptions += ["cells marked Unspec (empty/blank vs nil/false/undefined, ordering with booleans, string contains non-string, ...) are run but not judged",
                       "decimals are one-digit (scaled integers in the spec, float and Decimal in the data)"]
    return ck.finish()


def replay(path):
    import json
    fresh_repo_imports()
    d = json.load(open(path))["detail"]
    print(replay_one((d["case"], d["variant"])))
    return 0
