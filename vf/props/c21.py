"""C21 — tag analysis is total and raises no false alarms (spec/BlockParser.tla)."""
from __future__ import annotations

import random

from ..core import Check, fresh_repo_imports, seed
from ..tlcrun import run_many, gen_cfg, cleanup_gen, run_tlc
from .. import harness, par

PID = "C21"
NEST = 3
ALPHABETS = {
    "cond": ('{"T","if","ifbad","elsif","else","endif","unless","endunless","foo"}', False),
    "loop": ('{"T","for","else","break","endfor","tablerow","endtablerow","continue","endfoo"}', False),
    "case": ('{"T","case","when","else","endcase","capture","endcapture","if","endif","Abad"}', False),
    "extra": ('{"T","O","block","endblock","macro","endmacro","with","endwith","translate","plural","endtranslate"}', True),
    "mixed": ('{"A","if","endif","for","endfor","case","when","endcase","elsifbad","continue","endcapture"}', False),
}
TEXT = {"T": "t", "O": "{{ v }}", "A": "{% assign v = 1 %}", "Abad": "{% assign %}", "if": "{% if true %}", "ifbad": "{% if %}",
        "elsif": "{% elsif true %}", "elsifbad": "{% elsif %}", "else": "{% else %}", "endif": "{% endif %}",
        "unless": "{% unless false %}", "endunless": "{% endunless %}", "case": "{% case 1 %}", "when": "{% when 1 %}",
        "endcase": "{% endcase %}", "for": "{% for i in (1..2) %}", "endfor": "{% endfor %}",
        "tablerow": "{% tablerow i in (1..2) %}", "endtablerow": "{% endtablerow %}", "capture": "{% capture c %}",
        "endcapture": "{% endcapture %}", "break": "{% break %}", "continue": "{% continue %}", "foo": "{% foo %}", "endfoo": "{% endfoo %}",
        "macro": "{% macro m@ %}", "endmacro": "{% endmacro %}", "with": "{% with a: 1 %}", "endwith": "{% endwith %}",
        "block": "{% block b@ %}", "endblock": "{% endblock %}", "translate": "{% translate %}", "plural": "{% plural %}",
        "endtranslate": "{% endtranslate %}"}


def concretize(seq):
    return "".join(TEXT[t].replace("@", str(i)) for i, t in enumerate(seq))


def strict_class(o):
    if o is None:
        return "ok"
    if o["err"] == "BlockNestingError":
        return "nesting"
    if not o.get("liquid"):
        return "!" + o["err"]
    return "syntax"


def replay_one(job):
    case, extra = job
    src = concretize(case["seq"])
    env = harness.make_env(extra=extra, nesting_limit=case["limit"])
    _, err = harness.parse(env, src)
    strict = strict_class(err)
    try:
        a = env.analyze_tags_from_string(src)
        audit = {"unclosed": sorted(a.unclosed_tags), "unexpected": sorted(a.unexpected_tags), "unknown": sorted(a.unknown_tags)}
    except Exception as e:
        audit = {"raised": type(e).__name__}
    return src, strict, audit


def run(tier: str) -> int:
    fresh_repo_imports()
    ck = Check(PID, tier)
    rnd = random.Random(seed())
    L = 5 if tier == "quick" else 6
    ck.cov["rule"] = ("BlockParser.tla: every token sequence of length<=%d over five alphabets of block/inner/end/unknown/malformed tags (default and "
                      "extra environments); for each the pushdown automaton gives the strict-parse outcome and the reference audit (must-report "
                      "sets, `clean`); the real analyze_tags_from_string and strict parse are run on the concretised source. "
                      "non-trivial = contains at least one block opener or end tag") % L
    jobs_tlc, names = [], []
    try:
        for nm, (alpha, extra) in ALPHABETS.items():
            cfg = gen_cfg("cfg/BlockParser.tmpl", dict(Alphabet=alpha, MaxLen=L, NestLimit=NEST if nm != "extra" else 8, Extra="INVARIANT Emit"), nm)
            jobs_tlc.append(("BlockParser", cfg, dict(workers=1, timeout=3000, extra=["-maxSetSize", "4000000"])))
            names.append(nm)
        live = gen_cfg("cfg/BlockParser.tmpl", dict(Alphabet='{"T","if","else","endif","for","endfor","case","when"}', MaxLen=4, NestLimit=2,
                                                    Extra="PROPERTY Terminates"), "live")
        jobs_tlc.append(("BlockParser", live, dict(workers=4, timeout=900)))
        results = run_many(jobs_tlc, parallel=6)
    finally:
        cleanup_gen()
    rl = results.pop()
    ck.tlc("BlockParser liveness (Terminates, WF)", rl)
    if rl.violated:
        ck.fail(f"BlockParser.tla {rl.violated} violated", {"tlc": rl.out[-2000:]})
    jobs = []
    for nm, r in zip(names, results):
        ck.tlc("BlockParser " + nm, r)
        if r.violated:
            ck.fail(f"BlockParser.tla {r.violated} violated ({nm})", {"tlc": r.out[-3000:]})
            continue
        cases = r.emitted
        cap = 9000 if tier == "quick" else 250000
        if len(cases) > cap:
            # every sequence the automaton accepts (the no-false-alarm clause is about those) + a sample of the rejected ones
            okc = [c for c in cases if c["strict"] == "ok"]
            rest = [c for c in cases if c["strict"] != "ok"]
            cases = okc + rnd.sample(rest, max(0, min(len(rest), cap - len(okc))))
        jobs += [(c, ALPHABETS[nm][1]) for c in cases]
    res = par.pmap(replay_one, jobs, chunk=256)
    disagree = 0
    for (case, extra), (src, strict, audit) in zip(jobs, res):
        ck.case((src, extra), nontrivial=any(t.startswith("end") or t in ("if", "for", "case", "unless", "tablerow", "capture", "block", "macro", "with", "translate") for t in case["seq"]))
        ck.validated()
        shape = " ".join(case["seq"])
        if "raised" in audit:
            ck.fail(f"analyze_tags raised {audit['raised']}", {"source": src, "seq": case["seq"], "audit": audit},
                    sig=f"raises:{audit['raised']}:{'stray-end' if any(t.startswith('end') for t in case['seq']) else shape}")
            continue
        if strict != case["strict"]:
            disagree += 1
            if len(ck.cov.setdefault("parser_model_disagreements", [])) < 5:
                ck.cov["parser_model_disagreements"].append({"source": src, "model": case["strict"], "engine": strict})
        if strict == "ok" and case["clean"]:
            reported = {k: v for k, v in audit.items() if v}
            if reported:
                what = ",".join(f"{k}={'/'.join(v)}" for k, v in sorted(reported.items()))
                ck.fail("false alarm: source parses in strict mode but the audit reports " + what,
                        {"source": src, "seq": case["seq"], "audit": audit}, sig="false-alarm:" + what)
                continue
        miss_u = [t for t in case["unknown"] if t not in audit["unknown"]]
        miss_c = [t for t in case["unclosed"] if t not in audit["unclosed"]]
        if miss_u:
            ck.fail(f"unknown tag {miss_u} not reported", {"source": src, "seq": case["seq"], "audit": audit}, sig="missed-unknown:" + ",".join(miss_u))
        elif miss_c:
            ck.fail(f"block tag {miss_c} has fewer end tags than openers but is not reported unclosed",
                    {"source": src, "seq": case["seq"], "audit": audit}, sig="missed-unclosed:" + ",".join(miss_c) + ":" + shape)
    ck.cov["parser_model_disagreement_count"] = disagree
    for j in jobs[:: max(1, len(jobs) // 4)][:4]:
        ck.sample({"seq": j[0]["seq"], "source": concretize(j[0]["seq"]), "model": {k: j[0][k] for k in ("strict", "unclosed", "unknown", "clean")}})
    ck.assumptions += ["the no-false-alarm clause is judged on the engine's own strict parse; sources with break/continue outside every for/tablerow are outside it (DESIGN §6)",
                       "must-report sets are the conservative ones: a block kind with more openers than end tags; an unknown tag name"]
    return ck.finish()


def replay(path):
    import json
    fresh_repo_imports()
    d = json.load(open(path))["detail"]
    env = harness.make_env(extra=True, nesting_limit=NEST)
    try:
        a = env.analyze_tags_from_string(d["source"])
        print(a.unclosed_tags, a.unexpected_tags, a.unknown_tags)
    except Exception as e:
        print("raised", repr(e))
    return 0
