"""X03 (beyond the listed properties) — concurrent renders of one shared template are isolated under EVERY schedule (spec/Interleave.tla).

Interleave.tla   NTasks renders of the same BoundTemplate give up control only at await points (start of the render, asynchronous drop lookup,
                 asynchronous template load); TLC enumerates every program of the family and every schedule (order in which the await points are
                 passed) and checks Isolated (what a task prints is what it prints alone), also refuting the named deviations "this state lives on
                 the shared template" (Shared = counter / cycle / ifchanged / namespace)
this file        turns a program into Liquid source + partials, and REPLAYS EVERY SCHEDULE TLC emitted into the real engine twice:
                   asyncio   N tasks on one loop, every await point is a future that only the driver resolves, in the schedule's order
                   threads   N threads rendering synchronously, every blocking drop lookup / template load is a gate only the driver opens
                 (gated plain or caching loader; no limits or limits that exactly fit one render; plain or `extends` layout) and compares each
                 task's output with the specification's.  A schedule is interpreted tolerantly: "t" means "open t's gate if it waits at one" -
                 how many await points the engine really has is not part of the claim (reported as a note).
"""
from __future__ import annotations

import asyncio
import threading

from ..core import Check, fresh_repo_imports
from ..tlcrun import MachineryError, cleanup_gen, gen_cfg, run_many
from .. import harness, par

PID = "X03"
ALLK = ["y", "inc", "cyc", "ifc", "asg", "cap", "for", "incl", "ren", "mac"]
STEP = {
    "y": "{{ g.me }}",
    "inc": "{% increment c %}",
    "cyc": "{% cycle 'a', 'b', 'c' %}",
    "ifc": "{% ifchanged %}{{ me }}{% endifchanged %}",
    "asg": "{% assign v = v | plus: 1 %}{{ v }}",
    "cap": "{% capture x %}{{ g.me }}{% endcapture %}{{ x }}",
    "for": "{% for i in (1..2) %}{{ g.me }}{{ forloop.index }}{% endfor %}",
    "incl": "{% include 'p' %}",
    "ren": "{% render 'q', g: g %}",
    "mac": "{% call m 'm', g %}",
}
PARTIALS = {"p": "{{ g.me }}{% increment c %}", "q": "{{ g.me }}{% increment c %}{% cycle 'a', 'b', 'c' %}", "base": "[{% block b %}{% endblock %}]"}
MACRO = "{% macro m x, h %}{{ h.me }}{{ x }}{% endmacro %}"
WAIT = 300.0      # a gate that is not reached / opened within this time is a machinery failure (exit 2), never a verdict


def concretize(prog, layout):
    body = (MACRO if "mac" in prog else "") + "".join(STEP[k] for k in prog)
    if layout:
        return "{% extends 'base' %}{% block b %}" + body + "{% endblock %}"
    return body


# ---------------------------------------------------------------------------------------------------------------------------
# gates: asyncio
# ---------------------------------------------------------------------------------------------------------------------------
class ASched:
    def __init__(self):
        self.waiting = {}

    async def gate(self):
        tid = int(asyncio.current_task().get_name())
        fut = asyncio.get_running_loop().create_future()
        self.waiting[tid] = fut
        await fut


class TSched:
    def __init__(self):
        self.cv = threading.Condition()
        self.waiting, self.released, self.done = set(), set(), set()

    def gate(self):
        tid = int(threading.current_thread().name)
        with self.cv:
            self.waiting.add(tid)
            self.cv.notify_all()
            while tid not in self.released:
                if not self.cv.wait(WAIT):
                    raise MachineryError("thread gate never opened")
            self.released.discard(tid)

    def finished(self, tid):
        with self.cv:
            self.done.add(tid)
            self.cv.notify_all()

    def settle(self, ts):
        with self.cv:
            while not all(t in self.waiting or t in self.done for t in ts):
                if not self.cv.wait(WAIT):
                    raise MachineryError("threads did not reach a gate")

    def release(self, t):
        with self.cv:
            self.waiting.discard(t)
            self.released.add(t)
            self.cv.notify_all()
            while not (t in self.waiting or t in self.done):
                if not self.cv.wait(WAIT):
                    raise MachineryError("released thread did not reach its next gate")


class Drop:
    """render data: the value of `g`; every lookup is an await point (asyncio) / a blocking call (threads)"""

    def __init__(self, sched, me, threads):
        self.sched, self.me, self.threads = sched, me, threads

    def __getitem__(self, k):
        if self.threads:
            self.sched.gate()
        if k == "me":
            return self.me
        raise KeyError(k)

    async def __getitem_async__(self, k):
        await self.sched.gate()
        if k == "me":
            return self.me
        raise KeyError(k)


def make_loader(sched, threads, caching):
    import liquid
    from liquid.builtin.loaders.mixins import CachingLoaderMixin

    class Gated(liquid.DictLoader):
        def get_source(self, env, template_name, *, context=None, **kw):
            if threads:
                sched.gate()
            return liquid.DictLoader.get_source(self, env, template_name, context=context, **kw)

        async def get_source_async(self, env, template_name, *, context=None, **kw):
            await sched.gate()
            return liquid.DictLoader.get_source(self, env, template_name, context=context, **kw)

    if not caching:
        return Gated(dict(PARTIALS))

    class CachingGated(CachingLoaderMixin, Gated):
        def __init__(self, templates):
            CachingLoaderMixin.__init__(self, auto_reload=True, namespace_key="", capacity=8)
            Gated.__init__(self, templates)

    return CachingGated(dict(PARTIALS))


def run_async(tpl, sched, n, schedule):
    passed = []

    async def one(t):
        await sched.gate()
        return await tpl.render_async(me=f"t{t}", g=Drop(sched, f"t{t}", False))

    async def drive():
        tasks = {t: asyncio.create_task(one(t), name=str(t)) for t in range(1, n + 1)}

        async def settle():
            for _ in range(500):
                if all(tasks[t].done() or t in sched.waiting for t in tasks):
                    return
                await asyncio.sleep(0)
            raise MachineryError("asyncio tasks did not settle at a gate")

        await settle()
        todo = list(schedule)
        while not all(x.done() for x in tasks.values()):
            t = todo.pop(0) if todo else min(sched.waiting)
            fut = sched.waiting.pop(t, None)
            if fut is None:
                continue
            passed.append(t)
            fut.set_result(None)
            await settle()
        res = {}
        for t, x in tasks.items():
            e = x.exception()
            res[t] = {"out": x.result()} if e is None else {"err": type(e).__name__, "msg": str(e)[:200]}
        return res

    return asyncio.run(drive()), passed


def run_threads(tpl, sched, n, schedule):
    res, passed = {}, []

    def one(t):
        try:
            sched.gate()
            res[t] = {"out": tpl.render(me=f"t{t}", g=Drop(sched, f"t{t}", True))}
        except MachineryError:
            res[t] = {"err": "MachineryError", "msg": "gate"}
        except Exception as e:          # noqa: BLE001 - the outcome of the render is the observation
            res[t] = {"err": type(e).__name__, "msg": str(e)[:200]}
        finally:
            sched.finished(t)

    ths = [threading.Thread(target=one, args=(t,), name=str(t), daemon=True) for t in range(1, n + 1)]
    for th in ths:
        th.start()
    ts = list(range(1, n + 1))
    sched.settle(ts)
    todo = list(schedule)
    while len(sched.done) < n:
        if todo:
            t = todo.pop(0)
        else:
            with sched.cv:
                t = min(sched.waiting)
        with sched.cv:
            if t not in sched.waiting:
                continue
        passed.append(t)
        sched.release(t)
    for th in ths:
        th.join(WAIT)
    return res, passed


VARIANTS = [(c, lim, lay) for c in (False, True) for lim in (False, True) for lay in (False, True)]


def replay_one(item):
    case, which = item
    n = len(case["out"])
    bad, notes = [], []
    for vi in which:
        caching, tight, layout = VARIANTS[vi]
        src = concretize(case["prog"], layout)
        expected = {t + 1: ("[" if layout else "") + "".join(case["out"][t]) + ("]" if layout else "") for t in range(n)}
        for threads in (False, True):
            kw = {}
            if tight:
                # what ONE render needs according to the specification (peak of its output budget, loop iterations); the engine must agree when the
                # render runs alone - otherwise this variant says nothing about isolation and is skipped with a note
                kw = {"output_limit": max(case["peak"]) + (2 if layout else 0)}
                if case["iters"]:
                    kw["loop_limit"] = case["iters"]
                s1 = TSched() if threads else ASched()
                t1 = harness.make_env(loader=make_loader(s1, threads, caching), **kw).from_string(src)
                solo, _ = (run_threads if threads else run_async)(t1, s1, 1, [])
                if solo.get(1, {}).get("out") != expected[1]:
                    notes.append(f"tight limits {kw} do not fit a solo render of {src!r}: {solo.get(1)}")
                    continue
            sched = TSched() if threads else ASched()
            env = harness.make_env(loader=make_loader(sched, threads, caching), **kw)
            tpl = env.from_string(src)
            try:
                res, passed = (run_threads if threads else run_async)(tpl, sched, n, case["sched"])
            except MachineryError as e:
                return {"machinery": str(e), "src": src}
            tag = f"{'threads' if threads else 'asyncio'}/{'caching' if caching else 'plain'} loader/{'tight limits' if tight else 'no limits'}/{'layout' if layout else 'direct'}"
            if passed[:len(case["sched"])] != case["sched"][:len(passed)]:
                notes.append(f"{tag}: the engine passed its await points in the order {passed}, the schedule was {case['sched']}")
            for t in range(1, n + 1):
                got = res.get(t, {"err": "nothing"})
                if got.get("err") == "MachineryError":
                    return {"machinery": "gate", "src": src}
                if got.get("out") != expected[t]:
                    bad.append({"what": f"{tag}: task {t} of {n} concurrent renders prints {got.get('out', got.get('err'))!r}, alone it prints {expected[t]!r}",
                                "detail": {"source": src, "partials": PARTIALS, "schedule": case["sched"], "passed": passed, "mode": tag, "task": t,
                                           "observed": got, "expected": expected[t], "limits": kw},
                                "sig": f"interleave:{'threads' if threads else 'asyncio'}:{'+'.join(case['prog'])}"})
                    break
    return {"bad": bad, "notes": notes}


def run(tier: str) -> int:
    fresh_repo_imports()
    ck = Check(PID, tier)
    kinds = "{" + ", ".join(f'"{k}"' for k in ALLK) + "}"
    if tier == "quick":
        fam = [("n2", {"NTasks": "2", "MaxSteps": "2", "Kinds": kinds}),
               ("n2l3", {"NTasks": "2", "MaxSteps": "3", "Kinds": '{"y", "inc", "cyc", "ifc", "asg"}'})]
        nvar = 2
    else:
        fam = [("n2", {"NTasks": "2", "MaxSteps": "2", "Kinds": kinds}),
               ("n2l3", {"NTasks": "2", "MaxSteps": "3", "Kinds": '{"y", "inc", "cyc", "ifc", "asg", "incl"}'}),
               ("n3", {"NTasks": "3", "MaxSteps": "1", "Kinds": kinds}),
               ("n3l2", {"NTasks": "3", "MaxSteps": "2", "Kinds": '{"y", "inc", "cyc", "ifc"}'})]
        nvar = 2
    jobs, names = [], []
    for tag, params in fam:
        cfg = gen_cfg("cfg/Interleave.tmpl", dict(params, Shared='"none"', Emit="INVARIANT Emit"), f"x03_{tag}")
        jobs.append(("Interleave", cfg, {"workers": 1, "timeout": 3000}))
        names.append(("emit", tag))
    # the named deviations: TLC must refute Isolated for each (otherwise the invariant would be vacuous on this family)
    for dev, k in (("counter", "inc"), ("cycle", "cyc"), ("ifchanged", "ifc"), ("namespace", "asg")):
        cfg = gen_cfg("cfg/Interleave.tmpl", {"NTasks": "2", "MaxSteps": "3", "Kinds": '{"y", "%s"}' % k, "Shared": f'"{dev}"', "Emit": ""}, f"x03_dev_{dev}")
        jobs.append(("Interleave", cfg, {"workers": 4, "timeout": 3000}))
        names.append(("dev", dev))
    try:
        results = run_many(jobs, parallel=len(jobs))
    finally:
        cleanup_gen()
    cases = []
    for (kind, tag), r in zip(names, results):
        ck.tlc(f"Interleave_{kind}_{tag}", r)
        if kind == "emit":
            if r.violated:
                ck.fail(f"Interleave.tla {r.violated} violated", {"tlc": r.out[-3000:]})
                return ck.finish()
            cases += r.emitted
        elif r.violated not in ("Isolated", "PrefixOfSolo"):
            raise MachineryError(f"deviation Shared={tag} was not refuted by TLC (violated={r.violated!r})")
    items = [(c, [(i * nvar + j) % len(VARIANTS) for j in range(nvar)]) for i, c in enumerate(cases)]
    nnotes, note_kinds, note_ex = 0, {}, {}
    for (case, which), r in zip(items, par.pmap(replay_one, items, chunk=32)):
        if "machinery" in r:
            raise MachineryError(f"scheduler: {r['machinery']} on {r['src']}")
        ck.case("+".join(case["prog"]) + ":" + "".join(map(str, case["sched"])), nontrivial=len(set(case["sched"])) > 1)
        ck.validated(2 * len(which))
        for b in r["bad"]:
            ck.fail(b["what"], b["detail"], sig=b["sig"])
        nnotes += len(r["notes"])
        for x in r["notes"]:
            kind = "tight limits do not fit a solo render" if x.startswith("tight") else "await points passed in another order than scheduled"
            note_kinds[kind] = note_kinds.get(kind, 0) + 1
            note_ex.setdefault(kind, x[:300])
    ck.cov["rule"] = ("Interleave.tla: every program of <=2 (thorough: <=3 for 7 kinds; 3 tasks for <=1 step / <=2 of 5 kinds) steps out of {await of an async drop, "
                      "increment, cycle, ifchanged, assign, await inside a capture, awaits inside a for loop, include / render of a partial with an await (async template load), "
                      "macro call with an await} rendered by 2 (3) concurrent renders of ONE BoundTemplate, under EVERY order of passing the await points; each schedule is "
                      "replayed on asyncio tasks and on threads (gates only the driver opens), with a gated plain / caching loader, without limits / with loop and output "
                      "limits that exactly fit one render, directly / inside an `extends` layout; each task must print what Interleave.tla says it prints alone. "
                      "TLC also refutes Isolated for the four deviations where a piece of render state is shared")
    ck.cov["schedule_notes"] = {"total": nnotes, "kinds": note_kinds, "examples": note_ex}
    if cases:
        c = cases[len(cases) // 2]
        ck.sample({"source": concretize(c["prog"], False), "schedule": c["sched"], "expected": ["".join(o) for o in c["out"]]})
    ck.assumptions += ["not one of the listed properties: C17 (purity) read over schedules of concurrent renders",
                       "threads interleave only at the gates the harness owns (blocking drop lookups and template loads); preemption inside the engine is not scheduled",
                       "the number of await points the engine has is not judged (tolerant schedule interpretation)"]
    return ck.finish()


def replay(path):
    import json
    fresh_repo_imports()
    d = json.load(open(path))
    print(json.dumps(d.get("detail", d), indent=1)[:3000])
    return 0
