"""C10 — literal text, raw blocks, comments and whitespace control (spec/Lexer.tla)."""
from __future__ import annotations

import random

from ..core import Check, fresh_repo_imports, seed
from ..tlcrun import run_many, gen_cfg, cleanup_gen, MachineryError
from .. import harness, par

PID = "C10"
ALLK = '{"output","assign","inline","liquid","short","if","raw","comment","doc"}'
TEXT_ATOMS = ["x", "} %}x", "{ x", "x"]
RAW_ATOMS = ["x", "{{ z }}", "{% if %}", "{#x#}"]
HID_ATOMS = ["x", "{{ z }}", "{% assign q = 1 %}", "x"]


def _chars(seq, atom):
    return "".join(atom if c == "x" else c for c in seq)


def concretize(src, variant):
    ta, ra, ha = TEXT_ATOMS[variant % 4], RAW_ATOMS[variant % 4], HID_ATOMS[variant % 4]
    out = []
    for s in src:
        k = s["k"]
        if k == "text":
            out.append(_chars(s["s"], ta))
            continue
        L, R = ("-" if s["ll"] else ""), ("-" if s["lr"] else "")
        EL, ER = ("-" if s["el"] else ""), ("-" if s["er"] else "")
        if k == "output":
            out.append(f"{{{{{L} 'o' {R}}}}}")
        elif k == "assign":
            out.append(f"{{%{L} assign v = 1 {R}%}}")
        elif k == "inline":
            out.append(f"{{%{L} # a note {R}%}}")
        elif k == "liquid":
            out.append(f"{{%{L} liquid assign w = 2 {R}%}}")
        elif k == "short":
            out.append(f"{{#{L} c {R}#}}")
        elif k == "if":
            out.append(f"{{%{L} if true {R}%}}{_chars(s['body'], ta)}{{%{EL} endif {ER}%}}")
        elif k == "raw":
            out.append(f"{{%{L} raw {R}%}}{_chars(s['body'], ra)}{{%{EL} endraw {ER}%}}")
        elif k == "comment":
            out.append(f"{{%{L} comment {R}%}}{_chars(s['body'], ha)}{{%{EL} endcomment {ER}%}}")
        elif k == "doc":
            out.append(f"{{%{L} doc {R}%}}{_chars(s['body'], ha)}{{%{EL} enddoc {ER}%}}")
        else:
            raise MachineryError("unknown segment " + k)
    return "".join(out)


def expected(case, variant):
    """The specification's output, with its opaque atom x concretised the same way as the source."""
    src, exp = case["src"], case["expected"]
    # re-derive which atoms belong to raw bodies: Required() keeps order, so walk the pieces again
    ta, ra = TEXT_ATOMS[variant % 4], RAW_ATOMS[variant % 4]
    if ta == ra:
        return _chars(exp, ta)
    # number of x atoms contributed by each segment, in order, as the specification emits them
    res, it = [], iter(exp)
    pieces = []
    for s in src:
        if s["k"] == "raw":
            pieces.append((sum(1 for c in s["body"] if c == "x"), ra))
        elif s["k"] == "if":
            pieces.append((sum(1 for c in s["body"] if c == "x"), ta))
        elif s["k"] == "text":
            pieces.append((sum(1 for c in s["s"] if c == "x"), ta))
    order = [a for n, a in pieces for _ in range(n)]
    j = 0
    for c in exp:
        if c == "x":
            res.append(order[j]); j += 1
        else:
            res.append(c)
    return "".join(res)


def replay_one(job):
    case, variant = job
    src = concretize(case["src"], variant)
    has_short = any(s["k"] == "short" for s in case["src"])
    env = harness.make_env(template_comments=True if (has_short or variant % 2 == 0) else False)
    exp = expected(case, variant)
    res = []
    for how in ("sync", "async"):
        o = harness.run(env, src, {}, how)
        got = o.get("out", "!" + o.get("err", "?"))
        res.append((how, None if got == exp else got))
    return src, exp, res


def _sig(case, got, exp):
    kinds = "+".join((s["k"] + ("".join("1" if s[m] else "0" for m in ("ll", "lr", "el", "er")))) for s in case["src"] if s["k"] != "text")
    return f"{kinds}"


def run(tier: str) -> int:
    fresh_repo_imports()
    ck = Check(PID, tier)
    rnd = random.Random(seed())
    ck.cov["rule"] = ("Lexer.tla: sources text-markup-text[-markup-text]; first markup any of output/assign/inline comment/liquid/shorthand comment/"
                      "if/raw/comment/doc with EVERY combination of hyphens on every delimiter, second markup output/assign; texts incl. "
                      "whitespace-only, trailing newline, markup-like fragments; expected output = Required(src) of the specification")
    try:
        cfgs = [gen_cfg("cfg/Lexer.tmpl", dict(T0="TextsHead", T1="TextsQuick",
                                               T2="TextsTail", Bodies="BodiesQuick",
                                               First=ALLK, Second='{"output","short"}',
                                               Dev="FALSE", Emit="INVARIANT Emit"), "lex"),
                gen_cfg("cfg/Lexer.tmpl", dict(T0="TextsHead", T1="TextsHead", T2="TextsHead", Bodies="BodiesQuick", First='{"raw"}',
                                               Second='{"output"}', Dev="TRUE", Emit=""), "lexdev")]
        # paired constructs with an EMPTY body (raw / comment / doc / if), as first and as second markup
        cfgs += [gen_cfg("cfg/Lexer.tmpl", dict(T0="TextsHead", T1="TextsQuick", T2="TextsTail", Bodies="BodiesEmpty", First='{"if","raw","comment","doc"}',
                                                Second='{"output","short"}', Dev="FALSE", Emit="INVARIANT Emit"), "lexe1"),
                 gen_cfg("cfg/Lexer.tmpl", dict(T0="TextsHead", T1="TextsQuick", T2="TextsTail", Bodies="BodiesEmpty", First='{"output","assign","if"}',
                                                Second='{"raw"}', Dev="FALSE", Emit="INVARIANT Emit"), "lexe2")]
        main, dev, e1, e2 = run_many([("Lexer", cfgs[0], dict(workers=1, timeout=3000, extra=["-maxSetSize", "8000000"])),
                                      ("Lexer", cfgs[1], dict(workers=2, timeout=600, expect_violation=True)),
                                      ("Lexer", cfgs[2], dict(workers=1, timeout=3000)), ("Lexer", cfgs[3], dict(workers=1, timeout=3000))])
    finally:
        cleanup_gen()
    ck.tlc("Lexer_" + tier, main)
    if main.violated:
        ck.fail(f"Lexer.tla {main.violated} violated", {"tlc": main.out[-3000:]})
        return ck.finish()
    if not dev.violated:
        raise MachineryError("deviation RawUsesOpeningMarker does not violate MechanismMeetsRequirement: vacuous")
    ck.cov["deviation_demo"] = "RawUsesOpeningMarker=TRUE violates " + dev.violated
    for nm, r in (("empty bodies, first", e1), ("empty bodies, second", e2)):
        ck.tlc("Lexer " + nm, r)
        if r.violated:
            ck.fail(f"Lexer.tla {r.violated} violated ({nm})", {"tlc": r.out[-3000:]})
    extra_cases = e1.emitted + e2.emitted
    cases = main.emitted
    cap = 20000 if tier == "quick" else 400000
    if len(cases) > cap:
        cases = rnd.sample(cases, cap)
    cases = cases + extra_cases          # the empty-body families are always replayed in full
    jobs = [(c, i % 8) for i, c in enumerate(cases)]
    res = par.pmap(replay_one, jobs, chunk=256)
    for (case, variant), (src, exp, rr) in zip(jobs, res):
        ck.case((src,), nontrivial=any(s["k"] != "text" and (s["ll"] or s["lr"] or s["el"] or s["er"]) for s in case["src"]))
        ck.validated()
        for how, got in rr:
            if got is not None:
                ck.fail("rendered text differs from Lexer.tla Required(src)",
                        {"source": src, "segments": case["src"], "expected": exp, "observed": got, "mode": how, "variant": variant},
                        sig=_sig(case, got, exp))
                break
    for c in cases[:: max(1, len(cases) // 3)][:3]:
        ck.sample({"source": concretize(c["src"], 1), "expected": expected(c, 1)})
    ck.assumptions += ["hyphens inside a raw block's own delimiters (raw -%} / {%- endraw) do not touch the verbatim body",
                       "at most two markup constructs per source"]
    return ck.finish()


def replay(path):
    import json
    fresh_repo_imports()
    d = json.load(open(path))["detail"]
    env = harness.make_env(template_comments=True)
    print(repr(harness.run(env, d["source"], {}, "sync")), "expected", repr(d["expected"]))
    return 0
