"""C07 — output and local-namespace limits bound what they measure (spec/Limits.tla).

Limits.tla explores every straight-line template of <= MaxOps steps (text atoms of 1..4 UTF-8 bytes, capture, ifchanged, output of
a captured variable, include, for / assign of ASCII strings, render, macro call, include, for) under every limit of a set, with the
buffer / carry MECHANISM and the GHOST truth side by side.  Each emitted behaviour is concretised and rendered sync+async: status,
output text and its UTF-8 length must equal the specification's."""
from __future__ import annotations

import random
import sys

from ..core import Check, fresh_repo_imports, seed
from ..tlcrun import run_many, gen_cfg, cleanup_gen
from .. import harness, par

PID = "C07"
ATOMS = [{1: "a", 2: "é", 3: "€", 4: "\U0001F600"},
         {1: "a", 2: "\rb", 3: "\r\nc", 4: "\U0001F600"},        # carriage returns (never whitespace-only text: a blank block is not buffered): a limited buffer must not translate line ends
         {1: "a", 2: "é", 3: "\ud800", 4: "\U0001F600"}]         # a lone surrogate (3 bytes with surrogatepass): JSON-like data may hold one
ATOM = ATOMS[0]


def nbytes(text):
    return len(text.encode("utf-8", errors="surrogatepass"))
STRBASE = sys.getsizeof("")


def concretize(case, variant=0):
    atom = ATOMS[variant % 3]
    prog = case["prog"]
    templates = {}
    counter = [0]

    def build(i, capname):
        out = []
        last_cap = capname
        while i < len(prog):
            r = prog[i]
            op = r["op"]
            if op == "close":
                return "".join(out), i, last_cap
            if op == "text":
                out.append(atom[r["n"]]); i += 1
            elif op == "outcap":
                out.append("{{ " + last_cap + " }}"); i += 1
            elif op == "assign":
                out.append(f'{{% assign {r["n"]} = "{"v" * r["s"]}" %}}'); i += 1
            else:
                counter[0] += 1
                k = counter[0]
                body, j, inner_cap = build(i + 1, last_cap)
                if op == "capture":
                    out.append(f"{{% capture c{k} %}}{body}{{% endcapture %}}")
                    if j < len(prog):
                        last_cap = f"c{k}"
                elif op == "ifchanged":
                    out.append(f"{{% ifchanged %}}{body}{{% endifchanged %}}")
                    last_cap = inner_cap
                elif op == "for":
                    out.append(f"{{% for i in (1..1) %}}{body}{{% endfor %}}")
                    last_cap = inner_cap
                elif op == "include":
                    templates[f"p{k}"] = body
                    out.append(f'{{% include "p{k}" %}}')
                    last_cap = inner_cap
                elif op == "render":
                    templates[f"p{k}"] = body
                    out.append(f'{{% render "p{k}" %}}')
                elif op == "call":
                    out.append(f"{{% macro m{k} %}}{body}{{% endmacro %}}{{% call m{k} %}}")
                else:
                    raise ValueError(op)
                i = j + 1
        return "".join(out), i, last_cap

    src, _, _ = build(0, "nocap")
    return src, templates


def json_key(prog):
    import json
    return json.dumps(prog, sort_keys=True)


def replay_one(case):
    variant = case.get("_variant", 0)
    if case.get("_unl_out") is not None:
        case["_unl_text"] = "".join(ATOMS[variant % 3][a] for a in case["_unl_out"])
    src, templates = concretize(case, variant)
    kw = {}
    if case["L"] >= 0:
        kw["output_limit"] = case["L"]
    if case["M"] >= 0:
        kw["ns_limit"] = case["M"]
    env = harness.make_env(templates=templates, **kw)
    want_text = "".join(ATOMS[variant % 3][a] for a in case["out"])
    res = []
    notes = []
    # every second namespace case: the names the template assigns are ALSO bound as (large, multi-byte) render data - the assigned value
    # shadows a binding that is not a local; what the limit measures (the local namespace) is the same
    data = {}
    if case["M"] >= 0 and variant % 2:
        data = {r["n"]: "\u00df" * 40 for r in case["prog"] if r["op"] == "assign"}
    for how in ("sync", "async"):
        o = harness.run(env, src, data, how)
        got = "ok" if "out" in o else o["err"]
        why = None
        limit_err = "OutputStreamLimitError" if case["family"] == "output" else "LocalNamespaceLimitError"
        if got != case["status"] and got == limit_err and not case.get("_must_raise"):
            # the mechanism of Limits.tla would have completed here; aborting earlier with the limit's own error is not forbidden by the
            # statement (C08: limits may only abort) - e.g. an implementation that charges captured text to the budget differently
            why = None
            if len(notes) < 3:
                notes.append(f"aborts earlier than the model: {src[:60]}")
        elif got != case["status"] and case["status"] == limit_err and not case.get("_must_raise") and got == "ok" and o.get("out") == case.get("_unl_text"):
            # the model's mechanism aborts (a sub-buffer ran out of budget) although the finished output fits the limit: completing with the
            # unlimited text is what the statement asks for
            why = None
            if len(notes) < 3:
                notes.append(f"completes where the model's sub-buffer aborts: {src[:60]}")
        elif got != case["status"]:
            why = f"render ends {got}, Limits.tla says {case['status']} (L={case['L']}, M={case['M']})"
        elif got == "ok":
            if o["out"] != want_text:
                why = f"output {o['out']!r} differs from the specification's {want_text!r}"
            elif nbytes(o["out"]) != case["bytes"]:
                why = f"{nbytes(o['out'])} bytes returned, specification says {case['bytes']}"
            elif case["L"] >= 0 and nbytes(o["out"]) > case["L"]:
                why = f"completed render returned more than L={case['L']} bytes"
        res.append((how, why))
    return src, templates, res + [("note", n) for n in notes]


def tlc_jobs(tier):
    def job(tag, fam, ops, depth, lset, mset):
        p = dict(Family=fam, MaxOps=ops, MaxDepth=depth, LSet=lset, MSet=mset, StrBase=STRBASE, Extra="INVARIANT Emit")
        return ("Limits", gen_cfg("cfg/Limits.tmpl", p, tag), dict(workers=1, timeout=3000))
    if tier == "quick":
        return [job("o", "output", 4, 2, "LSmall", "MSmall"), job("n", "namespace", 4, 2, "LSmall", "MSmall")]
    return [job("o", "output", 5, 3, "LAll", "MAll"), job("n", "namespace", 5, 3, "LAll", "MAll")]


def family(ck, tier):
    try:
        results = run_many(tlc_jobs(tier), parallel=2)
    finally:
        cleanup_gen()
    cases = []
    for nm, r in zip(("output", "namespace"), results):
        ck.tlc("Limits " + nm, r)
        if r.violated:
            ck.fail(f"Limits.tla {r.violated} violated", {"tlc": r.out[-3000:]})
        cases += r.emitted
    return cases


def run(tier: str) -> int:
    fresh_repo_imports()
    ck = Check(PID, tier)
    rnd = random.Random(seed())
    ck.cov["rule"] = ("Limits.tla: every straight-line template of <=4 (thorough 5) steps over text atoms of 1/2/3/4 UTF-8 bytes, capture, ifchanged, output of the "
                      "captured variable, include, for (output family, limits L in a set incl. 0 and none) and assign of 1/3-character strings to 2 names, "
                      "render, macro call, include, for (namespace family, limits M around multiples of the measured size of a string, incl. 0 and none); "
                      "TLC checks OutputBounded/TopIsGhost/SubBufferBounded/OverLimitRaises/CarryIsCallersTotal/NamespaceBounded/LimitsOnlyAbort; each "
                      "behaviour rendered sync+async: status, text and byte length must equal the specification's. sys.getsizeof('')=%d" % STRBASE)
    cases = family(ck, tier)
    cap = 40000 if tier == "quick" else 400000
    if len(cases) > cap:
        ck.cov["sampled_from"] = len(cases)
        cases = rnd.sample(cases, cap)
    # what the STATEMENT requires of a program under a limit, from the specification's own unlimited run of the same program:
    # the output family must raise iff the unlimited output is longer than L; the namespace mechanism is the requirement itself
    unl = {json_key(c["prog"]): c for c in cases if c["L"] < 0 and c["M"] < 0 and c["status"] == "ok"}
    for i, c in enumerate(cases):
        c["_variant"] = i % 3 if c["family"] == "output" else i % 2     # namespace family: variant 1 binds the assigned names as render data too
        u = unl.get(json_key(c["prog"]))
        if c["family"] == "output":
            c["_must_raise"] = bool(u) and c["L"] >= 0 and u["bytes"] > c["L"]
            c["_unl_out"] = u["out"] if u else None
        else:
            c["_must_raise"] = c["status"] != "ok"
    for case, (src, templates, res) in zip(cases, par.pmap(replay_one, cases, chunk=256)):
        ck.case((case["family"], case["L"], case["M"], src), nontrivial=case["status"] != "ok" or case["bytes"] > 0)
        ck.validated()
        for how, why in res:
            if how == "note":
                ck.cov.setdefault("notes", [])
                if len(ck.cov["notes"]) < 10:
                    ck.cov["notes"].append(why)
                continue
            if why:
                ck.fail(why, {"source": src, "partials": templates, "L": case["L"], "M": case["M"], "mode": how, "expected": case},
                        sig=f"{case['family']}:{'/'.join(r['op'] for r in case['prog'])}:L={case['L']}:M={case['M'] if case['M'] < 0 else case['M'] - (case['M'] // STRBASE) * STRBASE}")
                break
    for c in cases[:: max(1, len(cases) // 3)][:3]:
        s, t = concretize(c)
        ck.sample({"source": s, "partials": t, "L": c["L"], "M": c["M"], "expected_status": c["status"], "bytes": c["bytes"]})
    ck.assumptions += ["namespace sizes are those of ASCII strings (sys.getsizeof = base + length); other value types are measured by the engine the same way but not enumerated",
                       "straight-line templates (loops execute once): repetition adds no new buffer/carry behaviour"]
    return ck.finish()


def replay(path):
    import json
    fresh_repo_imports()
    d = json.load(open(path))["detail"]
    print(replay_one(d["expected"]))
    return 0
