"""C01 — synchronous and asynchronous APIs behave identically (spec/SyncAsync.tla, spec/SyncAsyncMonitor.tla).

Inputs: (A) SyncAsync.tla expression cells  carrier x expression form x kind of value  (the shapes on which the sync and async copies
differ textually), (B) SyncAsync.tla loader cells  loader kind x name form x namespace x request order x use, (C) the program
families of other specifications: RoundTrip.tla (every standard tag with its argument shapes), Scope.tla (partials, macros, with),
Loops.tla, Lexer.tla, ErrorModes.tla.  Every input is run through the synchronous and the asynchronous API; the pair of outcomes
(render / load / analysis) is one observation; SyncAsyncMonitor.tla judges all of them in one TLC run."""
from __future__ import annotations

import asyncio
import collections.abc
import json
import os
import random
import re
import shutil
import sys
import tempfile

from ..core import Check, fresh_repo_imports, seed
from ..tlcrun import run_tlc, run_many, scratch_dir, MachineryError
from .. import harness, par

PID = "C01"
FLAGS = ("ternary_expressions", "logical_not_operator", "logical_parentheses")
PARTIALS = {"p": "[p {{ v }}]", "dir/p": "[dir/p {{ v }}]", "k": "[k {{ v }}]"}


class Drop(collections.abc.Mapping):
    def __getitem__(self, k):
        if k == "k":
            return "dropk"
        raise KeyError(k)

    def __len__(self):
        return 1

    def __iter__(self):
        return iter(["k"])


class AsyncDrop(Drop):
    async def __getitem_async__(self, k):
        return self[k]


def value(kind):
    return {"str": "p", "strx": "dir/p", "int": 1, "float": 1.5, "true": True, "false": False, "nil": None, "list": ["p", "q"],
            "listoflists": [["p"], ["q"]], "dict": {"k": "p", "a": 1}, "dictk": {"k": {"k": "deep"}}, "range": range(1, 3),
            "drop": Drop(), "asyncdrop": AsyncDrop()}[kind]


def expr_source(cell):
    E, c = cell["expr"], cell["carrier"]
    return {
        "output": f"{{{{ {E} }}}}", "echo": f"{{% echo {E} %}}", "assign": f"{{% assign z = {E} %}}<{{{{ z }}}}>",
        "capture": f"{{% capture z %}}{{{{ {E} }}}}{{% endcapture %}}<{{{{ z }}}}>",
        "if": f"{{% if {E} %}}T{{% else %}}F{{% endif %}}", "elsif": f"{{% if false %}}A{{% elsif {E} %}}T{{% else %}}F{{% endif %}}",
        "unless": f"{{% unless {E} %}}T{{% else %}}F{{% endunless %}}",
        "case": f"{{% case {E} %}}{{% when 1 %}}one{{% when 'p' %}}p{{% else %}}other{{% endcase %}}",
        "when": f"{{% case 'p' %}}{{% when {E} %}}W{{% else %}}E{{% endcase %}}",
        "for": f"{{% for v in {E} %}}[{{{{ v }}}}]{{% else %}}E{{% endfor %}}",
        "forlimit": f"{{% for v in arr limit: {E} %}}[{{{{ v }}}}]{{% endfor %}}",
        "tablerow": f"{{% tablerow v in {E} %}}{{{{ v }}}}{{% endtablerow %}}",
        "cycle": f"{{% cycle {E}, 'b' %}}{{% cycle {E}, 'b' %}}",
        "ternary": f"{{{{ {E} if true else 'n' }}}}", "ternarycond": f"{{{{ 'y' if {E} else 'n' }}}}",
        "include_arg": f"{{% include 'p', v: {E} %}}", "include_with": f"{{% include 'p' with {E} as v %}}",
        "include_for": f"{{% include 'p' for {E} as v %}}",
        "render_arg": f"{{% render 'p', v: {E} %}}", "render_with": f"{{% render 'p' with {E} as v %}}", "render_for": f"{{% render 'p' for {E} as v %}}",
        "with": f"{{% with v: {E} %}}<{{{{ v }}}}>{{% endwith %}}",
        "call_arg": f"{{% macro m v %}}[{{{{ v }}}}]{{% endmacro %}}{{% call m {E} %}}",
        "macro_default": f"{{% macro m v: {E} %}}[{{{{ v }}}}]{{% endmacro %}}{{% call m %}}",
        "liquid": f"{{% liquid\n echo {E}\n%}}", "ifchanged": f"{{% ifchanged %}}{{{{ {E} }}}}{{% endifchanged %}}",
        "filter_arg": f"{{{{ 'a' | append: {E} }}}}", "range": f"{{% for v in (1..{E}) %}}{{{{ v }}}}{{% endfor %}}",
        "include_with_shadow": f"{{% include 'p' with {E} as v, x: 'alt', y: 'alt' %}}", "include_for_shadow": f"{{% include 'p' for {E} as v, x: arr, y: 'alt' %}}",
        "render_with_shadow": f"{{% render 'p' with {E} as v, x: 'alt', y: 'alt' %}}", "render_for_shadow": f"{{% render 'p' for {E} as v, x: arr, y: 'alt' %}}",
        "with_shadow": f"{{% with x: 'alt', v: {E} %}}<{{{{ v }}}}>{{% endwith %}}",
        "call_shadow": f"{{% macro m v, x %}}[{{{{ v }}}}{{{{ x }}}}]{{% endmacro %}}{{% call m x: 'alt', v: {E} %}}",
        "index": f"{{{{ arr[{E}] }}}}", "include_name": f"{{% include {E} %}}", "render_name": f"{{% render {E} %}}",
    }[c]


def _oc(o):
    return {"st": "ok" if "out" in o else o["err"], "out": o.get("out", ""), "liquid": bool(o.get("liquid", True))}


def pair(env, src, data, analysis=False):
    """-> list of observations for one template+data"""
    obs = []
    ts, es = harness.parse(env, src)
    if es:
        o = {"st": es["err"], "out": "", "liquid": bool(es.get("liquid"))}
        return [{"kind": "render", "s": o, "a": o}]
    obs.append({"kind": "render", "s": _oc(harness.render(ts, data, "sync")), "a": _oc(harness.render(ts, data, "async"))})
    if analysis:
        obs.append({"kind": "analysis", "s": _analysis(ts, "sync"), "a": _analysis(ts, "async")})
    return obs


def _analysis(t, how):
    try:
        a = t.analyze() if how == "sync" else asyncio.run(t.analyze_async())
    except Exception as e:
        c = harness.classify(e)
        return {"st": c["err"], "sets": [], "liquid": bool(c.get("liquid"))}

    def proj(m):
        return sorted(f"{k}|{str(v)}|{v.span.template_name}|{v.span.index}" for k, vs in m.items() for v in vs)
    sp = lambda m: sorted(f"{k}|{s.template_name}|{s.index}" for k, ss in m.items() for s in ss)
    return {"st": "ok", "liquid": True,
            "sets": ["V:" + ";".join(proj(a.variables)), "G:" + ";".join(proj(a.globals)), "L:" + ";".join(proj(a.locals)),
                     "F:" + ";".join(sp(a.filters)), "T:" + ";".join(sp(a.tags))]}


def replay_expr(cell):
    data = {"y": "k", "i": 0, "arr": ["p", "q"]}
    if cell["val"] != "missing":
        data["x"] = value(cell["val"])
    src = expr_source(cell)
    env = harness.make_env(templates=PARTIALS, flags=FLAGS)
    return src, pair(env, src, data, analysis=cell["val"] in ("str", "missing"))


def interrupt_source(cell):
    I = "{% " + cell["interrupt"] + " %}"
    pb = {"pb": f"A{I}B"}
    via = cell["via"]
    inner = {
        "include": "{% include 'pb' %}", "include_arg": "{% include 'pb', v: i %}", "include_with": "{% include 'pb' with i as v %}",
        "include_for": "{% include 'pb' for arr as v %}",
        "render": "{% render 'pb' %}", "render_arg": "{% render 'pb', v: i %}", "render_with": "{% render 'pb' with i as v %}",
        "render_for": "{% render 'pb' for arr as v %}",
        "call": f"{{% macro m %}}A{I}B{{% endmacro %}}{{% call m %}}",
        "block": f"{{% block b %}}A{I}B{{% endblock %}}",
        "with": f"{{% with v: 1 %}}A{I}B{{% endwith %}}", "if": f"{{% if true %}}A{I}B{{% endif %}}",
        "case": f"{{% case 1 %}}{{% when 1 %}}A{I}B{{% endcase %}}", "capture": f"{{% capture c %}}A{I}B{{% endcapture %}}<{{{{ c }}}}>",
        "liquid": "{% liquid\n echo 'A'\n " + cell["interrupt"] + "\n echo 'B'\n%}",
    }[via]
    body = f"[{{{{ i }}}}{inner}]"
    if cell["caller"] == "for":
        src = f"{{% for i in (1..3) %}}{body}{{% endfor %}}|end"
    elif cell["caller"] == "tablerow":
        src = f"{{% tablerow i in (1..3) %}}{body}{{% endtablerow %}}|end"
    else:
        src = body + "|end"
    return src, pb


def replay_interrupt(cell):
    src, pb = interrupt_source(cell)
    env = harness.make_env(templates=pb, mode=cell["mode"])
    return src, pair(env, src, {"arr": ["p", "q"], "i": 0})


# ---------------------------------------------------------------------------------------------------------------------------------
def _world(kind, root):
    """files/partials: a, dir/a, dir/sub/a, a.html, base  in namespaces '', n1  ->  (loader, cleanup)"""
    import liquid
    from . import c23
    K = c23._mk_classes()
    names = ["a", "dir/a", "dir/sub/a", "a.html", "base"]
    body = lambda n: ("B[{% block c %}b{% endblock %}]" if n.endswith("base") else f"<{n}:{{{{ g }}}}>")
    store = {n: body(n) for n in names}
    store.update({"n1/" + n: body("n1/" + n) for n in names})
    if kind in ("dict", "cachingdict", "choice", "cachingchoice"):
        if kind == "dict":
            return K["NSDict"](store)
        if kind == "cachingdict":
            return K["CachingNSDict"](store, namespace_key="ns", capacity=3)
        half1 = {k: v for i, (k, v) in enumerate(sorted(store.items())) if i % 2 == 0}
        half2 = {k: v for i, (k, v) in enumerate(sorted(store.items())) if i % 2 == 1}
        if kind == "choice":
            return K["ChoiceLoader"]([K["NSDict"](half1), K["NSDict"](half2)])
        return K["CachingChoiceLoader"]([K["NSDict"](half1), K["NSDict"](half2)], namespace_key="ns", capacity=3)
    for n, b in store.items():
        for suffix in ("", ".html"):
            p = os.path.join(root, "pkg_c01", "templates", n + suffix)
            os.makedirs(os.path.dirname(p), exist_ok=True)
            with open(p, "w") as f:
                f.write(b)
    tdir = os.path.join(root, "pkg_c01", "templates")
    if kind == "fs":
        return K["NSFS"](tdir)
    if kind == "cachingfs":
        return K["CachingNSFS"](tdir, namespace_key="ns", capacity=3)
    if kind == "fs_ext":
        return liquid.FileSystemLoader(tdir, ext=".html")
    open(os.path.join(root, "pkg_c01", "__init__.py"), "w").close()
    if root not in sys.path:
        sys.path.insert(0, root)
    import importlib
    importlib.invalidate_caches()
    sys.modules.pop("pkg_c01", None)
    return liquid.PackageLoader("pkg_c01", package_path="templates")


def replay_loader(cell):
    from liquid import Environment
    root = tempfile.mkdtemp(prefix="c01-", dir=os.environ.get("VERIF_SCRATCH", "/verif/.scratch"))
    obs = []
    try:
        results = {}
        for first in ("sync", "async"):
            # two identical worlds: one driven in the cell's order, used to compare the sync and async answers pairwise
            loader = _world(cell["kind"], os.path.join(root, first))
            env = Environment(loader=loader, extra=True)
            name = cell["name"]
            kw, glob = {}, {"g": "G"}
            if cell["ns"] == "kwarg":
                kw = {"ns": "n1"}
            elif cell["ns"] == "context":
                glob["ns"] = "n1"
            order = cell["order"] if first == "sync" else [("async" if m == "sync" else "sync") for m in cell["order"]]
            seq = []
            for idx, mode in enumerate(order):
                g = glob if (idx == 0 or cell["globs"] == "every") else {k: v for k, v in glob.items() if k == "ns"}
                seq.append((mode, _load(env, name, kw, g, mode, cell["use"])))
            results[first] = seq
        # the same position of the same request sequence, reached through the other API (the two worlds are driven in mirrored order)
        for (m1, r1), (m2, r2) in zip(results["sync"], results["async"]):
            obs.append({"kind": "load", "s": r1 if m1 == "sync" else r2, "a": r2 if m1 == "sync" else r1})
        if cell["globs"] == "every":
            # identical requests within one world: the last sync answer and the last async answer
            for seq in results.values():
                a = next((r for m, r in reversed(seq) if m == "sync"), None)
                b = next((r for m, r in reversed(seq) if m == "async"), None)
                if a and b:
                    obs.append({"kind": "load", "s": a, "a": b})
    finally:
        shutil.rmtree(root, ignore_errors=True)
        sys.modules.pop("pkg_c01", None)
    return obs


def _load(env, name, kw, glob, mode, use):
    try:
        if use == "get_template":
            if mode == "sync":
                t = env.get_template(name, globals=glob, **kw)
                out = t.render()
            else:
                async def go():
                    t = await env.get_template_async(name, globals=glob, **kw)
                    return t, await t.render_async()
                t, out = asyncio.run(go())
            return {"st": "ok", "name": str(t.name), "src": str(t), "out": out, "liquid": True}
        tag = {"include": f"{{% include '{name}' %}}", "render": f"{{% render '{name}' %}}",
               "extends": "{% extends 'base' %}{% block c %}" + f"{{% include '{name}' %}}" + "{% endblock %}"}[use]
        t = env.from_string(tag, globals=glob)
        data = dict(kw)
        out = t.render(**data) if mode == "sync" else asyncio.run(t.render_async(**data))
        return {"st": "ok", "name": "", "src": "", "out": out, "liquid": True}
    except Exception as e:
        c = harness.classify(e)
        return {"st": c["err"], "name": "", "src": "", "out": "", "liquid": bool(c.get("liquid"))}


# ---------------------------------------------------------------------------------------------------------------------------------
def family_jobs(ck, tier, rnd):
    """(tag, env kwargs, src, data) from the other specifications' families"""
    from . import c04, c13, c14, c10, c03
    from ..tlcrun import gen_cfg, cleanup_gen
    jobs = []
    cap = 2500 if tier == "quick" else 40000
    pick = lambda xs: xs if len(xs) <= cap else rnd.sample(xs, cap)
    # RoundTrip programs: every standard tag
    progs = c04.generate(ck, tier)
    rt = []
    for p in progs:
        vals = c04.valuations(p)
        for data in (vals[:2] if tier == "quick" else vals[:6]):
            rt.append(("roundtrip", dict(extra=False, flags=c04.FLAGS, templates=p["partials"]), c04.source_of(p), data))
    jobs += pick(rt)
    try:
        rs = run_many([("Loops", f"cfg/Loops_quick.cfg", dict(workers=1, timeout=3000)),
                       ("Scope", gen_cfg("cfg/Scope.tmpl", dict(Names='{"a"}', MaxOps=4 if tier == "quick" else 5, MaxDepth=3, GlobalSets="GlobalsEnv",
                                                               NilVals="FALSE", Interrupts="TRUE", Leaves="TRUE", Extra="INVARIANT Emit"), "c01s"),
                        dict(workers=1, timeout=3000))], parallel=2)
    finally:
        cleanup_gen()
    ck.tlc("Loops (family for C01)", rs[0])
    ck.tlc("Scope (family for C01)", rs[1])
    lp = []
    for i, c in enumerate(c for c in rs[0].emitted if c["claimed"]):
        src, data = c13.concretize(c, i % 30)
        lp.append(("loops", {}, src, data))
    jobs += pick(lp)
    sc = []
    for i, c in enumerate(rs[1].emitted):
        src, templates, data, kw, eglob = c14.concretize(c, i % 6)
        sc.append(("scope", dict(templates=templates, globals=eglob), src, data))
    jobs += pick(sc)
    # TagState programs (cycle / ifchanged / increment / decrement / case in loops, directly and through partials); the group name of a
    # cycle is also written as the empty string and as a variable holding "" / nil / a number (the key then falls back to the arguments)
    from . import x01
    rts = run_tlc("TagState", f"cfg/TagState_{tier}.cfg", workers=1, timeout=3000)
    ck.tlc("TagState (family for C01)", rts)
    tsj = []
    for i, c in enumerate(rts.emitted):
        src, templates = x01.concretize(c)
        data = {}
        if "'g':" in src or any("'g':" in t for t in templates.values()):
            sub = ["'g':", "'':", "grp:", "grp:", "grp:"][i % 5]
            data = {"grp": ["", None, 0][i % 3]} if sub == "grp:" else {}
            src = src.replace("'g':", sub)
            templates = {k: t.replace("'g':", sub) for k, t in templates.items()}
            if sub == "grp:":
                src = src.replace("{% render 'p", "{% render 'p").replace(", i: i %}", ", i: i, grp: grp %}")
        tsj.append(("tagstate", dict(templates=templates), src, data))
    jobs += pick(tsj)
    return jobs


def replay_family(job):
    tag, envkw, src, data = job
    env = harness.make_env(**envkw)
    return pair(env, src, data, analysis=tag in ("scope", "roundtrip"))


def judge(observations):
    for o in observations:          # uniform records: TLC cannot select a field that is not there
        for side in ("s", "a"):
            for k, dv in (("out", ""), ("name", ""), ("src", ""), ("sets", []), ("liquid", True)):
                o[side].setdefault(k, dv)
    d = scratch_dir("sa")
    path = os.path.join(d, "obs.json")
    try:
        with open(path, "w") as f:
            json.dump(observations, f)
        r = run_tlc("SyncAsyncMonitor", "cfg/SyncAsyncMonitor.cfg", workers=1, timeout=3000, env={"TRACE_FILE": path})
        acc = {int(m.group(1)) - 1 for m in re.finditer(r'^<<"ACCEPT", (\d+)>>', r.out, re.M)}
        rej = {int(m.group(1)) - 1: m.group(2) for m in re.finditer(r'^<<"REJECT", (\d+), "(\w+)">>', r.out, re.M)}
        if len(acc) + len(rej) != len(observations):
            raise MachineryError(f"SyncAsyncMonitor.tla judged {len(acc) + len(rej)} of {len(observations)} observations:\n" + r.out[-2000:])
        return rej, r
    finally:
        shutil.rmtree(d, ignore_errors=True)


def run(tier: str) -> int:
    fresh_repo_imports()
    ck = Check(PID, tier)
    rnd = random.Random(seed())
    ck.cov["rule"] = ("A: every SyncAsync.tla expression cell (31 carriers x 22 expression forms incl. bracketed roots [x], ['x'], x[y], filters x 15 kinds of "
                      "value incl. non-string roots, drops with __getitem_async__, missing) rendered by render() and render_async(), analyze() vs "
                      "analyze_async() for a subset; B: every loader cell (dict/choice/file-system/package, caching and not, extension) x name form "
                      "(with directories, missing) x namespace by kwarg/context x request order x use (get_template, include, render, extends): name, "
                      "source, output of get_template vs get_template_async; C: RoundTrip.tla, Loops.tla and Scope.tla programs; all observations "
                      "judged by SyncAsyncMonitor.tla (SameStatus, SameOutput, SameTemplate, SameAnalysis, OnlyLiquid)")
    rs = run_many([("SyncAsync", "cfg/SyncAsync_expr.cfg", dict(workers=1, timeout=1800)),
                   ("SyncAsync", "cfg/SyncAsync_loader.cfg", dict(workers=1, timeout=1800)),
                   ("SyncAsync", "cfg/SyncAsync_interrupt.cfg", dict(workers=1, timeout=1800))], parallel=3)
    ck.tlc("SyncAsync interrupt cells", rs[2])
    ck.tlc("SyncAsync expr cells", rs[0])
    ck.tlc("SyncAsync loader cells", rs[1])
    observations, meta = [], []
    cells = rs[0].emitted
    for cell, (src, obs) in zip(cells, par.pmap(replay_expr, cells, chunk=128)):
        ck.case(("expr", json.dumps(cell, sort_keys=True)))
        ck.validated()
        for o in obs:
            observations.append(o)
            meta.append(("expr", f"{cell['carrier']}:{cell['expr']}:{cell['val']}", {"source": src, "cell": cell}))
    for cell, (src, obs) in zip(rs[2].emitted, par.pmap(replay_interrupt, rs[2].emitted, chunk=32)):
        ck.case(("interrupt", json.dumps(cell, sort_keys=True)))
        ck.validated()
        for o in obs:
            observations.append(o)
            meta.append(("interrupt", f"{cell['caller']}:{cell['via']}:{cell['interrupt']}:{cell['mode']}", {"source": src, "cell": cell}))
    lcells = rs[1].emitted
    if tier == "quick" and len(lcells) > 1600:
        lcells = rnd.sample(lcells, 1600)
    for cell, obs in zip(lcells, par.pmap(replay_loader, lcells, chunk=16)):
        ck.case(("loader", json.dumps(cell, sort_keys=True)))
        ck.validated()
        for o in obs:
            observations.append(o)
            meta.append(("loader", f"{cell['kind']}:{cell['name']}:{cell['ns']}:{cell['use']}", {"cell": cell}))
    jobs = family_jobs(ck, tier, rnd)
    for job, obs in zip(jobs, par.pmap(replay_family, jobs, chunk=128)):
        ck.case((job[0], job[2], json.dumps(job[3], sort_keys=True, default=str)))
        ck.validated()
        for o in obs:
            observations.append(o)
            meta.append((job[0], job[0] + ":" + re.sub(r"\W+", " ", job[2])[:50], {"source": job[2], "data": job[3], "env": {k: v for k, v in job[1].items()}}))
    rej, rm = judge(observations)
    ck.tlc("SyncAsyncMonitor", rm)
    for i, clause in sorted(rej.items()):
        fam, key, detail = meta[i]
        detail = dict(detail, observation=observations[i])
        o = observations[i]
        ck.fail(f"SyncAsyncMonitor.tla!{clause}: sync {o['s']['st']} {str(o['s'].get('out', ''))[:50]!r} vs async {o['a']['st']} {str(o['a'].get('out', ''))[:50]!r}",
                detail, sig=f"{fam}:{clause}:{key}:{o['kind']}")
    ck.cov["observations"] = len(observations)
    if cells:
        ck.sample({"cell": cells[len(cells) // 3], "source": expr_source(cells[len(cells) // 3])})
    ck.assumptions += ["OnlyLiquid is part of the relation: a non-Liquid exception on either side is rejected even when both sides agree (the statement says 'the same kind of Liquid error')",
                       "event sequences are not compared step by step (an async copy may evaluate a pure expression twice); only what a caller observes"]
    return ck.finish()


def replay(path):
    fresh_repo_imports()
    d = json.load(open(path))["detail"]
    print(json.dumps(d, indent=1, default=str)[:3000])
    return 0
