"""C22 — template loaders never read outside their search paths (spec/PathResolve.tla)."""
from __future__ import annotations

import asyncio
import os
import random
import shutil
import sys
import tempfile

from ..core import Check, fresh_repo_imports, seed
from ..tlcrun import run_tlc
from .. import par

PID = "C22"
CONC = {"nul": "a\x00b", "ctl": "a\x01b", "long": "L" * 300, "uni.txt": "é中.txt"}
_world = None


def build_world():
    """root/ (search path) and outside/ with the layout of PathResolve.tla!FS, plus a package with the same tree."""
    base = tempfile.mkdtemp(prefix="c22-", dir="/verif/.scratch")

    def tree(root):
        os.makedirs(os.path.join(root, "sub"))
        for rel, c in [("a.txt", "in:a.txt"), ("sub/b.txt", "in:sub/b.txt"), ("noext", "in:noext"), ("a", "in:a"),
                       (CONC["uni.txt"], "in:uni.txt")]:
            with open(os.path.join(root, rel), "w") as f:
                f.write(c)
        os.symlink(os.path.join(root, "a.txt"), os.path.join(root, "link_in.txt"))
        os.symlink(os.path.join(base, "outside", "secret.txt"), os.path.join(root, "link_out.txt"))
        os.symlink(os.path.join(base, "outside"), os.path.join(root, "dlink_out"))
        os.symlink(os.path.join(root, "sub"), os.path.join(root, "dlink_in"))
        os.symlink(os.path.join(base, "rootx", "a.txt"), os.path.join(root, "link_x.txt"))
        os.symlink(os.path.join(base, "rootx"), os.path.join(root, "dlink_x"))

    os.makedirs(os.path.join(base, "outside"))
    for rel, c in [("secret.txt", "OUT:secret.txt"), ("a.txt", "OUT:a.txt")]:
        with open(os.path.join(base, "outside", rel), "w") as f:
            f.write(c)
    os.makedirs(os.path.join(base, "rootx"))
    with open(os.path.join(base, "rootx", "a.txt"), "w") as f:
        f.write("OUT:rootx/a.txt")
    tree(os.path.join(base, "root"))
    pkg = os.path.join(base, "pk", "vpkg22")
    os.makedirs(pkg)
    open(os.path.join(pkg, "__init__.py"), "w").close()
    tree(os.path.join(pkg, "root"))
    sys.path.insert(0, os.path.join(base, "pk"))
    return base


def name_of(req, base, pkg=False):
    comps = [CONC.get(c, c) for c in req["cs"]]
    rel = "/".join(comps)
    root = os.path.join(base, "pk", "vpkg22", "root") if pkg else os.path.join(base, "root")
    if req["prefix"] == "rel":
        return rel
    if req["prefix"] == "abs_root":
        return root + "/" + rel
    if req["prefix"] == "abs_outside":
        return os.path.join(base, "outside") + "/" + rel
    return "/" + rel


def ask(env, name, how):
    from liquid.exceptions import TemplateNotFoundError
    try:
        t = env.get_template(name) if how == "sync" else asyncio.run(env.get_template_async(name))
    except TemplateNotFoundError:
        return "NotFound"
    except Exception as e:
        return "!" + type(e).__name__
    try:
        return t.render()
    except Exception as e:
        return "!render:" + type(e).__name__


def replay_chunk(reqs):
    global _world
    from liquid import Environment, FileSystemLoader, CachingFileSystemLoader, PackageLoader
    if _world is None:
        _world = build_world()
        import atexit
        atexit.register(shutil.rmtree, _world, True)
    base = _world
    root = os.path.join(base, "root")
    out = []
    envs = {}
    for req in reqs:
        ext = None if req["ext"] == "none" else req["ext"]
        key = (req["ext"], req["reject"])
        if key not in envs:
            envs[key] = {
                "fs": Environment(loader=FileSystemLoader(root, ext=ext, reject_symlinks=req["reject"])),
                "cfs": Environment(loader=CachingFileSystemLoader(root, ext=ext, reject_symlinks=req["reject"])),
                "fs2": Environment(loader=FileSystemLoader([os.path.join(base, "nowhere"), root], ext=ext, reject_symlinks=req["reject"])),
            }
            if not req["reject"]:
                envs[key]["pkg"] = Environment(loader=PackageLoader("vpkg22", package_path="root", ext=ext or ""))
        bad = []
        for lname, env in envs[key].items():
            nm = name_of(req, base, pkg=(lname == "pkg"))
            for how in ("sync", "async"):
                got = ask(env, nm, how)
                if got != req["expect"] and got != req["also"] and got not in req["upwards"]:
                    bad.append((lname, how, nm, got))
        out.append(bad)
    return out


def replay_history(job):
    """One loader instance lives through a history of requests and file-system mutations."""
    from liquid import Environment, FileSystemLoader, CachingFileSystemLoader
    kind, how, steps = job
    base = build_world()
    try:
        root = os.path.join(base, "root")
        cls = {"fs": FileSystemLoader, "cfs": CachingFileSystemLoader}[kind]
        env = Environment(loader=cls(root, reject_symlinks=True))
        clock = [2000000]

        def stamp(p):
            clock[0] += 1000
            os.utime(p, (clock[0], clock[0]), follow_symlinks=False)

        for i, s in enumerate(steps):
            if s["op"] == "mutate":
                a = os.path.join(root, "a.txt")
                if s["m"] == "file_to_outlink":
                    os.unlink(a); os.symlink(os.path.join(base, "outside", "secret.txt"), a)
                elif s["m"] == "outlink_to_file":
                    os.unlink(a); open(a, "w").write("in:a.txt#2"); stamp(a)
                elif s["m"] == "touch":
                    open(a, "w").write("in:a.txt#2"); stamp(a)
                elif s["m"] == "delete":
                    os.unlink(a)
                elif s["m"] == "dir_to_outlink":
                    shutil.rmtree(os.path.join(root, "sub"))
                    open(os.path.join(base, "outside", "b.txt"), "w").write("OUT:b.txt")
                    os.symlink(os.path.join(base, "outside"), os.path.join(root, "sub"))
                continue
            got = ask(env, "/".join(s["cs"]), how)
            if got != s["expect"]:
                return {"step": i, "observed": got, "expected": s["expect"]}
        return None
    finally:
        shutil.rmtree(base, ignore_errors=True)
        if sys.path and sys.path[0].startswith(base):
            sys.path.pop(0)


def run(tier: str) -> int:
    fresh_repo_imports()
    os.makedirs("/verif/.scratch", exist_ok=True)
    ck = Check(PID, tier)
    rnd = random.Random(seed())
    ck.cov["rule"] = ("PathResolve.tla: every name of <=%d components over {files, dirs, '.', '..', empty, file/dir symlinks in and out, decoy names, "
                      "NUL, control, non-ASCII, over-long} x prefix {relative, absolute into root, absolute outside, absolute /} x ext {none,.txt} x "
                      "reject_symlinks; asked of FileSystemLoader (one and two search paths), CachingFileSystemLoader and PackageLoader, sync and async, "
                      "on a real sandbox tree with unique file contents; non-trivial = name has >=1 special component") % (2 if tier == "quick" else 3)
    r = run_tlc("PathResolve", f"cfg/PathResolve_{tier}.cfg", workers=1, timeout=3000)
    ck.tlc("PathResolve_" + tier, r)
    if r.violated:
        ck.fail(f"PathResolve.tla {r.violated} violated", {"tlc": r.out[-3000:]})
        return ck.finish()
    reqs = r.emitted
    if tier == "thorough" and len(reqs) > 120000:
        reqs = rnd.sample(reqs, 120000)
    chunks = [reqs[i:i + 100] for i in range(0, len(reqs), 100)]
    res = par.pmap(replay_chunk, chunks, chunk=1)
    special = {"..", ".", "", "link_out.txt", "dlink_out", "nul", "ctl", "long", "outside", "root", "link_in.txt", "dlink_in"}
    for ch, rr in zip(chunks, res):
        for req, bad in zip(ch, rr):
            ck.case((req["prefix"], tuple(req["cs"]), req["ext"], req["reject"]), nontrivial=bool(special & set(req["cs"])) or req["prefix"] != "rel")
            ck.validated()
            for lname, how, nm, got in bad:
                kind = "outside content returned" if got.startswith("OUT:") else ("exception other than TemplateNotFoundError" if got.startswith("!") else "wrong answer")
                what = "+".join(sorted(special & set(req["cs"]))) or "plain"
                ck.fail(f"{lname} ({how}): {kind}: {got[:40]!r}, PathResolve.tla requires {req['expect']!r}",
                        {"request": req, "loader": lname, "mode": how, "name": nm, "observed": got},
                        sig=f"{lname}:{kind}:{req['prefix']}:{what}:{got if got.startswith('!') else ''}")
                break
    # ---- histories: the file system changes under a living loader (PathHistory.tla) ----
    rh = run_tlc("PathHistory", "cfg/PathHistory.cfg", workers=1, timeout=900)
    ck.tlc("PathHistory", rh)
    if rh.violated:
        ck.fail(f"PathHistory.tla {rh.violated} violated", {"tlc": rh.out[-3000:]})
    hjobs = [(k, how, b["steps"]) for b in rh.emitted for k in ("fs", "cfs") for how in ("sync", "async")]
    if tier == "quick" and len(hjobs) > 1600:
        hjobs = rnd.sample(hjobs, 1600)
    for (k, how, steps), bad in zip(hjobs, par.pmap(replay_history, hjobs, chunk=8)):
        ck.case(("hist", k, how, str(steps)))
        ck.validated()
        if bad:
            muts = "+".join(s["m"] for s in steps if s["op"] == "mutate")
            kind = "outside content returned" if bad["observed"].startswith("OUT:") else "answer not current"
            ck.fail(f"{k} ({how}) after {muts}: {kind}: {bad['observed']!r}, PathHistory.tla requires {bad['expected']!r}",
                    {"loader": k, "mode": how, "steps": steps, **bad}, sig=f"hist:{k}:{kind}:{muts}")
    if hjobs:
        ck.sample({"history": hjobs[0][2]})
    for q in reqs[:: max(1, len(reqs) // 4)][:4]:
        ck.sample(q)
    ck.assumptions += ["the sandbox tree is driven on the real file system; only component walking and link following are modelled",
                       "without reject_symlinks a link that lives inside the search path may be followed out of it (the statement only forbids it when rejection is enabled)"]
    return ck.finish()


def replay(path):
    import json
    fresh_repo_imports()
    d = json.load(open(path))["detail"]
    print(replay_chunk([d["request"]]))
    return 0
