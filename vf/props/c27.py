"""C27 — macro calls and with blocks bind arguments as documented (spec/Macros.tla, spec/MacrosWith.tla).

The specifications enumerate (a) signature x call x caller-scope cells and step through the binding of every call,
(b) every well-nested program of with / endwith / assign instructions, and emit what the macro body / every probe
must see as *sets of admissible value tokens*.  This file only turns a cell into Liquid source (several syntactic
variants per cell), renders it sync and async with Environment(extra=True), parses the printed probes back into
tokens and checks token-in-admissible-set.  No binding or scoping rule lives here.
"""
from __future__ import annotations

import json
import random
import re

from ..core import Check, fresh_repo_imports, seed
from ..tlcrun import run_many, require_covered, TLCResult, SPEC, ROOT
from .. import harness, par

PID = "C27"
SEP = "§"          # between statements of a call program
# what DebugUndefined prints is a diagnostic whose wording no statement fixes: anything that says "undefined" is the undefined value
# (value tokens are short upper-case words and never contain it)
UNDEF_RE = re.compile(r"undefined", re.I)
UNDEFINED_KINDS = ("Undefined", "DebugUndefined", "StrictUndefined")


# ----------------------------------------------------------------------------------------------------------------
# tokens <-> text
def tok_text(t):
    """Text of an abstract value token; the undefined token has no text of its own ('U')."""
    if t["k"] == "U":
        return "U"
    return t["k"] + (str(t["i"]) if t["i"] else "") + t.get("n", "")


def seen_token(text):
    """Project what the engine printed for one value onto a token text."""
    if text == "" or UNDEF_RE.search(text):
        return "U"
    return text


def adm_texts(adm):
    return sorted(tok_text(t) for t in adm)


# ----------------------------------------------------------------------------------------------------------------
# family A: call binding
def _value(text, form, data, pre):
    """An expression evaluating to `text`: string literal, global variable or a variable assigned by the caller."""
    if form == 0:
        return f"'{text}'"
    if form == 1:
        data["g" + text.lower()] = text
        return "g" + text.lower()
    pre.append(f"{{% assign l{text.lower()} = '{text}' %}}")
    return "l" + text.lower()


def concretize_call(case, variant):
    """-> (source, data, templates, env kwargs, positions of the call statements in the separated output)"""
    sig = case["sig"]
    data, pre = {}, []
    eq = "=" if variant % 5 == 4 else ": "            # needs keyword_assignment
    flags = ("keyword_assignment",) if eq == "=" else ()
    undefined = UNDEFINED_KINDS[variant % 3]
    dvars = ["da", "db", "dc"]
    # the macro
    params = []
    for i, p in enumerate(sig, 1):
        if p["dflt"] == "none":
            params.append(p["name"])
        elif p["dflt"] == "lit":
            params.append(f"{p['name']}{eq}'D{i}'")
        else:
            params.append(f"{p['name']}{eq}{dvars[i - 1]}")
    body = "[" + "|".join(f"{p['name']}={{{{ {p['name']} }}}}" for p in sig)
    body += ("|" if sig else "") + "args={% for v in args %}{{ v }},{% endfor %}|n={{ args.size }}"
    body += "|kw={% for kv in kwargs %}{{ kv[0] }}:{{ kv[1] }},{% endfor %}|k={{ kwargs.size }}]"
    dname = "'m'" if (variant // 2) % 2 else "m"
    cname = "'m'" if (variant // 4) % 2 else "m"
    dcomma = "," if (variant // 3) % 2 and params else ""
    trailing = "," if variant % 7 == 3 and params else ""
    macro = f"{{% macro {dname}{dcomma} {', '.join(params)}{trailing} %}}{body}{{% endmacro %}}"
    # the call: positional and keyword arguments, interleaved in one of three ways (relative orders kept)
    pos = [_value(f"P{i}", (variant + i) % 3, data, pre) for i in range(1, case["npos"] + 1)]
    kws = [f"{n}{eq}{_value(f'K{j}', (variant // 3 + j) % 3, data, pre)}" for j, n in enumerate(case["kws"], 1)]
    inter = (variant // 2) % 3
    if inter == 0:
        items = pos + kws
    elif inter == 1:
        items = kws + pos
    else:
        items, a, b = [], list(pos), list(kws)
        while a or b:
            if b:
                items.append(b.pop(0))
            if a:
                items.append(a.pop(0))
    ccomma = "," if (variant // 5) % 2 and items else ""
    call = f"{{% call {cname}{ccomma} {', '.join(items)} %}}"
    vparams = [i for i, p in enumerate(sig, 1) if p["dflt"] == "var"]
    if case["glob"]:
        for i in range(1, len(sig) + 1):
            data[dvars[i - 1]] = f"G{i}"
    if variant % 2:
        # a same-named GLOBAL for every parameter: a parameter is always bound (argument, default or undefined) and must shadow it
        for p in sig:
            data.setdefault(p["name"], "GLOBAL" + p["name"])
    templates = {}
    parts, calls = [], []
    for st in case["prog"]:
        if st["op"] == "def":
            # every third variant: right after its definition the macro is called once with EVERY parameter passed by keyword (output
            # discarded): a call must not leave anything behind in the macro, so the calls that follow still see the declared defaults
            prime = ""
            if variant % 3 == 2 and sig:
                prime = "{% capture primed_ %}{% call " + cname + " " + ", ".join(f"{p['name']}{eq}'PRIMED'" for p in sig) + " %}{% endcapture %}"
            if case["via"] == "include":
                templates["defs"] = macro
                parts.append("{% include 'defs' %}" + prime)
            else:
                parts.append(macro + prime)
        elif st["op"] == "call":
            calls.append(len(parts))
            parts.append(call)
        elif st["op"] == "assign":
            parts.append("".join(f"{{% assign {dvars[i - 1]} = '{st['tag']}{i}' %}}" for i in vparams))
        elif st["op"] == "with":
            parts.append("{% with " + ", ".join(f"{dvars[i - 1]}{eq}'{st['tag']}{i}'" for i in vparams) + " %}")
        elif st["op"] == "endwith":
            parts.append("{% endwith %}")
    src = "".join(pre) + SEP + SEP.join(parts)
    return src, data, templates, {"undefined": undefined, "flags": flags}, [c + 1 for c in calls]


BODY_RE = re.compile(r"^\[(.*)\]$", re.S)


def observe_call(segment, nparams):
    """Parse what one call printed -> dict, or None if the body did not run (undefined macro)."""
    m = BODY_RE.match(segment)
    if not m:
        return {"ran": False, "text": segment}
    fields = m.group(1).split("|")
    o = {"ran": True, "params": [], "args": [], "kwargs": []}
    for f in fields[:nparams]:
        name, _, val = f.partition("=")
        o["params"].append((name, seen_token(val)))
    rest = dict(f.partition("=")[::2] for f in fields[nparams:])
    o["args"] = [seen_token(v) for v in rest.get("args", "").split(",")[:-1]]
    o["n"] = rest.get("n")
    o["kwargs"] = [tuple(kv.split(":", 1)) for kv in rest.get("kw", "").split(",")[:-1]]
    o["k"] = rest.get("k")
    return o


def judge_call(exp, obs, admit_undefined_macro):
    """Compare one call's observation with the record the specification emitted. -> None or reason"""
    if not obs["ran"]:
        if not exp["defined"] or admit_undefined_macro:
            return None if seen_token(obs["text"]) == "U" else "undefined macro rendered as " + repr(obs["text"])
        return "macro body did not run: " + repr(obs["text"])
    if not exp["defined"]:
        return "call before the definition ran a macro body"
    for p, (name, val) in zip(exp["params"], obs["params"]):
        if name != p["name"] or val not in adm_texts(p["adm"]):
            return f"parameter {p['name']} ({p['src']}) is {val}, admissible {adm_texts(p['adm'])}"
    if obs["args"] != [tok_text(t) for t in exp["args"]] or obs["n"] != str(len(exp["args"])):
        return f"args is {obs['args']} (size {obs['n']}), expected {[tok_text(t) for t in exp['args']]}"
    got, want = obs["kwargs"], [(k["name"], adm_texts(k["adm"])) for k in exp["kwargs"]]
    if not exp["kwOrderFixed"]:
        got, want = sorted(got), sorted(want)
    if [g[0] for g in got] != [w[0] for w in want] or any(g[1] not in w[1] for g, w in zip(got, want)) \
            or obs["k"] != str(len(want)):
        return f"kwargs is {obs['kwargs']} (size {obs['k']}), expected {want}"
    return None


def expects_strict_error(case):
    """Under StrictUndefined printing an undefined value raises: true iff the spec says an undefined is printed."""
    for o in case["out"]:
        if not o["defined"]:
            return True
        if any(adm_texts(p["adm"]) == ["U"] for p in o["params"]):
            return True
    return False


_CASES: dict = {"call": [], "with": []}      # filled before the pool forks; jobs carry indexes only
_ENVS: dict = {}
_LOOP: list = []


def _env(templates=None, **kw):
    """Environments are reused within a worker process (they hold no render state); one with templates is made afresh."""
    if templates:
        return harness.make_env(extra=True, templates=templates, **kw)
    key = (kw.get("undefined", "Undefined"), tuple(kw.get("flags", ())))
    if key not in _ENVS:
        _ENVS[key] = harness.make_env(extra=True, **kw)
    return _ENVS[key]


def _render(tmpl, data, how):
    """harness.render, but the asynchronous renders of one worker share one event loop (asyncio.run per render costs
    a selector and a socket pair each time, which dominated the replay on a busy machine)."""
    if how == "sync":
        return harness.render(tmpl, data, "sync")
    import asyncio
    import os
    if not _LOOP or _LOOP[0][0] != os.getpid():
        _LOOP[:] = [(os.getpid(), asyncio.new_event_loop())]
    try:
        return {"out": _LOOP[0][1].run_until_complete(tmpl.render_async(**data)), "warnings": 0}
    except Exception as e:
        return harness.classify(e)


def _procs():
    import os
    load = os.getloadavg()[0]
    return 16 if load < 12 else 8 if load < 32 else 5


def _job_call(job):
    j, variant = job
    r = replay_call((_CASES["call"][j], variant))
    return r if any(why for _, why, _ in r[4]) else None


def _job_with(job):
    j, variant = job
    r = replay_with((_CASES["with"][j], variant))
    return r if any(why for _, why, _ in r[3]) else None


def replay_call(job):
    case, variant = job
    src, data, templates, envkw, callpos = concretize_call(case, variant)
    env = _env(templates, **envkw)
    res = []
    tmpl, perr = harness.parse(env, src)
    for how in ("sync", "async"):
        o = perr if perr else _render(tmpl, data, how)
        why = None
        if "out" not in o:
            if envkw["undefined"] == "StrictUndefined" and o["err"] == "UndefinedError" and \
                    (expects_strict_error(case) or case["admitUndefinedMacro"]):
                pass
            elif o.get("liquid") and any(c["contested"] for c in case["out"]):
                pass        # unspecified cell: an error is an admissible reading
            else:
                why = "raised " + o["err"]
        elif envkw["undefined"] == "StrictUndefined" and expects_strict_error(case):
            why = "an undefined value was printed without an error under StrictUndefined"
        else:
            segs = o["out"].split(SEP)
            for c, (pos, exp) in enumerate(zip(callpos, case["out"]), 1):
                if pos >= len(segs):
                    why = "output truncated"
                    break
                r = judge_call(exp, observe_call(segs[pos], len(case["sig"])), case["admitUndefinedMacro"])
                if r:
                    why = f"call {c}: {r}"
                    break
            else:
                junk = [s for j, s in enumerate(segs) if j not in callpos and s]
                if junk:
                    why = "a statement other than call printed " + repr(junk[0][:40])
        res.append((how, why, o.get("out", o.get("err"))))
    return src, data, templates, envkw, res


def _sig_call(case, why):
    dfl = "".join(p["dflt"][0] for p in case["sig"])
    w = re.sub(r"[A-Z]\d|\d+", "#", why.split(":")[0] if why.startswith("call") else why)[:60]
    cls = re.sub(r"is .*", "", why.split(": ", 1)[-1])[:40]
    dup = len(set(case["kws"])) != len(case["kws"])
    return f"call:sig={dfl or '-'}:npos={min(case['npos'], len(case['sig']) + 1)}:kw={len(case['kws'])}{'dup' if dup else ''}:" \
           f"{case['shape']}:{case['via']}:{cls.strip() or w}"


# ----------------------------------------------------------------------------------------------------------------
# family B: with blocks
def concretize_with(case, variant):
    base, prog = case["base"], case["prog"]
    data = {}
    names = ("x", "y")
    eq = "=" if variant % 5 == 4 else ": "
    flags = ("keyword_assignment",) if eq == "=" else ()
    probe = "<{{ x }}|{{ y }}>"
    head = []
    for n in names:
        if base[n] == "global":
            data[n] = "G" + n
        elif base[n] == "assigned":
            head.append(f"{{% assign {n} = 'L{n}' %}}")
    parts, k, a = [], 0, 0
    for ins in prog:
        if ins["op"] == "with":
            k += 1
            items = []
            order = names if (variant // 2) % 2 == 0 else names[::-1]
            for n in order:
                s = ins["binds"][n]
                if s == "absent":
                    continue
                if s == "lit":
                    if (variant + k) % 3 == 1:
                        data[f"w{k}{n}"] = f"W{k}{n}"
                        items.append(f"{n}{eq}w{k}{n}")
                    else:
                        items.append(f"{n}{eq}'W{k}{n}'")
                else:
                    items.append(f"{n}{eq}{s}")
            parts.append("{% with " + ", ".join(items) + " %}" + probe)
        elif ins["op"] == "endwith":
            parts.append("{% endwith %}" + probe)
        else:
            a += 1
            n = ins["name"]
            if (variant // 3) % 2:
                parts.append(f"{{% capture {n} %}}A{a}{n}{{% endcapture %}}" + probe)
            else:
                parts.append(f"{{% assign {n} = 'A{a}{n}' %}}" + probe)
    inner = "".join(head) + "".join(parts)
    wrap = (variant // 4) % 4
    if wrap == 1:
        inner = "{% for q in (1..1) %}" + inner + "{% endfor %}"
    elif wrap == 2:
        inner = "{% if true %}" + inner + "{% endif %}"
    elif wrap == 3:
        # a with block that is left through `break` is left all the same: nothing of it may be visible afterwards
        inner = ("{% for q in (1..2) %}{% with x" + eq + "'BX' %}{% with y" + eq + "'BY', x" + eq + "'BZ' %}{% break %}"
                 "{% endwith %}{% endwith %}{% endfor %}" + inner)
    if base["inMacro"]:
        ps = [n for n in names if base[n] == "param"]
        if (variant // 2) % 2 and ps:
            call = ", ".join(f"{n}{eq}'P{n}'" for n in reversed(ps))
        else:
            call = ", ".join(f"'P{n}'" for n in ps)
        src = f"{{% macro w {', '.join(ps)} %}}{inner}{{% endmacro %}}{{% call w {call} %}}"
    else:
        src = inner
    return src, data, {"flags": flags}


PROBE_RE = re.compile(r"<([^<>|]*)\|([^<>|]*)>")


def replay_with(job):
    case, variant = job
    src, data, envkw = concretize_with(case, variant)
    env = _env(None, **envkw)
    res = []
    tmpl, perr = harness.parse(env, src)
    for how in ("sync", "async"):
        o = perr if perr else _render(tmpl, data, how)
        why = None
        if "out" not in o:
            why = "raised " + o["err"]
        else:
            seen = PROBE_RE.findall(o["out"])
            if len(seen) != len(case["probes"]) or PROBE_RE.sub("", o["out"]) != "":
                why = f"{len(seen)} probes printed, {len(case['probes'])} expected"
            else:
                for j, (pr, (sx, sy)) in enumerate(zip(case["probes"], seen)):
                    for n, s in (("x", sx), ("y", sy)):
                        if seen_token(s) not in adm_texts(pr[n]):
                            ins = case["prog"][j]
                            inside = sum(1 if q["op"] == "with" else -1 if q["op"] == "endwith" else 0 for q in case["prog"][:j + 1])
                            why = f"after instruction {j + 1} ({ins['op']}, depth {inside}): {n} is {seen_token(s)}, admissible {adm_texts(pr[n])}"
                            break
                    if why:
                        break
        res.append((how, why, o.get("out", o.get("err"))))
    return src, data, envkw, res


def _sig_with(case, why):
    m = re.search(r"\((\w+), depth (\d+)\): (\w) is ([A-Z])", why)
    shape = "".join({"with": "W", "endwith": "E", "assign": "A"}[q["op"]] for q in case["prog"])
    core = f"{m.group(1)}:d{m.group(2)}:{m.group(3)}:{m.group(4)}" if m else re.sub(r"\d+", "#", why)[:40]
    return f"with:{shape}:{'macro' if case['base']['inMacro'] else 'top'}:{core}"


# ----------------------------------------------------------------------------------------------------------------
CALL_ACTIONS = ["Assign", "Extend", "Pop", "DefineMacro", "CallUndefinedMacro", "BeginCall", "BindPositional", "CollectArgs",
                "BindKeyword", "CollectKwargs", "ApplyDefault", "BindUndefined", "AlreadyBound", "EndCall"]
WITH_ACTIONS = ["Extend", "Pop", "AssignStep", "Finish"]


def _tlc(jobs, parallel=3):
    """run_many with the memo of DESIGN §2.5: a TLC run depends only on the module, its cfg and the options, never on the
    implementation, so its parsed result is kept under /verif/.cache/<sha256> (VERIF_TLC_CACHE=0 switches this off).
    Everything that touches the implementation is redone on every invocation."""
    import hashlib
    import os
    use = os.environ.get("VERIF_TLC_CACHE", "1") != "0"
    cdir = os.path.join(ROOT, ".cache")
    keys, out, todo = [], [None] * len(jobs), []
    for n, (module, cfg, kw) in enumerate(jobs):
        h = hashlib.sha256()
        for f in (module + ".tla", cfg):
            h.update(open(os.path.join(SPEC, f), "rb").read())
        h.update(repr(sorted((k, v) for k, v in kw.items() if k not in ("timeout", "workers"))).encode())
        keys.append(os.path.join(cdir, f"{PID}-{module}-{h.hexdigest()[:32]}.json"))
        if use and os.path.exists(keys[n]):
            try:
                d = json.load(open(keys[n]))
                out[n] = TLCResult(ok=True, generated=d["generated"], distinct=d["distinct"], depth=d["depth"], emitted=d["emitted"],
                                   coverage={a: tuple(v) for a, v in d["coverage"].items()}, wall=d["wall"], out="(memoised)", cmd=d["cmd"])
                continue
            except Exception:
                pass
        todo.append(n)
    for n, r in zip(todo, run_many([jobs[n] for n in todo], parallel=parallel)):
        out[n] = r
        if use and r.ok and not r.violated:
            os.makedirs(cdir, exist_ok=True)
            tmp = keys[n] + f".{os.getpid()}"
            with open(tmp, "w") as f:
                json.dump({"generated": r.generated, "distinct": r.distinct, "depth": r.depth, "emitted": r.emitted,
                           "coverage": r.coverage, "wall": r.wall, "cmd": r.cmd}, f)
            os.replace(tmp, keys[n])
    return out


def run(tier: str) -> int:
    fresh_repo_imports()
    ck = Check(PID, tier)
    rnd = random.Random(seed())
    tlc_jobs = [
        ("Macros", f"cfg/Macros_{tier}.cfg", dict(workers=1, timeout=2400, coverage=True)),
        ("MacrosWith", f"cfg/MacrosWith_{tier}_inv.cfg", dict(workers=4 if tier == "quick" else 8, timeout=2400, coverage=True)),
        ("MacrosWith", f"cfg/MacrosWith_{tier}_emit.cfg", dict(workers=1, timeout=2400)),
    ]
    if tier == "thorough":      # the thorough emit family restricts the argument sources; the quick one (self references) is replayed as well
        tlc_jobs.append(("MacrosWith", "cfg/MacrosWith_quick_emit.cfg", dict(workers=1, timeout=2400)))
    rc, rwi, rwe, *more = _tlc(tlc_jobs, parallel=4)
    for n, r in enumerate(more):
        ck.tlc(f"MacrosWith_emit_quick_family_{n}", r)
        if r.violated:
            ck.fail(f"MacrosWith.tla {r.violated} violated", {"tlc": r.out[-3000:]})
            return ck.finish()
        rwe.emitted.extend(r.emitted)
    ck.tlc("Macros_" + tier, rc)
    ck.tlc("MacrosWith_inv_" + tier, rwi)
    ck.tlc("MacrosWith_emit_" + tier, rwe)
    for name, r in (("Macros.tla", rc), ("MacrosWith.tla", rwi), ("MacrosWith.tla (emit)", rwe)):
        if r.violated:
            ck.fail(f"{name} {r.violated} violated", {"tlc": r.out[-3000:]})
            return ck.finish()
    require_covered(rc, CALL_ACTIONS)
    require_covered(rwi, WITH_ACTIONS)
    if not rc.emitted or not rwe.emitted:
        from ..tlcrun import MachineryError
        raise MachineryError("a specification emitted no behaviour (vacuous run)")

    # ---- family A
    calls = rc.emitted
    nvar = 2 if tier == "quick" else 3
    if tier == "thorough" and len(calls) > 60000:
        calls = rnd.sample(calls, 60000)
    _CASES["call"] = calls
    jobs = [(j, (j * 11 + v * 7 + seed()) % 210) for j in range(len(calls)) for v in range(nvar)]
    res = par.pmap(_job_call, jobs, procs=_procs(), chunk=256)
    for (j, variant), r in zip(jobs, res):
        case = calls[j]
        nontriv = any(o["defined"] and (o["params"] or o["args"] or o["kwargs"]) for o in case["out"])
        ck.case(("call", j, variant), nontrivial=nontriv)
        ck.validated()
        if r is None:
            continue
        src, data, templates, envkw, rr = r
        for how, why, got in rr:
            if why:
                ck.fail(why, {"family": "call", "case": case, "variant": variant, "source": src, "data": data,
                              "templates": templates, "env": {"extra": True, **envkw}, "mode": how, "observed": got},
                        sig=_sig_call(case, why))
                break
    # ---- family B
    withs = rwe.emitted
    if tier == "thorough" and len(withs) > 90000:
        withs = rnd.sample(withs, 90000)
    if tier == "thorough":
        # deeper random programs (5 with tags, depth 4, 2 assigns, both names): tlc -simulate, invariants checked on every state
        from ..tlcrun import run_tlc
        rs = run_tlc("MacrosWith", "cfg/MacrosWith_sim.cfg", workers=4, timeout=900, simulate="num=4000", depth=20, seed=seed() + 1)
        ck.tlc("MacrosWith_simulate", rs)
        if rs.violated:
            ck.fail(f"MacrosWith.tla {rs.violated} violated (simulation)", {"tlc": rs.out[-3000:]})
            return ck.finish()
        uniq = {json.dumps(c, sort_keys=True): c for c in rs.emitted}
        ck.cov["simulated_with_programs"] = len(uniq)
        withs = withs + [uniq[k] for k in sorted(uniq)]
    nvar = 2
    _CASES["with"] = withs
    jobs = [(j, (j * 13 + v * 5 + seed()) % 240) for j in range(len(withs)) for v in range(nvar)]
    res = par.pmap(_job_with, jobs, procs=_procs(), chunk=256)
    for (j, variant), r in zip(jobs, res):
        case = withs[j]
        ck.case(("with", j, variant), nontrivial=True)
        ck.validated()
        if r is None:
            continue
        src, data, envkw, rr = r
        for how, why, got in rr:
            if why:
                ck.fail(why, {"family": "with", "case": case, "variant": variant, "source": src, "data": data,
                              "env": {"extra": True, **envkw}, "mode": how, "observed": got}, sig=_sig_with(case, why))
                break

    ck.cov["rule"] = (
        "Macros.tla: every signature of 0..3 parameters (each without default / literal default / variable default) x 0..4 positional x "
        "keyword-argument sequences (matching, non-matching, duplicate names; bounds in spec/cfg/Macros_%s.cfg) x caller scope shapes "
        "(plain, variable assigned late, call inside with, definition inside with, globals present or not, call before definition, "
        "definition in an included template); each call executed as BindPositional/CollectArgs/BindKeyword/CollectKwargs/ApplyDefault/"
        "BindUndefined steps; 7 invariants; expected parameter values, args, kwargs emitted as admissible token sets. "
        "MacrosWith.tla: every well-nested program of with/endwith/assign instructions within spec/cfg/MacrosWith_%s_*.cfg over names x, y "
        "(arguments literal or references to x / y), at top level and as a macro body, base bindings unset/global/assigned/parameter; "
        "stack mechanism related to the lexical requirement by 6 invariants; the visible value of x and y after every instruction emitted. "
        "Each cell rendered in %d+%d syntactic variants (literal vs global vs caller-assigned argument values, quoted/bare macro names, "
        "commas, ':' vs '=' with keyword_assignment, interleaved positional/keyword order, assign vs capture, for/if wrappers, "
        "Undefined/DebugUndefined/StrictUndefined), sync and async." % (tier, tier, 2 if tier == "quick" else 3, 2))
    ck.cov["cells"] = {"call": len(rc.emitted), "with_programs": len(rwe.emitted)}
    for c in rc.emitted[:: max(1, len(rc.emitted) // 3)][:3]:
        s, d, t, e, _ = concretize_call(c, 5)
        ck.sample({"family": "call", "sig": c["sig"], "npos": c["npos"], "kws": c["kws"], "shape": c["shape"], "source": s, "expected": c["out"]})
    for c in rwe.emitted[:: max(1, len(rwe.emitted) // 2)][:2]:
        s, d, e = concretize_with(c, 1)
        ck.sample({"family": "with", "base": c["base"], "source": s, "data": d, "expected_probes": c["probes"]})
    ck.assumptions += [
        "a keyword argument naming a parameter that a positional argument already bound: not fixed by statement/docs; the positional value, "
        "the keyword value or a Liquid error are all admissible (the parameter is then marked `contested` by the spec)",
        "the same keyword name given twice: any of the given values is admissible; the position of a duplicated name inside kwargs is not claimed",
        "`{% with x: 1, y: x %}`: whether y reads the outer or the new x is not fixed by the docs; both admissible",
        "a macro defined in an included template: either visible to the including template or an undefined macro (not documented)",
        "a macro calling another macro, parameters named args/kwargs, duplicate parameter names and redefinition of a macro are outside the family",
        "undefined is observed as: empty output (Undefined), a diagnostic text mentioning 'undefined' (DebugUndefined), UndefinedError on output (StrictUndefined)",
    ]
    return ck.finish()


def replay(path):
    fresh_repo_imports()
    d = json.load(open(path))["detail"]
    if d.get("family") == "call":
        _, _, _, _, rr = replay_call((d["case"], d["variant"]))
    else:
        _, _, _, rr = replay_with((d["case"], d["variant"]))
    bad = [(how, why, got) for how, why, got in rr if why]
    print("source:", d["source"])
    print("data:", d["data"])
    for how, why, got in rr:
        print(how, "->", repr(got), "" if not why else "  !! " + why)
    return 1 if bad else 0
