"""C13 — loops visit exactly the documented items (spec/Loops.tla)."""
from __future__ import annotations

import random
import re

from ..core import Check, fresh_repo_imports, seed
from ..tlcrun import run_tlc
from .. import harness, par

PID = "C13"
NONE, CONT = -99, -98
CELL = re.compile(r"<([^<>]*)>")


def _arg(name, v, variant, data, key):
    if v == NONE:
        return ""
    if v == CONT:
        return f" {name}:continue"
    form = variant % 3
    if form == 0:
        return f" {name}:{v}"
    var = f"{name}_{key}"
    data[var] = v if form == 1 else str(v)
    return f" {name}:{var}"


def concretize(case, variant):
    n = case["n"]
    data = {}
    kind = ["array", "hash", "rangelit", "rangevar", "tuple"][variant % 5]
    if kind == "array":
        data["c"] = list(range(1, n + 1)); coll, item = "c", "{{x}}"
    elif kind == "tuple":
        data["c"] = tuple(range(1, n + 1)); coll, item = "c", "{{x}}"
    elif kind == "hash":
        data["c"] = {f"k{i}": i for i in range(1, n + 1)}; coll, item = "c", "{{x[1]}}"
    elif kind == "rangelit":
        coll, item = f"(1..{n})", "{{x}}"
    else:
        data["c"] = range(1, n + 1); coll, item = "c", "{{x}}"
    parts = []
    item0 = item
    for i, lp in enumerate(case["prog"]):
        var = lp.get("var", "x")
        item = item0.replace("x", var)
        L = "forloop" if lp["kind"] == "for" else "tablerowloop"
        args = _arg("limit", lp["limit"], variant + i, data, i) + _arg("offset", lp["offset"], variant // 3 + i, data, i)
        if lp["cols"] != NONE:
            args += _arg("cols", lp["cols"], variant // 2, data, i)
        if lp["rev"]:
            args += " reversed"
        brk = f"{{% if {item[2:-2]} == {lp['brk']} %}}{{% break %}}{{% endif %}}" if lp["brk"] else ""
        cells = f"<{item},{{{{{L}.index}}}},{{{{{L}.index0}}}},{{{{{L}.rindex}}}},{{{{{L}.rindex0}}}},{{{{{L}.first}}}},{{{{{L}.last}}}},{{{{{L}.length}}}}"
        if lp["kind"] == "tablerow":
            cells += f",{{{{{L}.row}}}},{{{{{L}.col}}}},{{{{{L}.col_first}}}},{{{{{L}.col_last}}}},{{{{{L}.col0}}}}>"
            parts.append(f"{{% tablerow {var} in {coll}{args} %}}{brk}{cells}{{% endtablerow %}}")
        else:
            cells += ">"
            parts.append(f"{{% for {var} in {coll}{args} %}}{brk}{cells}{{% else %}}ELSE{{% endfor %}}")
    return "|".join(parts), data


def expected_text(case):
    out = []
    for lp, o in zip(case["prog"], case["out"]):
        cells = []
        for h in o["visited"]:
            b = lambda x: "true" if x else "false"
            c = [h["item"], h["index"], h["index0"], h["rindex"], h["rindex0"], b(h["first"]), b(h["last"]), h["length"]]
            if lp["kind"] == "tablerow":
                c += [h["row"], h["col"], b(h["colfirst"]), b(h["collast"]), h["col"] - 1]
            cells.append(",".join(str(x) for x in c))
        out.append({"cells": cells, "else": o["else"] and lp["kind"] == "for", "rows": [h["row"] for h in o["visited"]],
                    "cols": [h["col"] for h in o["visited"]]})
    return out


def observe(text, case):
    segs = text.split("|")
    obs = []
    for lp, s in zip(case["prog"], segs):
        o = {"cells": CELL.findall(re.sub(r"</?t[rd][^>]*>", "", s)), "else": "ELSE" in s}
        if lp["kind"] == "tablerow":
            # the HTML structure itself: row of each cell from <tr class="rowN">, col from <td class="colN">
            rows, cols, cur = [], [], 0
            for m in re.finditer(r'<tr class="row(\d+)">|<td class="col(\d+)">', s):
                if m.group(1):
                    cur = int(m.group(1))
                else:
                    rows.append(cur); cols.append(int(m.group(2)))
            o["rows"], o["cols"] = rows, cols
        obs.append(o)
    return obs


def replay_one(job):
    case, variant = job
    src, data = concretize(case, variant)
    env = harness.make_env()
    exp = expected_text(case)
    res = []
    for how in ("sync", "async"):
        o = harness.run(env, src, data, how)
        if "out" not in o:
            res.append((how, "raised " + o["err"]))
            continue
        obs = observe(o["out"], case)
        why = None
        for i, (e, g, lp) in enumerate(zip(exp, obs, case["prog"])):
            if g["cells"] != e["cells"]:
                why = f"loop {i + 1}: visited items / helper values differ"
            elif g["else"] != e["else"]:
                why = f"loop {i + 1}: else block rendered={g['else']}"
            elif lp["kind"] == "tablerow" and (g["rows"][:len(e["rows"])] != e["rows"] or g["cols"][:len(e["cols"])] != e["cols"]):
                why = f"loop {i + 1}: table row/column structure differs"
            if why:
                break
        res.append((how, why and (why, obs)))
    return src, res


def _sig(case, why):
    lp = case["prog"][0]
    f = lambda v: {NONE: "-", CONT: "cont"}.get(v, ("neg" if v < 0 else "0" if v == 0 else "big" if v > case["n"] else "in"))
    return f"{lp['kind']}:limit={f(lp['limit'])}:offset={f(lp['offset'])}:loops={len(case['prog'])}:{why if isinstance(why, str) else why[0]}"


def run(tier: str) -> int:
    fresh_repo_imports()
    ck = Check(PID, tier)
    rnd = random.Random(seed())
    ck.cov["rule"] = ("Loops.tla: collections of length 0..%d; first loop for/tablerow with limit and offset in {absent,-2..n+1,huge} (+offset:continue), "
                      "reversed, break, cols in {absent,1,2,n+1}; up to two following loops with offset:continue; expected visited items, else, "
                      "forloop/tablerowloop helpers and row/col structure from the specification; collection rendered as array/hash/range/tuple and "
                      "arguments as literal/variable/numeric string" % (2 if tier == "quick" else 4))
    r = run_tlc("Loops", f"cfg/Loops_{tier}.cfg", workers=1 if tier == "quick" else 1, timeout=3000)
    ck.tlc("Loops_" + tier, r)
    if r.violated:
        ck.fail(f"Loops.tla {r.violated} violated", {"tlc": r.out[-3000:]})
        return ck.finish()
    cases = [c for c in r.emitted if c["claimed"]]
    ck.cov["unclaimed_corner_skipped"] = len(r.emitted) - len(cases)
    if tier == "thorough" and len(cases) > 150000:
        cases = rnd.sample(cases, 150000)
    jobs = [(c, (i * 7 + v) % 30) for i, c in enumerate(cases) for v in range(3 if tier == "quick" else 2)]
    res = par.pmap(replay_one, jobs, chunk=128)
    for (case, variant), (src, rr) in zip(jobs, res):
        ck.case((str(case["prog"]), case["n"], variant), nontrivial=case["n"] > 0)
        ck.validated()
        for how, why in rr:
            if why:
                ck.fail(why if isinstance(why, str) else why[0],
                        {"case": {"n": case["n"], "prog": case["prog"]}, "variant": variant, "source": src, "mode": how,
                         "observed": why if isinstance(why, str) else why[1], "expected": expected_text(case)}, sig=_sig(case, why))
                break
    for c in cases[:: max(1, len(cases) // 3)][:3]:
        s, d = concretize(c, 1)
        ck.sample({"n": c["n"], "prog": c["prog"], "source": s, "expected": expected_text(c)})
    from . import c13_nested
    c13_nested.run_nested(ck, tier, rnd)
    ck.assumptions += ["`offset: continue` after a loop that used a negative offset is left unclaimed (DESIGN §6)",
                       "tablerow with cols <= 0 is outside the family"]
    return ck.finish()


def replay(path):
    import json
    fresh_repo_imports()
    d = json.load(open(path))["detail"]
    print("use the source/data in the replay file; expected:", d["expected"])
    return 0
