"""C19 — static analysis reports everything a render can touch (spec/Scope.tla: MustGlobals, Exempt).

Family: Scope.tla programs (binding constructs in any well-nested order, the shared partial `leaf` included / rendered several times
from different scopes), with the names bound by the render arguments.  Scope.tla computes, per step, which layer answers each read
and whether the reference is exempt (inside a construct binding the name, or preceded in source order by an assignment to it);
MustGlobals = names read from the render arguments at a non-exempt reference.  The real analyze() / analyze_async() of the
concretised template must report every MustGlobals name as a global, every name read as a variable, every tag and filter used;
the render itself is traced (RenderContext.get/resolve) and every root it evaluates must be among the reported variables."""
from __future__ import annotations

import asyncio
import random
import re

from ..core import Check, fresh_repo_imports, seed
from ..tlcrun import run_many, gen_cfg, cleanup_gen
from .. import harness, par, instrument
from . import c14

PID = "C19"
TAG_OF = {"for": {"for"}, "tablerow": {"tablerow"}, "with": {"with"}, "include": {"include"}, "include0": {"include"}, "incleaf": {"include"},
          "render": {"render"}, "render0": {"render"}, "renderleaf": {"render"}, "call": {"macro", "call"}, "callnoarg": {"macro", "call"},
          "assign": {"assign"}, "capture": {"capture"}, "incr": {"increment"}, "decr": {"decrement"}}
_roots: list = []


def _install():
    from liquid.context import RenderContext

    def mk(orig):
        def f(self, path, **kw):
            _roots.append(path[0] if path else None)
            return orig(self, path, **kw)
        return f

    def mka(orig):
        async def f(self, path, **kw):
            _roots.append(path[0] if path else None)
            return await orig(self, path, **kw)
        return f
    instrument.wrap(RenderContext, "get", mk)
    instrument.wrap(RenderContext, "get_async", mka)


def add_filter(src):
    return re.sub(r"\{\{ (\w+) \}\}", r"{{ \1 | append: '' }}", src)


def replay_one(job):
    case, variant = job
    _install()
    leaf_only = variant >= 6
    variant %= 6
    src, templates, data, kw, eglob = c14.concretize(case, variant, reads="leaf" if leaf_only else "all")
    must = case["mustGlobalsLeaf"] if leaf_only else case["mustGlobals"]
    names_ = sorted(case["prog"][0]["reads"])
    if leaf_only and len(names_) > 1 and names_[1] in templates:
        # the partial named after the second variable reads every name itself: its reads count like the leaf's
        r = case["prog"][c14.concretize.named_step]
        must = sorted(set(must) | {n for n in names_ if r["reads"][n]["layer"] in ("rargs", "matter", "tglobals", "eglobals") and n not in r["ex"]})
    filt = variant >= 3
    if filt:
        src = add_filter(src)
        templates = {k: add_filter(v) for k, v in templates.items()}
    env = harness.make_env(templates=templates, globals=eglob)
    names = sorted(case["prog"][0]["reads"])
    tags = set()
    for r in case["prog"]:
        tags |= TAG_OF.get(r["op"], set())
    if case["status"] != "ok":
        tags -= {"include"}      # the refused include is never rendered
    if variant % 2:
        tags.add("echo")
    if any(r["op"] == "break" for r in case["prog"]):
        tags.add("break" if variant % 2 == 0 else "continue")
    problems = []
    try:
        t = env.from_string(src, **{k: v for k, v in kw.items() if v})
    except Exception as e:
        return src, templates, [("parse", "parse failed: " + repr(e)[:200])]
    for how in ("sync", "async"):
        try:
            a = t.analyze() if how == "sync" else asyncio.run(t.analyze_async())
        except Exception as e:
            problems.append((how, f"analyze raised {type(e).__name__}: {e}"[:200]))
            continue
        for n in must:
            if n not in a.globals:
                problems.append((how, f"global:{n}: `{n}` is read from the render arguments at a reference that is neither inside a block binding it nor after an assignment, but is not reported in globals {sorted(a.globals)}"))
        for n in ([] if leaf_only and not any(r["op"] in ("incleaf", "renderleaf") for r in case["prog"]) else names):
            if n not in a.variables:
                problems.append((how, f"variable:{n}: `{n}` is evaluated by the render but not reported in variables"))
        miss = tags - set(a.tags)
        if miss:
            problems.append((how, f"tags:{sorted(miss)}: rendered tags not reported (reported {sorted(a.tags)})"))
        if filt and "append" not in a.filters and any("append" in x for x in [src] + list(templates.values())):
            problems.append((how, "filters:append: applied filter not reported"))
        # dynamic side: every root the render evaluates is a reported variable
        del _roots[:]
        harness.render(t, data, how)
        unseen = {r for r in _roots if isinstance(r, str) and r not in a.variables}
        if unseen:
            problems.append((how, f"variable-dyn:{sorted(unseen)}: roots evaluated during the render but not reported in variables"))
    return src, templates, problems


def run(tier: str) -> int:
    fresh_repo_imports()
    ck = Check(PID, tier)
    rnd = random.Random(seed())
    ck.cov["rule"] = ("Scope.tla with the shared partial `leaf` (included / rendered any number of times from different scopes), break/continue, all binding "
                      "constructs, names bound by the render arguments; <=4 (thorough 5) steps over 1-2 names; Scope.tla!MustGlobals (reads answered by the "
                      "render arguments at non-exempt references) must be within analyze().globals, every name read within .variables, every rendered tag "
                      "within .tags, applied filters within .filters, for analyze() and analyze_async(); every root evaluated by the traced render must be a "
                      "reported variable")

    def job(tag, **kw):
        p = dict(Names='{"a"}', MaxOps=3, MaxDepth=3, GlobalSets="GlobalsArgs", NilVals="FALSE", Interrupts="TRUE", Leaves="TRUE", Extra="INVARIANT Emit")
        p.update(kw)
        return ("Scope", gen_cfg("cfg/Scope.tmpl", p, tag), dict(workers=1, timeout=3000))
    try:
        if tier == "quick":
            rs = run_many([job("a1", MaxOps=4, MaxDepth=2, Interrupts="FALSE"), job("a2", Names='{"a","b"}', MaxOps=3, MaxDepth=2, Interrupts="FALSE"),
                           job("a3", MaxOps=3),
                           # the shared partial reached (also through another shared partial) from inside AND after binding blocks: 5-6 steps
                           job("a4", MaxOps=6, MaxDepth=2, Interrupts="FALSE", OnlyOps="OpsLeafLoops")], parallel=4)
        else:
            rs = run_many([job("a1", MaxOps=4, MaxDepth=3, Interrupts="FALSE"), job("a2", Names='{"a","b"}', MaxOps=3, MaxDepth=3, Interrupts="FALSE"),
                           job("a3", MaxOps=3, GlobalSets="GlobalsQuick"),
                           job("a4", MaxOps=6, MaxDepth=2, Interrupts="FALSE", OnlyOps="OpsLeafLoops")], parallel=4)
    finally:
        cleanup_gen()
    cases = []
    for i, r in enumerate(rs):
        ck.tlc(f"Scope[{i}] (Leaves)", r)
        if r.violated:
            ck.fail(f"Scope.tla {r.violated} violated", {"tlc": r.out[-3000:]})
        cases += r.emitted
    cap = 12000 if tier == "quick" else 60000
    nleaf = lambda c: sum(1 for r in c["prog"] if r["op"] in ("incleaf", "renderleaf"))
    multi = [c for c in cases if nleaf(c) >= 2]           # the shared partial visited several times: always replayed, reads only in the leaf
    rest = [c for c in cases if nleaf(c) < 2]
    if len(rest) > cap:
        ck.cov["sampled_from"] = len(cases)
        rest = rnd.sample(rest, cap)
    ck.cov["programs_visiting_the_shared_partial_twice"] = len(multi)
    jobs = [(c, 6 + (i % 6)) for i, c in enumerate(multi)] + [(c, 6 + ((i + 1) % 6)) for i, c in enumerate(multi) if nleaf(c) >= 3] + \
           [(c, (i % 6) + (6 if nleaf(c) and i % 2 else 0)) for i, c in enumerate(rest)]
    # partials named like a variable and bound `with .. as alias` (two-name programs): reads only in that partial and in the leaf
    named = [c for c in cases if len(c["prog"][0]["reads"]) > 1 and any(r["op"] in ("render", "include") and r["n"] == "a" and r["v"] != "nil" for r in c["prog"])]
    jobs += [(c, 7 if i % 2 else 10) for i, c in enumerate(named)]
    cases = multi + rest + named
    for (case, variant), (src, templates, problems) in zip(jobs, par.pmap(replay_one, jobs, chunk=128)):
        ck.case(("an", str(case["glob"]), str([(r["op"], r["n"]) for r in case["prog"]]), variant), nontrivial=bool(case["mustGlobals"]))
        ck.validated()
        seen = set()
        for how, msg in problems:
            key = msg.split(":", 2)[0] + ":" + msg.split(":", 2)[1]
            if key in seen:
                continue
            seen.add(key)
            ops = "/".join(r["op"] for r in case["prog"] if r["op"] != "close")
            ck.fail(msg, {"source": src, "partials": templates, "mode": how, "mustGlobals": case["mustGlobalsLeaf"] if variant >= 6 else case["mustGlobals"], "variant": variant,
                          "program": [(r["op"], r["n"], sorted(r["ex"])) for r in case["prog"]]}, sig=f"{key}:{ops}")
    for c in [x for x in cases if x["mustGlobals"]][:2]:
        s, tm, d, kw, eg = c14.concretize(c, 0)
        ck.sample({"source": s, "partials": tm, "mustGlobals": c["mustGlobals"]})
    ck.assumptions += ["exemption is read conservatively: a reference is exempt if ANY enclosing construct (also across partial boundaries) binds the name or ANY earlier "
                       "step (also inside partials) assigns/captures/increments it; only the remaining reads must be reported as globals",
                       "reads after increment/decrement of the same name are exempt (DESIGN §6)"]
    return ck.finish()


def replay(path):
    import json
    fresh_repo_imports()
    print(json.dumps(json.load(open(path))["detail"], indent=1)[:3000])
    return 0
