"""C16 — strict undefined types only refine the default behaviour (spec/Undef.tla).

A: Undef.tla enumerates templates of <=2 uses (21 kinds) of a present / missing / missing-sub-path reference and emits, per
   undefined type, whether the render must succeed, must raise UndefinedError, or may do either; plus the default type's text.
B: templates+data of other families (C12 conditions, C13 loops, C14 scopes and paths) with every subset of <=2 data keys removed.
Every template is rendered under the four undefined types (sync+async) and the four outcomes are judged by the monitor of
Undef.tla (DefaultNeverRaises, RefinesDefault, StrictRaises, OnlyUndefinedErrors) in one batched TLC run."""
from __future__ import annotations

import itertools
import json
import os
import random
import re

from ..core import Check, fresh_repo_imports, seed
from ..tlcrun import run_tlc, scratch_dir, MachineryError
from .. import harness, par

PID = "C16"
TYPES = ["Undefined", "StrictUndefined", "FalsyStrictUndefined", "StrictDefaultUndefined"]
DATA = {"p": {"k": "v", "l": ["i"], "i": 0}}


PARTNER = {"p.q": "p.l[5]", "p.l[5]": "p.q", "m": "m.q", "m.q": "m", "p.k": "p.k"}


def ref_src(r, kind):
    if r == "p":
        return "p.l" if kind in ("iterate", "tablerow", "join") else "p.i" if kind == "index" else "p.k"
    return r


def use_src(u):
    k, R = u["k"], ref_src(u["r"], u["k"])
    return {
        "output": f"{{{{ {R} }}}}", "echo": f"{{% echo {R} %}}",
        "capture_out": f"{{% capture c %}}{{{{ {R} }}}}{{% endcapture %}}{{{{ c }}}}",
        "iterate": f"{{% for x in {R} %}}I{{% else %}}E{{% endfor %}}",
        "tablerow": f"{{% tablerow x in {R} %}}I{{% endtablerow %}}",
        "truthy": f"{{% if {R} %}}T{{% else %}}F{{% endif %}}", "unless": f"{{% unless {R} %}}T{{% else %}}F{{% endunless %}}",
        "eq1": f"{{% if {R} == 1 %}}T{{% else %}}F{{% endif %}}", "eqnil": f"{{% if {R} == nil %}}T{{% else %}}F{{% endif %}}",
        "eqfalse": f"{{% if {R} == false %}}T{{% else %}}F{{% endif %}}", "eqempty": f"{{% if {R} == empty %}}T{{% else %}}F{{% endif %}}",
        "contains": f'{{% if {R} contains "z" %}}T{{% else %}}F{{% endif %}}',
        "eqmissing": f"{{% if {R} == um2.x %}}T{{% else %}}F{{% endif %}}", "nemissing": f"{{% if {R} != um2 %}}T{{% else %}}F{{% endif %}}",
        "casemissing": f"{{% case {R} %}}{{% when um2 %}}W{{% else %}}E{{% endcase %}}",
        "upcase": f"{{{{ {R} | upcase }}}}", "size": f"{{{{ {R} | size }}}}", "default": f'{{{{ {R} | default: "D" }}}}',
        "join": f'{{{{ {R} | join: "," }}}}', "assign": f"{{% assign z = {R} %}}",
        "ternary": f'{{{{ "T" if {R} else "F" }}}}', "case": f"{{% case {R} %}}{{% when 1 %}}W{{% else %}}E{{% endcase %}}",
        "index": f"{{{{ p.l[{R}] }}}}", "arg": f'{{{{ "x" | append: {R} }}}}',
        # two cycle tags that differ only in WHICH sub-path is missing; the missing item is not the one printed
        "cyclearg": f"{{% cycle 'o', {R} %}}/{{% cycle 'o', {PARTNER.get(R, R)} %}}",
    }[k]


def render4(src, data, templates=None, flags=("ternary_expressions",)):
    """-> {type: {"sync": outcome, "async": outcome}}"""
    res = {}
    for t in TYPES:
        env = harness.make_env(undefined=t, templates=templates, flags=flags)
        res[t] = {how: harness.run(env, src, data, how) for how in ("sync", "async")}
    return res


def obs_of(res, how, claims_default, strict_must_raise):
    o = {"claims_default": claims_default, "strict_must_raise": strict_must_raise}
    for t in TYPES:
        r = res[t][how]
        o[t] = {"st": "ok" if "out" in r else r["err"], "out": r.get("out", "")}
    return o


def replay_A(case):
    prog = case["prog"]
    src = "|".join("<" + use_src(u) + ">" for u in prog)
    res = render4(src, DATA)
    out = []
    for how in ("sync", "async"):
        o = obs_of(res, how, True, case["must"]["StrictUndefined"] == "raise")
        # the default type's text, where the specification fixes it
        why = None
        d = res["Undefined"][how]
        if "out" in d:
            pieces = re.findall(r"<([^<>]*)>", re.sub(r"</?t[rd][^>]*>", "", d["out"]))
            for want, got, u in zip(case["dflt"], pieces, prog):
                if want != "?" and want != got.strip():
                    why = f"default undefined type: use {u['k']} of {u['r']} printed {got!r}, specification says {want!r}"
                    break
        for t in TYPES:
            if case["must"][t] == "ok" and o[t]["st"] != "ok":
                why = why or f"{t}: {o[t]['st']} although nothing the render uses is missing"
        out.append((how, o, why))
    return src, out


def removal_jobs(tier, rnd):
    """templates+data of other families, with subsets of <=2 data keys / sub-paths removed"""
    from . import c13, c14, c14_paths
    jobs = []
    # C14 paths: the fixed nested tree with sub-paths removed
    tree_cuts = [("d",), ("d", "x"), ("d", "x", "y"), ("d", "l"), ("kx",), ("q",), ("q", "r"), ("i1",), ("d", "s")]
    paths = ["d.x.y", 'd["x"]["z z"]', "d.l[1][0]", "d.l[2].x", "d.x.l.first", "d.l.size", "d[kx].y", "d[q.r][0]", "d.l[i1][1]", "d.s.size", "d.l[-1].x"]
    for p in paths:
        for cut in [()] + [(c,) for c in tree_cuts] + list(itertools.combinations(tree_cuts, 2)):
            data = json.loads(json.dumps(c14_paths.DATA))
            for c in cut:
                cur = data
                try:
                    for s in c[:-1]:
                        cur = cur[s]
                    cur.pop(c[-1], None)
                except (KeyError, TypeError, AttributeError):
                    pass
            for tmpl in (f"<{{{{ {p} }}}}>", f"{{% if {p} %}}T{{% else %}}F{{% endif %}}", f"{{% for x in {p} %}}[{{{{ x }}}}]{{% else %}}E{{% endfor %}}",
                         f"{{{{ {p} | default: 'D' }}}}", f"{{% assign z = {p} %}}{{{{ z | upcase }}}}"):
                jobs.append((tmpl, data, None))
    return jobs


def replay_B(job):
    src, data, templates = job
    res = render4(src, data, templates)
    return [(how, obs_of(res, how, False, False)) for how in ("sync", "async")]


def judge(observations):
    d = scratch_dir("undef")
    path = os.path.join(d, "obs.json")
    try:
        with open(path, "w") as f:
            json.dump(observations, f)
        r = run_tlc("UndefMonitor", "cfg/Undef_monitor.cfg", workers=1, timeout=1800, env={"TRACE_FILE": path})
        acc = {int(m.group(1)) - 1 for m in re.finditer(r'^<<"ACCEPT", (\d+)>>', r.out, re.M)}
        rej = {int(m.group(1)) - 1: m.group(2) for m in re.finditer(r'^<<"REJECT", (\d+), "(\w+)">>', r.out, re.M)}
        if len(acc) + len(rej) != len(observations):
            raise MachineryError(f"Undef.tla monitor judged {len(acc) + len(rej)} of {len(observations)} observations:\n" + r.out[-2000:])
        return rej, r
    finally:
        import shutil
        shutil.rmtree(d, ignore_errors=True)


def run(tier: str) -> int:
    fresh_repo_imports()
    ck = Check(PID, tier)
    rnd = random.Random(seed())
    ck.cov["rule"] = ("A: Undef.tla — every template of <=2 uses (output, echo, captured output, for, tablerow, if, unless, == 1/nil/false/empty, contains, "
                      "upcase, size, default, join, assign, ternary, case, index, filter argument) of a present / missing / missing sub-path / "
                      "below-missing / out-of-range reference; B: path templates over the nested tree of C14 with every subset of <=2 sub-paths removed "
                      "from the data; each rendered under the four undefined types sync+async; the four outcomes judged by the monitor in Undef.tla")
    r = run_tlc("Undef", f"cfg/Undef_{tier}.cfg", workers=1, timeout=1800)
    ck.tlc("Undef_" + tier, r)
    if r.violated:
        ck.fail(f"Undef.tla {r.violated} violated", {"tlc": r.out[-3000:]})
        return ck.finish()
    cases = r.emitted
    observations, meta = [], []
    for case, (src, out) in zip(cases, par.pmap(replay_A, cases, chunk=64)):
        ck.case(("A", src), nontrivial=any(u["r"] != "p" or u["k"].endswith("missing") for u in case["prog"]))
        ck.validated()
        for how, o, why in out:
            observations.append(o)
            meta.append(("A", src, DATA, how, case["prog"]))
            if why:
                ck.fail(why, {"source": src, "data": DATA, "mode": how, "observed": o, "expected": case},
                        sig="A:" + "+".join(f"{u['k']}({u['r']})" for u in case["prog"]) + ":text")
    jobs = removal_jobs(tier, rnd)
    for job, out in zip(jobs, par.pmap(replay_B, jobs, chunk=64)):
        ck.case(("B", job[0], json.dumps(job[1], sort_keys=True)))
        ck.validated()
        for how, o in out:
            observations.append(o)
            meta.append(("B", job[0], job[1], how, None))
    rej, rm = judge(observations)
    ck.tlc("Undef monitor (RefinesDefault/StrictRaises/DefaultNeverRaises)", rm)
    for i, clause in sorted(rej.items()):
        fam, src, data, how, prog = meta[i]
        sig = f"{fam}:{clause}:" + ("+".join(f"{u['k']}({u['r']})" for u in prog) if prog else src[:60])
        ck.fail(f"Undef.tla!{clause} rejects the four outcomes", {"source": src, "data": data, "mode": how, "observed": observations[i]}, sig=sig)
    if cases:
        c = cases[len(cases) // 2]
        ck.sample({"source": "|".join("<" + use_src(u) + ">" for u in c["prog"]), "must": c["must"], "default_text": c["dflt"]})
    ck.assumptions += ["where FalsyStrictUndefined / StrictDefaultUndefined raise is not fixed by the statement: only 'if they succeed the output equals the default type's'",
                       "truthiness, ternary conditions, assignment without use, use as an index or filter argument are not among the uses StrictUndefined must reject",
                       "the default type's text is compared only where documented (prints nothing, iterates nothing, falsy, == nil, size 0, default)"]
    return ck.finish()


def replay(path):
    fresh_repo_imports()
    d = json.load(open(path))["detail"]
    res = render4(d["source"], d["data"])
    print(json.dumps(res, indent=1)[:3000])
    return 0
