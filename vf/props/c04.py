"""C04 — serialising a template back to source preserves its meaning (spec/RoundTrip.tla, spec/ExprRT.tla).

TLC enumerates the program family (source pieces, variables, every valuation) and checks the clauses of the
property on its own transcription of the parser and printer; this module joins the pieces into source, runs the
real  parse ; str ; parse ; str  and renders both templates for every valuation, and hands the raw observations back
to the observer machine of RoundTrip.tla (Mode "judge"), which names the clause that fails."""
from __future__ import annotations

import copy
import hashlib
import json
import os
import re
import shutil

from ..core import Check, fresh_repo_imports, seed
from ..tlcrun import MachineryError, cleanup_gen, gen_cfg, run_many, scratch_dir
from .. import harness, par

PID = "C04"
FLAGS = ("logical_not_operator", "logical_parentheses", "ternary_expressions")
UNDEF = "@undef"
_REJ = re.compile(r'^<<"REJECT", (\d+), "(\w+)">>', re.M)
_ACC = re.compile(r'^<<"ACCEPT", (\d+)>>', re.M)
CLAUSE = {"ReparseFails": "str(template) does not parse (or str() raised)",
          "MeaningChanged": "the re-parsed template renders differently from the original",
          "NotIdempotent": "serialising the re-parsed template yields a different text",
          "SpecParserDisagreesWithEngine": "calibration: the original template does not render what ExprRT's parser + EvalT predict"}


def _digest(text: str) -> str:
    return "#" + hashlib.md5(text.encode("utf-8", "surrogatepass")).hexdigest()[:12]


def _short(text: str) -> str:
    """Outputs are compared by TLC: short plain ones verbatim (so the spec's expected text can be compared), others by digest."""
    if len(text) <= 16 and text.isascii() and text.isprintable() and '"' not in text and "\\" not in text and not text.startswith("#"):
        return text
    return _digest(text)


def _outcome(o: dict) -> dict:
    if "out" in o:
        return {"k": "ok", "v": _short(o["out"])}
    return {"k": "err" if o.get("liquid") else "py", "v": o["err"]}


def source_of(p: dict) -> str:
    return "".join(p["s"])


def valuations(p: dict) -> list:
    dom = p["dom"] if isinstance(p["dom"], dict) else {}
    out = []
    for val in p["vals"]:
        val = val if isinstance(val, dict) else {}
        out.append({k: dom[k][i - 1] for k, i in val.items() if dom[k][i - 1] != UNDEF})
    return out


_ENVS: dict = {}


def _env(partials: dict):
    key = json.dumps(partials, sort_keys=True)
    if key not in _ENVS:
        _ENVS[key] = harness.make_env(extra=False, flags=FLAGS, templates=partials)
    return _ENVS[key]


def observe(p: dict) -> dict:
    """Everything a caller can see of the round trip of one program. No judgement here."""
    src = source_of(p)
    env = _env(p["partials"])
    t, err = harness.parse(env, src)
    if err:
        return {"src": src, "srcerr": err}
    try:
        s1 = str(t)
    except Exception as e:  # str() itself failing is "no parsable text"
        return {"src": src, "s1": "", "s2": "", "parse": "str:" + type(e).__name__, "orig": [], "again": [], "raw": []}
    t2, err2 = harness.parse(env, s1)
    s2 = ""
    if not err2:
        try:
            s2 = str(t2)
        except Exception as e:
            s2 = "!str raised " + type(e).__name__
    orig, again, raw = [], [], []
    for data in valuations(p):
        a = harness.render(t, copy.deepcopy(data), "sync")
        orig.append(_outcome(a))
        if err2:
            raw.append((a.get("out", a.get("err")), None))
            continue
        b = harness.render(t2, copy.deepcopy(data), "sync")
        again.append(_outcome(b))
        raw.append((a.get("out", a.get("err")), b.get("out", b.get("err"))))
    return {"src": src, "s1": s1, "s2": s2, "parse": "err:" + err2["err"] if err2 else "ok", "orig": orig, "again": again, "raw": raw}


def judge(records: list, chunk: int = 12000) -> tuple[dict, list]:
    """RoundTrip.tla (Mode = "judge") on every observation: {index: failing clause}, tlc results."""
    if not records:
        raise MachineryError("no observations to judge (vacuous)")
    d = scratch_dir("rtobs")
    try:
        jobs, spans = [], []
        for n, lo in enumerate(range(0, len(records), chunk)):
            path = os.path.join(d, f"obs{n}.json")
            with open(path, "w") as f:
                json.dump(records[lo:lo + chunk], f)
            jobs.append(("RoundTrip", "cfg/RoundTrip_judge.cfg", dict(workers=1, timeout=1500, env={"TRACE_FILE": path})))
            spans.append((lo, min(len(records), lo + chunk)))
        results = run_many(jobs, parallel=4)
        verdicts = {}
        for (lo, hi), r in zip(spans, results):
            if r.violated:
                raise MachineryError("RoundTrip.tla (judge) violated " + r.violated + "\n" + r.out[-2000:])
            rej = {int(m.group(1)) - 1 + lo: m.group(2) for m in _REJ.finditer(r.out)}
            acc = {int(m.group(1)) - 1 + lo for m in _ACC.finditer(r.out)}
            if len(rej) + len(acc) != hi - lo or set(rej) & acc:
                raise MachineryError(f"RoundTrip.tla judged {len(rej) + len(acc)} of {hi - lo} observations:\n" + r.out[-2000:])
            verdicts.update(rej)
        return verdicts, results
    finally:
        shutil.rmtree(d, ignore_errors=True)


def _record(i: int, p: dict, o: dict) -> dict:
    return {"id": i + 1, "parse": o["parse"], "s1": _digest(o["s1"]), "s2": _digest(o["s2"]),
            "orig": o["orig"], "again": o["again"], "expect": list(p.get("expect") or [])}


TAGS = ["if", "case", "for", "tablerow", "output", "cycle", "counter", "ifchanged", "partial", "liquid", "silent"]
EXPRS = ["string", "path", "number", "range", "keyword"]


def _tla_set(xs) -> str:
    return "{" + ", ".join(json.dumps(x) if isinstance(x, str) else str(x) for x in xs) + "}"


def gen_runs(tier: str) -> list:
    """The family is enumerated by several TLC runs side by side (one template, different constants)."""
    q = tier == "quick"
    allroots = ["atom", "not", "and", "or", "==", "!=", "<", "contains"]
    base = dict(LogicDepth=3, CarrierDepth=2, Rotations="{0}", CmpDepth=2 if q else 3, Wide="FALSE" if q else "TRUE",
                Roots=_tla_set(allroots))
    if q:
        groups = [("compare", dict(Families=_tla_set(["compare"] + EXPRS + TAGS + ["nest"])))]
    else:
        groups = [("compare", dict(Families=_tla_set(["compare"]))), ("tags", dict(Families=_tla_set(TAGS)))]
    for rot in ([0] if q else [0, 1, 2]):       # the big family is cut by root operator so the runs share the work
        for n, roots in enumerate((["atom", "not", "and"], ["or"]) if q else (["atom", "not"], ["and"], ["or"])):
            groups.append((f"logic{rot}{n}", dict(Families=_tla_set(["logic"]), Rotations="{%d}" % rot, Roots=_tla_set(roots))))
    if not q:
        groups += [("exprs", dict(Families=_tla_set(EXPRS))), ("nest", dict(Families=_tla_set(["nest"])))]
        groups += [("compare-" + r[0], dict(Families=_tla_set(["compare"]), Roots=_tla_set(r))) for r in (["and"], ["or"], ["=="])]
        groups[0] = ("compare", dict(Families=_tla_set(["compare"]), Roots=_tla_set(["atom", "not", "!=", "<", "contains"])))
    runs = []
    for tag, over in groups:
        runs.append(("RoundTrip", gen_cfg("cfg/RoundTrip.tmpl", dict(base, **over), tag),
                     dict(workers=4 if q and tag == "compare" else 2, timeout=3000, java_opts=["-XX:ParallelGCThreads=2"])))
    if not q:
        runs.append(("RoundTrip", "cfg/RoundTrip_min.cfg", dict(workers=2, timeout=3000)))
        for depth, num in ((4, 2500), (5, 1500)):
            runs.append(("RoundTrip", f"cfg/RoundTrip_grow{depth}.cfg",
                         dict(workers=1, timeout=3000, simulate=f"num={num}", depth=80, seed=seed() + depth)))
    # the pinned tree's printer (named deviation PrinterUsesOwnPrecedence) must break the requirement in the specification
    runs.append(("RoundTrip", "cfg/RoundTrip_deviation.cfg", dict(workers=1, timeout=600, expect_violation=True)))
    return runs


def generate(ck: Check, tier: str) -> list:
    try:
        runs = gen_runs(tier)
        results = run_many(runs, parallel=8)
    finally:
        cleanup_gen()
    progs, seen = [], set()
    for (mod, cfg, kw), r in zip(runs, results):
        name = cfg.split("/")[-1].replace(f".gen_{os.getpid()}_", "RoundTrip:")
        ck.tlc(name, r)
        if "_deviation" in cfg:
            if r.violated != "ShowParseInverse":
                raise MachineryError("deviation PrinterUsesOwnPrecedence no longer refutes ShowParseInverse: " + (r.violated or "no violation"))
            continue
        if r.violated:
            ck.fail(f"RoundTrip.tla {r.violated} violated ({name})", {"tlc": r.out[-3000:]}, sig="spec:" + r.violated)
            continue
        if "_min" in cfg:
            continue        # a second parser-respecting printer satisfies the clauses; nothing to replay
        if not r.emitted:
            raise MachineryError(f"{name} emitted no program")
        if "_grow" in cfg and not any(p["fam"] == "grown" for p in r.emitted):
            raise MachineryError(f"{name} grew no tree")
        for p in r.emitted:
            key = source_of(p)
            if key not in seen:
                seen.add(key)
                progs.append(p)
    progs.sort(key=lambda p: (p["fam"], source_of(p)))      # TLC workers emit in any order
    # vacuity guard: a program is emitted only in phase "done", i.e. after DoParse;DoPrint;DoReparse;DoReprint (trees) or Opaque (tags)
    kinds = {"tree" if p["expect"] or p["fam"] in ("logic", "compare", "grown") else "tag" for p in progs}
    if kinds != {"tree", "tag"}:
        raise MachineryError("the specification emitted only " + ", ".join(sorted(kinds)) + " programs")
    return progs


def run(tier: str) -> int:
    fresh_repo_imports()
    ck = Check(PID, tier)
    ck.cov["rule"] = ("RoundTrip.tla: and/or/not trees of depth<=3 over atoms a,b,c (depth<=2 in 6 carriers, depth 3 in `if`; quick: one leaf labelling; thorough: 3 labellings, "
                      "==-nesting trees of depth 3, random depth 4-5 trees by simulation), trees nesting == != < contains, and for every standard tag the product "
                      "of its argument shapes (if/unless chains, case block orders, for/tablerow targets x limit x offset x reversed x else x cols, filtered and "
                      "ternary expressions in output/echo/assign, cycle groups, counters, ifchanged, include/render binds x keyword arguments, liquid, comments, "
                      "raw, whitespace control, nesting), every string literal / path / number / range / keyword literal in every expression position; "
                      "each program is parsed, serialised, re-parsed, re-serialised and both templates rendered for EVERY valuation emitted by the spec; "
                      "the observer machine of RoundTrip.tla judges each observation")
    import time
    t0 = time.time()
    progs = generate(ck, tier)
    ck.cov["phase_s"] = {"tlc_generate": round(time.time() - t0, 1)}
    if ck.violations:
        return ck.finish()
    if not progs:
        raise MachineryError("RoundTrip.tla emitted no programs")
    t0 = time.time()
    obs = par.pmap(observe, progs, chunk=64)
    ck.cov["phase_s"]["replay"] = round(time.time() - t0, 1)
    broken = [(p, o) for p, o in zip(progs, obs) if "srcerr" in o]
    if broken:
        raise MachineryError("%d family members do not parse as ORIGINAL source (family/engine mismatch, not a C04 matter), e.g. %r -> %s"
                             % (len(broken), broken[0][1]["src"], broken[0][1]["srcerr"]))
    records = [_record(i, p, o) for i, (p, o) in enumerate(zip(progs, obs))]
    t0 = time.time()
    verdicts, results = judge(records)
    ck.cov["phase_s"]["tlc_judge"] = round(time.time() - t0, 1)
    for n, r in enumerate(results):
        ck.tlc(f"RoundTrip judge #{n}", r)
    fams, calib = {}, []
    for i, (p, o) in enumerate(zip(progs, obs)):
        outs = {json.dumps(x, sort_keys=True) for x in o["orig"]}
        nontrivial = len(outs) > 1 or (len(o["orig"]) == 1 and o["orig"][0] != {"k": "ok", "v": ""})
        ck.case(o["src"], nontrivial=nontrivial)
        ck.validated(2 * len(o["orig"]) + 2)
        f = fams.setdefault(p["fam"], [0, 0, 0])
        f[0] += 1
        f[1] += nontrivial
        f[2] += len(o["orig"])
        clause = verdicts.get(i)
        if clause is None:
            continue
        vals = valuations(p)
        diff = next(({"data": vals[j], "original": o["raw"][j][0], "reparsed": o["raw"][j][1]}
                     for j in range(len(o["again"])) if o["orig"][j] != o["again"][j]), None)
        detail = {"source": o["src"], "str(template)": o["s1"], "str(parse(str(template)))": o["s2"], "reparse": o["parse"], "labels": p["t"],
                  "first_difference": diff, "environment": {"extra": False, "flags": FLAGS, "partials": p["partials"]},
                  "expected_outputs_of_original": p.get("expect") or None, "program": {k: p[k] for k in ("fam", "cls", "s", "dom", "vals")}}
        if clause == "SpecParserDisagreesWithEngine":
            calib.append(detail)        # the round trip itself held; the engine's PARSER differs from ExprRT's (C12's subject)
            continue
        # the finding signature names the construct, not only the family: a raw block in the source is its own class
        cls = p["cls"] + ("+raw-block" if "raw %}" in o["src"] else "")
        ck.fail(f"RoundTrip.tla!{clause}: {CLAUSE[clause]}", detail, sig=f"{cls}:{clause}")
    ck.cov["families"] = {k: {"programs": v[0], "nontrivial": v[1], "valuations": v[2]} for k, v in sorted(fams.items())}
    empty = [k for k, v in fams.items() if v[1] == 0]
    if empty:
        raise MachineryError("families without a single non-trivial program (vacuous): " + ", ".join(empty))
    ck.cov["calibration_mismatches"] = len(calib)
    if calib:
        print(f"# NOTE C04: {len(calib)} original template(s) do not render what ExprRT.tla's parser predicts "
              f"(not a round-trip failure; the engine's parser changed), e.g. {calib[0]['source']!r}")
        ck.cov["calibration_example"] = calib[0]
    for p, o in list(zip(progs, obs))[:: max(1, len(progs) // 6)][:6]:
        ck.sample({"fam": p["fam"], "source": o["src"], "str": o["s1"], "valuations": len(o["orig"]), "outputs": [x[0] for x in o["raw"]][:4]})
    ck.assumptions += [
        "environment: standard tags only (extra=False) with logical_not_operator, logical_parentheses, ternary_expressions; default delimiters; strict mode; sync rendering",
        "`renders identically` = same output text or same exception class for every valuation the specification emits for the program's variables",
        "string literals cannot contain their own quote character (the expression tokenizer has no escapes), so no literal holds both quote characters",
        "text that ends in `{` directly before markup, and templates that do not parse in the first place, are outside the family",
        "the binding strength of `not` and of and/or is transcribed from the parser (ExprRT.tla) and only calibrated (NOTE line), never required",
    ]
    return ck.finish()


def replay(path):
    fresh_repo_imports()
    d = json.load(open(path))["detail"]
    p = dict(d["program"], partials=d["environment"]["partials"], t=d["labels"], expect=d.get("expected_outputs_of_original") or [])
    o = observe(p)
    rec = _record(0, p, o)
    verdicts, _ = judge([rec])
    print("source            :", repr(o["src"]))
    print("str(template)     :", repr(o.get("s1")))
    print("str(parse(str(t))):", repr(o.get("s2")))
    for data, (a, b) in zip(valuations(p), o.get("raw", [])):
        if a != b and b is not None:
            print("data", data, "original ->", repr(a), " re-parsed ->", repr(b))
    print("RoundTrip.tla verdict:", verdicts.get(0, "holds"))
    return 1 if verdicts.get(0) in ("ReparseFails", "MeaningChanged", "NotIdempotent") else 0
