"""C13, nesting: spec/LoopsNested.tla — for loops nested two (thorough: three) deep; the innermost body prints the helpers of EVERY level
through the forloop.parentloop chain."""
from __future__ import annotations

import re

from ..tlcrun import run_tlc
from .. import harness, par

NONE = -99


def concretize(case, variant):
    prog = case["prog"]
    d = len(prog)
    data = {}

    def args(lv, i):
        a = lv["a"]
        s = ""
        for nm in ("limit", "offset"):
            v = a[nm]
            if v != NONE:
                if (variant + i) % 2:
                    data[f"{nm}{i}"] = v
                    s += f" {nm}: {nm}{i}"
                else:
                    s += f" {nm}: {v}"
        return s + (" reversed" if a["rev"] else "")

    def helpers(k):
        chain = "forloop" + ".parentloop" * (d - k)
        return f"{{{{ x{k} }}}},{{{{ {chain}.index }}}},{{{{ {chain}.length }}}},{{{{ {chain}.first }}}},{{{{ {chain}.last }}}},{{{{ {chain}.rindex0 }}}}"

    inner_stop = prog[d - 1]["a"]["stop"]
    body = ""
    if inner_stop != "none":
        body += f"{{% if x{d} == 2 %}}{{% {inner_stop} %}}{{% endif %}}"
    body += "<" + "|".join(helpers(k) for k in range(1, d + 1)) + ">"
    src = body
    for i in range(d, 0, -1):
        lv = prog[i - 1]
        data[f"c{i}"] = list(range(1, lv["len"] + 1)) if (variant + i) % 3 else tuple(range(1, lv["len"] + 1))
        src = f"{{% for x{i} in c{i}{args(lv, i)} %}}{src}{{% else %}}(E{i}){{% endfor %}}"
    return src, data


def expected(case):
    out = []
    for e in case["out"]:
        if e["empty"]:
            out.append(f"(E{e['lvl']})")
        else:
            b = lambda x: "true" if x else "false"
            out.append("<" + "|".join(f"{h['item']},{h['index']},{h['length']},{b(h['first'])},{b(h['last'])},{h['length'] - h['index']}" for h in e["h"]) + ">")
    return "".join(out)


def replay_one(job):
    case, variant = job
    src, data = concretize(case, variant)
    env = harness.make_env()
    exp = expected(case)
    res = []
    for how in ("sync", "async"):
        o = harness.run(env, src, data, how)
        got = o.get("out", "!" + o.get("err", ""))
        res.append((how, None if got == exp else got))
    return src, data, exp, res


def run_nested(ck, tier, rnd):
    r = run_tlc("LoopsNested", f"cfg/LoopsNested_{tier}.cfg", workers=1, timeout=3000)
    ck.tlc("LoopsNested_" + tier, r)
    if r.violated:
        ck.fail(f"LoopsNested.tla {r.violated} violated", {"tlc": r.out[-3000:]})
        return
    cases = r.emitted
    cap = 8000 if tier == "quick" else 60000
    if len(cases) > cap:
        cases = rnd.sample(cases, cap)
    jobs = [(c, i % 6) for i, c in enumerate(cases)]
    for (case, variant), (src, data, exp, res) in zip(jobs, par.pmap(replay_one, jobs, chunk=128)):
        ck.case(("nested", src, variant), nontrivial=any(lv["len"] > 0 for lv in case["prog"]))
        ck.validated()
        for how, got in res:
            if got is not None:
                a = case["prog"][-1]["a"]
                ck.fail("nested loops: visited items / parentloop helpers differ from LoopsNested.tla",
                        {"source": src, "data": {k: list(v) if isinstance(v, tuple) else v for k, v in data.items()}, "mode": how, "expected": exp, "observed": got},
                        sig=f"nested:d={len(case['prog'])}:stop={a['stop']}:rev={a['rev']}")
                break
    if cases:
        c = cases[len(cases) // 2]
        ck.sample({"source": concretize(c, 0)[0], "expected": expected(c)})
