"""C17 — rendering is pure and independent of history (spec/Process.tla).

Process.tla      every piece of library state that outlives a render (date memo with LRU order and capacity, lexer / parser /
                 implicit-environment memos, the node lists of the BoundTemplates that are alive, the caller's data objects) and
                 the per-render RenderContext; the job pool (template x data x environment), the histories, F(job) = Pure and
                 the invariants HistoryIndependent / DataUnchanged / TemplateUnchanged / ContextFresh / MemoSound
this file        turns abstract jobs into Liquid source, data objects and Environments; replays every history TLC emitted in ONE
                 process (a child forked from a process that has imported the library and rendered nothing); obtains, from a
                 separately started interpreter, the outcome of every job rendered alone; compares; digests data and node trees
Nothing about what a render should print is decided here: concrete tokens of F(job) are turned into text, opaque ones only have
to be a function of the token.
"""
from __future__ import annotations

import hashlib
import json
import os
import random
import subprocess
import sys

from ..core import Check, ROOT, fresh_repo_imports, seed
from ..tlcrun import MachineryError, SPEC, TLCResult, run_tlc
from .. import par

PID = "C17"
SEP = "¦"          # between the outputs of two operations
MODULE = "Process"

# ---------------------------------------------------------------------------------------------------------------------------
# concretisation: value ids, data objects, operations, environments
# ---------------------------------------------------------------------------------------------------------------------------


def value(vid):
    import datetime as D
    import decimal
    from dateutil import tz
    from liquid import Markup
    if vid == "tU":
        return D.datetime(2020, 1, 1, 12, tzinfo=D.timezone.utc)
    if vid == "tP":
        return D.datetime(2020, 1, 1, 13, tzinfo=D.timezone(D.timedelta(hours=1)))
    if vid == "tD":
        return D.datetime(2020, 1, 1, 12, tzinfo=tz.tzutc())
    if vid == "i1":
        return 1
    if vid == "b1":
        return True
    if vid == "f1":
        return 1.0
    if vid == "d1":
        return decimal.Decimal(1)
    if vid == "fS":
        return "<b>%H %z"
    if vid == "fM":
        return Markup("<b>%H %z")
    if vid == "gF":
        return "%Y/%j"
    if vid[0] == "k":
        return 100000000 * (int(vid[1:]) + 2)
    raise MachineryError("no concrete value for " + vid)


def make_data(rec, fillers):
    """One caller-side data object. `a` and `h.l` are the same list."""
    lst = list(rec["a"])
    return {"x": value(rec["x"]), "f": value(rec["f"]), "a": lst, "c": 7,
            "h": {"l": lst, "m": {"z": [1, [2, 3], [4, [5]]]}},
            "rows": [{"k": 2, "s": "b", "l": [2, 1]}, {"k": 1, "s": "a", "l": [1]}, {"k": 2, "s": "B"}],
            "t": (3, 1, 2), "n": [1, None, 2, None],
            "ks": [value(k) for k in fillers], "g": value("gF")}


LOOP = "{%% for i in %s %s %%}{{ i }}{%% unless forloop.last %%},{%% endunless %%}{%% endfor %%}"
PURE = {
    "rows": "{{ rows | map: 'k' | join: ',' }}/{{ rows | where: 'k', 2 | map: 's' | join: ',' }}/{{ rows | sort: 'k' | map: 's' | join: ',' }}"
            "/{{ rows | sum: 'k' }}/{{ rows | map: 'l' | compact | join: ',' }}/{{ rows | sort_natural: 's' | map: 's' | join }}",
    "tuple": "{{ t | sort | join: ',' }}/{{ t | reverse | first }}/{{ n | compact | join: ',' }}/{{ a | sort_natural | last }}/{{ a | slice: 1, 2 | join: ',' }}"
             "/{{ t | concat: a | join: ',' }}/{{ n | default: 'z' | size }}",
    "nested": "{{ h.m.z | reverse | join: ',' }}/{{ h.l | sort | first }}/{% for p in h %}{{ p[0] }}{% endfor %}/{{ h.l | uniq | size }}/{{ h.m | json }}"
              "/{{ h.m.z | sort | join: ',' }}/{{ h.m.z | concat: h.l | size }}",
    "inherit": "{% extends 'base' %}{% block b %}C{{ block.super }}{{ a | join: ',' }}{% endblock %}{% block d %}{{ block.super }}D{% endblock %}",
    "with": "{% with z: a, y: h %}{{ z | sort | join: ',' }}{{ y.l | reverse | join: ',' }}{% endwith %}[{{ z }}]",
    "tablerow": "{% tablerow i in a cols: 2 limit: 3 %}{{ i }}{% endtablerow %}",
    "case": "{% case c %}{% when 7 %}s{% else %}o{% endcase %}{% unless c == 7 %}u{% endunless %}{% liquid\nassign zz = a | sort\necho zz | join: ','\n%}",
}
PARTIAL_SOURCES = {"base": "<{% block b %}B{% endblock %}|{% block d %}E{{ c }}{% endblock %}>"}
SWEEP_ARGS = {"concat": ": a", "default": ": 'z'", "find": ": 'k', 1", "find_index": ": 'k', 1", "has": ": 'k', 2", "index": ": 1", "join": ": '-'",
              "map": ": 'k'", "reject": ": 'k', 2", "slice": ": 1, 2", "where": ": 'k', 2", "sort": "", "sum": ""}


def op_source(o):
    op, n, k = o["op"], o["n"], o["k"]
    if op == "date":
        return "{{ %s | date: %s }}" % (n, k)
    if op == "fill":
        return "{% for k in ks %}{{ k | date: g }}{% unless forloop.last %}" + SEP + "{% endunless %}{% endfor %}"
    if op == "out":
        return "{{ a | join: ',' }}" if n == "a" else "{{ %s }}" % n
    if op == "incr":
        return "{%% increment %s %%}" % n
    if op == "decr":
        return "{%% decrement %s %%}" % n
    if op == "assign":
        return "{%% assign %s = %s %%}" % (n, k)
    if op == "capture":
        return "{%% capture %s %%}%s{%% endcapture %%}" % (n, k)
    if op == "cycle":
        return "{%% cycle '%s': 'p', 'q', 'r' %%}" % n
    if op == "ifch":
        return "{%% ifchanged %%}{{ %s }}{%% endifchanged %%}" % n
    if op == "forlim":
        return LOOP % (n, "limit: 1")
    if op == "forcont":
        return LOOP % (n, "offset: continue")
    if op == "arr":
        return "{{ %s | %s | join: ',' }}" % (n, "concat: " + n if k == "concat" else k)
    if op == "def":
        return "{%% macro %s %%}M{%% endmacro %%}" % n
    if op == "call":
        return "{%% call %s %%}" % n
    if op == "inc":
        return "{%% include '%s' %%}" % n
    if op == "ren":
        return "{%% render '%s' %%}" % n
    if op == "pure":
        if ":" in n:                                 # the sweep family "<filter>:<path>"
            f, p = n.split(":")
            return "{{ %s | %s%s | json }}" % (p, f, SWEEP_ARGS.get(f, ""))
        return PURE[n]
    raise MachineryError("no concrete operation for " + repr(o))


def source_of(ops):
    return SEP.join(op_source(o) for o in ops)


def token_text(tok):
    """Text of a token whose text the specification fixes; None for the opaque ones."""
    t = tok[0]
    if t == "":
        return ""
    if t in ("n", "c"):
        return tok[1]
    if t == "A":
        return ",".join(tok[1:])
    if t == "m":
        return "M"
    return None


class World:
    """Everything the caller of the library holds during one history."""

    def __init__(self, pool):
        self.pool = pool
        self.envs = {}
        self.templates = {}       # (env id, template id) -> BoundTemplate
        self.data = {}            # data id -> object
        self.partials = {p: source_of(ops) for p, ops in pool["partials"].items()}
        self.partials.update(PARTIAL_SOURCES)

    def env(self, eid):
        import liquid
        rec = self.pool["env"][eid]
        if rec["implicit"]:
            return None
        if eid not in self.envs:
            loader = (liquid.CachingDictLoader if rec["caching"] else liquid.DictLoader)(dict(self.partials))
            self.envs[eid] = liquid.Environment(extra=True, autoescape=rec["auto"], loader=loader)
        return self.envs[eid]

    def template(self, job):
        import liquid
        rec = self.pool["env"][job["e"]]
        key = (job["e"], job["t"])
        if rec["keep"] and key in self.templates:
            return self.templates[key]
        src = source_of(job["ops"])
        if rec["implicit"]:
            t = liquid.Template(src, extra=True, autoescape=rec["auto"])
        else:
            t = self.env(job["e"]).from_string(src, name=job["t"])
        if rec["keep"]:
            self.templates[key] = t
        return t

    def data_of(self, did):
        if did not in self.data:
            self.data[did] = make_data(self.pool["data"][did], self.pool["fillers"])
        return self.data[did]

    def cached_partials(self):
        out = []
        for eid, e in sorted(self.envs.items()):
            cache = getattr(e.loader, "cache", None)
            if cache is not None:
                for k in sorted(cache.keys()):
                    out.append((eid + ":" + str(k), cache[k]))
        return out


# ---------------------------------------------------------------------------------------------------------------------------
# digests: type-aware and structural (1 / True / 1.0, list / tuple, str / Markup, time zone are all told apart)
# ---------------------------------------------------------------------------------------------------------------------------


def digest(obj, _seen=None, _depth=0):
    import datetime as D
    seen = _seen if _seen is not None else {}
    t = type(obj)
    name = t.__module__ + "." + t.__qualname__
    if obj is None or t in (bool, int, float, complex, bytes) or name == "decimal.Decimal":
        return [name, repr(obj)]
    if isinstance(obj, str):
        return [name, obj if len(obj) < 200 else hashlib.sha1(obj.encode()).hexdigest()]
    if isinstance(obj, (D.datetime, D.time)):
        return [name, obj.replace(tzinfo=None).isoformat(), repr(obj.utcoffset()), repr(obj.tzname()), type(obj.tzinfo).__qualname__, getattr(obj, "fold", 0)]
    if isinstance(obj, (D.date, D.timedelta)):
        return [name, repr(obj)]
    if _depth > 60:
        return [name, "..."]
    if id(obj) in seen:
        return ["ref", seen[id(obj)]]              # sharing is part of the structure
    if isinstance(obj, (list, tuple)):
        seen[id(obj)] = len(seen)
        return [name, [digest(x, seen, _depth + 1) for x in obj]]
    if isinstance(obj, dict):
        seen[id(obj)] = len(seen)
        return [name, [[digest(k, seen, _depth + 1), digest(v, seen, _depth + 1)] for k, v in obj.items()]]
    if isinstance(obj, (set, frozenset)):
        seen[id(obj)] = len(seen)
        return [name, sorted(json.dumps(digest(x, seen, _depth + 1), sort_keys=True) for x in obj)]
    if isinstance(obj, range):
        return [name, repr(obj)]
    if name.startswith("liquid.") and (name.endswith("Environment") or isinstance(obj, _env_types())):
        return ["env", name]
    if name in ("re.Pattern",):
        return [name, obj.pattern, obj.flags]
    if callable(obj) and not hasattr(obj, "__slots__") and hasattr(obj, "__qualname__"):
        return ["callable", getattr(obj, "__module__", ""), obj.__qualname__]
    # any other object: its class and every attribute it has (slots and __dict__)
    seen[id(obj)] = len(seen)
    attrs = {}
    for klass in t.__mro__:
        for s in getattr(klass, "__slots__", ()) or ():
            if isinstance(s, str) and hasattr(obj, s):
                attrs[s] = getattr(obj, s)
    attrs.update(getattr(obj, "__dict__", {}) or {})
    if not attrs and not hasattr(obj, "__dict__") and not hasattr(t, "__slots__"):
        return [name, repr(obj)]
    return [name, [[k, digest(v, seen, _depth + 1)] for k, v in sorted(attrs.items()) if k not in ("env", "parser", "tag")
                   or not _is_machinery(v)]]


def _env_types():
    import liquid
    return (liquid.Environment,)


def _is_machinery(v):
    """Environment / Parser / Tag objects referenced from a node are not part of the parsed template."""
    import liquid
    from liquid.parser import Parser
    from liquid.tag import Tag
    return isinstance(v, (liquid.Environment, Parser, Tag))


def h(d):
    return hashlib.sha1(json.dumps(d, sort_keys=True, default=repr).encode()).hexdigest()[:16]


def template_digest(t):
    return [digest(t.nodes), digest(dict(t.globals)), digest(dict(t.matter)), t.name, str(t.path)], str(t)


def first_difference(a, b, path="$"):
    if type(a) is not type(b) or not isinstance(a, list) or len(a) != len(b):
        return None if a == b else path + ": " + json.dumps(a, default=repr)[:160] + "  ->  " + json.dumps(b, default=repr)[:160]
    for i, (x, y) in enumerate(zip(a, b)):
        d = first_difference(x, y, path + "/" + str(i))
        if d:
            return d
    return None


# ---------------------------------------------------------------------------------------------------------------------------
# running: one render, one history, in a child process forked from a process that has rendered nothing
# ---------------------------------------------------------------------------------------------------------------------------


def render_outcome(t, data, how, positional):
    import asyncio
    import warnings
    with warnings.catch_warnings():
        warnings.simplefilter("ignore")
        try:
            if how == "sync":
                return {"out": t.render(data) if positional else t.render(**data)}
            return {"out": asyncio.run(t.render_async(data) if positional else t.render_async(**data))}
        except Exception as e:       # noqa: BLE001  (the class is the observation)
            return {"err": type(e).__name__}


def run_history(pool, jobs, hows):
    """Replay jobs (indexes into the pool, 1-based) in this process. Returns one record per render + final digests."""
    w = World(pool)
    recs = []
    first_data = {}
    first_tmpl = {}
    for pos, (ji, how) in enumerate(zip(jobs, hows)):
        job = pool["jobs"][ji - 1]
        rec = {}
        try:
            t = w.template(job)
        except Exception as e:       # noqa: BLE001
            recs.append({"outcome": {"err": type(e).__name__, "phase": "parse"}})
            continue
        d = w.data_of(job["d"])
        db = digest(d)
        first_data.setdefault(job["d"], db)
        tb, sb = template_digest(t)
        first_tmpl.setdefault((job["e"], job["t"]), (tb, sb, t))
        rec["outcome"] = render_outcome(t, d, how, positional=(pos % 2 == 1))
        da = digest(d)
        if da != db:
            rec["data_changed"] = first_difference(db, da) or "changed"
        ta, sa = template_digest(t)
        if ta != tb:
            rec["template_changed"] = first_difference(tb, ta) or "node tree digest differs"
        if sa != sb:
            rec["str_changed"] = [sb[:300], sa[:300]]
        recs.append(rec)
    # at the end: every object the caller still holds, and every partial a caching loader holds
    final = {}
    for did, d0 in first_data.items():
        dn = digest(w.data[did])
        if dn != d0:
            final["data:" + did] = first_difference(d0, dn) or "changed"
    for key, (t0, s0, t) in first_tmpl.items():
        tn, sn = template_digest(t)
        if tn != t0 or sn != s0:
            final["template:%s/%s" % key] = "changed"
    return recs, final


def in_child(fn, *args):
    """Run fn(*args) in a forked child; the parent's library state stays as it was."""
    r, wfd = os.pipe()
    pid = os.fork()
    if pid == 0:
        code = 0
        try:
            os.close(r)
            try:
                res = {"ok": fn(*args)}
            except BaseException as e:       # noqa: BLE001
                import traceback
                res = {"exc": type(e).__name__ + ": " + str(e)[:300] + "\n" + traceback.format_exc()[-1500:]}
            with os.fdopen(wfd, "w") as f:
                json.dump(res, f, default=repr)
        except BaseException:                # noqa: BLE001
            code = 3
        finally:
            os._exit(code)
    os.close(wfd)
    with os.fdopen(r) as f:
        txt = f.read()
    os.waitpid(pid, 0)
    if not txt:
        raise MachineryError("replay child died")
    res = json.loads(txt)
    if "exc" in res:
        raise MachineryError("replay child failed: " + res["exc"])
    return res["ok"]


_POOLS: dict = {}


def replay_one(item):
    fam, jobs, hows = item
    return in_child(run_history, _POOLS[fam], jobs, hows)


# ---- the reference: every job alone, in an interpreter started for the purpose ---------------------------------------------
def _ref_main():
    """python -m vf.props.c17 --ref  : stdin {family: pool}; stdout {family: [[sync outcome, async outcome, partial digests] per job]}"""
    fresh_repo_imports()
    pools = json.load(sys.stdin)
    out = {}
    for fam, pool in pools.items():
        res = []
        for i in range(1, len(pool["jobs"]) + 1):
            row = []
            for how in ("sync", "async"):
                recs, final = in_child(run_history, pool, [i], [how])
                row.append({"rec": recs[0], "final": final})
            res.append(row)
        out[fam] = res
    json.dump(out, sys.stdout)


def reference(pools):
    e = dict(os.environ)
    e["PYTHONDONTWRITEBYTECODE"] = "1"
    e.setdefault("PYTHONHASHSEED", "0")
    p = subprocess.run([sys.executable, "-m", "vf.props.c17", "--ref"], cwd=ROOT, env=e, input=json.dumps(pools),
                       capture_output=True, text=True, timeout=900)
    if p.returncode != 0 or not p.stdout.startswith("{"):
        raise MachineryError("reference interpreter failed:\n" + (p.stderr or p.stdout)[-2000:])
    return json.loads(p.stdout)


# ---------------------------------------------------------------------------------------------------------------------------
# TLC runs (they depend on the specification and the cfg only: memoised under /verif/.cache, DESIGN 2.5)
# ---------------------------------------------------------------------------------------------------------------------------


def model_runs(jobs):
    from concurrent.futures import ThreadPoolExecutor
    cache = os.path.join(os.path.dirname(SPEC), ".cache")
    os.makedirs(cache, exist_ok=True)

    def one(job):
        module, cfg, kw = job
        hh = hashlib.sha256()
        for f in (module + ".tla", cfg):
            hh.update(open(os.path.join(SPEC, f), "rb").read())
        hh.update(repr(sorted((k, v) for k, v in kw.items() if k not in ("workers", "timeout"))).encode())
        path = os.path.join(cache, f"{PID}-{os.path.basename(cfg)[:-4]}-{hh.hexdigest()[:32]}.json")
        if os.path.exists(path) and not os.environ.get("VERIF_NO_TLC_CACHE"):
            try:
                with open(path) as f:
                    d = json.load(f)
                return TLCResult(ok=d["ok"], generated=d["generated"], distinct=d["distinct"], depth=d["depth"], violated=d["violated"],
                                 emitted=d["emitted"], wall=d["wall"], out=d["out"], cmd="(memoised) " + d["cmd"])
            except (ValueError, KeyError):
                os.unlink(path)
        r = run_tlc(module, cfg, **kw)
        tmp = path + ".%d" % os.getpid()
        with open(tmp, "w") as f:
            json.dump({"ok": r.ok, "generated": r.generated, "distinct": r.distinct, "depth": r.depth, "violated": r.violated,
                       "emitted": r.emitted, "wall": r.wall, "out": r.out[-6000:] if (r.violated or not r.emitted) else "", "cmd": r.cmd}, f)
        os.replace(tmp, path)
        return r

    with ThreadPoolExecutor(max_workers=min(6, len(jobs))) as ex:
        return list(ex.map(one, jobs))


DEVIATIONS = [("Memo", "HistoryIndependent"), ("MemoSound", "MemoSound"), ("Sort", "DataUnchanged"), ("Node", "TemplateUnchanged"),
              ("Ctx", "ContextFresh"), ("CtxHist", "HistoryIndependent")]

EXHAUSTIVE = {
    "quick": [("pairs", "cfg/Process_quick_pairs.cfg"), ("core3", "cfg/Process_quick_core.cfg"), ("sweep", "cfg/Process_sweep.cfg")],
    "thorough": [("full3", "cfg/Process_thorough_full.cfg"), ("core4", "cfg/Process_thorough_core.cfg"), ("sweep2", "cfg/Process_thorough_sweep.cfg")],
}


# ---------------------------------------------------------------------------------------------------------------------------
def job_name(pool, ji):
    j = pool["jobs"][ji - 1]
    return "%s/%s/%s" % (j["t"], j["d"], j["e"])


def same_outcome(a, b):
    if "out" in a or "out" in b:
        return a.get("out") == b.get("out") and "out" in a and "out" in b
    return a.get("err") == b.get("err")


def check_pure(ck, fam, pool, ref, atoms):
    """The reference outcome of every job against F(job) as the specification printed it."""
    for i, job in enumerate(pool["jobs"]):
        for mode, r in zip(("sync", "async"), ref[i]):
            oc = r["rec"]["outcome"]
            pure = job["pure"]
            detail = {"job": job_name(pool, i + 1), "source": source_of(job["ops"]), "data": pool["data"][job["d"]], "env": pool["env"][job["e"]],
                      "mode": mode, "observed": oc, "specified": pure}
            opaque_may_raise = any(t[0] == "P" for t in pure)
            if pure == [["ERR"]]:
                if "err" not in oc:
                    ck.fail("a render the specification expects to fail produced output (alone, in a fresh process)", detail,
                            sig="pure:%s:%s:expected-error" % (fam, job_name(pool, i + 1)))
                continue
            if "err" in oc:
                if not opaque_may_raise:
                    ck.fail("a render alone in a fresh process raised " + oc["err"], detail, sig="pure:%s:%s:%s" % (fam, job_name(pool, i + 1), oc["err"]))
                continue
            parts = oc["out"].split(SEP)
            if len(parts) != len(pure):
                ck.fail("output of a render alone in a fresh process does not have one part per operation", detail,
                        sig="pure:%s:%s:shape" % (fam, job_name(pool, i + 1)))
                continue
            for k, (tok, txt) in enumerate(zip(pure, parts)):
                want = token_text(tok)
                if want is None:
                    key = json.dumps(tok)
                    if atoms.setdefault(key, txt) != txt:
                        ck.fail("two occurrences of the same opaque result differ in fresh processes", dict(detail, token=tok, texts=[atoms[key], txt]),
                                sig="pure:%s:%s:opaque" % (fam, tok[0]))
                elif want != txt:
                    ck.fail("fresh render differs from F(job): operation %d (%s) printed %r, specified %r" % (k + 1, job["ops"][k]["op"] if k < len(job["ops"]) else "partial", txt, want),
                            detail, sig="pure:%s:%s:%s" % (fam, job["t"], tok[0]))
            if r["rec"].get("data_changed") or r["rec"].get("template_changed") or r["rec"].get("str_changed") or r["final"]:
                pass                                  # reported with the histories (every job is also a history of its own prefix)


def distinct_atoms(ck, atoms):
    """Non-vacuity of the value pool: values the specification calls observably different do print differently."""
    by = {}
    for key, txt in atoms.items():
        tok = json.loads(key)
        if tok[0] == "D":
            by.setdefault((tok[2], tok[3]), {})[tok[1]] = txt
    n = 0
    for (fmt, mode), m in by.items():
        reps = sorted(m)
        for i, a in enumerate(reps):
            for b in reps[i + 1:]:
                n += 1
                if m[a] == m[b]:
                    ck.fail("two values the pool treats as observably different print the same (vacuous pool)", {"a": a, "b": b, "text": m[a]},
                            sig="pool:indistinct:%s:%s" % (a, b))
    esc = {(json.loads(k)[1], json.loads(k)[2]): t for k, t in atoms.items() if json.loads(k)[0] == "D" and json.loads(k)[3] == "esc"}
    safe = {(json.loads(k)[1], json.loads(k)[2]): t for k, t in atoms.items() if json.loads(k)[0] == "D" and json.loads(k)[3] == "safe"}
    for k2 in set(esc) & set(safe):
        n += 1
        if esc[k2] == safe[k2]:
            ck.fail("escaped and safe date results print the same (vacuous pool)", {"key": k2, "text": esc[k2]}, sig="pool:indistinct:esc-safe")
    return n


def hows_for(jobs, variant):
    if variant == 0:
        return ["sync"] * len(jobs)
    if variant == 1:
        return ["async"] * len(jobs)
    return ["sync" if (i + variant) % 2 else "async" for i in range(len(jobs))]


def run(tier: str) -> int:
    fresh_repo_imports()
    ck = Check(PID, tier)
    rnd = random.Random(seed())
    # ---- model checking -----------------------------------------------------------------------------------------------
    runs = [(MODULE, cfg, dict(workers=1, timeout=3000)) for _, cfg in EXHAUSTIVE[tier]]
    devs = [(MODULE, f"cfg/Process_dev_{d}.cfg", dict(workers=1, timeout=600, expect_violation=True)) for d, _ in DEVIATIONS]
    results = model_runs(runs + devs)
    histories = []
    pools = {}
    for (name, cfg), r in zip(EXHAUSTIVE[tier], results):
        ck.tlc(name, r)
        if r.violated:
            ck.fail(f"Process.tla {r.violated} violated in {cfg}", {"tlc": r.out[-3000:]})
            return ck.finish()
        pool = [x for x in r.emitted if x.get("kind") == "pool"]
        if len(pool) != 1:
            raise MachineryError(f"{cfg}: expected one pool record, got {len(pool)}")
        fam = pool[0]["family"]
        pools.setdefault(fam, pool[0])
        if pools[fam]["jobs"] != pool[0]["jobs"]:
            raise MachineryError("two runs disagree about the pool " + fam)
        hs = [x for x in r.emitted if x.get("kind") == "history"]
        if not hs:
            raise MachineryError(f"{cfg}: no history emitted (vacuous)")
        histories += [(fam, x) for x in hs]
    for (d, inv), r in zip(DEVIATIONS, results[len(runs):]):
        ck.tlc("deviation_" + d, r)
        if r.violated != inv:
            raise MachineryError(f"deviation {d}: TLC was expected to refute {inv}, got {r.violated!r}")
    ck.cov["deviations_refuted"] = {d: inv for d, inv in DEVIATIONS}
    _POOLS.update(pools)

    # ---- the reference: every job alone, in a separately started interpreter ------------------------------------------
    ref = reference(pools)
    atoms: dict = {}
    for fam, pool in pools.items():
        check_pure(ck, fam, pool, ref[fam], atoms)
    ck.cov["opaque_results"] = len(atoms)
    ck.cov["distinct_value_pairs_confirmed"] = distinct_atoms(ck, atoms)

    # ---- replay ----------------------------------------------------------------------------------------------------------
    seen = set()
    items = []
    for fam, hrec in histories:
        key = (fam, tuple(hrec["jobs"]))
        if key in seen:
            continue
        seen.add(key)
        pool = pools[fam]
        if hrec["res"] != [pool["jobs"][j - 1]["pure"] for j in hrec["jobs"]]:
            raise MachineryError("emitted history does not carry F(job) although HistoryIndependent held")
        variants = [0, 1] if len(hrec["jobs"]) == 1 else [0, 1, 2 + (len(items) % 2)]
        if tier == "thorough" and len(hrec["jobs"]) >= 4:
            variants = [rnd.choice([0, 1, 2, 3])]
        for v in variants:
            items.append((fam, hrec["jobs"], hows_for(hrec["jobs"], v), hrec["conf"]))
    res = par.pmap(replay_one, [(f, j, hw) for f, j, hw, _ in items], chunk=16)
    for (fam, jobs, hows, conf), (recs, final) in zip(items, res):
        pool = pools[fam]
        touched = any(c for cs in conf for c in cs)
        ck.case((fam, tuple(jobs), tuple(hows)), nontrivial=touched)
        ck.validated()
        names = [job_name(pool, j) for j in jobs]
        base = {"family": fam, "history": names, "modes": hows,
                "sources": [source_of(pool["jobs"][j - 1]["ops"]) for j in jobs],
                "data": [pool["data"][pool["jobs"][j - 1]["d"]] for j in jobs],
                "partials": {p: source_of(o) for p, o in pool["partials"].items()},
                "concrete_values": "see vf/props/c17.py value()/make_data()"}
        for pos, (ji, how, rec) in enumerate(zip(jobs, hows, recs)):
            want = ref[fam][ji - 1][0 if how == "sync" else 1]["rec"]["outcome"]
            got = rec["outcome"]
            tch = sorted({c for cs in conf[pos] for c in cs}) if pos < len(conf) else []
            if not same_outcome(got, want):
                culprit = [names[q] for q in range(pos) if conf[pos][q]] or names[:pos]
                ck.fail("HistoryIndependent: render %d (%s, %s) gives a different result than the same render alone in a fresh process" % (pos + 1, names[pos], how),
                        dict(base, position=pos + 1, observed=got, alone=want, specified=pool["jobs"][ji - 1]["pure"], shares_state_with=culprit, touch=tch),
                        sig="history:%s:%s:after:%s" % (fam, names[pos], ",".join(tch) or "-"))
            if rec.get("data_changed"):
                ck.fail("DataUnchanged: render %d (%s, %s) modified the data passed to it" % (pos + 1, names[pos], how),
                        dict(base, position=pos + 1, difference=rec["data_changed"]), sig="data:%s:%s" % (fam, pool["jobs"][ji - 1]["t"]))
            if rec.get("template_changed") or rec.get("str_changed"):
                ck.fail("TemplateUnchanged: render %d (%s, %s) modified the parsed template" % (pos + 1, names[pos], how),
                        dict(base, position=pos + 1, difference=rec.get("template_changed"), str_before_after=rec.get("str_changed")),
                        sig="template:%s:%s" % (fam, pool["jobs"][ji - 1]["t"]))
        for what, diff in final.items():
            ck.fail("an object the caller holds was modified during the history: " + what, dict(base, difference=diff),
                    sig="final:%s:%s" % (fam, what.split(":")[0]))
    # ---- samples, coverage -----------------------------------------------------------------------------------------------
    ck.cov["histories"] = {"distinct": len(seen), "replays": len(items),
                           "by_length": {str(n): sum(1 for k in seen if len(k[1]) == n) for n in sorted({len(k[1]) for k in seen})}}
    dev = results[len(runs)]
    ck.cov["counterexample_MemoKeyedByEquality"] = [ln for ln in dev.out.splitlines() if ln.startswith("/\\ hist =")][-1:] if dev.out else "(memoised)"
    for fam, hrec in histories[:: max(1, len(histories) // 3)][:3]:
        ck.sample({"family": fam, "history": [job_name(pools[fam], j) for j in hrec["jobs"]], "specified": hrec["res"],
                   "sources": [source_of(pools[fam]["jobs"][j - 1]["ops"]) for j in hrec["jobs"]]})
    ck.cov["rule"] = ("Process.tla: pool of %d jobs (10 templates over date / fill / counters / assign+capture / cycle / ifchanged / offset:continue / macros / "
                      "array filters on shared and nested lists / include+render of a cached partial / inheritance / with / tablerow / case; 8 data objects whose "
                      "x is one of tU,tP,tD (equal instants, three zones), 1, True, 1.0, Decimal(1) and whose format is a str or an equal Markup; 5 environments: "
                      "plain, autoescape, re-parsing with a non-caching loader, implicit via liquid.Template kept / re-created) - every history of length %s; "
                      "sweep family: 22 array-capable filters x 6 data shapes; each history replayed sync, async and mixed in one process, every render "
                      "compared with the same render alone in a separately started interpreter, data / node tree / str(template) digested before and after"
                      % (len(pools.get("full", {"jobs": []})["jobs"]), ck.cov["histories"]["by_length"]))
    ck.assumptions += [
        "the current time is excluded as the statement says: no job uses now/today (so the memoisation of 'now' | date, which keeps the first render's time for as long as the entry lives, is outside the claim)",
        "templates reloaded from changed sources are excluded: loader sources never change during a history",
        "two threads rendering the same BoundTemplate concurrently are out of scope; histories are sequential",
        "warnings (warn mode) are not part of the result; outcomes are output text or exception class",
        "data objects are dict / list / tuple / scalars / datetime; mappings whose __getitem__ has side effects (defaultdict), generators and drops are outside the family",
        "opaque results (date texts, {{ value }}, the 'pure' snippets) are only required to be a function of their arguments; results the model fixes (counters, cycle, ifchanged, assign/capture, loops, sort/reverse/uniq/concat, macros) are compared as text",
        "TLC results are memoised by the text of Process.tla and the cfg (they do not depend on the code under test)",
    ]
    return ck.finish()


def replay(path):
    fresh_repo_imports()
    d = json.load(open(path))["detail"]
    print(json.dumps({k: d.get(k) for k in ("history", "modes", "sources", "data", "position", "observed", "alone", "difference")}, indent=1, default=str))
    return 0


if __name__ == "__main__":
    if "--ref" in sys.argv:
        _ref_main()
