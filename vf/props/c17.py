"""C17 — rendering is pure and independent of history (spec/Process.tla).

Process.tla      every piece of library state that outlives a render (date memo with LRU order and capacity, lexer / parser /
                 implicit-environment memos, the node lists of the BoundTemplates that are alive, the caller's data objects) and
                 the per-render RenderContext; the job pool (template x data x environment), the histories, F(job) = Pure and
                 the invariants HistoryIndependent / DataUnchanged / TemplateUnchanged / ContextFresh / MemoSound
this file        turns abstract jobs into Liquid source, data objects and Environments; replays every history TLC emitted in ONE
                 process (a child forked from a process that has imported the library and rendered nothing); obtains, from a
                 separately started interpreter, the outcome of every job rendered alone; compares; digests data and node trees
Nothing about what a render should print is decided here: concrete tokens of F(job) are turned into text, opaque ones only have
to be a function of the token.
"""
from __future__ import annotations

import gc
import hashlib
import json
import multiprocessing as mp
import os
import random
import subprocess
import sys

from ..core import Check, ROOT, fresh_repo_imports, seed
from ..tlcrun import MachineryError, SPEC, TLCResult, run_tlc
from .. import par, harness

PID = "C17"
SEP = "¦"          # between the outputs of two operations
MODULE = "Process"

# ---------------------------------------------------------------------------------------------------------------------------
# concretisation: value ids, data objects, operations, environments
# ---------------------------------------------------------------------------------------------------------------------------


def value(vid):
    import datetime as D
    import decimal
    from dateutil import tz
    from liquid import Markup
    if vid == "tU":
        return D.datetime(2020, 1, 1, 12, tzinfo=D.timezone.utc)
    if vid == "tP":
        return D.datetime(2020, 1, 1, 13, tzinfo=D.timezone(D.timedelta(hours=1)))
    if vid == "tD":
        return D.datetime(2020, 1, 1, 12, tzinfo=tz.tzutc())
    if vid == "i1":
        return 1
    if vid == "b1":
        return True
    if vid == "f1":
        return 1.0
    if vid == "d1":
        return decimal.Decimal(1)
    if vid == "fS":
        return "<b>%H %z"
    if vid == "fM":
        return Markup("<b>%H %z")
    if vid == "gF":
        return "%Y/%j"
    if vid[0] == "k":
        return 100000000 * (int(vid[1:]) + 2)
    raise MachineryError("no concrete value for " + vid)


def make_data(rec, fillers):
    """One caller-side data object. `a` and `h.l` are the same list."""
    lst = list(rec["a"])
    return {"x": value(rec["x"]), "f": value(rec["f"]), "a": lst, "c": 7,
            "h": {"l": lst, "m": {"z": [1, [2, 3], [4, [5]]]}},
            "rows": [{"k": 2, "s": "b", "l": [2, 1]}, {"k": 1, "s": "a", "l": [1]}, {"k": 2, "s": "B"}],
            "t": (3, 1, 2), "n": [1, None, 2, None],
            "ks": [value(k) for k in fillers], "g": value("gF")}


LOOP = "{%% for i in %s %s %%}{{ i }}{%% unless forloop.last %%},{%% endunless %%}{%% endfor %%}"
PURE = {
    "rows": "{{ rows | map: 'k' | join: ',' }}/{{ rows | where: 'k', 2 | map: 's' | join: ',' }}/{{ rows | sort: 'k' | map: 's' | join: ',' }}"
            "/{{ rows | sum: 'k' }}/{{ rows | map: 'l' | compact | join: ',' }}/{{ rows | sort_natural: 's' | map: 's' | join }}",
    "tuple": "{{ t | sort | join: ',' }}/{{ t | reverse | first }}/{{ n | compact | join: ',' }}/{{ a | sort_natural | last }}/{{ a | slice: 1, 2 | join: ',' }}"
             "/{{ t | concat: a | join: ',' }}/{{ n | default: 'z' | size }}",
    "nested": "{{ h.m.z | reverse | join: ',' }}/{{ h.l | sort | first }}/{% for p in h %}{{ p[0] }}{% endfor %}/{{ h.l | uniq | size }}/{{ h.m | json }}"
              "/{{ h.m.z | sort | join: ',' }}/{{ h.m.z | concat: h.l | size }}",
    "snippet": "{% extends 'base' %}{% snippet sn %}S{{ a | first }}{% endsnippet %}{% block b %}{% render sn, a: a %}{% endblock %}",
    "inherit": "{% extends 'base' %}{% block b %}C{{ block.super }}{{ a | join: ',' }}{% endblock %}{% block d %}{{ block.super }}D{% endblock %}",
    "with": "{% with z: a, y: h %}{{ z | sort | join: ',' }}{{ y.l | reverse | join: ',' }}{% endwith %}[{{ z }}]",
    "tablerow": "{% tablerow i in a cols: 2 limit: 3 %}{{ i }}{% endtablerow %}",
    "loops": "{% for i in a reversed %}{{ i }}{% endfor %}/{% for i in h.l reversed limit: 2 offset: 1 %}{{ i }}{% endfor %}/{% for r in rows reversed %}{{ r.s }}{% endfor %}"
             "/{% for i in t reversed %}{{ i }}{% endfor %}/{% tablerow i in h.l %}{{ i }}{% endtablerow %}/{% for p in h.m %}{{ p[1].z | first }}{% endfor %}"
             "/{% for i in n %}{{ i | default: '-' }}{% endfor %}/{% echo a | first %}",
    "ternary": "{{ 'y' if c == 7 else 'n' }}/{% if not c %}z{% else %}w{% endif %}/{% assign k2 = a | sort %}{{ k2 | join: ',' }}",
    "case": "{% case c %}{% when 7 %}s{% else %}o{% endcase %}{% unless c == 7 %}u{% endunless %}{% liquid\nassign zz = a | sort\necho zz | join: ','\n%}",
}
PARTIAL_SOURCES = {"base": "<{% block b %}B{% endblock %}|{% block d %}E{{ c }}{% endblock %}>"}
SWEEP_ARGS = {"concat": ": a", "default": ": 'z'", "find": ": 'k', 1", "find_index": ": 'k', 1", "has": ": 'k', 2", "index": ": 1", "join": ": '-'",
              "map": ": 'k'", "reject": ": 'k', 2", "slice": ": 1, 2", "where": ": 'k', 2", "sort": "", "sum": ""}


def op_source(o):
    op, n, k = o["op"], o["n"], o["k"]
    if op == "date":
        return "{{ %s | date: %s }}" % (n, k)
    if op == "fill":
        return "{% for k in ks %}{{ k | date: g }}{% unless forloop.last %}" + SEP + "{% endunless %}{% endfor %}"
    if op == "out":
        return "{{ a | join: ',' }}" if n == "a" else "{{ %s }}" % n
    if op == "incr":
        return "{%% increment %s %%}" % n
    if op == "decr":
        return "{%% decrement %s %%}" % n
    if op == "assign":
        return "{%% assign %s = %s %%}" % (n, k)
    if op == "capture":
        return "{%% capture %s %%}%s{%% endcapture %%}" % (n, k)
    if op == "cycle":
        return "{%% cycle '%s': 'p', 'q', 'r' %%}" % n
    if op == "ifch":
        return "{%% ifchanged %%}{{ %s }}{%% endifchanged %%}" % n
    if op == "forlim":
        return LOOP % (n, "limit: 1")
    if op == "forcont":
        return LOOP % (n, "offset: continue")
    if op == "arr":
        return "{{ %s | %s | join: ',' }}" % (n, "concat: " + n if k == "concat" else k)
    if op == "def":
        return "{%% macro %s %%}M{%% endmacro %%}" % n
    if op == "call":
        return "{%% call %s %%}" % n
    if op == "inc":
        return "{%% include '%s' %%}" % n
    if op == "ren":
        return "{%% render '%s' %%}" % n
    if op == "pure":
        if ":" in n:                                 # the sweep family "<filter>:<path>"
            f, p = n.split(":")
            return "{{ %s | %s%s | json }}" % (p, f, SWEEP_ARGS.get(f, ""))
        return PURE[n]
    raise MachineryError("no concrete operation for " + repr(o))


def source_of(ops, delims="std"):
    src = SEP.join(op_source(o) for o in ops)
    if delims == "alt":
        src = src.replace("{%", "[%").replace("%}", "%]").replace("{{", "[[").replace("}}", "]]")
    return src


FLAGS = ("ternary_expressions", "logical_not_operator", "logical_parentheses", "keyword_assignment")
ALT = dict(tag_start_string="[%", tag_end_string="%]", statement_start_string="[[", statement_end_string="]]")


def token_text(tok):
    """Text of a token whose text the specification fixes; None for the opaque ones."""
    t = tok[0]
    if t == "":
        return ""
    if t in ("n", "c"):
        return tok[1]
    if t == "A":
        return ",".join(tok[1:])
    if t == "m":
        return "M"
    return None


class World:
    """Everything the caller of the library holds during one history."""

    def __init__(self, pool):
        self.pool = pool
        self.envs = {}
        self.templates = {}       # (env id, template id) -> BoundTemplate
        self.data = {}            # data id -> object
        self.partials = {p: source_of(ops) for p, ops in pool["partials"].items()}
        self.partials.update(PARTIAL_SOURCES)

    def env(self, eid):
        import liquid
        rec = self.pool["env"][eid]
        if rec["implicit"]:
            return None
        if eid not in self.envs:
            alt = rec["delims"] == "alt"
            parts = {k: (v.replace("{%", "[%").replace("%}", "%]").replace("{{", "[[").replace("}}", "]]") if alt else v) for k, v in self.partials.items()}
            loader = (liquid.CachingDictLoader if rec["caching"] else liquid.DictLoader)(parts)
            cls = type("FlagEnvironment", (liquid.Environment,), {f: True for f in FLAGS}) if rec["flags"] else liquid.Environment
            self.envs[eid] = cls(extra=True, autoescape=rec["auto"], loader=loader, **(ALT if alt else {}))
            from liquid.extra import SnippetTag
            self.envs[eid].add_tag(SnippetTag)        # experimental, not registered by extra=True
        return self.envs[eid]

    def template(self, job):
        import liquid
        rec = self.pool["env"][job["e"]]
        key = (job["e"], job["t"])
        if rec["keep"] and key in self.templates:
            return self.templates[key]
        src = source_of(job["ops"], rec["delims"])
        if job["t"] in self.pool.get("vialoader", ()):
            # the caller asks the loader for it, bound to its own globals (the source is among the loader's templates)
            t = self.env(job["e"]).get_template(job["t"], globals={"gl": int(self.pool["callerglobals"])})
        elif rec["implicit"]:
            t = liquid.Template(src, extra=True, autoescape=rec["auto"])
        else:
            t = self.env(job["e"]).from_string(src, name=job["t"])
        if rec["keep"]:
            self.templates[key] = t
        return t

    def data_of(self, did):
        if did not in self.data:
            self.data[did] = make_data(self.pool["data"][did], self.pool["fillers"])
        return self.data[did]

    def cached_partials(self):
        out = []
        for eid, e in sorted(self.envs.items()):
            cache = getattr(e.loader, "cache", None)
            if cache is not None:
                for k, tobj in sorted(cache.items(), key=lambda kv: str(kv[0])):      # items() does not touch the LRU order
                    out.append((eid + ":" + str(k), tobj))
        return out


# ---------------------------------------------------------------------------------------------------------------------------
# digests: type-aware and structural (1 / True / 1.0, list / tuple, str / Markup, time zone are all told apart)
# ---------------------------------------------------------------------------------------------------------------------------


_TYPEINFO: dict = {}
_SCALARS = None


def _typeinfo(t):
    """(name, kind, slot names) per type, computed once."""
    global _SCALARS
    import datetime as D
    import decimal
    import re
    import liquid
    from liquid.parser import Parser
    from liquid.tag import Tag
    if _SCALARS is None:
        _SCALARS = (bool, int, float, complex, bytes, type(None), decimal.Decimal, range, D.date, D.timedelta)
    name = t.__module__ + "." + t.__qualname__
    from liquid.token import Token
    if issubclass(t, Token):
        kind = "token"              # an immutable tuple of kind, value, index and the (shared) source text
    elif issubclass(t, str):
        kind = "str"
    elif issubclass(t, (D.datetime, D.time)):
        kind = "dt"
    elif issubclass(t, _SCALARS):
        kind = "scalar"
    elif issubclass(t, (list, tuple)):
        kind = "seq"
    elif issubclass(t, dict):
        kind = "dict"
    elif issubclass(t, (set, frozenset)):
        kind = "set"
    elif issubclass(t, (liquid.Environment, Parser, Tag)):
        kind = "machinery"          # referenced from nodes, not part of the parsed template
    elif issubclass(t, re.Pattern):
        kind = "re"
    else:
        kind = "obj"
    slots = []
    for klass in t.__mro__:
        for sl in getattr(klass, "__slots__", ()) or ():
            if isinstance(sl, str) and sl not in ("__dict__", "__weakref__"):
                slots.append(sl)
    info = (name, kind, tuple(slots))
    _TYPEINFO[t] = info
    return info


def digest(obj, _seen=None, _depth=0):
    """Type-aware structural digest: 1 / True / 1.0, list / tuple, str / Markup, time zones and sharing are all told apart."""
    seen = _seen if _seen is not None else {}
    t = type(obj)
    info = _TYPEINFO.get(t) or _typeinfo(t)
    name, kind, slots = info
    if kind == "scalar":
        return [name, repr(obj)]
    if kind == "str":
        return [name, obj if len(obj) < 120 else [len(obj), hash(obj)]]       # (compared within one process only)
    if kind == "dt":
        return [name, obj.replace(tzinfo=None).isoformat(), repr(obj.utcoffset()), repr(obj.tzname()), type(obj.tzinfo).__qualname__, getattr(obj, "fold", 0)]
    if kind == "token":
        return [name, obj[0], obj[1], obj[2]]
    if kind == "machinery":
        return ["machinery", name]
    if kind == "re":
        return [name, obj.pattern, obj.flags]
    if _depth > 80:
        return [name, "..."]
    i = id(obj)
    if i in seen:
        return ["ref", seen[i]]                    # sharing is part of the structure
    seen[i] = len(seen)
    d = _depth + 1
    if kind == "seq":
        return [name, [digest(x, seen, d) for x in obj]]
    if kind == "dict":
        return [name, [[digest(k, seen, d), digest(v, seen, d)] for k, v in obj.items()]]
    if kind == "set":
        return [name, sorted(json.dumps(digest(x, seen, d), sort_keys=True, default=repr) for x in obj)]
    if not slots and callable(obj) and hasattr(obj, "__qualname__"):
        return ["callable", getattr(obj, "__module__", ""), obj.__qualname__]
    # any other object: its class and every attribute it has (slots and __dict__)
    attrs = [(sl, getattr(obj, sl)) for sl in slots if hasattr(obj, sl)]
    dd = getattr(obj, "__dict__", None)
    if dd:
        attrs += sorted(dd.items())
    if not attrs and dd is None and not slots:
        return [name, repr(obj)]
    return [name, [[k, digest(v, seen, d)] for k, v in attrs]]


def h(d):
    return hashlib.sha1(json.dumps(d, sort_keys=True, default=repr).encode()).hexdigest()[:16]


def template_digest(t):
    return [digest(t.nodes), digest(dict(t.globals)), digest(dict(t.matter)), t.name, str(t.path)], str(t)


def first_difference(a, b, path="$"):
    if type(a) is not type(b) or not isinstance(a, list) or len(a) != len(b):
        return None if a == b else path + ": " + json.dumps(a, default=repr)[:160] + "  ->  " + json.dumps(b, default=repr)[:160]
    for i, (x, y) in enumerate(zip(a, b)):
        d = first_difference(x, y, path + "/" + str(i))
        if d:
            return d
    return None


# ---------------------------------------------------------------------------------------------------------------------------
# running: one render, one history, in a child process forked from a process that has rendered nothing
# ---------------------------------------------------------------------------------------------------------------------------


def render_outcome(t, data, how, positional):
    import asyncio
    import warnings
    with warnings.catch_warnings():
        warnings.simplefilter("ignore")
        try:
            if how == "sync":
                return {"out": t.render(data) if positional else t.render(**data)}
            return {"out": asyncio.run(t.render_async(data) if positional else t.render_async(**data))}
        except Exception as e:       # noqa: BLE001  (the class is the observation)
            return {"err": type(e).__name__}


def run_history(pool, jobs, hows, fine=False):
    """Replay jobs (indexes into the pool, 1-based) in this process, one World for the history.
    Returns one record per render and what changed in any object the caller (or a caching loader) holds."""
    w = World(pool)
    recs = []
    known = {}                 # object key -> (object, digest, str) as last seen; compared after every render
    first = {}

    def look(key, obj, is_template, rec, what):
        dg = template_digest(obj) if is_template else (digest(obj), None)
        if key not in known:
            known[key] = dg
            first[key] = dg
            return
        old = known[key]
        if dg[0] != old[0]:
            rec.setdefault(what, {})[key] = first_difference(old[0], dg[0]) or "digest differs"
        if is_template and dg[1] != old[1]:
            rec.setdefault("str_changed", {})[key] = [old[1][:300], dg[1][:300]]
        known[key] = dg

    for pos, (ji, how) in enumerate(zip(jobs, hows)):
        job = pool["jobs"][ji - 1]
        rec = {}
        try:
            t = w.template(job)
        except Exception as e:       # noqa: BLE001
            recs.append({"outcome": {"err": type(e).__name__, "phase": "parse"}})
            continue
        d = w.data_of(job["d"])
        tkey = "template:%s/%s" % (job["e"], job["t"])
        if not pool["env"][job["e"]]["keep"]:
            known.pop(tkey, None)                   # a new object every time
        look("data:" + job["d"], d, False, rec, "data_changed")
        look(tkey, t, True, rec, "template_changed")
        rec["outcome"] = render_outcome(t, d, how, positional=(pos % 2 == 1))
        look("data:" + job["d"], d, False, rec, "data_changed")
        look(tkey, t, True, rec, "template_changed")
        if pos == len(jobs) - 1 or fine:
            # everything else that is alive: all data objects, all kept templates, every partial in a caching loader
            for did, dobj in w.data.items():
                look("data:" + did, dobj, False, rec, "data_changed")
            for (eid, tid), tobj in w.templates.items():
                look("template:%s/%s" % (eid, tid), tobj, True, rec, "template_changed")
            for name, pt in w.cached_partials():
                look("partial:" + name, pt, True, rec, "template_changed")
        recs.append(rec)
    if not fine and len(jobs) > 1 and any(r.get("data_changed") or r.get("template_changed") or r.get("str_changed") for r in recs):
        return run_history(pool, jobs, hows, fine=True)      # again, looking at every object after every render
    return recs, {}


def in_child(fn, *args):
    """Run fn(*args) in a forked child; the parent's library state stays as it was."""
    r, wfd = os.pipe()
    pid = os.fork()
    if pid == 0:
        code = 0
        try:
            os.close(r)
            try:
                res = {"ok": fn(*args)}
            except BaseException as e:       # noqa: BLE001
                import traceback
                res = {"exc": type(e).__name__ + ": " + str(e)[:300] + "\n" + traceback.format_exc()[-1500:]}
            with os.fdopen(wfd, "w") as f:
                json.dump(res, f, default=repr)
        except BaseException:                # noqa: BLE001
            code = 3
        finally:
            os._exit(code)
    os.close(wfd)
    with os.fdopen(r) as f:
        txt = f.read()
    os.waitpid(pid, 0)
    if not txt:
        raise MachineryError("replay child died")
    res = json.loads(txt)
    if "exc" in res:
        raise MachineryError("replay child failed: " + res["exc"])
    return res["ok"]


_POOLS: dict = {}


# ---- sweep: every registered filter applied to values that are == but observably different -------------------------------------
# Process.tla!HistoryIndependent with the memo Key as the code has it (Python ==/hash): for every filter f and every pair (v, w) of
# the specification's confusable values, the result of rendering `w | f` must not depend on whether `v | f` was rendered before.
def _confusable_pairs():
    from markupsafe import Markup
    return [("markup/str", Markup("<b>&amp;x</b> y"), "<b>&amp;x</b> y"), ("int/bool", 1, True), ("int/float", 1, 1.0),
            ("str/markup-arg", "a<b", Markup("a<b"))]


def _filter_sweep(order):
    """Runs in a forked child. -> {filter|pair: outcome of the SECOND value of the pair (pair order given by `order`)}"""
    res = {}
    for autoescape in (True, False):
        env = harness.make_env(autoescape=autoescape)
        for name in sorted(env.filters):
            for pname, v, w in _confusable_pairs():
                first, second = (v, w) if order == 0 else (w, v)
                for src in (f"{{{{ x | {name} }}}}", f"{{{{ x | {name}: x }}}}"):
                    t, err = harness.parse(env, src)
                    if err:
                        continue
                    harness.render(t, {"x": first}, "sync")
                    o = harness.render(t, {"x": second}, "sync")
                    res[f"{name}|{pname}|{src}|{autoescape}"] = o.get("out", "!" + o.get("err", ""))
    return res


def filter_sweep(ck):
    """w after v (order 0) must equal w alone-first (taken from order 1, where w is rendered first), and vice versa."""
    a = in_child(_filter_sweep, 0)      # v then w: a[k] = outcome of w with v before it
    b = in_child(_filter_sweep, 1)      # w then v: b[k] = outcome of v with w before it
    solo = in_child(_filter_solo)
    for k in sorted(a):
        name, pname, src, autoescape = k.split("|", 3)
        ck.case(("filter-sweep", k))
        ck.validated()
        for order, got in ((0, a[k]), (1, b[k])):
            want = solo[f"{k}|{1 - order}"]
            if got != want:
                ck.fail(f"filter {name}: the result for a value depends on an ==-equal but different value ({pname}) having gone through the filter before "
                        f"(Process.tla!HistoryIndependent)",
                        {"source": src, "autoescape": autoescape, "pair": pname, "order": order, "observed": got, "alone": want}, sig=f"sweep:{name}:{pname}")
                break


def _filter_solo():
    """Each (filter, value) rendered as the first use of that filter with that value class in this child process:
    one fresh Environment AND a cleared set of memo tables per case is not available, so every case runs in its own grandchild."""
    res = {}
    for autoescape in (True, False):
        for pname, v, w in _confusable_pairs():
            for which, val in ((0, v), (1, w)):
                part = in_child(_solo_batch, autoescape, pname, which)
                res.update(part)
    return res


def _solo_batch(autoescape, pname, which):
    pairs = {p[0]: p for p in _confusable_pairs()}
    val = pairs[pname][1 + which]
    env = harness.make_env(autoescape=autoescape)
    out = {}
    for name in sorted(env.filters):
        for src in (f"{{{{ x | {name} }}}}", f"{{{{ x | {name}: x }}}}"):
            t, err = harness.parse(env, src)
            if err:
                continue
            o = harness.render(t, {"x": val}, "sync")
            out[f"{name}|{pname}|{src}|{autoescape}|{which}"] = o.get("out", "!" + o.get("err", ""))
    return out


def run_isolated(item):
    """Isolated: the worker was forked for this one history from a process that has rendered nothing (the state Process.tla starts from)."""
    fam, jobs, hows = item
    return run_history(_POOLS[fam], jobs, hows)


def replay_batch(items):
    """A worker process replays its histories one after the other WITHOUT returning to a clean state: the concatenation is one
    long history, so every render still has to equal the same render alone. (Cheaper than a fork per history, and harsher.)"""
    return [run_history(_POOLS[fam], jobs, hows) for fam, jobs, hows in items]


# ---- the reference: every job alone, in an interpreter started for the purpose ---------------------------------------------
# (a fork costs about a second of page faults in this sandbox, so the forks are spread over 16 processes and used only where the
#  state a render starts from has to be exactly "nothing rendered yet")
def _alone(task):
    fam, i, how = task
    recs, _ = run_history(_POOLS[fam], [i], [how])
    return recs[0]


def _in_order(task):
    fam, order, how = task
    return [run_history(_POOLS[fam], [i], [how])[0][0] for i in order]


def _runner_main():
    """python -m vf.props.c17 --run : the ONLY process tree in which the library renders anything.
    stdin  {"pools": {family: pool}, "alone": [family], "ordered": [family], "isolated": [[family, jobs, hows]], "batches": [[[family, jobs, hows]]]}
    alone     every job of the family as the first and only render of a process forked from this (idle) interpreter
    ordered   all jobs of the family one after the other in one such process, forwards and, in another, backwards
    isolated  one such process per history
    batches   16 long-lived processes replay the batches, each batch back to back
    This interpreter itself renders nothing, holds little memory (forks are cheap) and only distributes the work."""
    fresh_repo_imports()
    req = json.load(sys.stdin)
    _POOLS.update(req["pools"])
    ref = {}
    ctx = mp.get_context("fork")
    gc.collect()
    gc.freeze()                                   # children do not copy the heap when their collector runs
    nproc = min(16, os.cpu_count() or 4)
    with ctx.Pool(nproc, maxtasksperchild=1) as p1, ctx.Pool(nproc) as p2:       # p1: one new process per task
        # (a new process costs about half a second of page faults in this sandbox however little it does, so the async
        #  reference of the `alone` families comes from the two ordered passes, and only the sync one from a process per job)
        tasks = [(fam, i, "sync") for fam in req["alone"] for i in range(1, len(_POOLS[fam]["jobs"]) + 1)]
        otasks = []
        for fam in req["ordered"] + req["alone"]:
            n = len(_POOLS[fam]["jobs"])
            for how in (("sync", "async") if fam in req["ordered"] else ("async",)):
                otasks.append((fam, list(range(1, n + 1)), how))
                otasks.append((fam, list(range(n, 0, -1)), how))
        r_iso = p1.map_async(run_isolated, req["isolated"], chunksize=1)
        r_alone = p1.map_async(_alone, tasks, chunksize=1)
        r_ord = p1.map_async(_in_order, otasks, chunksize=1)
        r_bat = p2.map_async(replay_batch, req["batches"], chunksize=1)
        for (fam, i, how), rec in zip(tasks, r_alone.get()):
            ref.setdefault(fam, {}).setdefault(str(i), {})[how] = {"rec": rec}
        for (fam, order, how), recs in zip(otasks, r_ord.get()):
            for i, rec in zip(order, recs):
                slot = ref.setdefault(fam, {}).setdefault(str(i), {})
                if how in slot:
                    if not same_outcome(slot[how]["rec"]["outcome"], rec["outcome"]):
                        slot[how]["disagrees"] = rec["outcome"]
                    for k in ("data_changed", "template_changed", "str_changed"):
                        if rec.get(k):
                            slot[how]["rec"][k] = rec[k]
                else:
                    slot[how] = {"rec": rec}
        out = {"ref": ref, "isolated": r_iso.get(), "batches": r_bat.get()}
    json.dump(out, sys.stdout)


def runner(pools, alone, ordered, isolated, batches):
    e = dict(os.environ)
    e["PYTHONDONTWRITEBYTECODE"] = "1"
    req = {"pools": pools, "alone": alone, "ordered": ordered, "isolated": isolated, "batches": batches}
    p = subprocess.run([sys.executable, "-m", "vf.props.c17", "--run"], cwd=ROOT, env=e, input=json.dumps(req),
                       capture_output=True, text=True, timeout=3000)
    if p.returncode != 0 or not p.stdout.startswith("{"):
        raise MachineryError("runner interpreter failed:\n" + (p.stderr or p.stdout)[-2000:])
    out = json.loads(p.stdout)
    out["ref"] = {fam: [[d[str(i)]["sync"], d[str(i)]["async"]] for i in range(1, len(d) + 1)] for fam, d in out["ref"].items()}
    return out


# ---------------------------------------------------------------------------------------------------------------------------
# TLC runs (they depend on the specification and the cfg only: memoised under /verif/.cache, DESIGN 2.5)
# ---------------------------------------------------------------------------------------------------------------------------


def model_runs(jobs):
    from concurrent.futures import ThreadPoolExecutor
    cache = os.path.join(os.path.dirname(SPEC), ".cache")
    os.makedirs(cache, exist_ok=True)

    def one(job):
        module, cfg, kw = job
        hh = hashlib.sha256()
        for f in (module + ".tla", cfg):
            hh.update(open(os.path.join(SPEC, f), "rb").read())
        hh.update(repr(sorted((k, v) for k, v in kw.items() if k not in ("workers", "timeout"))).encode())
        path = os.path.join(cache, f"{PID}-{os.path.basename(cfg)[:-4]}-{hh.hexdigest()[:32]}.json")
        if os.path.exists(path) and not os.environ.get("VERIF_NO_TLC_CACHE"):
            try:
                with open(path) as f:
                    d = json.load(f)
                return TLCResult(ok=d["ok"], generated=d["generated"], distinct=d["distinct"], depth=d["depth"], violated=d["violated"],
                                 emitted=d["emitted"], wall=d["wall"], out=d["out"], cmd="(memoised) " + d["cmd"])
            except (ValueError, KeyError):
                os.unlink(path)
        r = run_tlc(module, cfg, **kw)
        tmp = path + ".%d" % os.getpid()
        with open(tmp, "w") as f:
            json.dump({"ok": r.ok, "generated": r.generated, "distinct": r.distinct, "depth": r.depth, "violated": r.violated,
                       "emitted": r.emitted, "wall": r.wall, "out": r.out[-6000:] if (r.violated or not r.emitted) else "", "cmd": r.cmd}, f)
        os.replace(tmp, path)
        return r

    with ThreadPoolExecutor(max_workers=min(9, len(jobs))) as ex:
        return list(ex.map(one, jobs))


DEVIATIONS = [("Memo", "HistoryIndependent"), ("MemoSound", "MemoSound"), ("Sort", "DataUnchanged"), ("Node", "TemplateUnchanged"),
              ("Ctx", "ContextFresh"), ("CtxHist", "HistoryIndependent"), ("Rebind", "TemplateUnchanged"), ("RebindHist", "HistoryIndependent")]

EXHAUSTIVE = {
    "quick": [("pairs", "cfg/Process_quick_pairs.cfg", {}), ("core3", "cfg/Process_quick_core.cfg", {}), ("sweep", "cfg/Process_sweep.cfg", {}),
              ("impl3", "cfg/Process_quick_impl.cfg", {})],
    "thorough": [("full3", "cfg/Process_thorough_full.cfg", dict(workers=6)), ("core4", "cfg/Process_thorough_core.cfg", dict(workers=6)),
                 ("sweep2", "cfg/Process_thorough_sweep.cfg", dict(workers=4)), ("impl5", "cfg/Process_thorough_impl.cfg", {}),
                 ("sim8", "cfg/Process_sim.cfg", dict(simulate="num=400", depth=150))],     # + seed, from VERIF_SEED
}


# ---------------------------------------------------------------------------------------------------------------------------
def job_name(pool, ji):
    j = pool["jobs"][ji - 1]
    return "%s/%s/%s" % (j["t"], j["d"], j["e"])


def same_outcome(a, b):
    if "out" in a or "out" in b:
        return a.get("out") == b.get("out") and "out" in a and "out" in b
    return a.get("err") == b.get("err")


def check_pure(ck, fam, pool, ref, atoms):
    """The reference outcome of every job against F(job) as the specification printed it."""
    for i, job in enumerate(pool["jobs"]):
        for mode, r in zip(("sync", "async"), ref[i]):
            oc = r["rec"]["outcome"]
            pure = job["pure"]
            detail = {"job": job_name(pool, i + 1), "source": source_of(job["ops"]), "data": pool["data"][job["d"]], "env": pool["env"][job["e"]],
                      "mode": mode, "observed": oc, "specified": pure}
            opaque_may_raise = any(t[0] == "P" for t in pure)
            if pure == [["ERR"]]:
                if "err" not in oc:
                    ck.fail("a render the specification expects to fail produced output (alone, in a fresh process)", detail,
                            sig="pure:%s:%s:expected-error" % (fam, job_name(pool, i + 1)))
                continue
            if "err" in oc:
                if not opaque_may_raise:
                    ck.fail("a render alone in a fresh process raised " + oc["err"], detail, sig="pure:%s:%s:%s" % (fam, job_name(pool, i + 1), oc["err"]))
                continue
            parts = oc["out"].split(SEP)
            if len(parts) != len(pure):
                ck.fail("output of a render alone in a fresh process does not have one part per operation", detail,
                        sig="pure:%s:%s:shape" % (fam, job_name(pool, i + 1)))
                continue
            for k, (tok, txt) in enumerate(zip(pure, parts)):
                want = token_text(tok)
                if want is None:
                    key = json.dumps(tok)
                    if atoms.setdefault(key, txt) != txt:
                        ck.fail("two occurrences of the same opaque result differ in fresh processes", dict(detail, token=tok, texts=[atoms[key], txt]),
                                sig="pure:%s:%s:opaque" % (fam, tok[0]))
                elif want != txt:
                    ck.fail("fresh render differs from F(job): operation %d (%s) printed %r, specified %r" % (k + 1, job["ops"][k]["op"] if k < len(job["ops"]) else "partial", txt, want),
                            detail, sig="pure:%s:%s:%s" % (fam, job["t"], tok[0]))
            for k, what in (("data_changed", "DataUnchanged"), ("template_changed", "TemplateUnchanged"), ("str_changed", "TemplateUnchanged")):
                if r["rec"].get(k):
                    ck.fail(what + ": a render alone in a fresh process modified " + ("the data passed to it" if k == "data_changed" else "the parsed template"),
                            dict(detail, difference=r["rec"][k]), sig="%s:%s:%s" % (k.split("_")[0], fam, job["t"]))


def distinct_atoms(ck, atoms):
    """Non-vacuity of the value pool: values the specification calls observably different do print differently."""
    by = {}
    for key, txt in atoms.items():
        tok = json.loads(key)
        if tok[0] == "D":
            by.setdefault((tok[2], tok[3]), {})[tok[1]] = txt
    n = 0
    for (fmt, mode), m in by.items():
        reps = sorted(m)
        for i, a in enumerate(reps):
            for b in reps[i + 1:]:
                n += 1
                if m[a] == m[b]:
                    ck.fail("two values the pool treats as observably different print the same (vacuous pool)", {"a": a, "b": b, "text": m[a]},
                            sig="pool:indistinct:%s:%s" % (a, b))
    esc = {(json.loads(k)[1], json.loads(k)[2]): t for k, t in atoms.items() if json.loads(k)[0] == "D" and json.loads(k)[3] == "esc"}
    safe = {(json.loads(k)[1], json.loads(k)[2]): t for k, t in atoms.items() if json.loads(k)[0] == "D" and json.loads(k)[3] == "safe"}
    for k2 in set(esc) & set(safe):
        n += 1
        if esc[k2] == safe[k2]:
            ck.fail("escaped and safe date results print the same (vacuous pool)", {"key": k2, "text": esc[k2]}, sig="pool:indistinct:esc-safe")
    return n


def hows_for(jobs, variant):
    if variant == 0:
        return ["sync"] * len(jobs)
    if variant == 1:
        return ["async"] * len(jobs)
    return ["sync" if (i + variant) % 2 else "async" for i in range(len(jobs))]


def run(tier: str) -> int:
    fresh_repo_imports()
    ck = Check(PID, tier)
    rnd = random.Random(seed())
    # ---- model checking -----------------------------------------------------------------------------------------------
    runs = [(MODULE, cfg, dict(dict(workers=1, timeout=3000), **kw, **({"seed": seed() + 1} if "simulate" in kw else {}))) for _, cfg, kw in EXHAUSTIVE[tier]]
    deviations = [x for x in DEVIATIONS if tier == "thorough" or x[0] in ("Memo", "Sort", "Node", "Ctx", "Rebind")]
    devs = [(MODULE, f"cfg/Process_dev_{d}.cfg", dict(workers=1, timeout=600, expect_violation=True)) for d, _ in deviations]
    import time
    t0 = time.time()
    results = model_runs(runs + devs)
    ck.cov["wall_model_s"] = round(time.time() - t0, 1)
    histories = []
    pools = {}
    for (name, cfg, _kw), r in zip(EXHAUSTIVE[tier], results):
        ck.tlc(name, r)
        if r.violated:
            ck.fail(f"Process.tla {r.violated} violated in {cfg}", {"tlc": r.out[-3000:]})
            return ck.finish()
        pool = [x for x in r.emitted if x.get("kind") == "pool"]
        if len(pool) != 1:
            raise MachineryError(f"{cfg}: expected one pool record, got {len(pool)}")
        fam = pool[0]["family"]
        pools.setdefault(fam, pool[0])
        if pools[fam]["jobs"] != pool[0]["jobs"]:
            raise MachineryError("two runs disagree about the pool " + fam)
        hs = [x for x in r.emitted if x.get("kind") == "history"]
        if not hs:
            raise MachineryError(f"{cfg}: no history emitted (vacuous)")
        histories += [(fam, x) for x in hs]
    for (d, inv), r in zip(deviations, results[len(runs):]):
        ck.tlc("deviation_" + d, r)
        if r.violated != inv:
            raise MachineryError(f"deviation {d}: TLC was expected to refute {inv}, got {r.violated!r}")
    ck.cov["deviations_refuted"] = {d: inv for d, inv in deviations}
    _POOLS.update(pools)

    # ---- replay ----------------------------------------------------------------------------------------------------------
    seen = set()
    items = []
    for fam, hrec in histories:
        key = (fam, tuple(hrec["jobs"]))
        if key in seen:
            continue
        seen.add(key)
        pool = pools[fam]
        if hrec["res"] and hrec["res"] != [pool["jobs"][j - 1]["pure"] for j in hrec["jobs"]]:
            raise MachineryError("emitted history does not carry F(job) although HistoryIndependent held")
        n = len(hrec["jobs"])
        if n <= 2 and tier == "quick" or n <= 1:
            variants = [0, 1]                     # all sync, all async
        elif n == 2:
            variants = [0, 1, 2 + len(seen) % 2]  # + alternating
        else:
            variants = [len(seen) % 4]            # one of: sync, async, the two alternations
        for v in variants:
            items.append((fam, hrec["jobs"], hows_for(hrec["jobs"], v), hrec["conf"]))
    # histories in which the model sees two renders meet in process-wide state (the date memo) run isolated, each in a child
    # forked from a process that has rendered nothing - exactly the state Process.tla starts from; the others are replayed
    # back to back by 16 worker processes (their concatenation is one long history, which must not matter either)
    def process_wide(conf):
        return any("datekey" in c for cs in conf for c in cs)
    iso = [i for i, it in enumerate(items) if process_wide(it[3]) and (len(it[1]) <= 2 and set(it[2]) == {"sync"} if tier == "quick" else len(it[1]) <= 4)]
    ck.cov["histories_meeting_in_process_wide_state"] = len(iso)
    cap = 24 if tier == "quick" else 120          # (new processes are created one after the other by the pool: about a second each under load)
    if len(iso) > cap:
        iso = sorted(rnd.sample(iso, cap))
    isoset = set(iso)
    rest = [i for i in range(len(items)) if i not in isoset]
    rnd.shuffle(rest)
    per = max(8, min(80, len(rest) // 64 + 1))
    chunks = [rest[k:k + per] for k in range(0, len(rest), per)]
    res = [None] * len(items)
    t0 = time.time()
    # every job of the full pool alone (the core pool is a sub-pool: same jobs, looked up by name); the sweep jobs in two orders
    big = "full" if "full" in pools else "core"
    done = runner(pools, [big], [f for f in pools if f == "sweep"], [list(items[i][:3]) for i in iso], [[list(items[i][:3]) for i in ch] for ch in chunks])
    for i, r in zip(iso, done["isolated"]):
        res[i] = (r, "isolated")
    for ch, rr in zip(chunks, done["batches"]):
        for i, r in zip(ch, rr):
            res[i] = (r, "batched")
    ck.cov["wall_runner_s"] = round(time.time() - t0, 1)
    ref = done["ref"]
    byname = {job_name(pools[big], i + 1): row for i, row in enumerate(ref[big])}
    for f, p in pools.items():
        if f not in ref:
            try:
                ref[f] = [byname[job_name(p, i + 1)] for i in range(len(p["jobs"]))]
            except KeyError as ex:
                raise MachineryError("job of pool %s is not in pool %s: %s" % (f, big, ex))
    for fam, rows in ref.items():
        for i, row in enumerate(rows):
            for mode, r in zip(("sync", "async"), row):
                if "disagrees" in r:
                    ck.fail("HistoryIndependent: the same render gives two results in two orders of the sweep",
                            {"job": job_name(pools[fam], i + 1), "source": source_of(pools[fam]["jobs"][i]["ops"]), "mode": mode,
                             "forwards": r["rec"]["outcome"], "backwards": r["disagrees"]}, sig="history:%s:%s" % (fam, job_name(pools[fam], i + 1)))
    atoms: dict = {}
    for fam, pool in pools.items():
        check_pure(ck, fam, pool, ref[fam], atoms)
    ck.cov["opaque_results"] = len(atoms)
    ck.cov["distinct_value_pairs_confirmed"] = distinct_atoms(ck, atoms)
    ck.cov["replays_isolated"] = len(iso)
    ck.cov["replays_batched"] = len(rest)
    again = 0
    for (fam, jobs, hows, conf), ((recs, _), style) in zip(items, res):
        pool = pools[fam]
        touched = any(c for cs in conf for c in cs)
        ck.case((fam, tuple(jobs), tuple(hows)), nontrivial=touched)
        ck.validated()
        names = [job_name(pool, j) for j in jobs]
        base = {"family": fam, "tier": tier, "job_indexes": list(jobs), "history": names, "modes": hows, "replayed": style,
                "sources": [source_of(pool["jobs"][j - 1]["ops"]) for j in jobs],
                "data": [pool["data"][pool["jobs"][j - 1]["d"]] for j in jobs],
                "partials": {p: source_of(o) for p, o in pool["partials"].items()},
                "concrete_values": "see vf/props/c17.py value()/make_data()"}
        bad = [pos for pos, (ji, how, rec) in enumerate(zip(jobs, hows, recs))
               if not same_outcome(rec["outcome"], ref[fam][ji - 1][0 if how == "sync" else 1]["rec"]["outcome"])
               or rec.get("data_changed") or rec.get("template_changed") or rec.get("str_changed")]
        if bad and style == "batched" and again < 6:
            # attribute: does the history alone reproduce it, or did an earlier history of the same worker leave the state behind?
            again += 1
            recs2, _ = in_child(run_history, pool, jobs, hows)
            base["alone_this_history_gives"] = [r.get("outcome") for r in recs2]
        for pos in bad:
            ji, how, rec = jobs[pos], hows[pos], recs[pos]
            want = ref[fam][ji - 1][0 if how == "sync" else 1]["rec"]["outcome"]
            got = rec["outcome"]
            tch = sorted({c for cs in conf[pos] for c in cs}) if pos < len(conf) else []
            if not same_outcome(got, want):
                culprit = [names[q] for q in range(pos) if conf[pos][q]] or names[:pos]
                ck.fail("HistoryIndependent: render %d (%s, %s) gives a different result than the same render alone in a fresh process" % (pos + 1, names[pos], how),
                        dict(base, position=pos + 1, observed=got, alone=want, specified=pool["jobs"][ji - 1]["pure"], shares_state_with=culprit, touch=tch),
                        sig="history:%s:%s" % (fam, names[pos]))
            if rec.get("data_changed"):
                ck.fail("DataUnchanged: render %d (%s, %s) modified data the caller holds" % (pos + 1, names[pos], how),
                        dict(base, position=pos + 1, difference=rec["data_changed"]), sig="data:%s:%s" % (fam, pool["jobs"][ji - 1]["t"]))
            if rec.get("template_changed") or rec.get("str_changed"):
                ck.fail("TemplateUnchanged: render %d (%s, %s) modified a parsed template" % (pos + 1, names[pos], how),
                        dict(base, position=pos + 1, difference=rec.get("template_changed"), str_before_after=rec.get("str_changed")),
                        sig="template:%s:%s" % (fam, pool["jobs"][ji - 1]["t"]))
    # ---- samples, coverage -----------------------------------------------------------------------------------------------
    ck.cov["histories"] = {"distinct": len(seen), "replays": len(items),
                           "by_length": {str(n): sum(1 for k in seen if len(k[1]) == n) for n in sorted({len(k[1]) for k in seen})}}
    dev = results[len(runs)]
    lines = dev.out.splitlines()
    starts = [k for k, ln in enumerate(lines) if ln.startswith("/\\ hist =")]
    if starts:
        k = starts[-1]
        blk = [lines[k]]
        while k + 1 < len(lines) and not lines[k + 1].startswith("/\\ "):
            k += 1
            blk.append(lines[k].strip())
        ck.cov["counterexample_MemoKeyedByEquality"] = " ".join(blk)[:600] + "   (jobs 1, 2 = TD/dU/E0, TD/dP/E0: equal instants, two zones)"
    for fam, hrec in histories[:: max(1, len(histories) // 3)][:3]:
        ck.sample({"family": fam, "history": [job_name(pools[fam], j) for j in hrec["jobs"]], "specified": [pools[fam]["jobs"][j - 1]["pure"] for j in hrec["jobs"]],
                   "sources": [source_of(pools[fam]["jobs"][j - 1]["ops"]) for j in hrec["jobs"]]})
    ck.cov["rule"] = ("Process.tla: pool `full` of %d jobs = 14 templates (date; ten dates filling the memo; writer and reader of counters / assign+capture / cycle / "
                      "ifchanged / offset:continue / macros; array filters on a list that is also reachable as h.l; names shadowing data; include+render of a cached "
                      "partial; inheritance; with / tablerow / case / reversed loops; ternary syntax; a template the caller gets from the loader with its own globals and "
                      "one that includes it) x 8 data objects (x = equal instants in UTC, +01:00, dateutil UTC; 1, True, 1.0, Decimal(1); format a str or an equal Markup) "
                      "x 7 environments (plain, autoescape, non-caching loader + re-parsing, liquid.Template() kept / re-created, parse-time flags, other delimiters); "
                      "sub-pools `core` (13) and `impl` (5); histories by length %s; sweep family: 22 array-capable filters x 6 data shapes (int list, list of hashes, hash, "
                      "tuple, list with nil, nested lists). Every history is replayed in one process (sync, async, alternating); every render is compared with the same "
                      "render as the first and only render of a process forked from an idle, separately started interpreter (sync; the async reference comes from two "
                      "passes over all jobs, in opposite orders, in two such processes, which have to agree), and the data objects, node trees, template globals and "
                      "str(template) are digested after every render"
                      % (len(pools.get("full", pools.get("core"))["jobs"]), ck.cov["histories"]["by_length"]))
    ck.assumptions += [
        "the current time is excluded as the statement says: no job uses now/today (so the memoisation of 'now' | date, which keeps the first render's time for as long as the entry lives, is outside the claim)",
        "templates reloaded from changed sources are excluded: loader sources never change during a history",
        "two threads rendering the same BoundTemplate concurrently are out of scope; histories are sequential",
        "warnings (warn mode) are not part of the result; outcomes are output text or exception class",
        "data objects are dict / list / tuple / scalars / datetime; mappings whose __getitem__ has side effects (defaultdict), generators and drops are outside the family",
        "opaque results (date texts, {{ value }}, the 'pure' snippets) are only required to be a function of their arguments; results the model fixes (counters, cycle, ifchanged, assign/capture, loops, sort/reverse/uniq/concat, macros) are compared as text",
        "TLC results are memoised by the text of Process.tla and the cfg (they do not depend on the code under test)",
    ]
    filter_sweep(ck)
    return ck.finish()


def replay(path):
    """Re-run the history of a replay file: alone-in-a-fresh-process outcome of every render, then the history in one process."""
    fresh_repo_imports()
    d = json.load(open(path))["detail"]
    if "job_indexes" not in d:
        print(json.dumps(d, indent=1, default=str))
        return 0
    tier = d.get("tier", "quick")
    results = model_runs([(MODULE, cfg, dict(dict(workers=1, timeout=3000), **kw, **({"seed": seed() + 1} if "simulate" in kw else {}))) for _, cfg, kw in EXHAUSTIVE[tier]])
    pool = None
    for r in results:
        for x in r.emitted:
            if x.get("kind") == "pool" and x["family"] == d["family"]:
                pool = x
    if pool is None:
        raise MachineryError("pool %s not found" % d["family"])
    jobs, hows = d["job_indexes"], d["modes"]
    bad = 0
    recs, _ = in_child(run_history, pool, jobs, hows)
    for pos, (ji, how, rec) in enumerate(zip(jobs, hows, recs)):
        alone, _ = in_child(run_history, pool, [ji], [how])
        ok = same_outcome(alone[0]["outcome"], rec["outcome"]) and not any(rec.get(k) for k in ("data_changed", "template_changed", "str_changed"))
        bad += not ok
        print("render %d  %s  %s\n   source: %s\n   alone : %s\n   here  : %s%s" % (
            pos + 1, job_name(pool, ji), how, source_of(pool["jobs"][ji - 1]["ops"], pool["env"][pool["jobs"][ji - 1]["e"]]["delims"]),
            alone[0]["outcome"], rec["outcome"],
            "".join("\n   %s: %s" % (k, rec[k]) for k in ("data_changed", "template_changed", "str_changed") if rec.get(k))))
    print("VIOLATION reproduced" if bad else "no difference")
    return 1 if bad else 0


if __name__ == "__main__":
    if "--run" in sys.argv:
        _runner_main()
