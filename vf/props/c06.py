"""C06 — loop iteration limit bounds nested iteration (spec/LoopNest.tla)."""
from __future__ import annotations

import random

from ..core import Check, fresh_repo_imports, seed
from ..tlcrun import run_tlc, MachineryError
from .. import harness, par

PID = "C06"
MARK = "x"
YMARK = "y"


def concretize(prog, same=False, helper=False):
    """Abstract nest -> (root source, partial templates, data).  same: every loop uses the SAME variable name and loops of equal length
    iterate the same array, so that nested loops share their textual name (`v-b3`): the accounting must not depend on names."""
    templates = {}
    data = {f"a{i}": list(range(1, c["n"] + 1)) for i, c in enumerate(prog)}
    var = (lambda i: "v") if same else (lambda i: f"v{i}")
    arr_of = (lambda i: f"b{prog[i]['n']}") if same else (lambda i: f"a{i}")
    if same:
        data.update({f"b{c['n']}": list(range(1, c["n"] + 1)) for c in prog})

    def leaf(i, c):
        """the sibling of level i: a repeating construct whose body is the mark y"""
        sk, arr = c.get("sk", "none"), f"s{i}"
        if sk == "none":
            return ""
        data[arr] = list(range(1, c["sn"] + 1))
        if sk == "for":
            return f"{{% for w{i} in {arr} %}}{YMARK}{{% endfor %}}"
        if sk == "tablerow":
            return f"{{% tablerow w{i} in {arr} %}}{YMARK}{{% endtablerow %}}"
        templates[f"q{i}"] = YMARK
        return f"{{% include 'q{i}' for {arr} %}}" if sk == "incfor" else f"{{% render 'q{i}' for {arr} %}}"

    def build(i):
        if i == len(prog):
            return MARK
        k = prog[i]["k"]
        inner = leaf(i, prog[i]) + build(i + 1)
        if helper and k in ("for", "tablerow"):
            inner = f"{{% assign h{i} = {'forloop' if k == 'for' else 'tablerowloop'} %}}" + inner
        if k == "for":
            return f"{{% for {var(i)} in {arr_of(i)} %}}{inner}{{% endfor %}}"
        if k == "tablerow":
            return f"{{% tablerow {var(i)} in {arr_of(i)} %}}{inner}{{% endtablerow %}}"
        if k in ("incfor", "renderfor", "render", "include"):
            templates[f"p{i}"] = inner
            return {"incfor": f"{{% include 'p{i}' for {arr_of(i)} %}}", "renderfor": f"{{% render 'p{i}' for {arr_of(i)} %}}",
                    "render": f"{{% render 'p{i}' %}}", "include": f"{{% include 'p{i}' %}}"}[k]
        if k == "call":
            return f"{{% macro m{i} %}}{inner}{{% endmacro %}}{{% call m{i} %}}"
        raise MachineryError("unknown construct " + k)

    return build(0), templates, data


def replay_one(case):
    src, templates, data = concretize(case["prog"], same=bool(case.get("same")))
    env = harness.make_env(loop_limit=case["N"], templates=templates)
    res = []
    for how in ("sync", "async"):
        o = harness.run(env, src, data, how)
        if "out" in o:
            obs = {"status": "ok", "bodies": o["out"].count(MARK), "ybodies": o["out"].count(YMARK)}
        else:
            obs = {"status": o["err"], "bodies": -1, "liquid": o.get("liquid")}
        res.append((how, obs))
    return res


def signature(case, obs):
    kinds = "/".join(c["k"] + ("+" + c["sk"] if c.get("sk", "none") != "none" else "") for c in case["prog"])
    return f"nest:{kinds}:{obs['status']}"


def run(tier: str) -> int:
    fresh_repo_imports()
    ck = Check(PID, tier)
    rnd = random.Random(seed())
    ck.cov["rule"] = ("every chain (depth<=%s) of for/tablerow/include-for/render-for/render/include/call with lengths 0..3, "
                      "each under every limit adjacent to one of its prefix products (TLC enumerates; LoopNest.tla gives the "
                      "expected status and number of innermost block executions); rendered sync and async; distinct = distinct "
                      "(program, limit); non-trivial = depth>=2") % ("3" if tier == "quick" else "4")
    from ..tlcrun import run_many
    jobs = [("LoopNest", f"cfg/LoopNest_{tier}.cfg", dict(workers=1, timeout=7000)),
            ("LoopNest", f"cfg/LoopNest_{tier}_sib.cfg", dict(workers=1, timeout=7000))]
    names = [tier, tier + "_sib"]
    if tier == "thorough":      # depth 4 runs over lengths {0,2,3}; the full length set at depth 3 comes from the quick configuration
        jobs.append(("LoopNest", "cfg/LoopNest_quick.cfg", dict(workers=1, timeout=7000)))
        names.append("quick(depth 3, all lengths)")
    rs = run_many(jobs)
    cases = []
    for name, r in zip(names, rs):
        ck.tlc("LoopNest_" + name, r)
        if r.violated:
            ck.fail(f"LoopNest.tla invariant {r.violated} violated in the model", {"tlc": r.out[-3000:]})
            return ck.finish()
        cases += r.emitted
    dev = run_tlc("LoopNest", "cfg/LoopNest_deviation.cfg", workers=4, timeout=600, expect_violation=True)
    if not dev.violated:
        raise MachineryError("deviation config does not violate MechanismTracksNest: model is vacuous")
    ck.cov["deviation_demo"] = "Deviations={tablerow,incfor,renderfor} violates " + dev.violated
    if tier == "thorough":
        # add sampled larger lengths / limits (quantifier: lengths 0..12, limits 1..200), expectations by the same rule
        cases = cases + _large_cases(rnd, 20000)
        if len(cases) > 400000:
            cases = rnd.sample(cases, 400000)
    elif len(cases) > 50000:
        cases = rnd.sample(cases, 50000)
    for i, c in enumerate(cases):
        c["same"] = i % 2         # every second nest: one loop variable name, equal lengths share their array
    results = par.pmap(replay_one, cases)
    for case, res in zip(cases, results):
        for how, obs in res:
            ck.case((str(case["prog"]), case["N"], how), nontrivial=len(case["prog"]) >= 2)
            ck.validated()
            exp_status, exp_bodies = case["status"], case["bodies"]
            bad = None
            if obs["status"] != exp_status:
                bad = f"status {obs['status']} but LoopNest.tla requires {exp_status}"
            elif exp_status == "ok" and obs["bodies"] != exp_bodies:
                bad = f"{obs['bodies']} block executions, LoopNest.tla requires {exp_bodies}"
            elif exp_status == "ok" and obs["ybodies"] != case.get("ybodies", 0):
                bad = f"{obs['ybodies']} sibling block executions, LoopNest.tla requires {case.get('ybodies', 0)}"
            if bad:
                src, templates, data = concretize(case["prog"], same=bool(case.get("same")))
                ck.fail(bad, {"case": case, "mode": how, "observed": obs, "source": src, "partials": templates, "data": data},
                        sig=signature(case, obs))
    for c in cases[:: max(1, len(cases) // 4)][:4]:
        src, templates, _ = concretize(c["prog"])
        ck.sample({"prog": c["prog"], "N": c["N"], "expected": [c["status"], c["bodies"]], "source": src, "partials": templates})
    ck.assumptions += ["lengths 0..3 exhaustively (thorough adds sampled lengths up to 12 and limits up to 200)",
                       "innermost block executions are counted from the output marks"]
    return ck.finish()


def _large_cases(rnd, n):
    """Sampled members of the same family outside TLC's exhaustive bounds; expectation by LoopNest's rule
    (error at the first prefix whose product exceeds N, else product of all lengths)."""
    kinds = ["for", "tablerow", "incfor", "renderfor", "render", "include", "call"]
    out = []
    while len(out) < n:
        d = rnd.randint(1, 4)
        prog = []
        copied = False
        for _ in range(d):
            k = rnd.choice(kinds)
            if copied and k in ("incfor", "include"):
                k = "for"
            if k in ("renderfor", "render", "call"):
                copied = True
            prog.append({"k": k, "n": rnd.randint(0, 12) if k in ("for", "tablerow", "incfor", "renderfor") else 1,
                         "sk": "none", "sn": 0})
        prods, p = [], 1
        for c in prog:
            p *= c["n"]
            prods.append(p)
        N = max(1, min(200, rnd.choice(prods) + rnd.choice([-1, 0, 1, 5])))
        status, bodies, p = "ok", 0, 1
        for c in prog:
            if c["n"] == 0:
                p = 0
                break
            p *= c["n"]
            if p > N:
                status = "LoopIterationLimitError"
                break
        if status == "ok":
            bodies = p
        out.append({"prog": prog, "N": N, "status": status, "bodies": bodies, "ybodies": 0})
    return out


def replay(path):
    import json
    fresh_repo_imports()
    d = json.load(open(path))["detail"]
    print(json.dumps(replay_one(d["case"]), indent=1))
    return 0
