"""C14, second half: spec/Paths.tla — every path of <= MaxSegs segments over a fixed nested data tree."""
from __future__ import annotations

from ..tlcrun import run_tlc
from .. import harness, par

DATA = {"d": {"x": {"y": "dxy", "z z": "dxzz", "l": ["dxl0", "dxl1"]},
              "l": ["dl0", ["dl10", "dl11"], {"x": "dl2x"}], "s": "str", "e": []},
        "kx": "x", "i1": 1, "q": {"r": "l"}}


def seg_src(seg, variant):
    t = seg["t"]
    if t == "key":
        k = seg["k"]
        if " " in k or variant % 3 == 1:
            return f'["{k}"]'
        if variant % 3 == 2:
            return f"['{k}']"
        return "." + k
    if t == "idx":
        return f"[{seg['i']}]"
    if t == "special":
        return "." + seg["k"] if variant % 2 == 0 else f'["{seg["k"]}"]'
    return {"kx": "[kx]", "i1": "[i1]", "qr": "[q.r]" if variant % 2 == 0 else '[q["r"]]', "um": "[um]"}[seg["name"]]


def concretize(case, variant):
    path = "d" + "".join(seg_src(s, variant) for s in case["path"])
    if variant % 4 == 3:
        return path, f"{{% assign zz = {path} %}}<{{{{ zz }}}}>"
    return path, f"<{{{{ {path} }}}}>"


def replay_one(job):
    case, variant = job
    path, src = concretize(case, variant)
    exp = case["result"]
    res = []
    for und in ("Undefined", "StrictUndefined"):
        env = harness.make_env(undefined=und)
        for how in ("sync", "async"):
            o = harness.run(env, src, DATA, how)
            why = None
            if exp["kind"] == "undef":
                if und == "Undefined" and o.get("out") != "<>":
                    why = f"missing path printed {o.get('out', o.get('err'))!r}, must resolve to the undefined value"
                if und == "StrictUndefined" and o.get("err") != "UndefinedError":
                    why = f"missing path under StrictUndefined: {o.get('out', o.get('err'))!r}, UndefinedError expected"
            elif exp["kind"] in ("str", "int"):
                if o.get("out") != f"<{exp['v']}>":
                    why = f"path printed {o.get('out', o.get('err'))!r}, specification says {exp['v']!r}"
            else:
                if "out" not in o:
                    why = f"path to a container printed {o.get('out', o.get('err'))!r}"
            if why:
                res.append((und, how, why))
    return path, src, res


def run_paths(ck, tier):
    r = run_tlc("Paths", f"cfg/Paths_{tier}.cfg", workers=1, timeout=1800)
    ck.tlc("Paths_" + tier, r)
    if r.violated:
        ck.fail(f"Paths.tla {r.violated} violated", {"tlc": r.out[-3000:]})
        return
    cases = [c for c in r.emitted if not c["unspec"]]
    ck.cov["paths_unspecified_skipped"] = len(r.emitted) - len(cases)
    jobs = [(c, (i + k) % 12) for i, c in enumerate(cases) for k in range(2 if tier == "quick" else 3)]
    for (case, variant), (path, src, res) in zip(jobs, par.pmap(replay_one, jobs, chunk=128)):
        ck.case(("path", path, variant), nontrivial=len(case["path"]) > 0)
        ck.validated()
        for und, how, why in res:
            ck.fail(why, {"path": path, "source": src, "data": DATA, "undefined": und, "mode": how, "expected": case["result"]},
                    sig="path:" + "/".join(s["t"] + ":" + str(s.get("k", s.get("i", s.get("name")))) for s in case["path"][-2:]))
            break
    if cases:
        c = cases[len(cases) // 2]
        ck.sample({"path": concretize(c, 0)[0], "expected": c["result"]})
