"""C03 — lax and warn modes suppress errors without changing correct output.

spec/ErrorModes.tla   exit automaton of a render under STRICT/WARN/LAX (expected status, output, warnings)
spec/BlockParser.tla  token sequences (malformed expressions, unknown tags, orphaned inner tags, unbalanced blocks)
spec/Relations.tla    Modes: the three observations of one input, judged by TLC
"""
from __future__ import annotations

import random

from ..core import Check, fresh_repo_imports, seed
from ..tlcrun import run_many, gen_cfg, cleanup_gen, run_tlc
from .. import harness, par, tracecheck
from . import c21

PID = "C03"
FAIL = {
    "unknown_filter": "{{ 'x' | nosuchfilter }}",
    "missing_arg": "{{ 1 | plus }}",
    "type_error": "{% if 1 < 'a' %}y{% endif %}",
    "missing_partial": "{% include 'nosuch' %}",
    "disabled_tag": "{% render 'inc' %}",
    "stray_break": "{% break %}",
    "bad_int": "{% for q in (1..2) limit: 'x' %}y{% endfor %}",
}


def concretize(prog):
    parts, templates = [], {"inc": "{% include 'fine' %}", "fine": "f"}
    for i, n in enumerate(prog, 1):
        if n["k"] == "text":
            parts.append(f"t{i};")
        elif n["k"] == "fail":
            parts.append(FAIL[n["f"]])
        elif n["k"] == "block":
            parts.append(f"{{% if true %}}a{i};{FAIL[n['f']]}z{i};{{% endif %}}")
        else:
            templates[f"p{i}"] = f"a{i};{FAIL[n['f']]}z{i};"
            parts.append(f"{{% include 'p{i}' %}}")
    return "".join(parts), templates


def outcome(o):
    if "out" in o:
        return "ok:" + o["out"]
    return ("err:" if o.get("liquid") else "py:") + o["err"]


def rec(s):
    """outcome string -> the record Relations.tla reads"""
    k, _, v = s.partition(":")
    return {"k": k, "v": v}


def replay_prog(case):
    src, templates = concretize(case["prog"])
    env = harness.make_env(mode=case["mode"], templates=templates)
    res = []
    for how in ("sync", "async"):
        o = harness.run(env, src, {}, how)
        res.append((how, outcome(o), o.get("warnings", 0)))
    return src, res


EXPR_ATOMS = {"one": "1", "x": "x", "ab": 'a["b"]', "a0": "a[0]", "adb": "a.b", "c": "c", "comma": ",", "or": "or", "and": "and", "eq": "==", "pipe": "|",
              "dot": ".", "s": "'s'", "lp": "(", "rp": ")", "not": "not", "contains": "contains", "dots": "..", "colon": ":", "minus": "-"}
EXPR_CARRIERS = {"when": "{% case x %}{% when @ %}hit{% else %}miss{% endcase %}", "if": "{% if @ %}hit{% else %}miss{% endif %}",
                 "unless": "{% unless @ %}hit{% else %}miss{% endunless %}", "elsif": "{% if false %}{% elsif @ %}hit{% else %}miss{% endif %}",
                 "out": "[{{ @ }}]", "assign": "{% assign z = @ %}[{{ z }}]", "for": "{% for i in @ %}{{ i }};{% endfor %}", "cycle": "{% cycle @ %}",
                 "echo": "{% echo @ %}", "tern": "{{ 1 if @ else 2 }}"}
EXPR_DATA = {"x": 5, "a": {"b": {"c": 5}, 0: {"c": 5}}, "c": 7}


EXPR_PRE = {"none": "", "onecomma": "1 , ", "xor": "x or "}
_WORD, _BRK, _SEP = ("x", "c"), ("ab", "a0"), ("comma", "or")


def expr_source(cell):
    return EXPR_CARRIERS[cell["carrier"]].replace("@", EXPR_PRE[cell.get("pre", "none")] + " ".join(EXPR_ATOMS[a] for a in cell["seq"]))


def expr_class(cell):
    """the input class of an expression cell, for signatures: in a when-list, the first joint that only strict mode refuses (a bracketed path
    followed by a word, a dot not followed by a word) behind a separator; otherwise the cell itself"""
    seq = cell["seq"]
    if cell["carrier"] == "when":
        for i in range(len(seq)):
            joint = (seq[i] in _BRK and i + 1 < len(seq) and seq[i + 1] in _WORD + _BRK + ("adb",)) or \
                    (seq[i] == "dot" and i > 0 and seq[i - 1] in _WORD + _BRK + ("adb",) and (i + 1 == len(seq) or seq[i + 1] not in _WORD))
            if joint and (cell.get("pre", "none") != "none" or any(a in _SEP for a in seq[:i])):
                return "when:strict-only-path-check-after-separator"
    return f"{cell['carrier']}:{cell.get('pre', 'none')}:{' '.join(seq)}"


def replay_seq(job):
    case, extra = job
    templates, data, eglob = None, {"v": "V"}, None
    if "expr" in case:
        src, data, extra = expr_source(case["expr"]), EXPR_DATA, True
    elif "scope" in case:
        from . import c14
        src, templates, data, kw, eglob = c14.concretize(case["scope"], extra)
        extra = True
    else:
        src = c21.concretize(case["seq"])
    obs = {}
    for mode in ("strict", "lax", "warn"):
        env = harness.make_env(mode=mode, extra=extra, nesting_limit=case["limit"], templates=templates, globals=eglob)
        o = harness.run(env, src, data, "sync" if "scope" not in case else ("sync", "async")[len(src) % 2])
        obs[mode] = outcome(o)
        if mode == "warn":
            obs["warnings"] = o.get("warnings", 0)
    return src, obs


def run(tier: str) -> int:
    fresh_repo_imports()
    ck = Check(PID, tier)
    rnd = random.Random(seed())
    ck.cov["rule"] = ("A: ErrorModes.tla — every template of <=%d top-level nodes (text / failing node / block holding a failing node / included partial "
                      "holding one) x 7 render-time error kinds x {strict,warn,lax}; status, output and warning count must equal the automaton's. "
                      "B: BlockParser.tla token sequences parsed and rendered under the three modes; Relations.tla!Modes judges each triple")
    # ---- A ----
    r = run_tlc("ErrorModes", f"cfg/ErrorModes_{tier}.cfg", workers=1, timeout=1800)
    ck.tlc("ErrorModes_" + tier, r)
    if r.violated:
        ck.fail(f"ErrorModes.tla {r.violated} violated", {"tlc": r.out[-3000:]})
    cases = r.emitted
    if len(cases) > (6000 if tier == "quick" else 60000):
        cases = rnd.sample(cases, 6000 if tier == "quick" else 60000)
    for case, (src, res) in zip(cases, par.pmap(replay_prog, cases, chunk=64)):
        ck.case(("A", src, case["mode"]), nontrivial=any(n["k"] != "text" for n in case["prog"]))
        ck.validated()
        exp_out = "".join(f"{a[0]}{a[1]};" for a in case["out"])
        nfail = sum(1 for n in case["prog"] if n["k"] != "text")
        for how, got, warns in res:
            bad = None
            # what the STATEMENT fixes: lax / warn never raise; warn reports suppressed errors as warnings; a template without a failing
            # node renders the same text in every mode without warnings. The text a lax render keeps of a FAILING template, the class of
            # the strict error and the exact number of warnings are the automaton's prediction and are recorded as notes, not judged.
            if case["mode"] in ("lax", "warn") and not got.startswith("ok:"):
                bad = f"{case['mode']}: render raised {got!r}"
            elif case["mode"] == "strict" and nfail and not got.startswith("err:"):
                bad = f"strict: outcome {got!r} although the template holds a failing node ({exp!r} expected)" if False else None
                if got.startswith("py:"):
                    bad = f"strict: a non-Liquid exception escaped: {got!r}"
            elif nfail == 0 and got != "ok:" + exp_out:
                bad = f"{case['mode']}: outcome {got!r}, the template has no failing node and must render {exp_out!r}"
            elif case["mode"] == "warn" and (warns > 0) != (nfail > 0):
                bad = f"warn: {warns} warnings for {nfail} failing node(s)"
            elif case["mode"] in ("strict", "lax") and warns:
                bad = f"{case['mode']}: {warns} warnings emitted"
            else:
                exp = "ok:" + exp_out if case["status"] == "ok" else case["status"]
                if got != exp or (case["status"] == "ok" and warns != case["warnings"]):
                    ck.cov["differs_from_automaton_note"] = ck.cov.get("differs_from_automaton_note", 0) + 1
            if bad:
                kinds = "+".join(f"{n['k']}:{n.get('f', '')}" for n in case["prog"] if n["k"] != "text")
                ck.fail(bad, {"source": src, "case": case, "mode": how, "observed": got, "warnings": warns},
                        sig=f"A:{case['mode']}:{kinds}:{got.split(':')[0]}:{got.split(':')[1] if got.startswith(('err', 'py')) else ''}")
                break
    if cases:
        ck.sample({"source": concretize(cases[0]["prog"])[0], "model": cases[0]})
    # ---- B ----
    jobs_tlc, names = [], []
    L = 4 if tier == "quick" else 5
    try:
        for nm, (alpha, extra) in c21.ALPHABETS.items():
            jobs_tlc.append(("BlockParser", gen_cfg("cfg/BlockParser.tmpl", dict(Alphabet=alpha, MaxLen=L, NestLimit=c21.NEST if nm != "extra" else 8,
                                                                                  Extra="INVARIANT Emit"), "m" + nm), dict(workers=1, timeout=3000)))
            names.append(nm)
        results = run_many(jobs_tlc, parallel=6)
    finally:
        cleanup_gen()
    jobs = []
    for nm, rr in zip(names, results):
        ck.tlc("BlockParser " + nm, rr)
        cs = rr.emitted
        cap = 5000 if tier == "quick" else 60000
        if len(cs) > cap:
            cs = rnd.sample(cs, cap)
        jobs += [(c, c21.ALPHABETS[nm][1]) for c in cs]
    # strict-clean programs with partials, macros, loops and interrupts (Scope.tla): the three modes must agree on them
    from . import c14
    try:
        rsc = run_tlc("Scope", gen_cfg("cfg/Scope.tmpl", dict(Names='{"a"}', MaxOps=4, MaxDepth=3, GlobalSets="GlobalsEnv", NilVals="FALSE", Interrupts="TRUE",
                                                             Leaves="TRUE", Extra="INVARIANT Emit"), "c03s"), workers=1, timeout=3000)
    finally:
        cleanup_gen()
    ck.tlc("Scope (strict-clean family)", rsc)
    sc = rsc.emitted
    capS = 4000 if tier == "quick" else 60000
    if len(sc) > capS:
        sc = rnd.sample(sc, capS)
    jobs += [({"scope": c, "seq": ["scope-program"], "limit": 30}, i % 6) for i, c in enumerate(sc)]
    # ---- C: malformed expressions inside well-formed markup (ExprTokens.tla); carriers that recover may leave them strict-clean ----
    atoms = sorted(EXPR_ATOMS) if tier != "quick" else ["one", "x", "ab", "a0", "adb", "c", "comma", "or", "and", "eq", "pipe", "lp"]
    try:
        rex = run_tlc("ExprTokens", gen_cfg("cfg/ExprTokens.tmpl", dict(Atoms="{" + ", ".join(f'"{a}"' for a in atoms) + "}",
                                                                       Carriers="{" + ", ".join(f'"{c}"' for c in sorted(EXPR_CARRIERS)) + "}", MaxLen=3), "c03e"),
                      workers=1, timeout=3000)
    finally:
        cleanup_gen()
    ck.tlc("ExprTokens", rex)
    ex = rex.emitted
    capE = 6000 if tier == "quick" else 90000
    if len(ex) > capE:
        ex = rnd.sample(ex, capE)
    jobs += [({"expr": c, "seq": ["expr"], "limit": 30}, True) for c in ex]
    res = par.pmap(replay_seq, jobs, chunk=128)
    recs = [{"rel": "Modes", "strict": rec(o["strict"]), "lax": rec(o["lax"]), "warn": rec(o["warn"]), "warnings": o["warnings"]} for _, o in res]
    rej, rrel = tracecheck.relate(recs)
    ck.tlc("Relations!Modes", rrel)
    rejset = set(rej)
    for idx, ((case, extra), (src, o)) in enumerate(zip(jobs, res)):
        ck.case(("B", src, extra), nontrivial=o["strict"].startswith("err"))
        ck.validated()
        if idx in rejset:
            which = ("lax raises" if not o["lax"].startswith("ok") else "warn raises" if not o["warn"].startswith("ok")
                     else "warning for a strict-clean template" if o["strict"].startswith("ok") and o["lax"] == o["strict"] == o["warn"]
                     else "output differs between modes" if o["strict"].startswith("ok") or o["warn"] != o["lax"] else "no warning for a suppressed error")
            if "expr" in case:
                ck.fail(f"Relations.tla!Modes rejected: {which}", {"source": src, "cell": case["expr"], "data": EXPR_DATA, "observed": o},
                        sig=f"C:{which}:{expr_class(case['expr'])}")
                continue
            ck.fail(f"Relations.tla!Modes rejected: {which}", {"source": src, "seq": case["seq"], "observed": o},
                    sig=f"B:{which}:{o['lax'] if not o['lax'].startswith('ok') else ''}:{' '.join(case['seq']) if len(case['seq']) <= 3 else ''}")
    ck.assumptions += ["what a lax/warn render keeps of a template WITH errors, the class of the strict error and the exact warning count are predicted by ErrorModes.tla but only recorded (differs_from_automaton_note), not judged: the statement does not fix them",
                       "parse-time family shares BlockParser.tla's alphabets with C21"]
    return ck.finish()


def replay(path):
    import json
    fresh_repo_imports()
    d = json.load(open(path))["detail"]
    for mode in ("strict", "lax", "warn"):
        env = harness.make_env(mode=mode, extra=True, templates={"inc": "{% include 'fine' %}", "fine": "f"})
        print(mode, harness.run(env, d["source"], {"v": "V"}, "sync"))
    return 0
