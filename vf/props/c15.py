"""C15 — rendered partials and macros are isolated from their caller (spec/Scope.tla: Isolation, CallerUnaffected,
IncludeDisabledInsideRender).  Same family and replay as C14, restricted to programs that contain a render tag or a
macro call; a disagreement is reported here when it is observed inside such a construct or at its close."""
from __future__ import annotations

from ..core import Check, fresh_repo_imports
from . import c14

PID = "C15"


def run(tier: str) -> int:
    fresh_repo_imports()
    ck = Check(PID, tier)
    ck.cov["rule"] = ("Scope.tla restricted to programs with at least one render tag (with/without argument, keyword / `with .. as` / `for .. as` forms) or "
                      "macro call, around and inside which the caller binds the same names through for, tablerow, with, include, assign, capture, "
                      "increment, decrement; TLC checks Isolation (no read inside is answered by the caller's locals or pushed namespaces), "
                      "CallerUnaffected (after the close every name reads as before; the callee's context is discarded) and that include is "
                      "refused inside; each program rendered sync+async, every read inside and after the construct compared")
    cases, bad = c14.scope_family(ck, tier, only_copy=True)
    c14.report(ck, bad, only_copy=True)
    for c in cases[:: max(1, len(cases) // 3)][:3]:
        s, tm, d, kw, eg = c14.concretize(c, 0)
        ck.sample({"glob": c["glob"], "source": s, "partials": tm, "data": d})
    ck.assumptions += ["a name bound only as the argument of an ENCLOSING render, read from a nested render, is unspecified (not compared)",
                       "partials come from a DictLoader; macros are defined immediately before their call"]
    return ck.finish()


def replay(path):
    return c14.replay(path)
