"""C05 — autoescape keeps render data from injecting HTML.

spec/Taint.tla       the mechanism (what every built-in string/array filter, capture, join and the output statement do to the
                     characters of a value and to its "marked safe" flag; the date filter's process-wide memo) for one render with
                     autoescape on and, in lock step, off; invariants SafeIsClean, SafeHasNoRawData, OutputClean,
                     OutputHasNoRawData, MarkupUnchanged, NoSpecialNoChange; the family (source x chain x sinks x data strings)
                     and, per case, the obligations the real output has to meet
spec/TaintChars.tla  the character predicates (special, escape sequence, clean)
spec/TaintTrace.tla  judges what the real engine did: every string flagged safe that a filter received or returned, every output,
                     every (on, off) pair -- Python only records, TLC decides
"""
from __future__ import annotations

import asyncio
import functools
import json
import random
import re

from ..core import Check, fresh_repo_imports, seed
from ..tlcrun import MachineryError, SPEC, TLCResult, run_tlc, scratch_dir
from .. import harness, par

PID = "C05"

# ---- concretisation: abstract atoms / argument codes / sources / sinks -> Liquid ------------------------------------------
ATOM = {"x": "x", "lt": "<", "gt": ">", "amp": "&", "dq": '"', "sq": "'", "elt": "&lt;", "eamp": "&amp", "pct": "%3C"}


def datum(d):
    return "".join(ATOM[a] for a in d)


def arg_text(code):
    if code == "D":
        return "d"
    if code == "A":
        return "arr"
    if code.startswith("#"):
        return code[1:]
    return "'" + code + "'"


def chain_text(chain, first=" | "):
    out = []
    for i, f in enumerate(chain):
        out.append((first if i == 0 else " | ") + f["f"] + (": " + ", ".join(arg_text(a) for a in f["a"]) if f["a"] else ""))
    return "".join(out)


# source -> (what has to run before, the expression the chain is applied to)
SRC = {
    "data": ("", "d"),
    "cap": ("{% capture s %}{{ d }}{% endcapture %}", "s"),
    "capx": ("{% capture s %}x{{ d }}y{% endcapture %}", "s"),
    "arr": ("", "arr"),
    "hash": ("", "hh"),
    "lit": ("", "'x'"),
    "zero": ("", "0"),
    "nil": ("", "nosuch"),
    "markup": ("", "m"),
    "html": ("", "h"),
    "super": ("", "block.super"),
}
VIA = "{% assign r = E %}"
SINK = {
    "out": "{{ E }}",
    "echo": "{% echo E %}",
    "liquid": "{% liquid\necho E\n%}",
    "assign": VIA + "{{ r }}",
    "capture": "{% capture r %}{{ E }}{% endcapture %}{{ r }}",
    "cycle": VIA + "{% cycle r, r %}",
    "for": VIA + "{% for i in r %}{{ i }}{% endfor %}",
    "if": "{% if true %}{{ E }}{% endif %}",
    "unless": "{% unless false %}{{ E }}{% endunless %}",
    "case": "{% case 1 %}{% when 1 %}{{ E }}{% endcase %}",
    "ifchanged": "{% ifchanged %}{{ E }}{% endifchanged %}",
    "render": VIA + "{% render 'p', a: r %}",
    "include": VIA + "{% include 'p', a: r %}",
    "renderwith": VIA + "{% render 'p' with r as a %}",
    "includefor": VIA + "{% include 'p' for r as a %}",
    "translate": VIA + "{% translate a: r %}{{ a }}{% endtranslate %}",
    "translateplural": VIA + "{% translate count: 2, a: r %}one{% plural %}{{ a }}{% endtranslate %}",      # the variable occurs in the plural message only
    "tfilter": VIA + "{{ '%(a)s' | t: a: r }}",
    "tfilterplural": VIA + "{{ 'one' | t: plural: '%(a)s', count: 2, a: r }}",
    "ternary": "{{ E if true else 'y' }}",
    "ternaryelse": "{{ 'y' if false else E }}",
    "ternarytail": None,        # {{ X if true else 'y' || chain }}
    "with": VIA + "{% with a: r %}{{ a }}{% endwith %}",
    "macro": "{% macro mm a %}{{ a }}{% endmacro %}" + VIA + "{% call mm r %}",
    "super": None,              # the expression is printed by the parent's block, the child prints block.super
}


def concretize(case, sink):
    """-> (main source, {extra template name: source})"""
    pre, x = SRC[case["src"]]
    e = x + chain_text(case["chain"])
    if sink == "ternarytail":
        body = "{{ " + x + " if true else 'y'" + chain_text(case["chain"], " || ") + " }}"
    elif sink == "super":
        base = pre + "{% block b %}{{ " + e + " }}{% endblock %}"
        name = "B%x" % (hash(base) & 0xFFFFFFFFFF)
        return "{% extends '" + name + "' %}{% block b %}{{ block.super }}{% endblock %}", {name: base}
    else:
        body = SINK[sink].replace("E", e)
    if case["src"] == "super":
        base = "{% block b %}{{ d }}{% endblock %}"
        return "{% extends 'BS' %}{% block b %}" + pre + body + "{% endblock %}", {"BS": base}
    return pre + body, {}


class SafeHTML:
    """An object that marks itself safe the documented way."""

    def __init__(self, text):
        self.text = text

    def __html__(self):
        return self.text

    def __str__(self):
        return self.text


def render_data(d, suffix=""):
    from markupsafe import Markup
    s = datum(d) + suffix
    return {"d": s, "arr": [s, "x"], "hh": [{"k": s}], "m": Markup(s), "h": SafeHTML(s)}


# ---- the engine, with every built-in filter application recorded -----------------------------------------------------------
_LOG: list = []
_ENV: dict = {}


def _recording(name, fn):
    @functools.wraps(fn)
    def rec(*a, **kw):
        r = fn(*a, **kw)
        _LOG.append((name, a, r))
        return r
    return rec


def _make_env(ae):
    env = harness.make_env(autoescape=ae, templates={"p": "{{ a }}"}, flags=("ternary_expressions",))
    if ae:
        import types
        for name, fn in list(env.filters.items()):
            if isinstance(fn, types.FunctionType):
                env.filters[name] = _recording(name, fn)
    return env


def _env(ae, fresh=False):
    if fresh:
        return _make_env(ae)
    if ae not in _ENV:
        _ENV[ae] = _make_env(ae)
    return _ENV[ae]


_LOOP: list = []


def _outcome(t, data, how):
    try:
        if how == "sync":
            return True, t.render(**data)
        if not _LOOP:
            _LOOP.append(asyncio.new_event_loop())      # one loop per worker process (asyncio.run would build one per render)
        return True, _LOOP[0].run_until_complete(t.render_async(**data))
    except Exception as e:          # noqa: BLE001 - which error is C02's business; here an error is "no output"
        return False, type(e).__name__


def _safe_strings(x, acc):
    from markupsafe import Markup
    if isinstance(x, Markup):
        acc.add(str(x))
    elif isinstance(x, (list, tuple)):
        for i in x:
            _safe_strings(i, acc)


def _flags(x):
    from markupsafe import Markup
    if isinstance(x, str):
        return [isinstance(x, Markup)]
    if isinstance(x, (list, tuple)):
        return [isinstance(i, Markup) for i in x]
    if isinstance(x, dict):
        return [False]
    return []


_CASES: list = []
_DATA: dict = {}


def replay_chunk(job):
    """job: (case indexes, per-case limit on data strings of the longest length, rng seed).
    Returns the distinct observations of the chunk, each with one witness (case, sink, datum, how)."""
    from markupsafe import Markup
    idxs, sample, sd = job
    rnd = random.Random(sd)
    obs = {"safe": {}, "out": {}, "unchanged": {}, "sameoff": {}}
    stats = {"renders": 0, "errors": 0, "steps": 0, "flag_agree": 0, "flag_disagree": []}
    for ci in idxs:
        case = _CASES[ci]
        strings = _DATA["special"] if case["cls"] == "special" else [case["data"]]
        if sample and len(strings) > sample:
            longest = max(len(d) for d in strings)
            long_ones = [d for d in strings if len(d) == longest]
            strings = [d for d in strings if len(d) < longest] + rnd.sample(long_ones, min(sample, len(long_ones)))
        primed = case["hist"] == "primed"
        for sink in case["sinks"] + case["shortsinks"]:
            src, extra = concretize(case, sink)
            data_strings = strings if sink in case["sinks"] else [d for d in strings if len(d) <= 1]
            envs = {}
            for ae in ((True, False) if case["sameoff"] else (True,)):
                env = _env(ae, fresh=primed)
                env.loader.templates.update(extra)
                envs[ae] = (env, env.from_string(src))
            prime = None
            if primed:
                # history: an earlier render in this process applied the same chain to the same text marked safe
                # (date: used it as the format string)
                prime = "{{ 0 | date: m }}" if case["src"] == "zero" else "{{ m" + chain_text(case["chain"]) + " }}"
            for d in data_strings:
                data = render_data(d, "z" if primed else "")
                s = data["d"]
                for how in ("sync", "async"):
                    wit = (ci, sink, d, how)
                    if primed:
                        for ae, (env, _) in envs.items():
                            _outcome(env.from_string(prime), data, how)
                    del _LOG[:]
                    ok, out = _outcome(envs[True][1], data, how)
                    stats["renders"] += 1
                    if not ok:
                        stats["errors"] += 1
                    if case["clean"]:
                        if ok:
                            obs["out"].setdefault(out, wit)
                        acc = set()
                        for name, a, r in _LOG:
                            _safe_strings(a, acc)
                            _safe_strings(r, acc)
                        for t in acc:
                            obs["safe"].setdefault(t, wit)
                    stats["steps"] += len(_LOG)
                    if case["unchanged"] and ok:
                        obs["unchanged"].setdefault((out, s), wit)
                    if case["sameoff"]:
                        ok2, off = _outcome(envs[False][1], data, how)
                        obs["sameoff"].setdefault((ok, out if ok else "", ok2, off if ok2 else ""), wit)
                    if how == "sync" and sink == "out" and d == case["data"] and ok and len(_LOG) == len(case["chain"]) \
                            and [n for n, _, _ in _LOG] == [f["f"] for f in case["chain"]]:
                        # the mechanism of the model against the engine's: flags after the source and after every filter
                        real = ([_flags(_LOG[0][1][0])] if _LOG else []) + [_flags(r) for _, _, r in _LOG]
                        want = case["flags"] if _LOG else []
                        if real == want:
                            stats["flag_agree"] += 1
                        elif len(stats["flag_disagree"]) < 5:
                            stats["flag_disagree"].append({"source": src, "data": s, "model": want, "engine": real})
                        else:
                            stats["flag_disagree"].append(None)
    stats["flag_disagree_n"] = len(stats["flag_disagree"])
    stats["flag_disagree"] = [x for x in stats["flag_disagree"] if x]
    return obs, stats


# ---- TLC runs of the model depend on the specification and its configuration only (never on the code under test):
# ---- their parsed results are memoised under /verif/.cache, keyed by the text of the modules and the cfg (DESIGN §2.5)
def model_runs(jobs):
    import hashlib
    import os
    from concurrent.futures import ThreadPoolExecutor
    cache = os.path.join(os.path.dirname(SPEC), ".cache")
    os.makedirs(cache, exist_ok=True)

    def one(job):
        module, cfg, kw = job
        h = hashlib.sha256()
        for f in ("Taint.tla", "TaintChars.tla", cfg):
            h.update(open(os.path.join(SPEC, f), "rb").read())
        h.update(repr(sorted((k, v) for k, v in kw.items() if k not in ("workers", "timeout"))).encode())
        path = os.path.join(cache, f"{PID}-{os.path.basename(cfg)[:-4]}-{h.hexdigest()[:32]}.json")
        if os.path.exists(path):
            try:
                with open(path) as f:
                    d = json.load(f)
                return TLCResult(ok=d["ok"], generated=d["generated"], distinct=d["distinct"], depth=d["depth"], violated=d["violated"],
                                 emitted=d["emitted"], wall=d["wall"], out=d["out"], cmd="(memoised) " + d["cmd"])
            except (ValueError, KeyError):
                os.unlink(path)
        r = run_tlc(module, cfg, **kw)
        tmp = path + ".%d" % os.getpid()
        with open(tmp, "w") as f:
            json.dump({"ok": r.ok, "generated": r.generated, "distinct": r.distinct, "depth": r.depth, "violated": r.violated,
                       "emitted": r.emitted, "wall": r.wall, "out": r.out[-4000:] if not r.emitted else "", "cmd": r.cmd}, f)
        os.replace(tmp, path)
        return r

    with ThreadPoolExecutor(max_workers=len(jobs)) as ex:
        return list(ex.map(one, jobs))


# ---- judgement by TLC ------------------------------------------------------------------------------------------------------
def judge(records):
    """records: list of dicts for TaintTrace.tla. Returns (rejected indexes, tlc result)."""
    import os
    import shutil
    if not records:
        raise MachineryError("nothing observed (vacuous)")
    d = scratch_dir("taint")
    path = os.path.join(d, "obs.json")
    try:
        with open(path, "w") as f:
            json.dump(records, f)
        r = run_tlc("TaintTrace", "cfg/TaintTrace.cfg", workers=1, timeout=3000, env={"TRACE_FILE": path})
        acc = {int(m.group(1)) - 1 for m in re.finditer(r'^<<"ACCEPT", (\d+)>>', r.out, re.M)}
        rej = {int(m.group(1)) - 1: m.group(2) for m in re.finditer(r'^<<"REJECT", (\d+), "(\w+)">>', r.out, re.M)}
        if len(acc) + len(rej) != len(records) or acc & set(rej):
            raise MachineryError(f"TaintTrace.tla judged {len(acc) + len(rej)} of {len(records)} observations:\n" + r.out[-2000:])
        return rej, r
    finally:
        shutil.rmtree(d, ignore_errors=True)


WHAT = {
    "safe": "a value flagged safe holds a raw special character (Taint!SafeIsClean)",
    "out": "the output holds a raw special character or an ampersand that begins no escape sequence (Taint!OutputClean)",
    "unchanged": "data explicitly marked safe was not output unchanged (Taint!MarkupUnchanged)",
    "sameoff": "enabling autoescape changed an output without special characters (Taint!NoSpecialNoChange)",
}


def run(tier: str) -> int:
    global _CASES, _DATA
    fresh_repo_imports()
    ck = Check(PID, tier)
    # 1. the model: exhaustive invariant runs, the two deviations of the pinned tree, and the emitted family
    checks = ["Taint_quick.cfg"] if tier == "quick" else ["Taint_thorough.cfg", "Taint_thorough_data2.cfg"]
    deep = ["-Xss64m"]          # the recursive text operators nest deeply in TLC's evaluator
    jobs = [("Taint", "cfg/" + c, dict(workers=8 if tier == "quick" else 6, timeout=3000, java_opts=deep)) for c in checks]
    jobs += [("Taint", f"cfg/Taint_dev_{d}.cfg", dict(workers=2, timeout=3000, expect_violation=True, java_opts=deep)) for d in ("Memo", "Cut")]
    jobs += [("Taint", f"cfg/Taint_{tier}_emit.cfg", dict(workers=4, timeout=3000, java_opts=deep))]
    import time
    t0 = time.time()
    res = model_runs(jobs)
    ck.cov["phase_s"] = {"model": round(time.time() - t0, 1)}
    for (m, c, _), r in zip(jobs, res):
        ck.tlc(c[4:-4], r)
    for c, r in zip(checks, res):
        if r.violated:
            ck.fail(f"Taint.tla {r.violated} violated ({c})", {"tlc": r.out[-3000:]})
            return ck.finish()
    dm, dc = res[len(checks)], res[len(checks) + 1]
    if dm.violated not in ("SafeHasNoRawData", "OutputHasNoRawData") or dc.violated not in ("SafeIsClean", "OutputClean"):
        raise MachineryError(f"deviation configs no longer demonstrate the pinned tree's defects: memo -> {dm.violated!r}, cut -> {dc.violated!r}")
    em = res[-1]
    if em.violated:
        raise MachineryError("emit run violated " + em.violated)
    strings = [x for x in em.emitted if "datastrings" in x]
    cases = [x for x in em.emitted if "src" in x]
    if len(strings) != 1 or len(cases) * 2 != em.distinct:
        raise MachineryError(f"emit run printed {len(cases)} cases for {em.distinct} states")
    _DATA = {}
    for x in strings[0]["datastrings"]:
        _DATA.setdefault(x["cls"], []).append(x["d"])
    for v in _DATA.values():
        v.sort(key=lambda d: (len(d), d))
    cases.sort(key=lambda c: json.dumps(c, sort_keys=True))
    _CASES = cases
    ndata = sum(len(v) for v in _DATA.values())
    ck.cov["rule"] = (f"Taint.tla family: {len(cases)} (source, chain, history, data class) cases = 11 sources (plain data, captured, captured "
                      "with literal text, array, hash, literal, number, nil, Markup, __html__ object, block.super) x chains of <=1 filter over "
                      "75 instances of 48 built-in filters, <=2 over " + ("35 core instances" if tier == "quick" else "all 75, <=3 over 14") +
                      f"; each replayed through its sinks (23 for chains of <=1 filter: output, echo, liquid, assign, capture, cycle, for, if, "
                      f"unless, case, ifchanged, render, include, with/for variants, translate tag and filter, the three ternary positions, "
                      f"with, macro, block.super" + ("; all but output/capture/cycle/translate only with strings of <=1 atom" if tier == "quick" else "") + ") with every data string of its class ({ndata} strings of <={max(len(d) for v in _DATA.values() for d in v)} "
                      "atoms over x < > & \" ' &lt; &amp %3C" + ("" if tier == "quick" else "; strings of 3 atoms sampled, 40 per case") +
                      "), sync and async; history cases (every single filter on plain data, and date formats) first apply the same chain to the same text marked safe in the same process")
    # 2. replay
    order = list(range(len(cases)))
    random.Random(seed()).shuffle(order)            # spread the 23-sink cases over the chunks
    size = 24
    chunks = [(order[i:i + size], 0 if tier == "quick" else 40, seed() * 7919 + i) for i in range(0, len(order), size)]
    t0 = time.time()
    out = par.pmap(replay_chunk, chunks, chunk=1)
    ck.cov["phase_s"]["replay"] = round(time.time() - t0, 1)
    agg = {"safe": {}, "out": {}, "unchanged": {}, "sameoff": {}}
    tot = {"renders": 0, "errors": 0, "steps": 0, "flag_agree": 0, "flag_disagree_n": 0}
    examples = []
    for obs, st in out:
        for k in agg:
            for key, wit in obs[k].items():
                if key not in agg[k] or wit < agg[k][key]:
                    agg[k][key] = wit
        for k in tot:
            tot[k] += st[k]
        examples += st["flag_disagree"]
    for c in cases:
        ck.case((c["src"], chain_text(c["chain"]), c["hist"], c["cls"], tuple(c["data"])), nontrivial=c["cls"] == "special" or c["unchanged"])
    ck.validated(tot["renders"])
    ck.cov["renders"] = tot["renders"]
    ck.cov["renders_ending_in_an_error"] = tot["errors"]
    ck.cov["filter_applications_recorded"] = tot["steps"]
    ck.cov["mechanism_flags"] = {"agree": tot["flag_agree"], "disagree": tot["flag_disagree_n"], "examples": examples[:5],
                                 "note": "safe flags predicted by Taint.tla vs the engine's, on each case's representative datum (information, not a verdict)"}
    if tot["steps"] == 0 or not agg["safe"] or not agg["out"] or not agg["unchanged"] or not agg["sameoff"]:
        raise MachineryError("replay recorded nothing for one of the obligations (vacuous)")
    # 3. judgement
    records, back = [], []
    for t, wit in sorted(agg["safe"].items()):
        records.append({"k": "safe", "cs": list(t)}); back.append(("safe", wit, t))
    for t, wit in sorted(agg["out"].items()):
        records.append({"k": "out", "cs": list(t)}); back.append(("out", wit, t))
    for (t, want), wit in sorted(agg["unchanged"].items()):
        records.append({"k": "unchanged", "cs": list(t), "want": list(want)}); back.append(("unchanged", wit, (t, want)))
    for (ok, t, ok2, off), wit in sorted(agg["sameoff"].items()):
        records.append({"k": "sameoff", "onok": ok, "cs": list(t), "offok": ok2, "off": list(off)})
        back.append(("sameoff", wit, {"on": t if ok else "(error)", "off": off if ok2 else "(error)"}))
    t0 = time.time()
    rej, r = judge(records)
    ck.cov["phase_s"]["judge"] = round(time.time() - t0, 1)
    ck.tlc("TaintTrace", r)
    ck.cov["observations_judged"] = {k: len(v) for k, v in agg.items()}
    CUTTERS = ("slice", "remove_first", "remove_last", "remove", "replace_first", "replace_last", "replace", "split")
    for i in sorted(rej):
        kind, (ci, sink, d, how), seen = back[i]
        case = cases[ci]
        src, extra = concretize(case, sink)
        chain = chain_text(case['chain']).strip(' |')
        sig = f"{kind}:{case['src']}:{chain}:{sink}"
        if rej[i] == "amp":
            # only "every & begins an escape sequence" fails (no raw < > quote): name the filter that cut the safe text
            cut = next((c for c in CUTTERS if re.search(r"(^|\| )" + c + r"\b", chain)), None)
            if cut:
                sig = f"dangling-amp:{cut}"
        ck.fail(WHAT[kind], {"source": src, "templates": extra, "data": {"d": datum(d) + ("z" if case["hist"] == "primed" else "")}, "mode": how, "autoescape": True,
                             "history": (("{{ 0 | date: m }}" if case["src"] == "zero" else "{{ m" + chain_text(case["chain"]) + " }}")
                                         if case["hist"] == "primed" else ""),
                             "observed": seen, "case": {k: case[k] for k in ("src", "chain", "hist", "cls")}, "sink": sink},
                sig=sig)
    for c in (cases[0], cases[len(cases) // 2], cases[-1]):
        s, _ = concretize(c, "out")
        ck.sample({"source": s, "class": c["cls"], "clean": c["clean"], "unchanged": c["unchanged"], "sameoff": c["sameoff"]})
    ck.assumptions += [
        "an escape sequence is &(#[0-9]+|#x[0-9a-fA-F]+|[A-Za-z][A-Za-z0-9]*); (DESIGN §6)",
        "literal arguments contain no special character; newline_to_br, safe, json, escapejs, the tag helpers and tablerow generate HTML or mark text safe and are outside the statement; the translate filters' left value is trusted message text by documented default and is outside the family",
        "data explicitly marked safe (Markup / __html__) is only claimed to be output unchanged when no filter is applied to it",
        "'no special character is involved' is decided by the model (no special character in the data, in any intermediate value of the autoescape-off run, or in the off output) and additionally requires the real off output to have none",
        "a render that ends in an error has no output to judge (which errors may escape is C02's subject)",
    ]
    return ck.finish()


def replay(path):
    fresh_repo_imports()
    from markupsafe import Markup
    d = json.load(open(path))["detail"]
    env = _make_env(True)
    env.loader.templates.update(d.get("templates") or {})
    s = d["data"]["d"]
    data = {"d": s, "arr": [s, "x"], "hh": [{"k": s}], "m": Markup(s), "h": SafeHTML(s)}
    if d.get("history"):
        print("history (rendered first, m = Markup(d)):", d["history"], _outcome(env.from_string(d["history"]), data, d["mode"]))
    print("source:", d["source"], " data:", d["data"])
    print("output:", _outcome(env.from_string(d["source"]), data, d["mode"]))
    print("reported:", d["observed"])
    return 0
