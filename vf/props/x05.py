"""X05 (beyond the listed properties) — loader composition and precedence over a history of store operations (spec/LoaderChain.tla).

TLC enumerates histories of Write / Delete / Get over in-memory dictionaries and directories behind a loader tree (DictLoader,
FileSystemLoader with several search paths and a default extension, ChoiceLoader, nested ChoiceLoader, the caching flavours at the
root, a namespace-aware file-system loader in the documented "load context" style) and emits, for every distinct (stores, cache,
last request) state, one shortest history with the admissible answers of every Get.  Here the stores are built for real (dicts,
directories under a temporary directory in /tmp, mtimes set explicitly), the loaders are composed as the specification's tree says,
every history is replayed through Environment.get_template / get_template_async / {% include %} / {% render %} and each answer
(which store, which key, which version; TemplateNotFoundError; the template's name and path) is compared with the specification's."""
from __future__ import annotations

import asyncio
import json
import os
import random
import shutil
import tempfile
import time

from ..core import Check, fresh_repo_imports, seed
from ..tlcrun import run_many, gen_cfg, cleanup_gen
from .. import par

PID = "X05"
_BASE = None          # temporary directory of this run (created and removed by run())
_K = None             # loader classes, built once per process
_LOOP = None          # (pid, event loop) of this process

# how the Gets of one history are issued: (modes, kinds, namespace carriers), each cycled over the Gets of the history.
# A namespaced request carries its namespace as a keyword argument, in the render context's globals, or both (the keyword
# wins over another namespace "nx" in the context); include / render can only use the context.
VARIANTS = {
    "sync": (("sync",), ("direct",), ("kwarg", "context", "both")),
    "async": (("async",), ("direct",), ("context", "both", "kwarg")),
    "mixed-tags": (("sync", "async"), ("include", "direct", "render"), ("context", "kwarg", "context", "both")),
    "mixed-tags2": (("async", "sync"), ("render", "include", "direct"), ("context", "context", "both", "kwarg")),
}


def _ns_of(context, kwargs):
    """The namespace a request carries: a keyword argument takes priority over the render context's globals (as in cache_key)."""
    if "ns" in kwargs:
        return kwargs["ns"]
    if context is not None:
        try:
            return context.globals["ns"]
        except KeyError:
            return None
    return None


def _classes():
    global _K
    if _K is not None:
        return _K
    from liquid import FileSystemLoader
    from liquid.exceptions import TemplateNotFoundError
    from liquid.builtin.loaders.mixins import CachingLoaderMixin

    class NSFS(FileSystemLoader):
        """Namespace-aware file-system loader in the style of docs/loading_templates.md "Load context": templates of a namespace
        live in a folder named after it inside the search path; `fallback` also looks at the shared templates."""

        def __init__(self, search_path, *, ext=None, how="fallback"):
            super().__init__(search_path, ext=ext)
            self.how = how

        def _candidates(self, template_name, context, kwargs):
            ns = _ns_of(context, kwargs)
            if not ns:
                return [template_name]
            return [f"{ns}/{template_name}"] + ([template_name] if self.how == "fallback" else [])

        def get_source(self, env, template_name, *, context=None, **kwargs):
            for cand in self._candidates(template_name, context, kwargs):
                try:
                    return super().get_source(env, cand)
                except TemplateNotFoundError:
                    pass
            raise TemplateNotFoundError(template_name)

        async def get_source_async(self, env, template_name, *, context=None, **kwargs):
            for cand in self._candidates(template_name, context, kwargs):
                try:
                    return await super().get_source_async(env, cand)
                except TemplateNotFoundError:
                    pass
            raise TemplateNotFoundError(template_name)

    class CachingNSFS(CachingLoaderMixin, NSFS):
        def __init__(self, search_path, *, ext=None, how="fallback", **kw):
            CachingLoaderMixin.__init__(self, **kw)
            NSFS.__init__(self, search_path, ext=ext, how=how)

    _K = dict(NSFS=NSFS, CachingNSFS=CachingNSFS)
    return _K


def _text(store, key, ver):
    return f"{store}|{key}|{ver}"


class World:
    """The real stores of one history and the loader tree over them."""

    def __init__(self, b):
        from liquid import Environment
        # one directory per worker process, reused by every history it replays (emptied by close(); the loaders are new each time)
        self.dir = os.path.join(_BASE, f"p{os.getpid()}")
        self.dicts, self.dirs, self.files = {}, {}, set()
        self.clock = 1_000_000_000
        self.kw = dict(auto_reload=b["auto"], namespace_key="ns" if b["nskey"] else "", capacity=b["cap"])
        self.loader = self._build(b["tree"], root=True)
        self.env = Environment(loader=self.loader)

    def _store_dict(self, s):
        return self.dicts.setdefault(s, {})

    def _store_dir(self, s):
        if s not in self.dirs:
            self.dirs[s] = os.path.join(self.dir, s)
            os.makedirs(self.dirs[s], exist_ok=True)
        return self.dirs[s]

    def _build(self, t, root=False):
        from liquid import (DictLoader, CachingDictLoader, FileSystemLoader, CachingFileSystemLoader, ChoiceLoader,
                            CachingChoiceLoader)
        K = _classes()
        caching = t["caching"]
        kw = self.kw if root else {}            # an inner caching loader (the docs' overlay example) keeps the defaults
        if t["k"] == "dict":
            d = self._store_dict(t["stores"][0])
            return CachingDictLoader(d, **kw) if caching else DictLoader(d)
        if t["k"] == "fs":
            paths = [self._store_dir(s) for s in t["stores"]]
            ext = t["ext"] or None
            if t["ns"] == "none":
                return CachingFileSystemLoader(paths, ext=ext, **kw) if caching else FileSystemLoader(paths, ext=ext)
            return K["CachingNSFS"](paths, ext=ext, how=t["ns"], **kw) if caching else K["NSFS"](paths, ext=ext, how=t["ns"])
        subs = [self._build(s) for s in t["subs"]]
        return CachingChoiceLoader(subs, **kw) if caching else ChoiceLoader(subs)

    # ---- store operations -------------------------------------------------------------------------------------------------
    def write(self, store, key, ver):
        if store.startswith("M"):
            self._store_dict(store)[key] = _text(store, key, ver)
            return
        p = os.path.join(self._store_dir(store), key)
        if p not in self.files:
            os.makedirs(os.path.dirname(p), exist_ok=True)
            self.files.add(p)
        with open(p, "w") as f:
            f.write(_text(store, key, ver))
        self.clock += 1000                      # strictly increasing, whole seconds: never depends on the wall clock
        os.utime(p, (self.clock, self.clock))

    def delete(self, store, key):
        if store.startswith("M"):
            del self._store_dict(store)[key]
        else:
            os.unlink(os.path.join(self._store_dir(store), key))

    def origin(self, store, key):
        """What `template.path` must be for a template read from this cell."""
        return key if store.startswith("M") else os.path.join(self._store_dir(store), key)

    def close(self):
        for p in self.files:
            try:
                os.unlink(p)
            except FileNotFoundError:
                pass

    # ---- requests ---------------------------------------------------------------------------------------------------------
    async def _get_async(self, name, glob, ctx, kwargs, tagsrc):
        if tagsrc is not None:
            return None, await self.env.from_string(tagsrc, globals=glob).render_async()
        t = await self.env.get_template_async(name, context=ctx, **kwargs)
        return t, await t.render_async()

    def get(self, s, mode, kind, via, loop):
        from liquid import RenderContext
        from liquid.exceptions import TemplateNotFoundError
        name, ns = s["name"], s["ns"]
        if ns == "none":
            via = "none"
        kwargs, ctx, glob, tagsrc = {}, None, None, None
        if kind in ("include", "render") and via in ("none", "context"):
            tagsrc = "{% " + kind + " '" + name + "' %}"
            glob = {"ns": ns} if via == "context" else None
        else:
            kind = "direct"
            if via in ("kwarg", "both"):
                kwargs["ns"] = ns
            if via in ("context", "both"):
                ctx = RenderContext(self.env.from_string(""), globals={"ns": "nx" if via == "both" else ns})
        try:
            if mode == "sync":
                if tagsrc is not None:
                    t, out = None, self.env.from_string(tagsrc, globals=glob).render()
                else:
                    t = self.env.get_template(name, context=ctx, **kwargs)
                    out = t.render()
            else:
                t, out = loop.run_until_complete(self._get_async(name, glob, ctx, kwargs, tagsrc))
        except TemplateNotFoundError:
            return {"found": False, "store": "", "key": "", "ver": 0, "kind": kind, "via": via}
        except Exception as e:      # noqa: BLE001
            return {"exc": type(e).__name__ + ": " + str(e)[:120], "kind": kind, "via": via}
        parts = out.split("|")
        if len(parts) != 3 or not parts[2].isdigit():
            return {"exc": "unreadable content " + repr(out[:60]), "kind": kind, "via": via}
        o = {"found": True, "store": parts[0], "key": parts[1], "ver": int(parts[2]), "kind": kind, "via": via}
        if t is not None:
            o["tname"], o["tpath"] = t.name, str(t.path)
        return o


def _same(o, a):
    return o["found"] == a["found"] and (not a["found"] or (o["store"], o["key"], o["ver"]) == (a["store"], a["key"], a["ver"]))


def replay_variant(b, variant):
    """None if every Get agrees with the specification; otherwise a description of the first disagreement.
    Second value: True when the real loader took the other admissible branch of an unspecified situation (judging stops there)."""
    modes, kinds, vias = VARIANTS[variant]
    w = World(b)
    loop = _loop() if "async" in modes else None
    try:
        g = 0
        for i, s in enumerate(b["steps"]):
            if s["op"] == "init":
                for c in s["present"]:
                    w.write(c["store"], c["key"], 1)
            elif s["op"] == "write":
                w.write(s["store"], s["key"], s["ver"])
            elif s["op"] == "delete":
                w.delete(s["store"], s["key"])
            else:
                mode, kind, via = modes[g % len(modes)], kinds[g % len(kinds)], vias[g % len(vias)]
                g += 1
                o = w.get(s, mode, kind, via, loop)
                why = None
                if "exc" in o:
                    why = "an exception other than TemplateNotFoundError"
                elif not any(_same(o, a) for a in s["adm"]):
                    exp = s["adm"][0]
                    if o["found"] != exp["found"]:
                        why = "TemplateNotFoundError although a loader has the name" if exp["found"] else "a template although no loader has the name"
                    elif (o["store"], o["key"]) != (exp["store"], exp["key"]):
                        why = "template from the wrong loader / search path / file"
                    else:
                        why = "stale or spurious version"
                elif o["found"] and "tpath" in o:
                    if not o["store"].startswith("M") and o["tpath"] != w.origin(o["store"], o["key"]):
                        why = "template.path is not the origin that was read"
                    elif o["tname"] != os.path.basename(o["key"]):
                        why = "template.name is not the file name of its origin"
                if why:
                    return {"step": i, "why": why, "observed": o, "mode": mode, "kind": o.get("kind", kind), "via": o.get("via"), "how": s["how"],
                            "admissible": s["adm"], "dirs": dict(w.dirs)}, False
                if not _same(o, s["mech"]):
                    return None, True
        return None, False
    finally:
        w.close()


def _loop():
    """One event loop per worker process (as an application has), so the executor threads the file-system loader uses are reused."""
    global _LOOP
    if _LOOP is None or _LOOP[0] != os.getpid():
        _LOOP = (os.getpid(), asyncio.new_event_loop())
    return _LOOP[1]


def replay_one(job):
    b, variants = job
    out = []
    for v in variants:
        bad, diverged = replay_variant(b, v)
        out.append((v, bad, diverged))
    return out


# ---- the family (defined in LoaderChain.tla: Quick / Thorough; a run explores the configurations i with i % Parts = Part) -----
PARTS = {"quick": 2, "thorough": 6}


def _shape(b):
    """Class of a history for stratified sampling: its length and the kinds / outcomes of its last three operations."""
    return (len(b["steps"]),) + tuple((s["op"], s.get("ns"), s.get("how"), s.get("name")) for s in b["steps"][-3:])


def _stratified(beh, rnd, per_class):
    groups = {}
    for b in beh:
        groups.setdefault(_shape(b), []).append(b)
    out = []
    for key in sorted(groups, key=str):
        g = groups[key]
        out.extend(g if len(g) <= per_class else rnd.sample(g, per_class))
    return out


def _sig(b, bad, variant):
    return (f"{b['comp']}:caching={b['tree']['caching']}:auto={b['auto']}:nskey={b['nskey']}:{bad['how']}:{bad['why']}:"
            f"{bad['mode']}:{bad['kind']}")


def run(tier: str) -> int:
    global _BASE
    fresh_repo_imports()
    ck = Check(PID, tier)
    rnd = random.Random(seed())
    ck.cov["rule"] = ("LoaderChain.tla: every distinct (stores, cache, last request) state reachable within MaxLen (quick 3-4, thorough 4-5) "
                      "Write / Delete / Get operations over the cells of 13 loader trees (dict, 2-3 search paths with and without a default "
                      "extension, choice of dicts / dict+fs / fs+dict+fs, choice nested first and last, a caching loader inside a choice, "
                      "namespace-aware fs strict / fallback, alone and in a choice), non-caching and with a caching root (auto_reload, "
                      "namespace_key, capacity 1-2), names {a, a.liquid[, a.txt, b]}, namespace by keyword / context / both / absent, "
                      "starting from empty / full / lowest-store-only populations; one shortest history per state, replayed sync, async and "
                      "with alternating modes through include / render tags. distinct = (configuration, history)")
    parts = PARTS[tier]
    jobs = []
    try:
        for i in range(parts):
            jobs.append(("LoaderChain", gen_cfg("cfg/LoaderChain.tmpl", dict(Family=tier, Part=i, Parts=parts), f"x05_{i}"),
                         dict(workers=1, timeout=3000)))
        t0 = time.time()
        results = run_many(jobs, parallel=parts)
        ck.cov["tlc_wall_s"] = round(time.time() - t0, 1)
    finally:
        cleanup_gen()
    work = []
    variants = ["sync", "async", "mixed-tags"] if tier == "quick" else list(VARIANTS)
    per_class = 4 if tier == "quick" else 12
    for i, r in enumerate(results):
        ck.tlc(f"LoaderChain {tier} part {i}/{parts}", r)
        if r.violated:
            ck.fail(f"LoaderChain.tla {r.violated} violated in the model", {"family": tier, "part": i, "tlc": r.out[-3000:]})
            continue
        by_cfg = {}
        for b in r.emitted:
            by_cfg.setdefault((b["comp"], b["tree"]["caching"], b["auto"], b["nskey"], b["cap"], b["len"]), []).append(b)
        for key in sorted(by_cfg, key=str):
            for b in _stratified(by_cfg[key], rnd, per_class):
                work.append((b, variants))
    budget = 6000 if tier == "quick" else 16000         # histories replayed (each in every variant)
    ck.cov["histories_emitted"] = sum(len(r.emitted) for r in results)
    if len(work) > budget:
        work = rnd.sample(work, budget)
    ck.cov["histories_replayed"] = len(work)
    t0 = time.time()
    _BASE = tempfile.mkdtemp(prefix="x05-", dir="/tmp")
    try:
        res = par.pmap(replay_one, work, chunk=16)
    finally:
        shutil.rmtree(_BASE, ignore_errors=True)
        _BASE = None
    ck.cov["replay_wall_s"] = round(time.time() - t0, 1)
    ck.cov["configurations"] = len({(b["comp"], b["tree"]["caching"], b["auto"], b["nskey"], b["cap"], b["len"]) for b, _ in work})
    hows, diverged = {}, 0
    for (b, _), rr in zip(work, res):
        gets = [s for s in b["steps"] if s["op"] == "get"]
        for s in gets:
            hows[s["how"]] = hows.get(s["how"], 0) + 1
        for v, bad, div in rr:
            ck.case((b["comp"], b["tree"]["caching"], b["auto"], b["nskey"], b["cap"], v, json.dumps(b["steps"], sort_keys=True)),
                    nontrivial=len(b["steps"]) >= 3)
            ck.validated()
            diverged += bool(div)
            if bad:
                ck.fail(f"{b['comp']} ({'caching' if b['tree']['caching'] else 'plain'}, {v}): {bad['why']}: observed "
                        f"{ {k: bad['observed'].get(k) for k in ('found', 'store', 'key', 'ver', 'exc', 'tname', 'tpath') if k in bad['observed']} }, "
                        f"LoaderChain.tla admits {[(a['store'], a['key'], a['ver']) if a['found'] else 'TemplateNotFound' for a in bad['admissible']]}",
                        {"configuration": {k: b[k] for k in ("comp", "tree", "auto", "nskey", "cap")}, "steps": b["steps"], "variant": v, **bad},
                        sig=_sig(b, bad, v))
    ck.cov["get_outcomes_by_mechanism_path"] = hows
    ck.cov["unspecified_branch_taken_otherwise"] = diverged
    if work:
        ck.sample({"configuration": {k: work[len(work) // 2][0][k] for k in ("comp", "auto", "nskey", "cap")}, "steps": work[len(work) // 2][0]["steps"]})
    ck.assumptions += [
        "not one of the listed properties: the requirement is docs/loading_templates.md and the loaders' doc strings (first loader / search path in order, "
        "default extension appended to suffix-less names only, TemplateNotFoundError otherwise), calibrated on the unchanged tree",
        "UNSPECIFIED (either answer admissible): with auto_reload a cached template whose own source is unmodified but which an earlier loader / search path "
        "now shadows (the docs promise a reload only when 'template source text has been modified'), and a cached template from a dictionary (no uptodate "
        "callable); when the real loader takes the branch the mechanism model did not, the rest of that history is not judged",
        "auto_reload=False: the cached version is served until the entry is evicted (capacity, least recently used), as documented; the cache key is the name, "
        "scoped by namespace_key (keyword argument over context globals)",
        "the built-in loaders ignore the namespace when locating a template; looking in '<namespace>/<name>' (strict, or falling back to '<name>') is the harness's "
        "own FileSystemLoader subclass in the documented 'load context' style - only its interplay with the cache key and the search order is claimed",
        "a caching loader inside a ChoiceLoader (the docs' overlay example) is asked for get_source only: its cache is inert, the answer is always current",
        "template.path of a file-system template = the file that was read (search path / name with extension), template.name = the last component of the "
        "origin (file name; last component of the dictionary key) - as the repository's own loader tests state; the path of a dictionary template is not claimed",
        "request names containing '/' together with a namespace_key (cache-key aliasing between 'n1/a' and ('a', n1)), ext edge cases (dot files, trailing dots), "
        "PackageLoader, symlinks and concurrent requests are outside this family (C22 / C23 / C24 cover the last three)",
    ]
    return ck.finish()


def replay(path):
    global _BASE
    fresh_repo_imports()
    d = json.load(open(path))["detail"]
    b = dict(d["configuration"], steps=d["steps"])
    _BASE = tempfile.mkdtemp(prefix="x05-", dir="/tmp")
    try:
        bad, div = replay_variant(b, d["variant"])
    finally:
        shutil.rmtree(_BASE, ignore_errors=True)
    print(json.dumps({"disagreement": bad, "unspecified_branch": div}, indent=1, default=str))
    return 1 if bad else 0
