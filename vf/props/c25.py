"""C25 — built-in filters honour their documented contracts (spec/Filters.tla, spec/FilterValues.tla).

TLC enumerates the cells `v | f1: args [| f2: args]` of the bounded families of Filters.tla, checks the
contract invariants on the reference definitions and emits, per cell, what the statement / the filter
reference fixes about the result (a set of admissible values, a stated contract, or "unspecified").
This module only (a) writes each cell as Liquid source + data (literal form, variable form, through
`assign`), (b) renders it through the real engine sync and async and reads the result back through an
observer filter `vf_dump` (the Python value as tagged JSON) and as plain output text, (c) asks whether
the observation is among the values the specification emitted.  No filter semantics live here."""
from __future__ import annotations

import json
import random
from decimal import Decimal

from ..core import Check, fresh_repo_imports, seed
from ..tlcrun import run_many, gen_cfg, cleanup_gen
from .. import harness, par

PID = "C25"
H = 10 ** 20                      # the harness's value for the specification's symbolic "huge" unit
SEP = "\x1f"
# families of Filters.tla, grouped so that one TLC process handles about the same number of cells
GROUPS = [["truncate"], ["arith"], ["slice", "size", "case", "default"], ["dicts", "array"], ["split", "truncatewords", "chains"]]
ARRAY_FILTERS = {"reverse", "sort", "sort_natural", "uniq", "compact", "concat", "map", "where", "reject"}
BOUNDS = {
    "quick": dict(Alphabet='{"a", "B", " "}', MaxStr=3, MaxTrunc=4, MaxWords=4, MaxList=2,
                  Ints="QuickInts", Decs="QuickDecs", Elems="QuickElems"),
    "thorough": dict(Alphabet='{"a", "B", " "}', MaxStr=4, MaxTrunc=5, MaxWords=5, MaxList=3,
                     Ints="AllInts", Decs="AllDecs", Elems="AllElems"),
}
QUICK_DEV_INVARIANTS = {"TruncateBound", "ExactArithmetic", "WhereRejectPartition", "SplitJoinInverse"}
# named deviation -> (family that exhibits it, contract invariants TLC must refute when it is enabled)
DEVIATIONS = [
    ("TruncateCodeSlicing", "truncate", "TruncateBound"),
    ("TruncateCodeSlicing", "truncate", "TruncateUnchangedWhenShort"),
    ("ModuloTruncatesDecimals", "arith", "ExactArithmetic"),
    ("ModuloTruncatesDecimals", "arith", "ArithmeticIgnoresRepresentation"),
    ("WhereZeroIsFalsy", "dicts", "WhereRejectPartition"),
    ("PythonBoolIsInt", "dicts", "WhereRejectPartition"),
    ("PythonBoolIsInt", "array", "UniqMembership"),
    ("SplitMimicsRuby", "split", "SplitJoinInverse"),
]


# ---------------------------------------------------------------------------------------------------
# abstract value  ->  Liquid literal / Python object
# ---------------------------------------------------------------------------------------------------
class _Missing:
    pass


MISSING = _Missing()


def to_py(v, outer_tuple=False):
    t = v["t"]
    if t == "int":
        return v["n"]
    if t == "dec":
        return float(Decimal(v["c"]) / 100)
    if t == "big":
        return v["m"] * H + v["k"]
    if t == "str":
        return "".join(v["s"])
    if t == "bool":
        return v["b"]
    if t == "nil":
        return None
    if t == "undef":
        return MISSING
    if t == "list":
        xs = [to_py(x) for x in v["xs"]]
        return tuple(xs) if outer_tuple else xs
    if t == "dict":
        return {k: to_py(x) for k, x in v["kv"]}
    raise ValueError(t)


def literal(v):
    """Liquid literal for a value, or None when it has none (arrays, hashes)."""
    t = v["t"]
    if t in ("int", "big"):
        return str(to_py(v))
    if t == "dec":
        c = v["c"]
        s = "%d.%02d" % (abs(c) // 100, abs(c) % 100)
        if s.endswith("0"):
            s = s[:-1]
        return ("-" if c < 0 else "") + s
    if t == "str":
        s = "".join(v["s"])
        return None if any(ch in s for ch in "'\n\t") else "'" + s + "'"
    if t == "bool":
        return "true" if v["b"] else "false"
    if t == "nil":
        return "nil"
    if t == "undef":
        return "nosuchthing"
    return None


def operand(v, form, name, data, outer_tuple=False):
    if v["t"] == "kw":
        return v["name"] + ": " + operand(v["v"], form, name, data)
    lit = literal(v)
    if v["t"] == "undef":
        return "nosuch_" + name
    if form == "lit" and lit is not None:
        return lit
    data[name] = to_py(v, outer_tuple)
    return name


def pipeline(cell, form, data, outer_tuple=False):
    src = operand(cell["v"], form, "xv", data, outer_tuple)
    for i, f in enumerate(cell["fs"]):
        src += " | " + f["f"]
        if f["a"]:
            src += ": " + ", ".join(operand(a, form, "abcd"[i] + str(j + 1), data) for j, a in enumerate(f["a"]))
    return src


def concretize(cell, form):
    """-> (source, data).  Five observations separated by SEP: dump of the result, the plain output text, dump of the
    result bound with `assign`, whether that result is the very object passed in (value or an argument), and the
    dump of the input value after all of that (the input must not have been changed)."""
    data: dict = {}
    tup = form == "tuple"
    pipe = pipeline(cell, "var" if tup else form, data, outer_tuple=tup)
    others = [n for n in data if isinstance(data[n], (list, tuple))]
    same = "{{ r | vf_same" + (": " + ", ".join(others) if others else "") + " }}"
    after = "{{ xv | vf_dump }}" if "xv" in data else ""
    src = ("{{ " + pipe + " | vf_dump }}" + SEP + "{{ " + pipe + " }}" + SEP + "{% assign r = " + pipe + " %}{{ r | vf_dump }}"
           + SEP + same + SEP + after)
    return src, data


# ---------------------------------------------------------------------------------------------------
# Python value -> the specification's tagged representation (observation only)
# ---------------------------------------------------------------------------------------------------
def canon(o):
    from liquid.undefined import is_undefined
    if o is None or type(o).__name__ == "_Null":      # the map filter's token-less nil
        return {"t": "nil"}
    if is_undefined(o):
        return {"t": "undef"}
    if isinstance(o, bool):
        return {"t": "bool", "b": o}
    if isinstance(o, int):
        if abs(o) >= 2 ** 31:
            for m in (1, -1):
                if abs(o - m * H) < 2 ** 31:
                    return {"t": "big", "m": m, "k": o - m * H}
        return {"t": "int", "n": o}
    if isinstance(o, (float, Decimal)):
        try:
            c = Decimal(repr(o) if isinstance(o, float) else str(o)) * 100
            if c == c.to_integral_value():
                return {"t": "dec", "c": int(c)}
        except Exception:
            pass
        return {"t": "dec", "x": repr(o)}
    if isinstance(o, str):
        return {"t": "str", "s": list(o)}
    if isinstance(o, (list, tuple)):
        return {"t": "list", "xs": [canon(x) for x in o]}
    if isinstance(o, dict):
        return {"t": "dict", "kv": [[k, canon(x)] for k, x in o.items()]}
    return {"t": "other", "repr": repr(o)[:80]}


def _key(v):
    return json.dumps(v, sort_keys=True)


def text_matches(alt, text):
    """Does the plain output text show the value `alt`?  (formatting only: ints print as digits, decimals as a
    decimal number with a fractional part, nil / undefined as nothing)"""
    t = alt["t"]
    if t == "str":
        return text == "".join(alt["s"])
    if t in ("int", "big"):
        return text == str(to_py(alt))
    if t == "dec":
        try:
            return ("." in text or "e" in text.lower()) and Decimal(text) * 100 == alt["c"]
        except Exception:
            return False
    if t in ("nil", "undef"):
        return text == ""
    if t == "bool":
        return text == ("true" if alt["b"] else "false")
    return None           # arrays / hashes: the output format of compound values is not this property's business


_ENV = None


def _env():
    global _ENV
    if _ENV is None:
        env = harness.make_env()

        def vf_dump(val, *a, **k):
            return json.dumps(canon(val))

        def vf_same(val, *others, **k):
            return "1" if isinstance(val, (list, tuple)) and any(val is o for o in others) else "0"

        env.add_filter("vf_dump", vf_dump)
        env.add_filter("vf_same", vf_same)
        _ENV = env
    return _ENV


def judge(cell, exp, out, form, data):
    """-> None or a short reason; the expectation `exp` was computed by Filters.tla."""
    parts = out.split(SEP)
    if len(parts) != 5:
        return "unexpected output shape"
    try:
        d1, text, d2, same, after = json.loads(parts[0]), parts[1], json.loads(parts[2]), parts[3], parts[4]
    except ValueError:
        return "observer output is not JSON"
    if exp["kind"] == "oneof":
        keys = {_key(a) for a in exp["alts"]}
        for what, d in (("value", d1), ("value bound by assign", d2)):
            if _key(d) not in keys:
                return f"{what} is not the one Filters.tla admits"
        shown = [text_matches(a, text) for a in exp["alts"]]
        if None not in shown and not any(shown):
            return "output text does not show the value Filters.tla admits"
    elif exp["kind"] == "endswith":
        suffix = "".join(exp["suffix"])
        for what, s in (("value", "".join(d1["s"]) if d1.get("t") == "str" else None), ("output text", text)):
            if s is None or not s.endswith(suffix):
                return f"{what} does not end in the ellipsis"
            if len(s) > exp["maxlen"]:
                return f"{what} is longer than max(requested length, ellipsis)"
    last = cell["fs"][-1]["f"]
    if last in ARRAY_FILTERS and exp["kind"] != "U":
        if same != "0":
            return "result is not a new list: it is the object that was passed in"
    if after and exp["kind"] != "U":
        if _key(json.loads(after)) != _key(canon(data["xv"])):
            return "the filter changed its input value"
    return None


def replay_one(job):
    cell, form = job
    src, data = concretize(cell, form)
    env = _env()
    exp = cell["exp"]
    res = []
    for how in ("sync", "async"):
        o = harness.run(env, src, dict(data), how)
        if "out" not in o:
            res.append((how, None if exp["kind"] == "U" else "raised " + o["err"], o.get("err")))
            continue
        res.append((how, judge(cell, exp, o["out"], form, data), o["out"]))
    return src, data, res


# ---------------------------------------------------------------------------------------------------
def _cls(v):
    t = v["t"]
    if t == "int":
        return "int" + ("-" if v["n"] < 0 else "0" if v["n"] == 0 else "")
    if t == "dec":
        return "dec" + ("-" if v["c"] < 0 else "0" if v["c"] == 0 else "")
    if t == "str":
        s = "".join(v["s"])
        num = s.lstrip("-").replace(".", "", 1).isdigit()
        return "numstr" if num else ("str0" if s == "" else "str")
    if t == "list":
        return "list[" + ",".join(sorted({_cls(x) for x in v["xs"]})) + "]"
    if t == "dict":
        return "dict[" + ",".join(k + "=" + _cls(x) for k, x in v["kv"] if k != "i") + "]"
    if t == "kw":
        return v["name"]
    return t


def _sig(cell, why):
    fs = "|".join(f["f"] for f in cell["fs"])
    args = ";".join(",".join(_cls(a) for a in f["a"]) for f in cell["fs"])
    extra = ""
    f0 = cell["fs"][0]
    if f0["f"] == "truncate" and cell["v"]["t"] == "str" and f0["a"] and f0["a"][0]["t"] == "int":
        n, ln = f0["a"][0]["n"], len(cell["v"]["s"])
        e = len(f0["a"][1]["s"]) if len(f0["a"]) > 1 else 3
        extra = ":len%sn:n%se" % ("<" if ln < n else "=" if ln == n else ">", "<" if n < e else ">=")
    if f0["f"] == "split" and cell["v"]["t"] == "str" and f0["a"] and f0["a"][0]["t"] == "str":
        s, sep = "".join(cell["v"]["s"]), "".join(f0["a"][0]["s"])
        extra = ":" + ("val=sep" if s == sep else "sep=space" if sep == " " else "sep")
    return f"{fs}:{_cls(cell['v'])}:{args}{extra}:{why.split(':')[0][:60]}"


def run(tier: str) -> int:
    fresh_repo_imports()
    ck = Check(PID, tier)
    rnd = random.Random(seed())
    b = BOUNDS[tier]
    ck.cov["rule"] = (
        "Filters.tla: every cell of the families size / case+whitespace / split, join, split|join / truncate / truncatewords / slice, first, last / "
        "reverse, sort, sort_natural, uniq, compact, concat over mixed and homogeneous lists / map, where, reject, uniq, compact, sort by key over "
        "lists of hashes / two-filter pipelines / plus, minus, times, divided_by, modulo, at_least, at_most, abs, ceil, floor, round over ints, "
        "1-digit decimals, numeric strings, non-numbers and symbolic huge ints / default; texts of length <= %s over {a,B,space} (truncate <= %s, "
        "truncatewords <= %s), lists of <= %s items; each cell rendered in literal form, variable form and with tuple data, as output, through "
        "the observer filter and through assign, sync and async; non-trivial = the specification fixes the result (kind is not U)"
        % (b["MaxStr"], b["MaxTrunc"], b["MaxWords"], b["MaxList"]))
    import time
    t0 = time.time()
    jobs = []
    for g in GROUPS:
        fams = "{" + ", ".join('"%s"' % f for f in g) + "}"
        cfg = gen_cfg("cfg/Filters.tmpl", dict(b, Families=fams, Deviations="{}"), g[0])
        jobs.append(("Filters", cfg, dict(workers=1, timeout=1500)))
    devs = DEVIATIONS if tier == "thorough" else [d for d in DEVIATIONS if d[2] in QUICK_DEV_INVARIANTS and (d[0], d[2]) != ("PythonBoolIsInt", "WhereRejectPartition")]
    for dev, fam, inv in devs:
        cfg = gen_cfg("cfg/Filters_dev.tmpl", dict(BOUNDS["quick"], Families='{"%s"}' % fam, Deviations='{"%s"}' % dev, Invariant=inv),
                      f"{dev}_{inv}")
        jobs.append(("Filters", cfg, dict(workers=1, timeout=1500, expect_violation=True)))
    try:
        rs = run_many(jobs, parallel=len(jobs))
    finally:
        cleanup_gen()
    cells = []
    bad = False
    for g, r in zip(GROUPS, rs):
        fam = "+".join(g)
        ck.tlc(f"Filters_{tier}_{fam}", r)
        if r.violated:
            ck.fail(f"Filters.tla {r.violated} violated by the reference definitions (family {fam})", {"tlc": r.out[-3000:]})
            bad = True
        if not r.emitted:
            ck.fail(f"family {fam} emitted no cell", {"tlc": r.out[-2000:]})
            bad = True
        cells += r.emitted
    # each named deviation must break its contract in the model: the invariants are not vacuous
    dev_ok = {}
    for (dev, fam, inv), r in zip(devs, rs[len(GROUPS):]):
        ck.tlc(f"Filters_dev_{dev}_{inv}", r)
        dev_ok[f"{dev}/{inv}"] = r.violated
        if r.violated != inv:
            ck.fail(f"deviation {dev} does not refute {inv} in Filters.tla (vacuous contract?)", {"violated": r.violated, "tlc": r.out[-2000:]})
            bad = True
    ck.cov["deviations_refuted"] = dev_ok
    ck.cov["phase_s"] = {"tlc": round(time.time() - t0, 1)}
    t1 = time.time()
    ck.cov["cells"] = len(cells)
    if bad:
        return ck.finish()
    if tier == "thorough" and len(cells) > 260000:
        keep = [c for c in cells if c["exp"]["kind"] != "U"]
        cells = rnd.sample(keep, min(len(keep), 260000))
    jobs2 = []
    for i, c in enumerate(cells):
        c = {"v": c["v"], "fs": c["fs"], "exp": c["exp"]}
        full = c["exp"]["kind"] == "endswith"
        jobs2.append((c, "var"))
        if full or i % 2 == 0:
            jobs2.append((c, "lit"))
        if c["v"]["t"] == "list" and (full or i % 2 == 1):
            jobs2.append((c, "tuple"))
    res = par.pmap(replay_one, jobs2, chunk=256)
    ck.cov["phase_s"]["replay"] = round(time.time() - t1, 1)
    kinds = {"oneof": 0, "endswith": 0, "U": 0}
    per_filter: dict = {}
    for (cell, form), (src, data, rr) in zip(jobs2, res):
        exp = cell["exp"]
        name = "|".join(f["f"] for f in cell["fs"])
        ck.case((_key(cell["v"]), _key(cell["fs"]), form), nontrivial=exp["kind"] != "U")
        ck.validated()
        kinds[exp["kind"]] += 1
        st = per_filter.setdefault(name, [0, 0])
        st[0] += 1
        st[1] += exp["kind"] != "U"
        for how, why, out in rr:
            if why:
                ck.fail(f"{name}: {why}",
                        {"cell": {"v": cell["v"], "fs": cell["fs"]}, "form": form, "source": src, "data": repr(data), "mode": how,
                         "observed": out, "expected": exp}, sig=_sig(cell, why))
                break
    sigs: dict = {}
    for _, sg, _ in ck.violations:
        sigs[sg] = sigs.get(sg, 0) + 1
    if sigs:
        ck.cov["violation_signatures"] = dict(sorted(sigs.items(), key=lambda kv: -kv[1])[:200])
    ck.cov["expectation_kinds"] = kinds
    ck.cov["per_filter"] = {k: {"cells": v[0], "claimed": v[1]} for k, v in sorted(per_filter.items())}
    vac = [k for k, v in per_filter.items() if v[1] == 0]
    if vac:
        ck.fail("no claimed cell for " + ", ".join(sorted(vac)), {"filters": vac})
    claimed = [c for c in cells if c["exp"]["kind"] != "U"]
    for c in claimed[:: max(1, len(claimed) // 6)][:6]:
        s, d = concretize(c, "var")
        ck.sample({"cell": {"v": c["v"], "fs": c["fs"]}, "expected": c["exp"], "source": s, "data": repr(d)})
    ck.assumptions += [
        "decimals are exact centi-units with at most one decimal digit on input (two for round); binary-float artefacts beyond that, NaN/inf and huge floats are C02's kinds, not modelled",
        "huge integers are the symbolic values +-10^20 + k; only arithmetic that stays of that form is claimed; huge with a decimal is unspecified",
        "error cases (zero divisor, non-numeric divisor, unsortable mixtures, missing property in compact:key, non-array concat argument) are unspecified here: C02",
        "booleans, arrays and hashes as input of string or arithmetic filters, and strings / hashes / scalars as input of array filters, are unspecified (the docs' coercion wording does not fix the text)",
        "round with a negative number of decimal places, the rounding direction of exact ties (both neighbours admitted), slice with a start before the beginning, "
        "last of a hash, truncatewords with n <= 0 (the reference forces 1) are unspecified",
        "truncatewords with at most n words: unchanged input, whitespace-normalised input and (exactly n words) input plus ellipsis are all admitted; beyond n words the docs fix the text",
        "truncate with n < len(ellipsis): only the stated contract (ends in the ellipsis, length <= max(n, len(ellipsis))) is checked",
        "sort / sort_natural ties: every order that is a sorted permutation is admitted; at_least / at_most of equal numbers: either representation",
        "whitespace is the space character (the alphabet is {a, B, space}); case mapping is ASCII a/b",
        "the map filter's internal token-less nil object is observed as nil",
    ]
    return ck.finish()


def replay(path):
    fresh_repo_imports()
    d = json.load(open(path))["detail"]
    cell = dict(d["cell"], exp=d["expected"])
    src, data, rr = replay_one((cell, d["form"]))
    print("source:", src)
    print("data:", data)
    for how, why, out in rr:
        print(how, "->", repr(out), "|", why or "ok")
    return 1 if any(w for _, w, _ in rr) else 0
