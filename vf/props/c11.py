"""C11 — custom delimiters and environments are independent (spec/DelimDefs.tla, Delims.tla, EnvHistory.tla).

Part 1 (Delims.tla): TLC chooses (program, delimiter set), keeps the admissible pairs, rewrites the program with
the delimiters (Rewrite, in TLA+) and checks that a reference scanner parametrised by the delimiter record reads the
tokens back.  Every pair is emitted with the source text and the output the specification requires.  Here the
characters are joined, the text is rendered (sync + async) in an Environment configured with exactly those strings
(the default Environment for the default set), and the outcomes of one program under all its delimiter sets are one
observation handed back to TLC (Delims.tla, Mode = "judge": DelimiterIndependence).

Part 2 (EnvHistory.tla): TLC enumerates histories of parse/render operations on environments that differ in one
respect and computes each result through the modelled memo tables (HistoryIndependent).  Each history is replayed in
one fresh process; every operation is also replayed alone in its own fresh process; the pairs (in history, alone,
specification) go back to TLC (EnvHistory.tla, Mode = "judge").  No memo table is ever cleared by the harness."""
from __future__ import annotations

import asyncio
import json
import multiprocessing as mp
import os
import random
import re
import shutil
import time

from ..core import Check, fresh_repo_imports, seed
from ..tlcrun import run_tlc, run_many, gen_cfg, cleanup_gen, scratch_dir, MachineryError

PID = "C11"
ROLES = ("ts", "te", "ss", "se", "cs", "ce")
ALLVARS = ('{"role1", "role2", "role3", "role4", "role5", "role6", "comments", "custom", "stamp", "shout", "noupcase", '
           '"lax", "warn", "impl", "same"}')

# --------------------------------------------------------------------------------------------------------------
# environments

_CLS: dict = {}
_ENVS: dict = {}


def _classes():
    """One Environment subclass for every environment the check creates (a memo keyed by class must show)."""
    if not _CLS:
        from liquid import Environment
        from liquid.ast import Node
        from liquid.tag import Tag

        class CEnv(Environment):
            pass

        class StampNode(Node):
            def render_to_output(self, context, buffer):
                buffer.write("S")
                return 1

        class StampTag(Tag):
            name = "stamp"
            block = False
            node_class = StampNode

            def parse(self, stream):
                return StampNode(stream.current)

        _CLS.update(env=CEnv, stamp=StampTag, shout=lambda s: str(s).upper() + "!")
    return _CLS


def _strings(d: dict) -> dict:
    return {r: "".join(d[r]) for r in ROLES}


def _kwargs(ds: dict) -> dict:
    """Constructor arguments for a delimiter set; nothing at all for the library's defaults."""
    kw = {}
    if (ds["ts"], ds["te"], ds["ss"], ds["se"]) != ("{%", "%}", "{{", "}}"):
        kw.update(tag_start_string=ds["ts"], tag_end_string=ds["te"],
                  statement_start_string=ds["ss"], statement_end_string=ds["se"])
    if ds["cs"]:
        kw.update(template_comments=True)
        if (ds["cs"], ds["ce"]) != ("{#", "#}"):
            kw.update(comment_start_string=ds["cs"], comment_end_string=ds["ce"])
    return kw


def _env_for(ds: dict):
    key = tuple(ds[r] for r in ROLES)
    if key not in _ENVS:
        _ENVS[key] = _classes()["env"](extra=True, **_kwargs(ds))
    return _ENVS[key]


def _outcome(fn) -> dict:
    try:
        return {"k": "ok", "v": fn()}
    except Exception as e:  # noqa: BLE001 - the class is the observation
        return {"k": "err", "v": type(e).__name__}


# --------------------------------------------------------------------------------------------------------------
# part 1: one program under one delimiter set

def replay_delims(case):
    ds = _strings(case["d"])
    src = "".join(case["source"])
    sync = _outcome(lambda: _env_for(ds).from_string(src).render())          # creating the environment is part of the observation
    asy = _outcome(lambda: asyncio.run(_env_for(ds).from_string(src).render_async()))
    return {"sync": sync, "async": asy}


def _prog_key(c) -> str:
    return json.dumps([c["name"], c["v"], c["src"], c["toks"]], sort_keys=True)


def _kinds(c) -> str:
    if c["name"] != "lexer":
        return c["name"]
    return "lexer:" + "+".join(s["k"] for s in c["src"] if s["k"] != "text") + f":v{c['v']}"


def judge(module: str, cfg: str, records: list, chunk: int = 20000):
    """Hand observations to the observer machine of `module`; returns {index: violated clause}, tlc results."""
    if not records:
        raise MachineryError("no observations to judge (vacuous)")
    d = scratch_dir("c11obs")
    verdicts, results = {}, []
    try:
        jobs, spans = [], []
        for lo in range(0, len(records), chunk):
            path = os.path.join(d, f"obs{lo}.json")
            with open(path, "w") as f:
                json.dump(records[lo:lo + chunk], f)
            jobs.append((module, cfg, dict(workers=1, timeout=1500, env={"TRACE_FILE": path})))
            spans.append((lo, min(len(records), lo + chunk)))
        for (lo, hi), r in zip(spans, run_many(jobs, parallel=4)):
            if r.violated:
                raise MachineryError(f"{module} (judge) violated {r.violated}\n" + r.out[-2000:])
            acc = {int(m.group(1)) for m in re.finditer(r'^<<"ACCEPT", (\d+)>>', r.out, re.M)}
            rej = {int(m.group(1)): m.group(2) for m in re.finditer(r'^<<"REJECT", (\d+), "(\w+)">>', r.out, re.M)}
            if len(acc) + len(rej) != hi - lo:
                raise MachineryError(f"{module} judged {len(acc) + len(rej)} of {hi - lo} observations:\n" + r.out[-2000:])
            for i, clause in rej.items():
                verdicts[lo + i - 1] = clause
            results.append(r)
    finally:
        shutil.rmtree(d, ignore_errors=True)
    return verdicts, results


def _in_child(fn, item):
    """fn(item) in a child forked from this process, which itself never touches the library's memo tables."""
    import pickle
    r, w = os.pipe()
    pid = os.fork()
    if pid == 0:
        code = 0
        try:
            os.close(r)
            try:
                data = pickle.dumps(("ok", fn(item)))
            except BaseException as e:  # noqa: BLE001
                data = pickle.dumps(("exc", repr(e)))
            with os.fdopen(w, "wb") as f:
                f.write(data)
        except BaseException:  # noqa: BLE001
            code = 1
        finally:
            os._exit(code)
    os.close(w)
    with os.fdopen(r, "rb") as f:
        data = f.read()
    os.waitpid(pid, 0)
    if not data:
        raise MachineryError("a replay child died without a result")
    tag, val = pickle.loads(data)
    if tag != "ok":
        raise MachineryError("replay child failed: " + val)
    return val


def _fresh_chunk(job):
    fn, items = job
    return [_in_child(fn, it) for it in items]


def _pool():
    """16 forked workers; created before any thread exists and before this process has touched the library's tables."""
    return mp.get_context("fork").Pool(min(16, os.cpu_count() or 4))


def _fresh_map(pool, fn, items, per_worker: int = 8):
    """Every item runs in its own newly forked process (forked from a worker that so far has only forked)."""
    items = list(items)
    if not items:
        return []
    size = max(1, min(per_worker, (len(items) + 63) // 64))
    chunks = [(fn, items[i:i + size]) for i in range(0, len(items), size)]
    return [x for part in pool.map(_fresh_chunk, chunks, chunksize=1) for x in part]


TXT = dict(T0="TextsA", T1="TextsC", T2="TextsC", Bodies="BodiesA")
DELIM_RUNS = {
    # programs, delimiter sets, seeds of the sampled sets, Lexer.tla text alphabets
    "quick": [dict(Progs="short", DSets="few", Lo=1, Hi=0, T0="TextsOne", T1="TextsC", T2="TextsC", Bodies="BodiesA"),
              dict(Progs="kitchen", DSets="sweep2", Lo=1, Hi=0, **TXT),
              dict(Progs="kitchen", DSets="sampled", Lo=1, Hi=400, **TXT),
              dict(Progs="tags", DSets="named", Lo=1, Hi=0, **TXT),
              dict(Progs="tags", DSets="sampled", Lo=401, Hi=480, **TXT)],
    "thorough": [dict(Progs="wide_v1", DSets="named", Lo=1, Hi=0, T0="TextsA", T1="TextsB", T2="TextsOne", Bodies="BodiesB"),
                 dict(Progs="wide_v2", DSets="named", Lo=1, Hi=0, T0="TextsA", T1="TextsB", T2="TextsOne", Bodies="BodiesB"),
                 dict(Progs="wide_v3", DSets="named", Lo=1, Hi=0, T0="TextsA", T1="TextsB", T2="TextsOne", Bodies="BodiesB"),
                 dict(Progs="wide_v4", DSets="named", Lo=1, Hi=0, T0="TextsA", T1="TextsB", T2="TextsOne", Bodies="BodiesB"),
                 dict(Progs="sets", DSets="sweep6", Lo=1, Hi=0, **TXT),
                 dict(Progs="sets", DSets="sampled", Lo=1, Hi=3000, **TXT),
                 dict(Progs="tags", DSets="named", Lo=1, Hi=0, **TXT),
                 dict(Progs="tags", DSets="sampled", Lo=3001, Hi=3600, **TXT)],
}
_INITS = re.compile(r"Finished computing initial states: (\d+) distinct")


def delims_jobs(tier: str) -> list:
    jobs = []
    for n, kw in enumerate(DELIM_RUNS[tier]):
        jobs.append(("Delims", gen_cfg("cfg/Delims.tmpl", dict(kw, Dev="FALSE", Emit="INVARIANT Emit"), f"d{n}"),
                     dict(workers=4 if tier == "quick" else 8, timeout=3000)))
    jobs.append(("Delims", gen_cfg("cfg/Delims.tmpl", dict(Progs="dev", DSets="dot", Lo=1, Hi=0, Dev="TRUE", Emit="", **TXT), "ddev"),
                 dict(workers=1, timeout=600, expect_violation=True)))
    return jobs


def delims_cases(ck: Check, tier: str, results: list, rnd: random.Random):
    cases = []
    for kw, r in zip(DELIM_RUNS[tier], results):
        what = f"{kw['Progs']} x {kw['DSets']}" + (f" {kw['Lo']}-{kw['Hi']}" if kw["Hi"] else "")
        ck.tlc("Delims " + what, r)
        if r.violated:
            ck.fail(f"Delims.tla {r.violated} violated ({what})", {"tlc": r.out[-3000:]})
            return None
        if not r.emitted:
            raise MachineryError(f"Delims.tla emitted nothing for {what} (vacuous)")
        cases += r.emitted
        m = _INITS.search(r.out)
        ck.cov["pairs_enumerated"] = ck.cov.get("pairs_enumerated", 0) + (int(m.group(1)) if m else 0)
    ck.cov["pairs_admissible"] = len(cases)
    cases.sort(key=lambda c: json.dumps(c, sort_keys=True))          # several TLC workers print in no particular order
    if results[-1].violated != "ScanRecovers":
        raise MachineryError("deviation Unescaped does not violate ScanRecovers: vacuous")
    ck.cov["deviation_demo_delims"] = "Unescaped=TRUE violates ScanRecovers"
    alts = set()
    for c in cases:
        alts.update(c["alts"])
    missing = {"raw", "doc", "comment", "output", "tag", "content"} - alts
    if missing:
        raise MachineryError("scanner alternatives never taken: " + ", ".join(sorted(missing)))
    cap = 9000 if tier == "quick" else 160000
    if len(cases) > cap:
        cases = rnd.sample(cases, cap)
    return cases


def delims_records(ck: Check, cases: list, obs: list):
    groups: dict = {}
    for c, o in zip(cases, obs):
        groups.setdefault(_prog_key(c), []).append((c, o))
        ck.case((_prog_key(c), json.dumps(c["d"], sort_keys=True)), nontrivial=_strings(c["d"])["ts"] != "{%")
        ck.validated()
    keys = sorted(groups)
    records = []
    for k in keys:
        c0 = groups[k][0][0]
        exp = {"k": "err", "v": ""} if c0["err"] else {"k": "ok", "v": "".join(c0["exp"])}
        records.append({"exp": exp, "runs": [o for _, o in groups[k]]})
    ck.cov["delimiter_sets"] = len({json.dumps(c["d"], sort_keys=True) for c in cases})
    ck.cov["programs"] = len(keys)
    return [groups[k] for k in keys], records


def delims_report(ck: Check, groups: list, records: list, verdicts: dict, cases: list, obs: list) -> None:
    for i, clause in sorted(verdicts.items()):
        members = groups[i]
        exp = records[i]["exp"]
        bad = [(c, o) for c, o in members if o["sync"] != exp or o["async"] != exp] if exp["k"] == "ok" else \
              [(c, o) for c, o in members if o["sync"]["k"] != "err" or o["sync"] != o["async"]]
        good = [(c, o) for c, o in members if (c, o) not in bad]
        c0 = members[0][0]
        show = lambda c, o: {"delimiters": _strings(c["d"]), "source": "".join(c["source"]), "sync": o["sync"], "async": o["async"]}
        ck.fail(f"DelimiterIndependence: {clause}",
                {"program": _kinds(c0), "tokens": c0["toks"] or c0["src"], "required": exp,
                 "disagreeing": [show(c, o) for c, o in bad[:4]], "agreeing": [show(c, o) for c, o in good[:2]],
                 "sets_tried": len(members)},
                sig=f"delims:{clause}:{_kinds(c0)}")
    step = max(1, len(cases) // 3)
    for c, o in list(zip(cases, obs))[::step][:3]:
        ck.sample({"program": _kinds(c), "delimiters": _strings(c["d"]), "source": "".join(c["source"]),
                   "required": "".join(c["exp"]), "observed": o["sync"]})


# --------------------------------------------------------------------------------------------------------------
# part 2: histories

def _make_env(cfg: dict, ds: dict):
    try:
        return _make_env_(cfg, ds)
    except Exception as e:  # noqa: BLE001 - an environment that cannot be created fails every parse
        return ("broken", type(e).__name__)


def _make_env_(cfg: dict, ds: dict):
    from liquid import Mode
    mode = {"strict": Mode.STRICT, "warn": Mode.WARN, "lax": Mode.LAX}[cfg["mode"]]
    if cfg["impl"]:
        return ("implicit", dict(tolerance=mode, **_kwargs(ds)))
    cl = _classes()
    env = cl["env"](tolerance=mode, **_kwargs(ds))
    if cfg["stamp"]:
        env.add_tag(cl["stamp"])
    if cfg["shout"]:
        env.add_filter("shout", cl["shout"])
    if not cfg["upcase"]:
        del env.filters["upcase"]
    return env


def _parse(env, src):
    import warnings
    with warnings.catch_warnings():
        warnings.simplefilter("ignore")
        try:
            if isinstance(env, tuple) and env[0] == "broken":
                return None, {"k": "err", "v": [env[1]]}
            if isinstance(env, tuple):
                import liquid
                return liquid.Template(src, **env[1]), {"k": "ok", "v": []}
            return env.from_string(src), {"k": "ok", "v": []}
        except Exception as e:  # noqa: BLE001
            return None, {"k": "err", "v": [type(e).__name__]}


def _render(tpl, how):
    import warnings
    if tpl is None:
        return {"k": "err", "v": ["NothingParsed"]}
    with warnings.catch_warnings():
        warnings.simplefilter("ignore")
        try:
            text = tpl.render() if how == "sync" else asyncio.run(tpl.render_async())
            return {"k": "out", "v": list(text)}
        except Exception as e:  # noqa: BLE001
            return {"k": "err", "v": [type(e).__name__]}


def replay_history(job):
    """The whole history in this (fresh) process. Environments are created up front or just before their first use."""
    h, lazy = job
    dss = [_strings(d) for d in h["delims"]]
    srcs = ["".join(s) for s in h["srcs"]]
    envs = [None] * len(h["cfgs"])
    if not lazy:
        envs = [_make_env(c, ds) for c, ds in zip(h["cfgs"], dss)]
    parsed, got = [], []
    for n, op in enumerate(h["hist"]):
        if op["op"] == "parse":
            e = op["e"] - 1
            if envs[e] is None:
                envs[e] = _make_env(h["cfgs"][e], dss[e])
            tpl, o = _parse(envs[e], srcs[op["t"] - 1])
            parsed.append(tpl)
            got.append(o)
        else:
            got.append(_render(parsed[op["k"] - 1], "sync" if n % 2 == 0 else "async"))
    return got


def replay_session(jobs):
    """Several histories one after the other in this (fresh) process: one long interleaving."""
    return [replay_history(j) for j in jobs]


def replay_alone(key):
    """One template in one environment in a process that has done nothing else: parse, then render (sync, then async)."""
    src, cfg, ds = json.loads(key)
    tpl, o = _parse(_make_env(cfg, ds), src)
    return {"parse": o, "sync": _render(tpl, "sync"), "async": _render(tpl, "async")}


def _alone_key(h, op) -> str:
    e = op["e"] - 1
    return json.dumps(["".join(h["srcs"][op["t"] - 1]), h["cfgs"][e], _strings(h["delims"][e])], sort_keys=True)


def _alone_of(alone, h, n, op):
    return alone[_alone_key(h, op)]["parse" if op["op"] == "parse" else ("sync" if n % 2 == 0 else "async")]


HIST_RUNS = {
    "quick": [dict(MaxOps=4, NEnvs=2, Vars=ALLVARS, Vars3="{}", Bases="{1, 2, 3, 4}", Wide="FALSE")],
    "thorough": [dict(MaxOps=5, NEnvs=2, Vars=ALLVARS, Vars3="{}", Bases="{1, 2, 3, 4}", Wide="TRUE"),
                 dict(MaxOps=4, NEnvs=3, Vars='{"role1", "role5", "custom", "stamp", "lax", "impl"}',
                      Vars3='{"custom", "stamp", "same"}', Bases="{1, 2, 4}", Wide="FALSE")],
}
HIST_DEVS = {"quick": ["KeyOmits1", "KeyOmits5", "ParserPerClass"],
             "thorough": ["KeyOmits1", "KeyOmits2", "KeyOmits3", "KeyOmits4", "KeyOmits5", "KeyOmits6", "ParserPerClass", "ParserByHash"]}


def history_jobs(tier: str) -> list:
    jobs = []
    for n, kw in enumerate(HIST_RUNS[tier]):
        jobs.append(("EnvHistory", gen_cfg("cfg/EnvHistory.tmpl", dict(kw, Dev="none", Emit="INVARIANT Emit"), f"h{n}"),
                     dict(workers=4 if tier == "quick" else 8, timeout=3000)))
    for dv in HIST_DEVS[tier]:
        jobs.append(("EnvHistory", gen_cfg("cfg/EnvHistory.tmpl", dict(MaxOps=3, NEnvs=2, Vars=ALLVARS, Vars3="{}", Bases="{1, 2}",
                                                                   Wide="FALSE", Dev=dv, Emit=""), "hdev" + dv),
                     dict(workers=1, timeout=600, expect_violation=True)))
    return jobs


def history_cases(ck: Check, tier: str, results: list, rnd: random.Random):
    hists = []
    n = len(HIST_RUNS[tier])
    for i, r in enumerate(results[:n]):
        ck.tlc(f"EnvHistory #{i}", r)
        if r.violated:
            ck.fail(f"EnvHistory.tla {r.violated} violated", {"tlc": r.out[-3000:]})
            return None
        if not r.emitted:
            raise MachineryError("EnvHistory.tla emitted no history (vacuous)")
        hists += r.emitted
    hists.sort(key=lambda h: json.dumps(h, sort_keys=True))
    for dv, r in zip(HIST_DEVS[tier], results[n:]):
        if r.violated != "HistoryIndependent":
            raise MachineryError(f"deviation {dv} does not violate HistoryIndependent ({r.violated!r}): vacuous")
    ck.cov["deviation_demo_history"] = ", ".join(HIST_DEVS[tier]) + " each violate HistoryIndependent"
    cap = 3000 if tier == "quick" else 40000
    if len(hists) > cap:
        hists = rnd.sample(hists, cap)
    return hists




def history_replay(ck: Check, hists: list, pool, singles: int, SESSION: int):
    """Returns one record per replayed history: the first `singles` histories each in a process of their own, then every
    history again as part of a session of SESSION histories in one process."""
    keys = sorted({_alone_key(h, op) for h in hists for op in h["hist"]})
    alone = dict(zip(keys, _fresh_map(pool, replay_alone, keys)))
    ck.cov["alone_operations"] = len(keys)
    jobs = [(h, i % 2 == 1) for i, h in enumerate(hists)]
    got = _fresh_map(pool, replay_history, jobs[:singles])
    sessions = [jobs[i:i + SESSION] for i in range(0, len(jobs), SESSION)]
    got += [g for part in _fresh_map(pool, replay_session, sessions, per_worker=1) for g in part]
    ck.cov["histories_alone_in_a_process"] = min(singles, len(jobs))
    ck.cov["sessions"] = len(sessions)
    order = list(range(min(singles, len(jobs)))) + list(range(len(jobs)))
    records = []
    for i, g in zip(order, got):
        h = hists[i]
        records.append({"ops": [{"inhist": o, "alone": _alone_of(alone, h, n, op), "spec": op["alone"]}
                                for n, (op, o) in enumerate(zip(h["hist"], g))]})
        ck.case(json.dumps([h["cfgs"], h["feat"], [(o["op"], o["t"], o["e"], o["k"]) for o in h["hist"]]]),
                nontrivial=h["cfgs"][0] != h["cfgs"][1])
        ck.validated()
    return order, records


def history_report(ck: Check, hists: list, order: list, records: list, verdicts: dict, singles: int, SESSION: int) -> None:
    for j, clause in sorted(verdicts.items()):
        i = order[j]
        h, lazy = hists[i], i % 2 == 1
        ops = []
        for op, rec in zip(h["hist"], records[j]["ops"]):
            ops.append({"op": op["op"], "template": op["t"], "environment": op["e"], "of_parse": op["k"],
                        **{k: (v["k"], "".join(v["v"])) for k, v in rec.items()}})
        where = "a process of its own" if j < singles else f"session {i // SESSION} (histories {i // SESSION * SESSION}..{i} ran before it in the same process)"
        ck.fail(f"HistoryIndependent: {clause}",
                {"environments": [dict(c, delimiters=_strings(d)) for c, d in zip(h["cfgs"], h["delims"])],
                 "templates": ["".join(s) for s in h["srcs"]], "operations": ops,
                 "environments_created": "before first use" if lazy else "up front", "replayed_in": where},
                sig=f"history:{clause}:{_diff(h['cfgs'])}:{h['feat']}")
    for h, rec in list(zip(hists, records))[:: max(1, len(hists) // 2)][:2]:
        ck.sample({"environments": h["cfgs"], "templates": ["".join(s) for s in h["srcs"]],
                   "operations": [(o["op"], o["t"], o["e"], o["k"]) for o in h["hist"]],
                   "results": [(x["inhist"]["k"], "".join(x["inhist"]["v"])) for x in rec["ops"]]})


def _diff(cfgs) -> str:
    a, b = cfgs[0], cfgs[1]
    return "+".join(k for k in sorted(a) if a[k] != b[k]) or "same"


# --------------------------------------------------------------------------------------------------------------

def run(tier: str) -> int:
    fresh_repo_imports()
    ck = Check(PID, tier)
    rnd = random.Random(seed())
    ck.cov["rule"] = (
        "Delims.tla: programs of the Lexer.tla family (one or two markup constructs of every kind, hyphen patterns, whitespace shapes, "
        "four text/raw-body variants incl. default-looking markup and regex metacharacters) and nine tag programs (if/else, for, "
        "assign+capture, raw+comment+doc+inline comment, liquid with # lines, liquid with marker lines + shorthand comment, hyphens, raw with "
        "foreign markup, unclosed output) x delimiter sets (default, default+comments, 8 named sets, a sweep putting each of 30 alphabet "
        "characters into each of the 6 roles in 2 (thorough 6) shapes, seeded samples of strings of length 1-4); admissible pairs only; "
        "source text = Rewrite(tokens, set) and required output from the specification. "
        "EnvHistory.tla: every history of 4 (thorough 5) parse/render operations on 2 (thorough also 3) environments that differ from a "
        "base in one delimiter / comment syntax / all delimiters / extra tag / extra filter / missing filter / tolerance / implicit / nothing; "
        "each operation's result through the modelled memo tables = the operation alone")
    phase = ck.cov.setdefault("phase_s", {})
    singles, session = (12, 300) if tier == "quick" else (200, 500)
    pool = _pool()
    try:
        t0 = time.time()
        try:
            dj, hj = delims_jobs(tier), history_jobs(tier)
            results = run_many(dj + hj, parallel=12)
        finally:
            cleanup_gen()
        phase["tlc_generate"] = round(time.time() - t0, 1)
        cases = delims_cases(ck, tier, results[:len(dj)], rnd)
        hists = history_cases(ck, tier, results[len(dj):], rnd)
        if cases is None or hists is None:
            return ck.finish()
        t0 = time.time()
        order, hrecords = history_replay(ck, hists, pool, singles, session)          # first: the workers have only forked so far
        phase["replay_history"] = round(time.time() - t0, 1)
        t0 = time.time()
        obs = pool.map(replay_delims, cases, chunksize=64)
        phase["replay_delims"] = round(time.time() - t0, 1)
    finally:
        pool.terminate()
    groups, drecords = delims_records(ck, cases, obs)
    t0 = time.time()
    from concurrent.futures import ThreadPoolExecutor
    with ThreadPoolExecutor(2) as ex:
        f1 = ex.submit(judge, "Delims", "cfg/Delims_judge.cfg", drecords)
        f2 = ex.submit(judge, "EnvHistory", "cfg/EnvHistory_judge.cfg", hrecords)
        (dverdicts, djr), (hverdicts, hjr) = f1.result(), f2.result()
    phase["tlc_judge"] = round(time.time() - t0, 1)
    for n, r in enumerate(djr):
        ck.tlc(f"Delims judge #{n}", r)
    for n, r in enumerate(hjr):
        ck.tlc(f"EnvHistory judge #{n}", r)
    delims_report(ck, groups, drecords, dverdicts, cases, obs)
    history_report(ck, hists, order, hrecords, hverdicts, singles, session)
    ck.assumptions += [
        "a delimiter set is tested only when Admissible (DelimDefs.tla): six strings of length 1-4 without whitespace, not beginning or ending "
        "with '-', none contained in another, and no place of the rewritten source where one of them can be read other than where it is meant",
        "comment lines inside a liquid tag use comment_start_string without '{' (as the liquid tag documents); such lines are only generated "
        "when that marker is non-empty and does not occur in the other lines",
        "an output statement that is never closed must fail with an error under every delimiter set (same error class); nothing else about "
        "malformed templates is claimed",
        "histories: a template is only parsed by an environment whose delimiters equal the ones it was written for or none of whose "
        "delimiters occurs in it (then it is plain text); operations alone are run in freshly forked processes, memo tables are never cleared",
    ]
    return ck.finish()


def replay(path):
    fresh_repo_imports()
    d = json.load(open(path))["detail"]
    if "disagreeing" in d:
        for x in d["disagreeing"] + d["agreeing"]:
            print(x["delimiters"], repr(x["source"]), "->", _outcome(lambda: _env_for(x["delimiters"]).from_string(x["source"]).render()),
                  "required", d["required"])
    else:
        print(json.dumps(d, indent=1))
    return 0
