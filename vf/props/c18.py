"""C18 — template inheritance resolves blocks to the most-derived definition (spec/Inherit.tla).

The specification builds every chain of the bounded family token by token, runs the mechanism of
liquid/extra/tags/extends_tag.py (block stacks, parent links, seen set, stack[0], BlockDrop.parent) as actions,
relates it to the requirement (operators Req*) by invariants and prints, for every finished chain, the chain and the
required result: the sequence of text markers of the leaf's output, or the admissible error classes.
Here the chains are only turned into Liquid sources (several concrete spellings per chain), rendered sync and async
through the real engine, and the observed marker sequence / error class is compared with what the spec printed.
"""
from __future__ import annotations

import asyncio
import gc
import json
import random
import re
import signal
import time

from ..core import Check, fresh_repo_imports, seed
from ..tlcrun import run_tlc, run_many
from .. import harness, par

PID = "C18"
ALARM = 10           # CPU seconds per render of a chain of <= 4 tiny templates
MARK = re.compile(r"\((\d+)\.(\d+)\)")

NAMES = [{"a": "a", "b": "b", "c": "c"},
         {"a": "content", "b": "side_bar", "c": "footer2"},
         {"a": "b", "b": "c", "c": "a"},
         {"a": "x-1", "b": "a", "c": "block"}]
TNAMES = [lambda i: f"t{i}", lambda i: f"layouts/level {i}.html", lambda i: "abcd"[i - 1]]
# transparent wrappers (body rendered once) and two-item loops; @ is a variable name unique to the wrapper's position
ONCE = [("{% if true %}", "{% endif %}"), ("{% unless false %}", "{% endunless %}"),
        ("{% case 1 %}{% when 1 %}", "{% endcase %}"), ("{% with @: 1 %}", "{% endwith %}"),
        ("{% capture @ %}", "{% endcapture %}{{ @ }}"), ("{% if false %}{% else %}", "{% endif %}"),
        ("{% for @ in nothing %}{% else %}", "{% endfor %}"), ("{% if @ == nil and true %}", "{% endif %}")]
TWICE = [("{% for @ in (1..2) %}", "{% endfor %}"), ("{% for @ in pair %}", "{% endfor %}"),
         ("{% for @ in pair reversed %}", "{% endfor %}"), ("{% for @ in (1..5) limit: 2 %}", "{% endfor %}")]


def concretize(case, variant):
    """abstract chain -> ({template name: source}, leaf name, render data). No semantics here: one spelling per token."""
    tpls, ext = case["tpls"], case["ext"]
    nm = NAMES[variant % len(NAMES)]
    tn = TNAMES[(variant // 2) % len(TNAMES)]
    data = {"pair": ["p", "q"]}
    out = {}
    blank = variant % 4 == 3       # every fourth spelling: the ROOT template's blocks are placeholders (no text inside them); what the
    blanked = set()                # chain must print is the required marker sequence without those markers
    for i, toks in enumerate(tpls, start=1):
        parent = i + 1 if i < len(tpls) else ext
        depth_at, d = {}, 0
        for p, tok in enumerate(toks, start=1):
            if tok["k"] == "Bc":
                d -= 1
            depth_at[p] = d
            if tok["k"] == "Bo":
                d += 1
        q = "'" if (variant + i) % 2 else '"'
        src = [f"{{% extends {q}{tn(parent)}{q} %}}"] if parent else []
        for p, tok in enumerate(toks, start=1):
            k = tok["k"]
            mark = f"({i}.{p})"
            form = (variant + i + p) % 3
            if k == "T":
                if blank and i == len(tpls) and depth_at[p] >= 1:
                    blanked.add(i * 100 + p)        # a placeholder: the root's block bodies hold no text of their own
                    continue
                src.append(mark if form else "{{ '" + mark + "' }}")
            elif k == "V":
                data[f"v{i}_{p}"] = mark
                src.append(f"{{{{ v{i}_{p} }}}}" if form else f"{{% echo v{i}_{p} %}}")
            elif k == "S":
                src.append(["{{ block.super }}", "{{ block['super'] }}", "{% echo block.super %}"][form])
            elif k == "Bo":
                src.append(f"{{% block {nm[tok['n']]}{' required' if tok['r'] else ''} %}}")
            elif k == "Bc":
                src.append(f"{{% endblock {nm[tok['n']]} %}}" if tok["n"] else "{% endblock %}")
            elif k == "Fo":
                src.append(TWICE[(variant + p) % len(TWICE)][0].replace("@", f"z{i}_{p}"))
            elif k == "Io":
                src.append(ONCE[(variant + p) % len(ONCE)][0].replace("@", f"z{i}_{p}"))
            elif k in ("Fc", "Ic"):
                # the opener's spelling was chosen from its own position
                depth, j = 0, p - 1
                while True:
                    kk = toks[j - 1]["k"]
                    if kk in ("Bc", "Fc", "Ic"):
                        depth += 1
                    elif kk in ("Bo", "Fo", "Io"):
                        if depth == 0:
                            break
                        depth -= 1
                    j -= 1
                table = TWICE if k == "Fc" else ONCE
                src.append(table[(variant + j) % len(table)][1].replace("@", f"z{i}_{j}"))
        out[tn(i)] = "".join(src)
    concretize.blanked = blanked
    return out, tn(1), data


class _Hang(BaseException):     # BaseException: the library's `except Exception` handlers must not swallow the alarm
    pass


_hangs = 0
_loop = None


def guarded(fn, budget):
    """fn() under a CPU-time alarm (ITIMER_VIRTUAL, re-checked against process_time: under heavy machine load the
    timer was seen to fire early). A walk up the chain that never ends becomes a verdict instead of a stuck check."""
    st = {"armed": True, "t0": time.process_time()}

    def on_alarm(signum, frame):
        if st["armed"] and time.process_time() - st["t0"] >= budget:
            raise _Hang()
    signal.signal(signal.SIGVTALRM, on_alarm)
    signal.setitimer(signal.ITIMER_VIRTUAL, budget, 0.5)     # repeating: a firing swallowed inside a GC callback is followed by another
    try:
        try:
            return fn()
        finally:
            st["armed"] = False
    except _Hang:
        return {"err": "HANG", "liquid": False}
    finally:
        st["armed"] = False
        signal.setitimer(signal.ITIMER_VIRTUAL, 0)


def observe(env, leaf, data, how, direct_source=None):
    """What a caller sees: the marker sequence of the output, or the error class (or HANG)."""
    global _hangs, _loop
    if _hangs >= 3:                    # this worker has established the violation; do not spend minutes on every further case
        return {"err": "SKIPPED", "liquid": True}
    o = guarded(lambda: _observe(env, leaf, data, how, direct_source), ALARM)
    if o.get("err") == "HANG":         # confirm alone with a generous budget
        _loop = None
        o = guarded(lambda: _observe(env, leaf, data, how, direct_source), 3 * ALARM)
        if o.get("err") == "HANG":
            _loop = None
            _hangs += 1
    return o


def _run_async(coro):
    global _loop
    if _loop is None or _loop.is_closed():
        _loop = asyncio.new_event_loop()
    return _loop.run_until_complete(coro)


def _observe(env, leaf, data, how, direct_source=None):
    try:
        t = env.from_string(direct_source, name=leaf) if direct_source is not None else env.get_template(leaf)
    except Exception as e:
        o = harness.classify(e)
        o["phase"] = "load"
        return o
    try:
        o = {"out": t.render(**data) if how == "sync" else _run_async(t.render_async(**data))}
    except Exception as e:
        o = harness.classify(e)
    if "out" in o:
        ms = MARK.findall(o["out"])
        o["seq"] = [int(a) * 100 + int(b) for a, b in ms]
        o["clean"] = "".join(f"({a}.{b})" for a, b in ms) == o["out"]
    return o


def judge(exp, o):
    """None if the observation is one the specification admits, else a short reason."""
    if o.get("err") == "SKIPPED":      # this worker already reported hangs; the violation is established
        return None
    if o.get("err") == "HANG":
        return "render did not return within %d s of CPU time" % ALARM
    if exp["kind"] == "open":          # ill-founded chain (a definition reaches itself): only termination is claimed
        return None
    if "out" in o:
        if exp["kind"] == "err":
            return "rendered although the chain must be rejected with " + "/".join(sorted(exp["classes"]))
        if not o["clean"]:
            return "output contains text that is not a marker"
        if o["seq"] != exp["seq"]:
            return "marker sequence differs from the required one"
        return None
    if o["err"] in exp["classes"]:
        return None
    if exp["kind"] == "err":
        return f"raised {o['err']} instead of " + "/".join(sorted(exp["classes"]))
    return f"raised {o['err']} although the chain renders"


def replay_one(job):
    case, variant = job
    tmpl, leaf, data = concretize(case, variant)
    exp = case["exp"]
    if concretize.blanked and "seq" in exp:
        exp = dict(exp, seq=[m for m in exp["seq"] if m not in concretize.blanked])
    env = harness.make_env(templates=tmpl)
    res = []
    for how in ("sync", "async"):
        o = observe(env, leaf, data, how, direct_source=tmpl[leaf] if variant % 5 == 4 else None)
        why = judge(exp, o)
        res.append((how, why, {k: v for k, v in o.items() if k in ("out", "seq", "err", "phase", "msg", "detail")}))
    return tmpl, leaf, data, res


def features(case):
    ks = [t["k"] for tp in case["tpls"] for t in tp]
    f = []
    if case["ext"]:
        f.append("cycle")
    if any(t["r"] for tp in case["tpls"] for t in tp):
        f.append("req")
    if "S" in ks:
        f.append("super")
    if "Fo" in ks:
        f.append("for")
    if "Io" in ks:
        f.append("wrap")
    nested = False
    for tp in case["tpls"]:
        d = 0
        for t in tp:
            if t["k"] == "Bo":
                d += 1
                nested |= d > 1
            elif t["k"] == "Bc":
                d -= 1
    if nested:
        f.append("nested")
    return f


def _sig(case, why):
    return f"len={len(case['tpls'])}:{case['exp']['kind']}:{'+'.join(features(case)) or 'plain'}:{why[:60]}"


INVARIANTS = ["MostDerived", "SuperIsNextUp", "NestedBlocksResolvedAgain", "NothingAfterExtendsOutsideBlocks",
              "RequiredUnlessOverridden", "CircularDetected", "DuplicateRejected", "EndblockMismatchRejected",
              "MechanismMeetsRequirement", "DepthLimitOnlyWhenIllFounded", "StacksFollowChain", "WalkBounded", "DirectOnlyWithoutExtends",
              "RequiredIsOwnFlag", "ChkIsStructural"]
ACTIONS = ["AddBlock", "AddSuper", "AddExtra", "OpenWrap", "Close", "CloseMismatch", "NextTemplate", "Finish",
           "EndblockMismatchLeaf", "LoadLeaf", "Duplicate", "StackTemplate", "ReachBase", "Circular", "EndblockMismatch",
           "FollowExtends", "RenderText", "DuplicateDirect", "RequiredError", "RenderBlock", "Super", "EnterWrap", "EndFrame",
           "FinishRender", "DepthLimit"]


def run(tier: str) -> int:
    fresh_repo_imports()
    ck = Check(PID, tier)
    rnd = random.Random(seed())
    q = tier == "quick"
    ck.cov["rule"] = (
        "Inherit.tla builds every chain of 1..%d templates over %d block names with block nesting <= 2, <= 2 items per body, <= %d block "
        "definitions in the chain and at most %s; items: text, variable, block.super, block(name, required) with matching / unnamed / "
        "mismatched endblock, for-loop (2 items), transparent wrapper; child templates may define blocks the parent lacks, override "
        "partially, nest blocks, always carry text after extends; the last template is the root or extends a template of the chain "
        "(self and longer cycles). TLC runs the mechanism (StackTemplate/FollowExtends/RenderBlock/Super/...) on every chain under all "
        "invariants and emits chain + required marker sequence or admissible error classes; deeper chains by tlc -simulate. Every emitted "
        "chain is concretised (block/template names, quoting, literal vs variable vs echo text, for/if/unless/case/with/capture "
        "spellings, get_template vs from_string leaf) and rendered sync+async with Environment(extra=True)"
        % ((3, 2, 3, "one of {extra item, required flag, anomaly}") if q else (4, 3, 4, "two of {extra item, required flag, anomaly}")))
    main_cfg = f"cfg/Inherit_{tier}.cfg"
    jobs = [("Inherit", main_cfg, dict(workers=8 if q else 14, timeout=2400)),
            ("Inherit", "cfg/Inherit_live.cfg", dict(workers=2, timeout=900)),
            ("Inherit", "cfg/Inherit_illfounded.cfg", dict(workers=2, timeout=900)),
            ("Inherit", "cfg/Inherit_deviation.cfg", dict(workers=1, timeout=900, expect_violation=True)),
            ("Inherit", "cfg/Inherit_deep.cfg", dict(workers=1, timeout=1800, simulate="num=%d" % (300 if q else 8000), depth=400,
                                                     seed=seed() or 18)),
            ("Inherit", "cfg/Inherit_deeperr.cfg", dict(workers=1, timeout=1800, simulate="num=%d" % (300 if q else 8000), depth=400,
                                                        seed=seed() or 18))]
    rmain, rlive, rill, rdev, rdeep, rdeep2 = run_many(jobs, parallel=6)
    ck.tlc("Inherit_" + tier, rmain)
    ck.tlc("Inherit_live (Terminates under WF)", rlive)
    ck.tlc("Inherit_illfounded (chains whose rendering reaches a definition from itself; Terminates under WF)", rill)
    ck.tlc("Inherit_deep (simulate, well-formed chains up to 8 blocks, nesting 3)", rdeep)
    ck.tlc("Inherit_deeperr (simulate, with required flags and one anomaly)", rdeep2)
    rdeep.emitted += rdeep2.emitted
    if rdeep2.violated:
        rdeep.violated = rdeep2.violated
        rdeep.out = rdeep2.out
    for nm, r in (("exhaustive", rmain), ("liveness", rlive), ("ill-founded", rill), ("simulate", rdeep)):
        if r.violated:
            ck.fail(f"Inherit.tla {r.violated} violated ({nm})", {"tlc": r.out[-3000:]})
    if ck.violations:
        return ck.finish()
    # the spec distinguishes the mechanism with and without the duplicate check on a directly rendered template
    ck.cov["deviation_NoDupCheckWhenDirect_refutes"] = rdev.violated
    if rdev.violated != "DuplicateRejected":
        ck.fail("Inherit_deviation.cfg: the NoDupCheckWhenDirect mechanism should violate DuplicateRejected, got %r" % rdev.violated,
                {"tlc": rdev.out[-2000:]})
    # vacuity: every action of the specification occurs in some emitted behaviour (the spec records the actions it took)
    taken = {a: 0 for a in ACTIONS}
    for c in rmain.emitted + rill.emitted + rdeep.emitted:
        for a in c.pop("acts"):
            taken[a] += 1
    never = [a for a, n in taken.items() if n == 0]
    ck.cov["chains_taking_action"] = taken
    if never:
        ck.fail("vacuous: actions of Inherit.tla never taken: " + ", ".join(never), {})

    def key(c):
        return json.dumps(c, sort_keys=True)
    cases = sorted({key(c): c for c in rmain.emitted + rill.emitted}.values(), key=key)
    deep = sorted({key(c): c for c in rdeep.emitted}.values(), key=key)
    ck.cov["chains_exhaustive"] = len(cases)
    ck.cov["chains_simulated_distinct"] = len(deep)
    cap = 40000 if q else 400000
    if len(cases) > cap:
        cases = rnd.sample(cases, cap)
    nv = 2
    work = [(c, (i * 5 + v * 7) % 60) for i, c in enumerate(cases) for v in range(nv)]
    work += [(c, (i * 3 + v * 11) % 60) for i, c in enumerate(deep) for v in range(2)]
    gc.collect()
    gc.freeze()        # the forked workers' collector must not walk (and so copy) the parent's heap of emitted cases
    try:
        res = par.pmap(replay_one, work, chunk=256)
    finally:
        gc.unfreeze()
    kinds = {}
    for (case, variant), (tmpl, leaf, data, rr) in zip(work, res):
        feats = features(case)
        ck.case((key(case), variant), nontrivial=len(case["tpls"]) > 1 or bool(feats))
        ck.validated()
        kk = case["exp"]["kind"] + ("" if case["exp"]["kind"] != "err" else ":" + "/".join(sorted(case["exp"]["classes"])))
        kinds[kk] = kinds.get(kk, 0) + 1
        for how, why, o in rr:
            if why:
                ck.fail(why, {"chain": case["tpls"], "extends_of_last": case["ext"], "variant": variant, "templates": tmpl, "leaf": leaf,
                              "data": data, "mode": how, "observed": o, "expected": case["exp"]}, sig=_sig(case, why))
                break
    ck.cov["expected_kinds"] = kinds
    picks = [c for c in cases if "nested" in features(c) and "super" in features(c) and c["exp"]["kind"] == "out"][:1] \
        + [c for c in cases if c["exp"]["kind"] == "err"][:1] + deep[-1:]
    for c in picks:
        t, leaf, d = concretize(c, 0)
        ck.sample({"templates": t, "leaf": leaf, "expected": c["exp"]})
    ck.assumptions += [
        "`block.super` in a definition with no definition above it is undefined and prints nothing under the default Undefined",
        "a required most-derived definition that rendering never reaches (defined only below the root, or nested in an overridden block): "
        "both the required output and RequiredBlockError are admitted (the statement can be read either way)",
        "a chain with a structural anomaly and a required block may report either error class (precedence is not fixed by the statement)",
        "ill-founded chains (a definition whose rendering reaches itself through block.super and nesting) have no required output: "
        "only that the render returns is checked",
        "variables are template-global render arguments; scoping of assigned/loop variables across block boundaries is not claimed",
        "endblock names alternate between absent and present by position; text after extends is present in every child template",
    ]
    return ck.finish()


def replay(path):
    fresh_repo_imports()
    d = json.load(open(path))["detail"]
    env = harness.make_env(templates=d["templates"])
    for how in ("sync", "async"):
        o = observe(env, d["leaf"], d["data"], how)
        print(how, {k: v for k, v in o.items() if k in ("out", "seq", "err")}, "expected:", d["expected"], "->", judge(d["expected"], o) or "admitted")
    return 0
